/-
Helper lemmas for C04F / C07F over the `Sched3Fut` model (future triggers, cached maximum future offset, stop
points set by command).

* generic lifting (`foldl_inv`, `run_inv`);
* basic facts about the pool primitives (`get?`, `put`, `insertBucket`, `Proxy.reset`);
* `Frame g Q J`: a proxy predicate `Q` and a state predicate `J` over the "core" of the state (pool keys, future
  offsets of the task definitions, cached maximum, runahead limit and its cache, stop point) that are closed under
  the elementary moves of the model; `Holds Q J s := (∀ x ∈ pool, Q x) ∧ J s` is then carried through every
  primitive by ONE pass (`holds_*`), shared by all invariants of C04F and C07F.
-/
import CylcModel.Sched3Fut

namespace CylcModel.Sched3Fut

/-! ### Generic lifting -/

theorem foldl_inv {α σ} (P : σ → Prop) (f : σ → α → σ) (h : ∀ s a, P s → P (f s a)) :
    ∀ (l : List α) (s : σ), P s → P (l.foldl f s) := by
  intro l; induction l with
  | nil => intro s hs; exact hs
  | cons a l ih => intro s hs; exact ih _ (h s a hs)

theorem foldl_inv_mem {α σ} (P : σ → Prop) (f : σ → α → σ) :
    ∀ (l : List α) (s : σ), (∀ s a, a ∈ l → P s → P (f s a)) → P s → P (l.foldl f s) := by
  intro l; induction l with
  | nil => intro s _ hs; exact hs
  | cons a l ih =>
    intro s h hs
    exact ih _ (fun s b hb => h s b (List.mem_cons_of_mem _ hb)) (h s a (List.mem_cons_self) hs)

/-- every state of a run satisfies `P` when the start-up state does and every step preserves it -/
theorem run_inv (P : State → Prop) (g : Graph) (h0 : P (init g)) (hs : ∀ s op, P s → P (step g s op)) :
    ∀ ops, ∀ s ∈ run g ops, P s := by
  intro ops
  unfold run
  have key : ∀ (ops : List Op) (acc : List State) (cur : State),
      (∀ s ∈ acc, P s) → P cur →
      ∀ s ∈ (ops.foldl (fun (a : List State × State) op =>
          let s' := step g a.2 op; (a.1 ++ [s'], s')) (acc, cur)).1, P s := by
    intro ops
    induction ops with
    | nil => intro acc cur hacc _ s hm; exact hacc s hm
    | cons op ops ih =>
      intro acc cur hacc hcur
      simp only [List.foldl_cons]
      apply ih
      · intro s hm
        rcases List.mem_append.mp hm with h | h
        · exact hacc s h
        · simp at h; subst h; exact hs _ _ hcur
      · exact hs _ _ hcur
  exact key ops [init g] (init g) (by intro s hm; simp at hm; subst hm; exact h0) h0

/-- the same for op lists restricted by a predicate on ops -/
theorem run_inv_ops (P : State → Prop) (ok : Op → Prop) (g : Graph) (h0 : P (init g))
    (hs : ∀ s op, ok op → P s → P (step g s op)) :
    ∀ ops, (∀ op ∈ ops, ok op) → ∀ s ∈ run g ops, P s := by
  intro ops
  unfold run
  have key : ∀ (ops : List Op) (acc : List State) (cur : State), (∀ op ∈ ops, ok op) →
      (∀ s ∈ acc, P s) → P cur →
      ∀ s ∈ (ops.foldl (fun (a : List State × State) op =>
          let s' := step g a.2 op; (a.1 ++ [s'], s')) (acc, cur)).1, P s := by
    intro ops
    induction ops with
    | nil => intro acc cur _ hacc _ s hm; exact hacc s hm
    | cons op ops ih =>
      intro acc cur hok hacc hcur
      simp only [List.foldl_cons]
      have hop := hok op List.mem_cons_self
      apply ih
      · intro o ho; exact hok o (List.mem_cons_of_mem _ ho)
      · intro s hm
        rcases List.mem_append.mp hm with h | h
        · exact hacc s h
        · simp at h; subst h; exact hs _ _ hop hcur
      · exact hs _ _ hop hcur
  intro hok
  exact key ops [init g] (init g) hok (by intro s hm; simp at hm; subst hm; exact h0) h0

/-- the last state of a run is the fold of `step` -/
theorem mem_run_last (g : Graph) (ops : List Op) : ops.foldl (step g) (init g) ∈ run g ops := by
  unfold run
  have key : ∀ (ops : List Op) (acc : List State) (cur : State), cur ∈ acc →
      ops.foldl (step g) cur ∈ (ops.foldl (fun (a : List State × State) op =>
          let s' := step g a.2 op; (a.1 ++ [s'], s')) (acc, cur)).1 := by
    intro ops
    induction ops with
    | nil => intro acc cur h; exact h
    | cons op ops ih =>
      intro acc cur _
      simp only [List.foldl_cons]
      apply ih
      simp
  exact key ops [init g] (init g) (by simp)

/-! ### Pool basics -/

def keys (s : State) : List (Int × String) := s.pool.map fun x => (x.pt, x.name)

theorem get?_mem {s : State} {p : Int} {n : String} {x : Proxy} (h : s.get? p n = some x) : x ∈ s.pool :=
  List.mem_of_find?_eq_some h

theorem get?_key {s : State} {p : Int} {n : String} {x : Proxy} (h : s.get? p n = some x) :
    x.pt = p ∧ x.name = n := by
  have := List.find?_some h
  simp only [Bool.and_eq_true, beq_iff_eq] at this
  exact this

theorem get?_none_not_mem {s : State} {p : Int} {n : String} (h : s.get? p n = none) : (p, n) ∉ keys s := by
  unfold State.get? at h
  unfold keys
  intro hm
  obtain ⟨y, hy, hk⟩ := List.mem_map.mp hm
  have := List.find?_eq_none.mp h y hy
  simp only [Prod.mk.injEq] at hk
  simp [hk.1, hk.2] at this

theorem keys_put (s : State) (x : Proxy) : keys (s.put x) = keys s := by
  unfold keys State.put
  simp only [List.map_map]
  apply List.map_congr_left
  intro y _
  simp only [Function.comp]
  split
  · rename_i h
    simp only [Bool.and_eq_true, beq_iff_eq] at h
    rw [h.1, h.2]
  · rfl

theorem mem_put {s : State} {x y : Proxy} (h : y ∈ (s.put x).pool) : y = x ∨ y ∈ s.pool := by
  unfold State.put at h
  simp only [List.mem_map] at h
  obtain ⟨z, hz, rfl⟩ := h
  split
  · exact Or.inl rfl
  · exact Or.inr hz

theorem mem_insertBucket (x y : Proxy) : ∀ l : List Proxy, y ∈ insertBucket x l ↔ y = x ∨ y ∈ l := by
  intro l
  induction l with
  | nil => simp [insertBucket]
  | cons z zs ih =>
    unfold insertBucket
    split
    · simp only [List.mem_cons, ih]
      constructor
      · rintro (h | h | h)
        · exact Or.inr (Or.inl h)
        · exact Or.inl h
        · exact Or.inr (Or.inr h)
      · rintro (h | h | h)
        · exact Or.inr (Or.inl h)
        · exact Or.inl h
        · exact Or.inr (Or.inr h)
    · split
      · simp only [List.mem_cons]
        constructor
        · rintro (h | h | h)
          · exact Or.inr (Or.inl h)
          · exact Or.inl h
          · exact Or.inr (Or.inr h)
        · rintro (h | h | h)
          · exact Or.inr (Or.inl h)
          · exact Or.inl h
          · exact Or.inr (Or.inr h)
      · simp only [List.mem_cons, ih]
        constructor
        · rintro (h | h | h)
          · exact Or.inr (Or.inl h)
          · exact Or.inl h
          · exact Or.inr (Or.inr h)
        · rintro (h | h | h)
          · exact Or.inr (Or.inl h)
          · exact Or.inl h
          · exact Or.inr (Or.inr h)

theorem reset_pt (x : Proxy) (a : Option Status) (b c d : Option Bool) : (x.reset a b c d).pt = x.pt := by
  unfold Proxy.reset; simp only; split <;> rfl

theorem reset_name (x : Proxy) (a : Option Status) (b c d : Option Bool) : (x.reset a b c d).name = x.name := by
  unfold Proxy.reset; simp only; split <;> rfl

theorem reset_pre (x : Proxy) (a : Option Status) (b c d : Option Bool) : (x.reset a b c d).pre = x.pre := by
  unfold Proxy.reset; simp only; split <;> rfl

theorem reset_runahead_of_none (x : Proxy) (a : Option Status) (b d : Option Bool) :
    (x.reset a b none d).runahead = x.runahead := by
  unfold Proxy.reset; simp only [Option.getD_none]; split <;> rfl

theorem satisfyMe_pt (x : Proxy) (a : Atom) : (x.satisfyMe a).pt = x.pt := rfl
theorem satisfyMe_name (x : Proxy) (a : Atom) : (x.satisfyMe a).name = x.name := rfl

theorem foldl_satisfyMe_pt (l : List Atom) : ∀ y : Proxy, (l.foldl (fun z a => z.satisfyMe a) y).pt = y.pt := by
  induction l with
  | nil => intro y; rfl
  | cons a l ih => intro y; simp only [List.foldl_cons]; rw [ih]; rfl

theorem foldl_satisfyMe_name (l : List Atom) : ∀ y : Proxy, (l.foldl (fun z a => z.satisfyMe a) y).name = y.name := by
  induction l with
  | nil => intro y; rfl
  | cons a l ih => intro y; simp only [List.foldl_cons]; rw [ih]; rfl

/-! ### The core of the state -/

/-- what the state part `J` of an invariant may depend on: the pool keys, the future offsets of the task
definitions, the cached maximum, the runahead limit with its cache, the stop point, the launches of the current op -/
structure Core where
  keys : List (Int × String)
  tdefOff : List (String × Int)
  maxFut : Option Int
  rhLimit : Option Int
  stopPoint : Option Int
  prevBase : Option Int
  prevSeqPts : List Int
  launched : List (Int × String × Nat)

def core (s : State) : Core :=
  { keys := keys s, tdefOff := s.tdefOff, maxFut := s.maxFut, rhLimit := s.rhLimit, stopPoint := s.stopPoint,
    prevBase := s.prevBase, prevSeqPts := s.prevSeqPts, launched := s.launched }

theorem core_put (s : State) (x : Proxy) : core (s.put x) = core s := by
  unfold core; rw [keys_put]; rfl

theorem core_of_pool_eq {s s' : State} (hp : s'.pool = s.pool) (h1 : s'.tdefOff = s.tdefOff)
    (h2 : s'.maxFut = s.maxFut) (h3 : s'.rhLimit = s.rhLimit) (h4 : s'.stopPoint = s.stopPoint)
    (h5 : s'.prevBase = s.prevBase) (h6 : s'.prevSeqPts = s.prevSeqPts) (h7 : s'.launched = s.launched) :
    core s' = core s := by
  unfold core keys; rw [hp, h1, h2, h3, h4, h5, h6, h7]

/-! ### Harmless proxy updates, fresh proxies, touched proxies -/

/-- the (point, task, output) keys of the prerequisite atoms -/
def atomKeys (x : Proxy) : List (List Atom) := x.pre.map fun pr => pr.atoms.map (·.1)

/-- `y` is an update of `x` that neither releases it from the runahead pool, nor queues it, nor makes it ready,
nor changes what it depends on -/
def Upd (x y : Proxy) : Prop :=
  y.pt = x.pt ∧ y.name = x.name ∧ (y.queued = true → x.queued = true) ∧ y.runahead = x.runahead ∧
  y.timers = x.timers ∧ (y.status = .waiting → x.status = .waiting ∨ x.timers = true) ∧ atomKeys y = atomKeys x

theorem Upd.refl (x : Proxy) : Upd x x := ⟨rfl, rfl, id, rfl, rfl, fun h => Or.inl h, rfl⟩

theorem Upd.trans {x y z : Proxy} (h1 : Upd x y) (h2 : Upd y z) : Upd x z := by
  obtain ⟨a1, n1, b1, c1, d1, e1, f1⟩ := h1
  obtain ⟨a2, n2, b2, c2, d2, e2, f2⟩ := h2
  refine ⟨a2.trans a1, n2.trans n1, fun h => b1 (b2 h), c2.trans c1, d2.trans d1, ?_, f2.trans f1⟩
  intro h
  rcases e2 h with h' | h'
  · exact e1 h'
  · exact Or.inr (d1 ▸ h')

theorem atomKeys_satisfyMe (x : Proxy) (a : Atom) : atomKeys (x.satisfyMe a) = atomKeys x := by
  unfold atomKeys Proxy.satisfyMe Pre.satisfy
  simp only [List.map_map]
  apply List.map_congr_left
  intro pr _
  simp only [Function.comp, List.map_map]
  apply List.map_congr_left
  intro b _
  simp only [Function.comp]
  split <;> rfl

theorem upd_satisfyMe (x : Proxy) (a : Atom) : Upd x (x.satisfyMe a) :=
  ⟨rfl, rfl, id, rfl, rfl, fun h => Or.inl h, atomKeys_satisfyMe x a⟩

/-- updates by `Proxy.reset` that do not touch the runahead flag and do not queue -/
theorem upd_reset (x : Proxy) (st : Option Status) (q : Option Bool) (hd : Option Bool)
    (hst : st = some .waiting → x.status = .waiting ∨ x.timers = true) (hq : q ≠ some true) :
    Upd x (x.reset (status := st) (queued := q) (held := hd)) := by
  unfold Proxy.reset
  simp only
  split
  · exact Upd.refl x
  · refine ⟨rfl, rfl, ?_, by simp, rfl, ?_, rfl⟩
    · intro h
      cases q with
      | none => simpa using h
      | some b => cases b with
        | false => simp at h
        | true => exact absurd rfl hq
    · intro h
      cases st with
      | none => exact Or.inl (by simpa using h)
      | some v =>
        simp at h
        subst h
        exact hst rfl

/-- the task definition of `x` has been touched at the point of `x` -/
def Touched (g : Graph) (s : State) (x : Proxy) : Prop :=
  ∀ k, instOff g x.name x.pt = some k → ∃ k', s.offOf x.name = some k' ∧ k ≤ k'

/-- `Q` on proxies and `J` on the core of the state, closed under the elementary moves of the model -/
structure Frame (g : Graph) (Q : Proxy → Prop) (J : State → Prop) : Prop where
  qupd : ∀ x y, Q x → Upd x y → Q y
  qspawn : ∀ s n p y, J s → (spawnTask g s n p).2 = some y → Q y
  qqueue : ∀ x, Q x → x.runahead = false → x.status = .waiting → Q (x.reset (queued := some true))
  qlaunch : ∀ x, Q x → x.queued = true → Q (launchProxy x)
  jcongr : ∀ s s', core s' = core s → J s → J s'
  jtouch : ∀ s n p, J s → J (touch g s n p)
  jadd : ∀ s x, J s → Touched g s x → J (State.add g s x)
  jdrop : ∀ s x, J s → J (dropKey g s x)
  jcompute : ∀ s f, J s → J (computeRunahead g s f)
  jlaunch : ∀ s x, J s → Q x → x.queued = true →
    J { s with launched := s.launched ++ [(x.pt, x.name, x.submitNum + 1)] }
  jclear : ∀ s, J s → J (clearOp s)

def Holds (Q : Proxy → Prop) (J : State → Prop) (s : State) : Prop := (∀ x ∈ s.pool, Q x) ∧ J s

end CylcModel.Sched3Fut
