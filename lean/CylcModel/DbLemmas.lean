/-
Helper lemmas for `CylcModel.Db` (property C21).
-/
import CylcModel.Db

namespace CylcModel.Db

theorem runRowOps_fault_ne_ok (pk : List Nat) :
    ∀ (ops : List RowOp) (t : Table) (j : Nat) (t' : Table), runRowOps pk t ops (some j) ≠ .ok t' := by
  intro ops
  induction ops with
  | nil => intro t j t' h; simp [runRowOps] at h
  | cons op rest ih =>
    intro t j t' h
    cases j with
    | zero => simp [runRowOps] at h
    | succ n =>
      simp only [runRowOps] at h
      split at h
      · cases h
      · exact ih _ _ _ h

theorem executemany_ok_none {ss : List Schema} {w : Db} {st : SqlStmt} {rf : Option Nat} {w' : Db}
    (h : executemany ss w st rf = .ok w') : executemany ss w st none = .ok w' := by
  cases rf with
  | none => exact h
  | some j =>
    exfalso
    unfold executemany at h
    split at h
    · cases h
    · split at h
      · cases h
      · rename_i t' ht
        exact runRowOps_fault_ne_ok _ _ _ _ _ ht

@[simp] theorem Store.view_connect (s : Store) : s.connect.view = s.view := by
  unfold Store.connect Store.view
  cases h : s.conn <;> simp [h]

@[simp] theorem Store.file_connect (s : Store) : s.connect.file = s.file := by
  unfold Store.connect
  cases h : s.conn <;> simp

theorem Store.connect_conn (s : Store) : s.connect.conn = some s.view := by
  unfold Store.connect Store.view
  cases h : s.conn <;> simp [h]

theorem Store.commit_file (s : Store) : s.commit.file = s.view := by
  unfold Store.commit Store.view
  cases h : s.conn <;> simp

theorem Store.commit_view (s : Store) : s.commit.view = s.view := by
  unfold Store.commit Store.view
  cases h : s.conn <;> simp [h]

/-- The statement loop + commit: an error leaves the file as it was; no error means the file now
holds exactly the result of running every statement, in order, on what the connection saw. -/
theorem execLoop_spec (ss : List Schema) :
    ∀ (q : List SqlStmt) (s : Store) (f : Fault) (k : Nat),
      (∀ s' e, execLoop ss s f k q = (s', some e) → s'.file = s.file) ∧
      (∀ s', execLoop ss s f k q = (s', none) → runAll ss s.view q = some s'.file ∧ s'.view = s'.file) := by
  intro q
  induction q with
  | nil =>
    intro s f k
    constructor
    · intro s' e h
      simp only [execLoop] at h
      split at h
      · cases h; rfl
      · cases h
    · intro s' h
      simp only [execLoop] at h
      split at h
      · cases h
      · cases h
        simp [runAll, Store.commit_file, Store.commit_view]
  | cons st rest ih =>
    intro s f k
    simp only [execLoop]
    cases hex : executemany ss (s.connect.conn.getD s.connect.file) st (f.rowFault k st).1 with
    | error e =>
      constructor
      · intro s' e' h; cases h; simp
      · intro s' h; cases h
    | ok w =>
      have hview : s.connect.conn.getD s.connect.file = s.view := by
        rw [Store.connect_conn]; rfl
      rw [hview] at hex
      have hnone := executemany_ok_none hex
      have := ih { s.connect with conn := some w } (f.rowFault k st).2 (k + 1)
      constructor
      · intro s' e h
        have := this.1 s' e h
        simpa using this
      · intro s' h
        have h2 := this.2 s' h
        refine ⟨?_, h2.2⟩
        simp only [runAll, hnone]
        simpa [Store.view] using h2.1


/-! ### `execute_queued_items` -/

@[simp] theorem TQ.lower_empty (t : String) : ({} : TQ).lower t = [] := by
  simp [TQ.lower]

theorem flatMap_lower_empty (ss : List Schema) :
    (ss.flatMap fun s => ((fun _ => ({} : TQ)) s.name).lower s.name) = [] := by
  induction ss with
  | nil => rfl
  | cons a r ih => simp [List.flatMap_cons, ih]

@[simp] theorem Dao.sqlQueue_stage (ss : List Schema) (d : Dao) : (d.stage ss).sqlQueue ss = d.sqlQueue ss := by
  simp only [Dao.stage, Dao.sqlQueue]
  rw [flatMap_lower_empty]
  simp

/-- the three outcomes of `execute_queued_items` -/
theorem Dao.exec_spec (cfg : Cfg) (ss : List Schema) (d : Dao) (f : Fault) (hc : d.store.conn = none) :
    (∀ d', d.exec cfg ss f = (d', .noop) → d' = d ∧ d.sqlQueue ss = []) ∧
    (∀ d' e, d.exec cfg ss f = (d', .failed e) →
        d'.store.file = d.store.file ∧ d'.store.conn = none ∧ d'.sqlQueue ss = d.sqlQueue ss ∧
        d'.nTries = (if d.isPublic then d.nTries + 1 else d.nTries) ∧ d'.isPublic = d.isPublic ∧
        (cfg.retryKeepsOrder = true → d'.pending = d.sqlQueue ss ∧ d'.queues = fun _ => {}) ∧
        d.sqlQueue ss ≠ []) ∧
    (∀ d', d.exec cfg ss f = (d', .committed) →
        runAll ss d.store.file (d.sqlQueue ss) = some d'.store.file ∧ d'.store.conn = none ∧
        d'.pending = [] ∧ (d'.queues = fun _ => {}) ∧ d'.nTries = 0 ∧ d'.isPublic = d.isPublic) := by
  have hview : d.store.view = d.store.file := by simp [Store.view, hc]
  unfold Dao.exec
  by_cases hq : (d.sqlQueue ss).isEmpty = true
  · simp only [hq, if_true]
    refine ⟨?_, ?_, ?_⟩
    · intro d' h; cases h; exact ⟨rfl, by simpa using hq⟩
    · intro d' e h; cases h
    · intro d' h; cases h
  · simp only [hq]
    have hne : d.sqlQueue ss ≠ [] := by
      intro h; rw [h] at hq; simp at hq
    have hspec := execLoop_spec ss (d.sqlQueue ss) d.store f 0
    rcases hloop : execLoop ss d.store f 0 (d.sqlQueue ss) with ⟨s, oe⟩
    cases oe with
    | some e =>
      have hfile := hspec.1 s e hloop
      simp only [Bool.false_eq_true, if_false]
      refine ⟨?_, ?_, ?_⟩
      · intro d' h
        split at h <;> cases h
      · intro d' e' h
        by_cases hp : d.isPublic = true
        · simp only [hp, Bool.not_true, Bool.false_eq_true, if_false] at h
          cases h
          by_cases hk : cfg.retryKeepsOrder = true
          · simp [hk, hp, Store.close, Store.rollback, hfile, Dao.stage, hne]
            constructor
            · cases s.conn <;> simp [hfile]
            · have := Dao.sqlQueue_stage ss d
              simpa [Dao.stage, Dao.sqlQueue] using this
          · simp [hk, hp, Store.close, Store.rollback, hfile, Dao.sqlQueue, hne]
            constructor
            · cases s.conn <;> simp [hfile]
            · simpa [Dao.sqlQueue] using hne
        · have hp' : d.isPublic = false := by simpa using hp
          simp only [hp', Bool.not_false, if_true] at h
          cases h
          by_cases hk : cfg.retryKeepsOrder = true
          · simp [hk, hp', Store.close, hfile, Dao.stage, hne]
            have := Dao.sqlQueue_stage ss d
            simpa [Dao.stage, Dao.sqlQueue] using this
          · simp [hk, hp', Store.close, hfile, Dao.sqlQueue]
            simpa [Dao.sqlQueue] using hne
      · intro d' h
        split at h <;> cases h
    | none =>
      have h2 := hspec.2 s hloop
      simp only [Bool.false_eq_true, if_false]
      refine ⟨?_, ?_, ?_⟩
      · intro d' h; cases h
      · intro d' e h; cases h
      · intro d' h
        cases h
        rw [hview] at h2
        simp [Store.close, h2.1]


/-! ### the manager: the public database is behind the private one by exactly its pending statements -/

theorem runAll_append (ss : List Schema) : ∀ (a b : List SqlStmt) (db : Db),
    runAll ss db (a ++ b) = (runAll ss db a).bind fun db' => runAll ss db' b := by
  intro a
  induction a with
  | nil => intro b db; simp [runAll]
  | cons st rest ih =>
    intro b db
    simp only [List.cons_append, runAll]
    cases executemany ss db st none with
    | error e => simp
    | ok db' => simpa using ih b db'

theorem flatMap_congr' {α β} (f g : α → List β) : ∀ (l : List α), (∀ a ∈ l, f a = g a) → l.flatMap f = l.flatMap g := by
  intro l
  induction l with
  | nil => intro _; rfl
  | cons a r ih =>
    intro h
    simp only [List.flatMap_cons]
    rw [h a (by simp), ih (fun x hx => h x (by simp [hx]))]

theorem TQ.lower_eq_nil {t : String} {q : TQ} (h : q.lower t = []) : q = {} := by
  unfold TQ.lower at h
  rcases q with ⟨dels, inss, upds⟩
  simp only [List.append_eq_nil_iff, List.map_eq_nil_iff] at h
  rcases h with ⟨⟨h1, h2⟩, h3⟩
  cases inss with
  | nil => simp [h1, h3]
  | cons a r => simp at h2

/-- the statements lowered from the table queues -/
def Dao.lowered (ss : List Schema) (d : Dao) : List SqlStmt :=
  ss.flatMap fun s => (d.queues s.name).lower s.name

theorem Dao.sqlQueue_eq (ss : List Schema) (d : Dao) : d.sqlQueue ss = d.pending ++ d.lowered ss := rfl

/-- the two DAOs hold the same queued items for every table of the schema -/
def Agree (ss : List Schema) (d1 d2 : Dao) : Prop := ∀ s ∈ ss, d1.queues s.name = d2.queues s.name

theorem Agree.lowered {ss : List Schema} {d1 d2 : Dao} (h : Agree ss d1 d2) : d1.lowered ss = d2.lowered ss := by
  unfold Dao.lowered
  apply flatMap_congr'
  intro s hs
  rw [h s hs]

theorem enqueue_fold_fields (ss : List Schema) : ∀ (ops : List Op) (d : Dao),
    (ops.foldl (Dao.enqueue ss) d).store = d.store ∧ (ops.foldl (Dao.enqueue ss) d).pending = d.pending ∧
    (ops.foldl (Dao.enqueue ss) d).nTries = d.nTries ∧ (ops.foldl (Dao.enqueue ss) d).isPublic = d.isPublic := by
  intro ops
  induction ops with
  | nil => intro d; simp
  | cons op rest ih =>
    intro d
    simp only [List.foldl_cons]
    have := ih (Dao.enqueue ss d op)
    simpa [Dao.enqueue] using this

theorem enqueue_fold_agree (ss : List Schema) : ∀ (ops : List Op) (d1 d2 : Dao), Agree ss d1 d2 →
    Agree ss (ops.foldl (Dao.enqueue ss) d1) (ops.foldl (Dao.enqueue ss) d2) := by
  intro ops
  induction ops with
  | nil => intro d1 d2 h; simpa using h
  | cons op rest ih =>
    intro d1 d2 h
    simp only [List.foldl_cons]
    apply ih
    intro s hs
    simp only [Dao.enqueue]
    rw [h s hs]

/-- The public database is behind the private one by exactly the statements it still holds:
running the surplus `X` of the public DAO's kept statements on the public file gives the private
file, and both DAOs then have the same statements left (`pri.pending`). -/
structure Behind (ss : List Schema) (m : Mgr) : Prop where
  priConn : m.pri.store.conn = none
  pubConn : m.pub.store.conn = none
  priKind : m.pri.isPublic = false
  pubKind : m.pub.isPublic = true
  priQ : ∀ s ∈ ss, m.pri.queues s.name = {}
  pubQ : ∀ s ∈ ss, m.pub.queues s.name = {}
  behind : ∃ X, m.pub.pending = X ++ m.pri.pending ∧ runAll ss m.pub.store.file X = some m.pri.store.file

theorem lowered_eq_nil {ss : List Schema} {d : Dao} (h : d.lowered ss = []) : ∀ s ∈ ss, d.queues s.name = {} := by
  intro s hs
  unfold Dao.lowered at h
  rw [List.flatMap_eq_nil_iff] at h
  exact TQ.lower_eq_nil (h s hs)


theorem lowered_nil_of_queues {ss : List Schema} {d : Dao} (h : ∀ s ∈ ss, d.queues s.name = {}) : d.lowered ss = [] := by
  unfold Dao.lowered
  rw [List.flatMap_eq_nil_iff]
  intro s hs
  rw [h s hs]; simp

theorem Dao.stage_fields (ss : List Schema) (d : Dao) :
    (d.stage ss).store = d.store ∧ (d.stage ss).nTries = d.nTries ∧ (d.stage ss).isPublic = d.isPublic ∧
    (d.stage ss).pending = d.sqlQueue ss ∧ (d.stage ss).queues = fun _ => {} := by
  simp [Dao.stage]

/-- without an injected fault the loop commits whenever sqlite accepts every statement -/
theorem execLoop_none_complete (ss : List Schema) : ∀ (q : List SqlStmt) (s : Store) (k : Nat) (db : Db),
    runAll ss s.view q = some db → ∃ s', execLoop ss s .none k q = (s', none) := by
  intro q
  induction q with
  | nil => intro s k db _; exact ⟨s.commit, by simp [execLoop, Fault.atCommit]⟩
  | cons st rest ih =>
    intro s k db h
    simp only [runAll] at h
    simp only [execLoop, Fault.rowFault]
    have hview : s.connect.conn.getD s.connect.file = s.view := by
      rw [Store.connect_conn]; rfl
    rw [hview]
    cases hex : executemany ss s.view st none with
    | error e => rw [hex] at h; cases h
    | ok w =>
      rw [hex] at h
      exact ih { s.connect with conn := some w } (k + 1) db (by simpa [Store.view] using h)

theorem Dao.exec_none_complete (cfg : Cfg) (ss : List Schema) (d : Dao) (hc : d.store.conn = none) (db : Db)
    (h : runAll ss d.store.file (d.sqlQueue ss) = some db) : ¬ (d.exec cfg ss .none).2.isFailed = true := by
  unfold Dao.exec
  by_cases hq : (d.sqlQueue ss).isEmpty = true
  · simp [hq, ExecResult.isFailed]
  · simp only [hq]
    have hview : d.store.view = d.store.file := by simp [Store.view, hc]
    obtain ⟨s', hs'⟩ := execLoop_none_complete ss (d.sqlQueue ss) d.store 0 db (by rw [hview]; exact h)
    rw [hs']
    simp [ExecResult.isFailed]

section process
variable (cfg : Cfg) (ss : List Schema)

/-- `process_queued_ops` of the repaired code keeps the public database exactly "behind" -/
theorem process_behind (hk : cfg.retryKeepsOrder = true) (m : Mgr) (hb : Behind ss m)
    (ops : List Op) (pf uf : Fault) :
    Behind ss (m.process cfg ss ops pf uf).1 ∧
    ((m.process cfg ss ops pf uf).2.pub = some .committed →
        (m.process cfg ss ops pf uf).1.pub.store.file = (m.process cfg ss ops pf uf).1.pri.store.file) ∧
    ((m.process cfg ss ops pf uf).2.pri.isFailed = true →
        (m.process cfg ss ops pf uf).1.pub.nTries = m.pub.nTries) ∧
    ((m.process cfg ss ops pf uf).2.pri.isFailed = false → (m.process cfg ss ops pf uf).1.pri.pending = []) ∧
    (uf = .none → (m.process cfg ss ops pf uf).2.pri.isFailed = false →
        (m.process cfg ss ops pf uf).1.pub.store.file = (m.process cfg ss ops pf uf).1.pri.store.file) := by
  obtain ⟨X, hX, hrun⟩ := hb.behind
  -- the DAOs after queueing
  obtain ⟨p1s, p1p, p1n, p1k⟩ := enqueue_fold_fields ss ops m.pri
  obtain ⟨u1s, u1p, u1n, u1k⟩ := enqueue_fold_fields ss ops m.pub
  have hagree : Agree ss (ops.foldl (Dao.enqueue ss) m.pri) (ops.foldl (Dao.enqueue ss) m.pub) :=
    enqueue_fold_agree ss ops m.pri m.pub (fun s hs => by rw [hb.priQ s hs, hb.pubQ s hs])
  have hlow := hagree.lowered
  generalize hpri1 : ops.foldl (Dao.enqueue ss) m.pri = pri1 at *
  generalize hpub1 : ops.foldl (Dao.enqueue ss) m.pub = pub1 at *
  have hq1 : pri1.sqlQueue ss = m.pri.pending ++ pri1.lowered ss := by rw [Dao.sqlQueue_eq, p1p]
  have hq2 : pub1.sqlQueue ss = X ++ (m.pri.pending ++ pri1.lowered ss) := by
    rw [Dao.sqlQueue_eq, u1p, hX, ← hlow, List.append_assoc]
  have hc1 : pri1.store.conn = none := by rw [p1s]; exact hb.priConn
  have hc2 : pub1.store.conn = none := by rw [u1s]; exact hb.pubConn
  have spec1 := Dao.exec_spec cfg ss pri1 pf hc1
  have spec2 := Dao.exec_spec cfg ss pub1 uf hc2
  have hprocess : m.process cfg ss ops pf uf =
      (if (pri1.exec cfg ss pf).2.isFailed then
        ({ pri := (pri1.exec cfg ss pf).1, pub := if cfg.retryKeepsOrder then pub1.stage ss else pub1 },
          ⟨(pri1.exec cfg ss pf).2, none⟩)
      else
        ({ pri := (pri1.exec cfg ss pf).1, pub := (pub1.exec cfg ss uf).1 },
          ⟨(pri1.exec cfg ss pf).2, some (pub1.exec cfg ss uf).2⟩)) := by
    simp only [Mgr.process, hpri1, hpub1]
  rw [hprocess]
  rcases hex1 : pri1.exec cfg ss pf with ⟨pri', r⟩
  cases r with
  | failed e =>
    obtain ⟨hf, hcn, hsq, hnt, hkind, hstage, _⟩ := spec1.2.1 pri' e hex1
    obtain ⟨hpend, hqs⟩ := hstage hk
    simp only [ExecResult.isFailed, if_true, hk]
    obtain ⟨ss1, ss2, ss3, ss4, ss5⟩ := Dao.stage_fields ss pub1
    refine ⟨⟨hcn, ?_, ?_, ?_, ?_, ?_, ?_⟩, ?_, ?_, ?_, ?_⟩
    · show (pub1.stage ss).store.conn = none
      rw [ss1]; exact hc2
    · show pri'.isPublic = false
      rw [hkind, p1k]; exact hb.priKind
    · show (pub1.stage ss).isPublic = true
      rw [ss3, u1k]; exact hb.pubKind
    · intro s _; show pri'.queues s.name = {}; rw [hqs]
    · intro s _; show (pub1.stage ss).queues s.name = {}; rw [ss5]
    · refine ⟨X, ?_, ?_⟩
      · show (pub1.stage ss).pending = X ++ pri'.pending
        rw [ss4, hq2, hpend, hq1]
      · show runAll ss (pub1.stage ss).store.file X = some pri'.store.file
        rw [ss1, u1s, hf, p1s]; exact hrun
    · intro h; cases h
    · intro _; show (pub1.stage ss).nTries = m.pub.nTries
      rw [ss2, u1n]
    · intro h; cases h
    · intro _ h; cases h
  | noop =>
    obtain ⟨hd, hsq⟩ := spec1.1 pri' hex1
    replace hd := hd.symm; subst hd
    simp only [ExecResult.isFailed, Bool.false_eq_true, if_false]
    rw [hq1] at hsq
    have hP : m.pri.pending = [] := (List.append_eq_nil_iff.mp hsq).1
    have hB : pri1.lowered ss = [] := (List.append_eq_nil_iff.mp hsq).2
    have hB2 : pub1.lowered ss = [] := by rw [← hlow]; exact hB
    rw [hP, hB] at hq2
    simp only [List.append_nil] at hq2
    rw [hP] at hX
    simp only [List.append_nil] at hX
    have hpriQ := lowered_eq_nil hB
    have hpubQ := lowered_eq_nil hB2
    rcases hex2 : pub1.exec cfg ss uf with ⟨pub', r2⟩
    have hfail2 : uf = .none → r2.isFailed = false := by
      intro hu
      have := Dao.exec_none_complete cfg ss pub1 hc2 m.pri.store.file (by rw [u1s, hq2]; exact hrun)
      rw [← hu, hex2] at this
      simpa using this
    cases r2 with
    | noop =>
      obtain ⟨hd2, hsq2⟩ := spec2.1 pub' hex2
      replace hd2 := hd2.symm; subst hd2
      rw [hq2] at hsq2
      subst hsq2
      simp only [runAll] at hrun
      have hfe : m.pub.store.file = m.pri.store.file := by injection hrun
      refine ⟨⟨hc1, hc2, by rw [p1k]; exact hb.priKind, by rw [u1k]; exact hb.pubKind, hpriQ, hpubQ,
        ⟨[], by rw [u1p, hX, p1p, hP]; rfl, by simp only [runAll]; rw [u1s, p1s, hfe]⟩⟩, ?_, ?_, ?_, ?_⟩
      · intro h; cases h
      · intro h; cases h
      · intro _; show pri1.pending = []; rw [p1p, hP]
      · intro _ _; show pub1.store.file = pri1.store.file; rw [u1s, p1s, hfe]
    | failed e2 =>
      obtain ⟨hf, hcn, hsq2, hnt, hkind, hstage, _⟩ := spec2.2.1 pub' e2 hex2
      obtain ⟨hpend, hqs⟩ := hstage hk
      refine ⟨⟨hc1, hcn, by rw [p1k]; exact hb.priKind, by rw [hkind, u1k]; exact hb.pubKind, hpriQ,
        fun s _ => by show pub'.queues s.name = {}; rw [hqs],
        ⟨X, by show pub'.pending = X ++ pri1.pending; rw [hpend, hq2, p1p, hP]; simp,
          by show runAll ss pub'.store.file X = some pri1.store.file; rw [hf, u1s, p1s]; exact hrun⟩⟩, ?_, ?_, ?_, ?_⟩
      · intro h; cases h
      · intro h; cases h
      · intro _; show pri1.pending = []; rw [p1p, hP]
      · intro hu _; have := hfail2 hu; simp [ExecResult.isFailed] at this
    | committed =>
      obtain ⟨hr2, hcn, hpend, hqs, hnt, hkind⟩ := spec2.2.2 pub' hex2
      rw [hq2, u1s, hrun] at hr2
      have hfe : pub'.store.file = m.pri.store.file := by injection hr2 with h; exact h.symm
      refine ⟨⟨hc1, hcn, by rw [p1k]; exact hb.priKind, by rw [hkind, u1k]; exact hb.pubKind, hpriQ,
        fun s _ => by show pub'.queues s.name = {}; rw [hqs],
        ⟨[], by show pub'.pending = [] ++ pri1.pending; rw [hpend, p1p, hP]; rfl,
          by show runAll ss pub'.store.file [] = some pri1.store.file; simp only [runAll]; rw [hfe, p1s]⟩⟩, ?_, ?_, ?_, ?_⟩
      · intro _; show pub'.store.file = pri1.store.file; rw [hfe, p1s]
      · intro h; cases h
      · intro _; show pri1.pending = []; rw [p1p, hP]
      · intro _ _; show pub'.store.file = pri1.store.file; rw [hfe, p1s]
  | committed =>
    obtain ⟨hr1, hcn1, hpend1, hqs1, hnt1, hkind1⟩ := spec1.2.2 pri' hex1
    simp only [ExecResult.isFailed, Bool.false_eq_true, if_false]
    rw [hq1, p1s] at hr1
    -- the public queue run on the public file reaches the new private file
    have hrun2 : runAll ss pub1.store.file (pub1.sqlQueue ss) = some pri'.store.file := by
      rw [hq2, runAll_append, u1s, hrun]; exact hr1
    rcases hex2 : pub1.exec cfg ss uf with ⟨pub', r2⟩
    have hfail2 : uf = .none → r2.isFailed = false := by
      intro hu
      have := Dao.exec_none_complete cfg ss pub1 hc2 pri'.store.file hrun2
      rw [← hu, hex2] at this
      simpa using this
    have hpriQ : ∀ s ∈ ss, pri'.queues s.name = {} := fun s _ => by rw [hqs1]
    have hpk : pri'.isPublic = false := by rw [hkind1, p1k]; exact hb.priKind
    cases r2 with
    | noop =>
      obtain ⟨hd2, hsq2⟩ := spec2.1 pub' hex2
      replace hd2 := hd2.symm; subst hd2
      rw [hsq2] at hrun2
      simp only [runAll] at hrun2
      have hfe : pub1.store.file = pri'.store.file := by injection hrun2
      have hB2 : pub1.lowered ss = [] := by
        rw [Dao.sqlQueue_eq] at hsq2; exact (List.append_eq_nil_iff.mp hsq2).2
      have hP2 : pub1.pending = [] := by
        rw [Dao.sqlQueue_eq] at hsq2; exact (List.append_eq_nil_iff.mp hsq2).1
      refine ⟨⟨hcn1, hc2, hpk, by rw [u1k]; exact hb.pubKind, hpriQ, lowered_eq_nil hB2,
        ⟨[], by rw [hP2, hpend1]; rfl, by simp only [runAll]; rw [hfe]⟩⟩, ?_, ?_, ?_, ?_⟩
      · intro h; cases h
      · intro h; cases h
      · intro _; exact hpend1
      · intro _ _; exact hfe
    | failed e2 =>
      obtain ⟨hf, hcn, hsq2, hnt, hkind, hstage, _⟩ := spec2.2.1 pub' e2 hex2
      obtain ⟨hpend, hqs⟩ := hstage hk
      refine ⟨⟨hcn1, hcn, hpk, by rw [hkind, u1k]; exact hb.pubKind, hpriQ,
        fun s _ => by show pub'.queues s.name = {}; rw [hqs],
        ⟨pub1.sqlQueue ss, by show pub'.pending = pub1.sqlQueue ss ++ pri'.pending; rw [hpend, hpend1]; simp,
          by show runAll ss pub'.store.file (pub1.sqlQueue ss) = some pri'.store.file; rw [hf]; exact hrun2⟩⟩, ?_, ?_, ?_, ?_⟩
      · intro h; cases h
      · intro h; cases h
      · intro _; exact hpend1
      · intro hu _; have := hfail2 hu; simp [ExecResult.isFailed] at this
    | committed =>
      obtain ⟨hr2, hcn, hpend, hqs, hnt, hkind⟩ := spec2.2.2 pub' hex2
      rw [hrun2] at hr2
      have hfe : pub'.store.file = pri'.store.file := by injection hr2 with h; exact h.symm
      refine ⟨⟨hcn1, hcn, hpk, by rw [hkind, u1k]; exact hb.pubKind, hpriQ,
        fun s _ => by show pub'.queues s.name = {}; rw [hqs],
        ⟨[], by show pub'.pending = [] ++ pri'.pending; rw [hpend, hpend1]; rfl,
          by show runAll ss pub'.store.file [] = some pri'.store.file; simp only [runAll]; rw [hfe]⟩⟩, ?_, ?_, ?_, ?_⟩
      · intro _; exact hfe
      · intro h; cases h
      · intro _; exact hpend1
      · intro _ _; exact hfe

/-- invariant at the end of every main-loop iteration -/
structure RoundInv (m : Mgr) : Prop where
  behind : Behind ss m
  tries : m.pub.nTries < cfg.maxTries

theorem start_inv (hm : 0 < cfg.maxTries) (f0 : Db) : RoundInv cfg ss (Mgr.start f0) := by
  refine ⟨⟨rfl, rfl, rfl, rfl, fun _ _ => rfl, fun _ _ => rfl, ⟨[], rfl, rfl⟩⟩, hm⟩

theorem recover_behind (hr : cfg.recoverClearsQueue = true) (hm : 0 < cfg.maxTries) (m : Mgr) (hb : Behind ss m)
    (hP : cfg.maxTries ≤ m.pub.nTries → m.pri.pending = []) :
    RoundInv cfg ss (m.recover cfg).1 ∧
    ((m.recover cfg).2 = true → (m.recover cfg).1.pub.store.file = (m.recover cfg).1.pri.store.file) := by
  by_cases hge : m.pub.nTries ≥ cfg.maxTries
  · have hrec : m.recover cfg =
        ({ m with pub := { m.pub with store := { file := m.pri.store.file }, nTries := 0,
                                      queues := fun _ => {}, pending := [] } }, true) := by
      unfold Mgr.recover
      rw [if_pos hge]
      simp [hr]
    rw [hrec]
    refine ⟨⟨⟨hb.priConn, rfl, hb.priKind, hb.pubKind, hb.priQ, fun _ _ => rfl, ⟨[], ?_, rfl⟩⟩, hm⟩, fun _ => rfl⟩
    show [] = [] ++ m.pri.pending
    rw [hP hge]; rfl
  · have hrec : m.recover cfg = (m, false) := by
      unfold Mgr.recover
      rw [if_neg hge]
    rw [hrec]
    exact ⟨⟨hb, by show m.pub.nTries < cfg.maxTries; omega⟩, fun h => by cases h⟩

theorem step_inv (hk : cfg.retryKeepsOrder = true) (hr : cfg.recoverClearsQueue = true) (hm : 0 < cfg.maxTries)
    (m : Mgr) (hi : RoundInv cfg ss m) (ev : Ev) : RoundInv cfg ss (m.step cfg ss ev) := by
  cases ev with
  | restart => exact start_inv cfg ss hm _
  | round ops pf uf =>
    obtain ⟨hb', _, hnt, hpend, _⟩ := process_behind cfg ss hk m hi.behind ops pf uf
    refine (recover_behind cfg ss hr hm _ hb' ?_).1
    intro hge
    cases hf : (m.process cfg ss ops pf uf).2.pri.isFailed with
    | true =>
      have := hnt hf
      have := hi.tries
      omega
    | false => exact hpend hf

theorem run_inv (hk : cfg.retryKeepsOrder = true) (hr : cfg.recoverClearsQueue = true) (hm : 0 < cfg.maxTries) :
    ∀ (evs : List Ev) (m : Mgr), RoundInv cfg ss m → RoundInv cfg ss (m.run cfg ss evs) := by
  intro evs
  induction evs with
  | nil => intro m h; exact h
  | cons ev rest ih =>
    intro m h
    exact ih _ (step_inv cfg ss hk hr hm m h ev)

end process

end CylcModel.Db
