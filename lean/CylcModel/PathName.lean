/-
Component `Path` (property C39): workflow names cannot escape the cylc-run directory.

Executable model (core Lean only) of
  * `validate_workflow_name` and `check_reserved_dir_names` (cylc/flow/workflow_files.py),
  * `WorkflowNameValidator` (cylc/flow/unicode_rules.py): the three rules, read as the regular
    expressions they compile to (`^.{m,n}$`, `^[^…]`, `^[…]+$` -- including Python's `$`, which also
    matches before one trailing newline); the rule parameters and the reserved names are *generated*
    from the live source into `CylcModel/Generated/NameRules.lean`,
  * `posixpath.normpath`, `os.path.isabs`, `PurePosixPath.parts` for relative paths (environment).

The Unicode classes `\w` and `\d` are abstract: `CharCls` carries them as predicates (the driver
fills them from Python's answers for the characters of the case); every theorem quantifies over
all such predicates.
-/
import CylcModel.Generated.NameRules

namespace CylcModel.PathName

abbrev Str := List Char

/-- Python `re` character classes that have no finite table: `\w`, `\d` -/
structure CharCls where
  isWord : Char → Bool
  isDigit : Char → Bool

/-! ## posixpath -/

/-- `str.split('/')` -/
def splitSlash : Str → List Str
  | [] => [[]]
  | c :: s =>
    if c = '/' then [] :: splitSlash s
    else match splitSlash s with
      | [] => [[c]]            -- unreachable: the result is never empty
      | w :: ws => (c :: w) :: ws

/-- `'/'.join(comps)` -/
def joinSlash : List Str → Str
  | [] => []
  | [w] => w
  | w :: ws => w ++ '/' :: joinSlash ws

def dotdot : Str := ['.', '.']
def dot : Str := ['.']

/-- the component loop of `normpath`; the stack `st` is `new_comps` reversed (top first) -/
def normGo (abs : Bool) : List Str → List Str → List Str
  | st, [] => st
  | st, comp :: rest =>
    if comp = [] ∨ comp = dot then normGo abs st rest
    else if comp ≠ dotdot then normGo abs (comp :: st) rest
    else match st with
      | [] => if abs then normGo abs [] rest else normGo abs [dotdot] rest
      | top :: below =>
        if top = dotdot then normGo abs (dotdot :: st) rest
        else normGo abs below rest

/-- number of leading slashes `normpath` keeps: 0, 1, or 2 (exactly two) -/
def initialSlashes : Str → Nat
  | '/' :: '/' :: '/' :: _ => 1
  | '/' :: '/' :: _ => 2
  | '/' :: _ => 1
  | _ => 0

/-- `posixpath.normpath` -/
def normpath (p : Str) : Str :=
  if p = [] then dot
  else
    let n := initialSlashes p
    let comps := (normGo (n != 0) [] (splitSlash p)).reverse
    let out := List.replicate n '/' ++ joinSlash comps
    if out = [] then dot else out

/-- `os.path.isabs` -/
def isAbs : Str → Bool
  | '/' :: _ => true
  | _ => false

/-- `PurePosixPath(p).parts` for a relative path -/
def parts (p : Str) : List Str :=
  (splitSlash p).filter fun c => c ≠ [] ∧ c ≠ dot

/-! ## WorkflowNameValidator -/

/-- a bracket class `[...]` of the rules: literal characters, optionally `\w`, `\d` -/
structure ClassSpec where
  chars : List Char
  word : Bool
  digit : Bool

def ClassSpec.has (cls : CharCls) (k : ClassSpec) (c : Char) : Bool :=
  k.chars.contains c || (k.word && cls.isWord c) || (k.digit && cls.isDigit c)

/-- what Python's `$` leaves to choose from: the text itself, or the text without one final newline -/
def dollarBodies (s : Str) : List Str :=
  if s.getLast? = some '\n' then [s, s.dropLast] else [s]

open CylcModel.Generated in
def firstClass : ClassSpec := ⟨NameRules.firstForbidden.1, NameRules.firstForbidden.2.1, NameRules.firstForbidden.2.2⟩
open CylcModel.Generated in
def allowedClass : ClassSpec := ⟨NameRules.allowed.1, NameRules.allowed.2.1, NameRules.allowed.2.2⟩

open CylcModel.Generated in
/-- `^.{min,max}$` : `.` does not match a newline -/
def ruleLength (s : Str) : Bool :=
  (dollarBodies s).any fun b => !b.contains '\n' && NameRules.lenMin ≤ b.length && b.length ≤ NameRules.lenMax

/-- `^[^…]` : there is a first character and it is outside the class -/
def ruleFirst (cls : CharCls) (s : Str) : Bool :=
  match s with
  | [] => false
  | c :: _ => !firstClass.has cls c

/-- `^[…]+$` -/
def ruleAllowed (cls : CharCls) (s : Str) : Bool :=
  (dollarBodies s).any fun b => !b.isEmpty && b.all (allowedClass.has cls)

def rulesOk (cls : CharCls) (s : Str) : Bool :=
  ruleLength s && ruleFirst cls s && ruleAllowed cls s

/-! ## validate_workflow_name / check_reserved_dir_names -/

/-- `re.match(r'^run\d+$', c)` -/
def isRunN (cls : CharCls) (c : Str) : Bool :=
  (dollarBodies c).any fun b =>
    match b with
    | 'r' :: 'u' :: 'n' :: d :: ds => (d :: ds).all cls.isDigit
    | _ => false

open CylcModel.Generated in
def isReserved (cls : CharCls) (c : Str) : Bool :=
  NameRules.reserved.contains c || isRunN cls c

/-- `check_reserved_dir_names`: true = passes -/
def reservedOk (cls : CharCls) (name : Str) : Bool :=
  (parts name).all fun c => !isReserved cls c

inductive Verdict where
  | ok
  | invalidName      -- a WorkflowNameValidator rule failed
  | absolute
  | pointsAbove      -- normalises to `.` / `..…` / a name starting with `.`
  | reserved
  deriving Repr, DecidableEq

/-- `validate_workflow_name(name, check_reserved_names)` -/
def validate (cls : CharCls) (name : Str) (checkReserved : Bool) : Verdict :=
  if !rulesOk cls name then .invalidName
  else if isAbs name then .absolute
  else
    let n := normpath name
    if n.head? = some '.' then .pointsAbove
    else if checkReserved && !reservedOk cls n then .reserved
    else .ok

/-- `get_workflow_run_dir(name)` below a run directory given by its components
(`$HOME/cylc-run` normalised): `normpath(join(run_d, name))` as a component list -/
def resolveUnder (runD : List Str) (name : Str) : List Str :=
  (normGo true runD.reverse (splitSlash name)).reverse

/-! ## Specification constants (from the documentation of the run directory layout, not from the code) -/

/-- directory / file names cylc itself creates inside a run directory -/
def Spec.reservedNames : List String :=
  [".service", "_cylc-install", "flow.cylc", "log", "runN", "share", "suite.rc", "work"]

end CylcModel.PathName
