/-
Second lemma file for C03 on workflows with limited queues (id C03Q), over `Sched3QT`: a frame pass for the control
flags (stall flag, `stop`, stop mode, pause flag, stop task) over every primitive of the model, then the main
loop's two decisions - stall and shutdown - and the launch log of a whole main loop.
-/
import CylcModel.Sched3QTLemmasC03
namespace CylcModel.Sched3QT

/-! ### The control flags (stall flag, stop, stop mode, pause) are touched by nothing but the main loop's decisions
and the commands that set them: a frame pass over every primitive (same structure as the `Keep` pass of C05S) -/

abbrev Ctl := Bool × Option String × Option String × Bool × Option (Int × String)

def ctl (s : State) : Ctl := (s.stalled, s.stop, s.stopMode, s.paused, s.stopTask)

def CT (c : Ctl) (s : State) : Prop := ctl s = c

theorem ct_of_eq {c : Ctl} {s t : State} (hs : ctl t = ctl s) (h : CT c s) : CT c t := hs.trans h

theorem ct_put {c : Ctl} (s : State) (x : Proxy) (h : CT c s) : CT c (s.put x) := h

theorem ct_add {c : Ctl} (s : State) (x : Proxy) (h : CT c s) : CT c (s.add x) := by
  unfold State.add; split
  · exact h
  · exact h

theorem ct_push {c : Ctl} (s : State) (x : Proxy) (h : CT c s) : CT c (s.push x) := h

theorem ct_unqueue {c : Ctl} (s : State) (x : Proxy) (h : CT c s) : CT c (s.unqueue x) := h

theorem spawnTask_ctl (g : Graph) (s : State) (n : String) (p : Int) : ctl (spawnTask g s n p).1 = ctl s := by
  unfold spawnTask
  simp only
  repeat' split
  all_goals first
    | rfl
    | (rename_i h; simp only [Prod.mk.injEq] at h; obtain ⟨h1, _⟩ := h; subst h1; rfl)

theorem computeRunahead_ctl (g : Graph) (s : State) (f : Bool) : ctl (computeRunahead g s f) = ctl s := by
  unfold computeRunahead
  simp only
  split
  · rfl
  · split <;> rfl

theorem ct_computeRunahead {c : Ctl} (g : Graph) (s : State) (f : Bool) (h : CT c s) :
    CT c (computeRunahead g s f) := ct_of_eq (computeRunahead_ctl g s f) h

theorem ct_spawnTask {c} (g : Graph) (s : State) (n : String) (p : Int) (h : CT c s) :
    CT c (spawnTask g s n p).1 :=
  ct_of_eq (spawnTask_ctl g s n p) h

theorem ct_spawnAndAdd {c} (g : Graph) (s : State) (n : String) (p : Int) (h : CT c s) :
    CT c (spawnAndAdd g s n p) := by
  unfold spawnAndAdd
  split
  · exact h
  · have hk := ct_spawnTask g s n p h
    split
    · rename_i heq; rw [heq] at hk; exact ct_add _ _ hk
    · rename_i heq; rw [heq] at hk; exact hk

theorem ct_spawnNextParentless {c} (g : Graph) (s : State) (x : Proxy) (h : CT c s) :
    CT c (spawnNextParentless g s x) := by
  unfold spawnNextParentless
  split
  · exact h
  · split
    · exact ct_spawnAndAdd _ _ _ _ h
    · exact h

theorem ct_releaseRunahead {c} (g : Graph) (s : State) (h : CT c s) : CT c (releaseRunahead g s).1 := by
  unfold releaseRunahead
  split
  · exact h
  · split
    · exact h
    · simp only
      apply foldl_inv (CT c) _ _ _ _ h
      intro st x hst
      apply ct_spawnNextParentless
      split
      · exact ct_put _ _ hst
      · exact hst

theorem ct_releaseRunaheadN {c} (g : Graph) : ∀ (n : Nat) (s : State), CT c s → CT c (releaseRunaheadN g n s) := by
  intro n; induction n with
  | zero => intro s h; exact h
  | succ n ih =>
    intro s h
    unfold releaseRunaheadN
    simp only
    split
    · exact ih _ (ct_releaseRunahead g s h)
    · exact ct_releaseRunahead g s h

theorem ct_queueIfReady {c} (s : State) (x : Proxy) (h : CT c s) : CT c (queueIfReady s x) := by
  unfold queueIfReady; split
  · exact ct_push _ _ (ct_put _ _ h)
  · exact h

theorem ct_holdActive {c} (s : State) (x : Proxy) (h : CT c s) : CT c (holdActive s x) := by
  unfold holdActive
  simp only
  split
  · exact h
  · exact h

theorem ct_releaseHeldActive {c} (s : State) (x : Proxy) (h : CT c s) : CT c (releaseHeldActive s x) := by
  unfold releaseHeldActive
  simp only
  split
  · split
    · split
      · exact h
      · exact h
    · exact h
  · exact h

theorem ct_remove {c} (g : Graph) (s : State) (x : Proxy) (h : CT c s) : CT c (remove g s x) := by
  unfold remove
  simp only
  have h0 := ct_releaseHeldActive s x h
  generalize releaseHeldActive s x = s0 at h0 ⊢
  generalize (s0.get? x.pt x.name).getD x = x0
  have h1 : CT c (if (!x0.flows.isEmpty && x0.runahead) = true then spawnNextParentless g s0 x0 else s0) := by
    split
    · exact ct_spawnNextParentless _ _ _ h0
    · exact h0
  generalize (if (!x0.flows.isEmpty && x0.runahead) = true then spawnNextParentless g s0 x0 else s0) = s1 at h1 ⊢
  have h2 : CT c (if (s1.get? x0.pt x0.name).isSome = true then s1.unqueue x0 else s1) := by
    split
    · exact ct_unqueue _ _ h1
    · exact h1
  generalize (if (s1.get? x0.pt x0.name).isSome = true then s1.unqueue x0 else s1) = s2 at h2 ⊢
  exact h2

theorem ct_removeIfComplete {c} (g : Graph) (s : State) (x : Proxy) (h : CT c s) :
    CT c (removeIfComplete g s x) := by
  unfold removeIfComplete
  split
  · exact h
  · simp only
    have h0 : CT c (if s.stopTask == some (x.pt, x.name) then { s with stopTaskFinished := true } else s) := by
      split
      · exact ct_of_eq rfl h
      · exact h
    generalize (if s.stopTask == some (x.pt, x.name) then { s with stopTaskFinished := true } else s) = s0 at h0 ⊢
    split
    · exact h0
    · split
      · exact ct_remove _ _ _ h0
      · exact h0

theorem ct_spawnChild {c} (g : Graph) (p : Int) (n out : String) (acc : State × List (Int × String)) (ch : Child)
    (h : CT c acc.1) : CT c (spawnChild g p n out acc ch).1 := by
  obtain ⟨st, sui⟩ := acc
  unfold spawnChild
  simp only
  have h0 : CT c (if (ch.isAbs && !st.absDone.contains ⟨p, n, out⟩) = true then
      { st with absDone := st.absDone ++ [⟨p, n, out⟩] } else st) := by
    split
    · exact ct_of_eq rfl h
    · exact h
  generalize (if (ch.isAbs && !st.absDone.contains ⟨p, n, out⟩) = true then
      { st with absDone := st.absDone ++ [⟨p, n, out⟩] } else st) = st0 at h0 ⊢
  have hfold : ∀ (ks : List (Int × String)) (a : State × List (Int × String)), CT c a.1 →
      CT c (ks.foldl (fun (a : State × List (Int × String)) k =>
        match a.1.get? k.1 k.2 with
        | none => a
        | some z =>
          let z := z.satisfyMe ⟨p, n, out⟩
          (a.1.put z, if (z.suicideNow && !a.2.contains k) = true then a.2 ++ [k] else a.2)) a).1 := by
    intro ks; induction ks with
    | nil => intro a ha; exact ha
    | cons k ks ih =>
      intro a ha
      apply ih
      simp only
      split
      · exact ha
      · exact ct_put _ _ ha
  -- the child: pooled, or spawned now (which may record a hold)
  cases hg : st0.get? ch.pt ch.name with
  | some y =>
    simp only
    apply hfold
    simp only [Option.isSome_some, if_true]
    exact h0
  | none =>
    have h1 := ct_spawnTask g st0 ch.name ch.pt h0
    generalize spawnTask g st0 ch.name ch.pt = r at h1 ⊢
    obtain ⟨st1, child⟩ := r
    simp only at h1 ⊢
    cases child with
    | none => exact h1
    | some y =>
      simp only
      apply hfold
      simp only [Option.isSome_none, Bool.false_eq_true, if_false]
      exact ct_add _ _ h1

theorem ct_spawnOnOutput {c} (g : Graph) (s : State) (p : Int) (n out : String) (h : CT c s) :
    CT c (spawnOnOutput g s p n out) := by
  unfold spawnOnOutput
  split
  · exact h
  · simp only
    have h1 : ∀ (cs : List Child) (acc : State × List (Int × String)), CT c acc.1 →
        CT c (cs.foldl (spawnChild g p n out) acc).1 := by
      intro cs; induction cs with
      | nil => intro acc ha; exact ha
      | cons ch cs ih => intro acc ha; exact ih _ (ct_spawnChild g p n out acc ch ha)
    have h2 : ∀ (ks : List (Int × String)) (st : State), CT c st →
        CT c (ks.foldl (fun (st : State) k => match st.get? k.1 k.2 with
          | some z => remove g st z
          | none => st) st) := by
      intro ks; induction ks with
      | nil => intro st hst; exact hst
      | cons k ks ih =>
        intro st hst
        apply ih
        simp only
        split
        · exact ct_remove _ _ _ hst
        · exact hst
    generalize hR : (List.foldl (spawnChild g p n out) (s, []) _) = R
    have hRn : CT c R.1 := by rw [← hR]; exact h1 _ _ h
    have h3 := h2 R.2 R.1 hRn
    split
    · exact ct_removeIfComplete _ _ _ h3
    · exact h3

theorem ct_store {c} (s : State) (x : Proxy) (tr : Bool) (h : CT c s) : CT c (store s x tr) := by
  unfold store; split
  · exact ct_of_eq rfl h
  · exact ct_put _ _ h

theorem ct_spawnChildren {c} (g : Graph) (s : State) (p : Int) (n out : String) (tr : Bool) (h : CT c s) :
    CT c (spawnChildren g s p n out tr) := by
  unfold spawnChildren; split
  · exact h
  · exact ct_spawnOnOutput _ _ _ _ _ h

theorem ct_processMessage {c} (g : Graph) : ∀ (fuel : Nat) (s : State) (p : Int) (n : String) (flag : Flag)
    (sn : Nat) (msg : String), CT c s → CT c (processMessage g fuel s p n flag sn msg).1 := by
  intro fuel
  induction fuel with
  | zero => intro s p n flag sn msg h; exact h
  | succ fuel ih =>
    intro s p n flag sn msg h
    unfold processMessage
    split
    · exact h
    · rename_i x tr _
      split
      · exact h
      · split
        · exact h
        · simp only
          have hstore : ∀ (y : Proxy), CT c (store s y tr) := fun y => ct_store _ _ _ h
          have himp : ∀ (l : List String) (st : State), CT c st →
              CT c (l.foldl (fun st m => (processMessage g fuel st p n .internal sn m).1) st) := by
            intro l; induction l with
            | nil => intro st hst; exact hst
            | cons a l ihl => intro st hst; exact ihl _ (ih _ _ _ _ _ _ hst)
          generalize hS : (List.foldl (fun st m => (processMessage g fuel st p n Flag.internal sn m).1) _ _) = S
          have hSn : CT c S := by rw [← hS]; exact himp _ _ (hstore _)
          split
          · exact hSn
          · repeat' split
            all_goals first
              | exact hSn
              | exact ct_store _ _ _ hSn
              | exact ct_spawnChildren _ _ _ _ _ _ (ct_store _ _ _ hSn)
              | exact ct_spawnChildren _ _ _ _ _ _ hSn

theorem ct_processQueue {c} (g : Graph) (s : State) (h : CT c s) : CT c (processQueue g s) := by
  unfold processQueue
  apply foldl_inv (CT c)
  · intro st grp hst
    simp only
    split
    · exact hst
    · have : ∀ (l : List Msg) (acc : State × Bool), CT c acc.1 →
          CT c (l.foldl (fun (acc : State × Bool) m =>
            let (st', pl) := processMessage g 4 acc.1 grp.1.1 grp.1.2 .received m.submitNum m.text
            (st', acc.2 || pl)) acc).1 := by
        intro l; induction l with
        | nil => intro acc ha; exact ha
        | cons m l ihl =>
          intro acc ha
          apply ihl
          exact ct_processMessage g 4 _ _ _ _ _ _ ha
      have h2 := this grp.2 (st, false) hst
      split
      · exact ct_of_eq rfl h2
      · exact h2
  · exact ct_of_eq rfl h

theorem ct_sweepQueue {c} (s : State) (h : CT c s) : CT c (sweepQueue s) := by
  unfold sweepQueue
  apply foldl_inv (CT c)
  · intro st x hst
    split
    · split
      · exact ct_queueIfReady _ _ (ct_put _ _ hst)
      · exact hst
    · exact hst
  · exact h

theorem ct_setHoldPoint {c} (s : State) (p : Int) (h : CT c s) : CT c (setHoldPoint s p) := by
  unfold setHoldPoint
  simp only
  apply foldl_inv (CT c)
  · intro st x hst
    split
    · split
      · exact ct_holdActive _ _ hst
      · exact hst
    · exact hst
  · exact ct_of_eq rfl h

theorem ct_holdTasks {c} (s : State) (ids : List (Int × String)) (h : CT c s) : CT c (holdTasks s ids) := by
  unfold holdTasks
  apply foldl_inv (CT c) _ _ _ _ h
  intro st k hst
  split
  · exact ct_holdActive _ _ hst
  · split
    · exact hst
    · exact ct_of_eq rfl hst

theorem ct_releaseTasks {c} (s : State) (ids : List (Int × String)) (h : CT c s) : CT c (releaseTasks s ids) := by
  unfold releaseTasks
  apply foldl_inv (CT c) _ _ _ _ h
  intro st k hst
  split
  · exact hst
  · split
    · exact ct_releaseHeldActive _ _ hst
    · exact ct_of_eq rfl hst

theorem ct_releaseHoldPoint {c} (s : State) (h : CT c s) : CT c (releaseHoldPoint s) := by
  unfold releaseHoldPoint
  simp only
  apply ct_of_eq (s := List.foldl _ _ _) rfl
  apply foldl_inv (CT c)
  · intro st x hst
    split
    · exact ct_releaseHeldActive _ _ hst
    · exact hst
  · exact ct_of_eq rfl h
/-! ### release step, commands, restart -/

theorem ct_markReleased {c} (st : State) (k : Key) (h : CT c st) : CT c (markReleased st k) := by
  unfold markReleased; split
  · exact h
  · exact h

theorem ct_releaseQueued {c} (s : State) (h : CT c s) : CT c (releaseQueued s).1 := by
  rw [releaseQueued_eq]
  simp only
  exact foldl_inv (CT c) markReleased (fun st k hst => ct_markReleased st k hst) _ _
    (show CT c { s with qs := (releaseQueues s.isHeldKey s.qs (countActive s)).1 } from h)

theorem ct_prepSubmit {c} (st : State) (k : Key) (h : CT c st) : CT c (prepSubmit st k) := by
  unfold prepSubmit; split
  · exact h
  · exact h

theorem ct_releaseAndSubmit {c} (s : State) (h : CT c s) : CT c (releaseAndSubmit s) := by
  rw [releaseAndSubmit_eq]
  split
  · exact ct_releaseQueued s h
  · apply ct_of_eq (s := List.foldl prepSubmit (releaseQueued s).1 (todoOf s)) rfl
    apply foldl_inv (CT c) _ _ _ _ (ct_releaseQueued s h)
    intro st k hst
    exact ct_prepSubmit st k hst

theorem ct_submitWjp {c} (s : State) (h : CT c s) : CT c (submitWjp s) := by
  rw [submitWjp_eq]
  split
  · exact h
  · apply ct_of_eq (s := List.foldl prepSubmit s ((s.pool.filter (·.wjp)).map (·.key))) rfl
    apply foldl_inv (CT c) _ _ _ _ h
    intro st k hst
    exact ct_prepSubmit st k hst

theorem ct_relStep {c} (s : State) (h : CT c s) : CT c (relStep s) := by
  unfold relStep; split
  · split
    · exact ct_submitWjp s h
    · exact ct_releaseAndSubmit s h
  · exact h

theorem ct_queueOrTrigger {c} (s : State) (x : Proxy) (h : CT c s) : CT c (queueOrTrigger s x) := by
  unfold queueOrTrigger
  split
  · exact h
  · simp only
    split
    · split
      · exact h
      · exact h
    · split
      · exact h
      · exact h

theorem ct_triggerOne {c} (g : Graph) (s : State) (k : Key) (h : CT c s) : CT c (triggerOne g s k) := by
  unfold triggerOne
  simp only
  apply ct_releaseRunahead
  split
  · exact h
  · split
    · exact h
    · exact ct_queueOrTrigger _ _ h

theorem ct_triggerTasks {c} (g : Graph) (s : State) (ids : List Key) (h : CT c s) :
    CT c (triggerTasks g s ids) := by
  unfold triggerTasks
  exact foldl_inv (CT c) _ (fun st k hst => ct_triggerOne g st k hst) _ _ h

theorem ct_setStopPoint {c} (s : State) (p : Int) (h : CT c s) : CT c (setStopPoint s p) := by
  unfold setStopPoint
  split
  · exact h
  · simp only
    split
    · split
      · exact h
      · exact h
    · exact h

theorem ctl_restartBase (g : Graph) (s : State) : ctl (restartBase g s) = (false, none, none, false, s.stopTask) := rfl

theorem ct_restart (g : Graph) (s : State) : CT (false, none, none, false, s.stopTask) (restart g s) := by
  rw [restart_eq]
  split
  · exact ct_setHoldPoint _ _ (ctl_restartBase g s)
  · exact ctl_restartBase g s

/-- the state on which `workflow_shutdown` (stop task, automatic shutdown) decides: after `compute_runahead` and
`release_runahead_tasks` -/
def decision (g : Graph) (s : State) : State := (releaseRunahead g (computeRunahead g s)).1

theorem ct_decision {c} (g : Graph) (s : State) (h : CT c s) : CT c (decision g s) :=
  ct_releaseRunahead g _ (ct_computeRunahead g s false h)

theorem preLoop_eq (g : Graph) (s : State) : preLoop g s = shutdownBlock g (decision g s) := rfl

/-! ### the decisions -/

theorem isStalled_congr (g : Graph) {s t : State} (hp : t.pool = s.pool) (hs : t.stopPoint = s.stopPoint) :
    isStalled g t = isStalled g s := by
  simp only [isStalled, hp, hs]

theorem checkStalled_fields (g : Graph) (s : State) :
    (checkStalled g s).pool = s.pool ∧ (checkStalled g s).stopPoint = s.stopPoint ∧ (checkStalled g s).stop = s.stop ∧
    (checkStalled g s).stopMode = s.stopMode ∧ (checkStalled g s).paused = s.paused ∧
    (checkStalled g s).stopTask = s.stopTask := by
  unfold checkStalled
  split
  · exact ⟨rfl, rfl, rfl, rfl, rfl, rfl⟩
  · split
    · exact ⟨rfl, rfl, rfl, rfl, rfl, rfl⟩
    · split <;> exact ⟨rfl, rfl, rfl, rfl, rfl, rfl⟩

/-- `check_workflow_stalled` leaves the flag up only if it was up or `is_stalled` holds (not paused) -/
theorem checkStalled_stalled (g : Graph) (s : State) (h : (checkStalled g s).stalled = true) :
    s.stalled = true ∨ (isStalled g s = true ∧ s.paused = false) := by
  cases h0 : s.stalled with
  | true => exact Or.inl rfl
  | false => exact Or.inr (checkStalled_raises g s h0 h)

theorem checkAutoShutdown_fields (g : Graph) (s : State) :
    (checkAutoShutdown g s).1.pool = s.pool ∧ (checkAutoShutdown g s).1.stopPoint = s.stopPoint ∧
    (checkAutoShutdown g s).1.stop = s.stop ∧ (checkAutoShutdown g s).1.stopMode = s.stopMode ∧
    (checkAutoShutdown g s).1.paused = s.paused ∧ (checkAutoShutdown g s).1.stopTask = s.stopTask ∧
    ((checkAutoShutdown g s).1.stalled = true → s.stalled = true ∨ (isStalled g s = true ∧ s.paused = false)) := by
  obtain ⟨a1, a2, a3, a4, a5, a6⟩ := checkStalled_fields g s
  unfold checkAutoShutdown
  split
  · exact ⟨rfl, rfl, rfl, rfl, rfl, rfl, fun h => Or.inl h⟩
  · simp only
    split
    · exact ⟨a1, a2, a3, a4, a5, a6, checkStalled_stalled g s⟩
    · split
      · exact ⟨a1, a2, a3, a4, a5, a6, checkStalled_stalled g s⟩
      · exact ⟨a1, a2, a3, a4, a5, a6, checkStalled_stalled g s⟩

theorem stopTaskDone_fields (s : State) :
    (stopTaskDone s).1.pool = s.pool ∧ (stopTaskDone s).1.stopPoint = s.stopPoint ∧ (stopTaskDone s).1.stop = s.stop ∧
    (stopTaskDone s).1.stopMode = s.stopMode ∧ (stopTaskDone s).1.paused = s.paused ∧
    (stopTaskDone s).1.stalled = s.stalled ∧ (s.stopTask = none → stopTaskDone s = (s, false)) := by
  unfold stopTaskDone
  split
  · rename_i h
    refine ⟨rfl, rfl, rfl, rfl, rfl, rfl, fun hn => ?_⟩
    rw [hn] at h; simp at h
  · exact ⟨rfl, rfl, rfl, rfl, rfl, rfl, fun _ => rfl⟩

/-- the shutdown block: pool, stop point, `stop` and pause flag untouched; the stall flag goes up only by the
stall check inside `check_auto_shutdown` -/
theorem shutdownBlock_fields (g : Graph) (s : State) :
    (shutdownBlock g s).pool = s.pool ∧ (shutdownBlock g s).stopPoint = s.stopPoint ∧
    (shutdownBlock g s).stop = s.stop ∧ (shutdownBlock g s).paused = s.paused ∧
    ((shutdownBlock g s).stalled = true → s.stalled = true ∨ (isStalled g s = true ∧ s.paused = false)) := by
  obtain ⟨b1, b2, b3, _, b5, b6, _⟩ := stopTaskDone_fields s
  obtain ⟨c1, c2, c3, _, c5, _, c7⟩ := checkAutoShutdown_fields g (stopTaskDone s).1
  have hst : (checkAutoShutdown g (stopTaskDone s).1).1.stalled = true →
      s.stalled = true ∨ (isStalled g s = true ∧ s.paused = false) := by
    intro h
    rcases c7 h with h | h
    · exact Or.inl (b6 ▸ h)
    · rw [isStalled_congr g b1 b2, b5] at h; exact Or.inr h
  unfold shutdownBlock
  split
  · split
    · exact ⟨b1, b2, b3, b5, fun h => Or.inl (b6 ▸ h)⟩
    · split
      · exact ⟨c1.trans b1, c2.trans b2, c3.trans b3, c5.trans b5, hst⟩
      · exact ⟨c1.trans b1, c2.trans b2, c3.trans b3, c5.trans b5, hst⟩
  · exact ⟨rfl, rfl, rfl, rfl, fun h => Or.inl h⟩

theorem checkStalled_rel (g : Graph) (X s : State) (h1 : X.stop = s.stop) (h2 : X.paused = s.paused)
    (h3 : X.stalled = s.stalled) :
    (checkStalled g X).stop = s.stop ∧ (checkStalled g X).paused = s.paused ∧
    ((checkStalled g X).stalled = true →
      s.stalled = true ∨ (isStalled g (checkStalled g X) = true ∧ s.paused = false)) := by
  obtain ⟨a1, a2, a3, _, a5, _⟩ := checkStalled_fields g X
  refine ⟨a3.trans h1, a5.trans h2, fun h => ?_⟩
  rcases checkStalled_stalled g X h with h | h
  · exact Or.inl (h3 ▸ h)
  · right
    rw [isStalled_congr g a1 a2, ← h2]
    exact h

theorem finishLoop_fields (g : Graph) (s : State) :
    (finishLoop g s).stop = s.stop ∧ (finishLoop g s).paused = s.paused ∧
    ((finishLoop g s).stalled = true →
      s.stalled = true ∨ (isStalled g (finishLoop g s) = true ∧ s.paused = false)) := by
  unfold finishLoop
  simp only
  by_cases hu : (s.schedUpd || s.pool.any (·.upd)) = true
  · -- something was updated: the flag is cleared and no stall check follows
    simp only [hu, if_true, Bool.not_true, Bool.false_and, Bool.false_eq_true, if_false]
    refine ⟨?_, ?_, fun h => ?_⟩
    · split <;> rfl
    · split <;> rfl
    · exact h.elim
  · have hu' : (s.schedUpd || s.pool.any (·.upd)) = false := by simpa using hu
    have hp : s.pool.any (·.upd) = false := by
      cases h1 : s.pool.any (·.upd) with
      | false => rfl
      | true => rw [h1] at hu'; simp at hu'
    have hsu : s.schedUpd = false := by
      cases h1 : s.schedUpd with
      | false => rfl
      | true => rw [h1] at hu'; simp at hu'
    simp only [hsu, hp, Bool.or_false, Bool.false_eq_true, if_false, Bool.not_false, Bool.true_and]
    split
    · exact checkStalled_rel g _ s rfl rfl rfl
    · exact ⟨rfl, rfl, fun h => Or.inl h⟩

/-! ### the main loop, for any ready-sweep

`mainLoopW g sw` is the main loop with the queue-if-ready sweep `sw` (the sweep of `Sched3QT`, or the clock-aware
sweep of `Sched3QR`): everything below needs of `sw` only that it keeps the control flags (`SwCT`) -/

def mainLoopW (g : Graph) (sw : State → State) (s : State) : State :=
  if s.stop.isSome then s
  else if canStop (preLoop g s) then { preLoop g s with stop := (preLoop g s).stopMode }
  else finishLoop g (processQueue g (relStep (sw (preLoop g s))))

theorem mainLoop_eqW (g : Graph) (s : State) : mainLoop g s = mainLoopW g sweepQueue s := mainLoop_eq g s

def SwCT (sw : State → State) : Prop := ∀ (c : Ctl) (s : State), CT c s → CT c (sw s)

theorem swCT_sweepQueue : SwCT sweepQueue := fun _ s h => ct_sweepQueue s h

theorem ctl_parts {s t : State} (h : ctl t = ctl s) :
    t.stalled = s.stalled ∧ t.stop = s.stop ∧ t.stopMode = s.stopMode ∧ t.paused = s.paused ∧ t.stopTask = s.stopTask := by
  simp only [ctl, Prod.mk.injEq] at h
  exact h

theorem ct_afterRelease {c} {sw : State → State} (hsw : SwCT sw) (g : Graph) (s : State) (h : CT c s) :
    CT c (processQueue g (relStep (sw s))) :=
  ct_processQueue g _ (ct_relStep _ (hsw c _ h))

theorem mainLoop_cases (g : Graph) (sw : State → State) (s : State) :
    (s.stop.isSome = true ∧ mainLoopW g sw s = s) ∨
    (s.stop.isSome = false ∧ canStop (preLoop g s) = true ∧
      mainLoopW g sw s = { preLoop g s with stop := (preLoop g s).stopMode }) ∨
    (s.stop.isSome = false ∧ canStop (preLoop g s) = false ∧
      mainLoopW g sw s = finishLoop g (processQueue g (relStep (sw (preLoop g s))))) := by
  unfold mainLoopW
  cases h1 : s.stop.isSome with
  | true => left; simp
  | false =>
    right
    cases h2 : canStop (preLoop g s) with
    | true => left; simp
    | false => right; simp

/-- the stall flag goes up in a main loop only by a stall check that found `is_stalled` true - on the decision
state or on the state the loop ends in - with the scheduler not paused -/
theorem mainLoop_stalled {sw : State → State} (hsw : SwCT sw) (g : Graph) (s : State) (h0 : s.stalled = false)
    (h : (mainLoopW g sw s).stalled = true) :
    s.paused = false ∧ (isStalled g (decision g s) = true ∨ isStalled g (mainLoopW g sw s) = true) := by
  obtain ⟨hds, _, _, hdp, _⟩ := ctl_parts (ct_decision g s (rfl : CT (ctl s) s))
  obtain ⟨_, _, _, b4, b5⟩ := shutdownBlock_fields g (decision g s)
  have hpre : (preLoop g s).stalled = true → s.paused = false ∧ isStalled g (decision g s) = true := by
    intro hp
    rw [preLoop_eq] at hp
    rcases b5 hp with hh | hh
    · rw [hds, h0] at hh; cases hh
    · exact ⟨hdp ▸ hh.2, hh.1⟩
  rcases mainLoop_cases g sw s with ⟨_, hm⟩ | ⟨_, _, hm⟩ | ⟨_, _, hm⟩
  · rw [hm, h0] at h; cases h
  · rw [hm] at h
    have := hpre h
    exact ⟨this.1, Or.inl this.2⟩
  · rw [hm] at h ⊢
    generalize hs6 : processQueue g (relStep (sw (preLoop g s))) = s6 at h ⊢
    obtain ⟨c1, _, _, c4, _⟩ := ctl_parts (s := preLoop g s) (t := s6) (by rw [← hs6]; exact ct_afterRelease hsw g _ rfl)
    obtain ⟨_, _, f3⟩ := finishLoop_fields g s6
    rcases f3 h with hh | hh
    · have := hpre (c1 ▸ hh)
      exact ⟨this.1, Or.inl this.2⟩
    · have hp6 : s6.paused = s.paused := by rw [c4, preLoop_eq, b4, hdp]
      exact ⟨hp6 ▸ hh.2, Or.inr hh.1⟩

/-- a main loop raises `stop` only through the shutdown block -/
theorem mainLoop_stop {sw : State → State} (hsw : SwCT sw) (g : Graph) (s : State) (h0 : s.stop = none)
    (h : (mainLoopW g sw s).stop.isSome = true) :
    canStop (preLoop g s) = true ∧ mainLoopW g sw s = { preLoop g s with stop := (preLoop g s).stopMode } := by
  rcases mainLoop_cases g sw s with ⟨hs, _⟩ | ⟨_, hc, hm⟩ | ⟨_, _, hm⟩
  · rw [h0] at hs; cases hs
  · exact ⟨hc, hm⟩
  · exfalso
    rw [hm] at h
    generalize hs6 : processQueue g (relStep (sw (preLoop g s))) = s6 at h
    obtain ⟨_, c2, _⟩ := ctl_parts (s := preLoop g s) (t := s6) (by rw [← hs6]; exact ct_afterRelease hsw g _ rfl)
    obtain ⟨_, d2, _⟩ := ctl_parts (ct_decision g s (rfl : CT (ctl s) s))
    obtain ⟨_, _, b3, _⟩ := shutdownBlock_fields g (decision g s)
    rw [(finishLoop_fields g s6).1, c2, preLoop_eq, b3, d2, h0] at h
    cases h

def ShutdownOK (g : Graph) (s : State) : Prop :=
  NoActive s ∧ NoReleasedWaiting s ∧ (∀ x ∈ s.pool, ¬ Incomplete g x) ∧ (∀ x ∈ s.pool, ¬ PartiallySatisfied s x)

/-- `check_auto_shutdown` answers yes only on a pool satisfying `ShutdownOK` -/
theorem autoShutdown_ok (g : Graph) (s : State) (h : (checkAutoShutdown g s).2 = true) : ShutdownOK g s := by
  obtain ⟨h1, h2, h3, h4⟩ := autoShutdown_sound g s h
  have hns : isStalled g s = false := by
    cases hst : isStalled g s with
    | false => rfl
    | true =>
      exfalso
      have h3' : (checkStalled g s).stalled = true := by
        unfold checkStalled
        cases hs : s.stalled <;> simp [hs, h4, hst]
      rw [h3'] at h3; cases h3
  have hnr : NoReadyWaiting s := fun y hy hc => h2 y hy ⟨hc.1, hc.2.1⟩
  refine ⟨h1, h2, ?_, ?_⟩
  · intro x hx hi
    have := (isStalled_iff g s).mpr ⟨h1, hnr, Or.inl ⟨x, hx, hi⟩⟩
    rw [this] at hns; cases hns
  · intro x hx hi
    have := (isStalled_iff g s).mpr ⟨h1, hnr, Or.inr ⟨x, hx, hi⟩⟩
    rw [this] at hns; cases hns

theorem shutdownBlock_auto (g : Graph) (d : State) (hm : d.stopMode = none) (ht : d.stopTask = none) :
    (shutdownBlock g d).stopMode = (if (checkAutoShutdown g d).2 = true then some "AUTOMATIC" else none) := by
  unfold shutdownBlock
  rw [(stopTaskDone_fields d).2.2.2.2.2.2 ht]
  simp only [hm, Option.isNone_none, if_true, Bool.false_eq_true, if_false]
  split
  · rfl
  · exact (checkAutoShutdown_fields g d).2.2.2.1.trans hm

/-- **a main loop of a scheduler that was not asked to stop (no stop mode, no stop task) stops only with reason
AUTOMATIC, in the pool the decision was taken on, and that pool satisfies `ShutdownOK`** -/
theorem mainLoop_shutdown {sw : State → State} (hsw : SwCT sw) (g : Graph) (s : State) (h0 : s.stop = none)
    (hm : s.stopMode = none) (ht : s.stopTask = none) (h : (mainLoopW g sw s).stop.isSome = true) :
    (mainLoopW g sw s).stop = some "AUTOMATIC" ∧ ShutdownOK g (decision g s) ∧
      (mainLoopW g sw s).pool = (decision g s).pool ∧ (mainLoopW g sw s).stopPoint = (decision g s).stopPoint := by
  obtain ⟨hc, hml⟩ := mainLoop_stop hsw g s h0 h
  obtain ⟨_, _, d3, _, d5⟩ := ctl_parts (ct_decision g s (rfl : CT (ctl s) s))
  obtain ⟨b1, b2, _, _, _⟩ := shutdownBlock_fields g (decision g s)
  have hauto := shutdownBlock_auto g (decision g s) (d3.trans hm) (d5.trans ht)
  rw [← preLoop_eq] at hauto b1 b2
  cases hca : (checkAutoShutdown g (decision g s)).2 with
  | false =>
    exfalso
    rw [hca] at hauto
    simp only [Bool.false_eq_true, if_false] at hauto
    unfold canStop at hc
    rw [hauto] at hc
    cases hc
  | true =>
    rw [hca] at hauto
    simp only [if_true] at hauto
    rw [hml]
    exact ⟨hauto, autoShutdown_ok g _ hca, b1, b2⟩

/-- operations other than the main loop neither raise the stall flag nor stop the scheduler -/
theorem step_other (g : Graph) (s : State) (op : Op) (hne : op ≠ .loop) :
    ((step g s op).stalled = true → s.stalled = true) ∧ ((step g s op).stop.isSome = true → s.stop.isSome = true) := by
  have hc : ∀ t : State, CT (ctl (clearOp s)) t →
      (t.stalled = true → s.stalled = true) ∧ (t.stop.isSome = true → s.stop.isSome = true) := by
    intro t ht
    obtain ⟨e1, e2, _⟩ := ctl_parts ht
    exact ⟨fun h => by rw [← h, e1]; rfl, fun h => by rw [← h, e2]; rfl⟩
  have h0 : CT (ctl (clearOp s)) (clearOp s) := rfl
  unfold step
  cases op with
  | loop => exact absurd rfl hne
  | subres p n ok sn => exact hc _ (ct_processMessage g _ _ _ _ _ _ _ h0)
  | msg p n sn text => exact hc _ (ct_of_eq (s := clearOp s) rfl h0)
  | hold ids => exact hc _ (ct_holdTasks _ _ h0)
  | release ids => exact hc _ (ct_releaseTasks _ _ h0)
  | setHoldPoint p => exact hc _ (ct_setHoldPoint _ _ h0)
  | releaseHoldPoint => exact hc _ (ct_releaseHoldPoint _ h0)
  | stop mode => exact ⟨fun h => h, fun h => h⟩
  | stopPoint p => exact hc _ (ct_setStopPoint _ _ h0)
  | stopTask p n => exact ⟨fun h => h, fun h => h⟩
  | pause => exact ⟨fun h => h, fun h => h⟩
  | resume => exact ⟨fun h => h, fun h => h⟩
  | trigger ids => exact hc _ (ct_triggerTasks g _ _ h0)
  | restart =>
    have hr := ct_restart g (clearOp s)
    unfold CT at hr
    simp only [ctl, Prod.mk.injEq] at hr
    refine ⟨fun h => ?_, fun h => ?_⟩
    · rw [hr.1] at h; cases h
    · rw [hr.2.1] at h; cases h

/-! ### bounded response over a whole main loop -/

/-- a sweep that keeps the pool / queue / launch-log invariants of C05S -/
def SwKeep (sw : State → State) : Prop :=
  ∀ (c : Graph × List (Int × String × Nat) × List LQ) (s : State), Keep c s → Keep c (sw s)

theorem swKeep_sweepQueue : SwKeep sweepQueue := fun _ s h => keep_sweepQueue s h

/-- the launch log of a main loop that runs its release step is the launch log of that step, and the state the
release step works on satisfies the run invariants -/
theorem mainLoop_launched {sw : State → State} (hsw : SwKeep sw) {g : Graph} {s : State} (h : KeepQ g s)
    (h0 : s.stop = none) (hc : canStop (preLoop g s) = false) :
    (mainLoopW g sw s).launched = (relStep (sw (preLoop g s))).launched ∧ KeepQ g (sw (preLoop g s)) := by
  have hk2 : KeepQ g (sw (preLoop g s)) :=
    keepQ_of_keep (hsw _ _ (keep_preLoop g s (keep_of_keepQ h)))
  refine ⟨?_, hk2⟩
  rcases mainLoop_cases g sw s with ⟨hs, _⟩ | ⟨_, hc', _⟩ | ⟨_, _, hm⟩
  · rw [h0] at hs; cases hs
  · rw [hc] at hc'; cases hc'
  · rw [hm]
    exact keep_launched (keep_finishLoop g _ (keep_processQueue g _ (keep_of_keepQ (keepQ_relStep hk2))))

/-- the run invariants survive a main loop with any invariant-keeping sweep -/
theorem keepQ_mainLoopW {sw : State → State} (hsw : SwKeep sw) {g : Graph} (s : State) (h : KeepQ g s) :
    KeepQ g (mainLoopW g sw s) := by
  have h3 := keep_preLoop g s (keep_of_keepQ h)
  rcases mainLoop_cases g sw s with ⟨_, hm⟩ | ⟨_, _, hm⟩ | ⟨_, _, hm⟩
  · rw [hm]; exact h
  · rw [hm]; exact keepQ_of_keep (keep_of_eq (s := preLoop g s) rfl rfl h3)
  · rw [hm]
    have hk2 : KeepQ g (sw (preLoop g s)) := keepQ_of_keep (hsw _ _ h3)
    exact keepQ_of_keep (keep_finishLoop g _ (keep_processQueue g _ (keep_of_keepQ (keepQ_relStep hk2))))

end CylcModel.Sched3QT
