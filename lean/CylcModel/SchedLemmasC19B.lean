/-
Lemmas for `Sched2B` (check C19): the scheduler component of a `Sched2B` run IS a `Sched2` run (so every C19
theorem about `Sched2.run` applies to it), and the broadcast component keeps the invariant `Bcast.Persist`
of check C22 ("the database, with its pending operations applied, holds exactly the store") through every op —
broadcast requests, the automatic expiry and database write of a main loop, restarts.
-/
import CylcModel.Sched2B
import CylcModel.BcastLemmas
import CylcModel.SchedLemmasC19

namespace CylcModel.Sched2B

/-- the `Sched2` op a `Sched2B` op is for the scheduler component (a broadcast request only resets the
per-op records, as a `release` of nothing does) -/
def proj : Op → Sched2.Op
  | .sched op => op
  | .bcast _ => .release []

theorem step_s (cfg : Cfg) (g : Sched2.Graph) (y : State) (op : Op) :
    (step cfg g y op).s = Sched2.step g y.s (proj op) := by
  cases op with
  | bcast b => rfl
  | sched o => cases o <;> rfl

/-- generic lifting over `Sched2B` runs -/
theorem run_inv (P : State → Prop) (cfg : Cfg) (g : Sched2.Graph) (ops : List Op)
    (h0 : P (init g)) (hs : ∀ y, ∀ op ∈ ops, P y → P (step cfg g y op)) :
    ∀ y ∈ run cfg g ops, P y := by
  unfold run
  have key : ∀ (l : List Op) (acc : List State) (cur : State), (∀ op ∈ l, op ∈ ops) →
      (∀ y ∈ acc, P y) → P cur →
      ∀ y ∈ (l.foldl (fun (a : List State × State) op =>
          let y' := step cfg g a.2 op; (a.1 ++ [y'], y')) (acc, cur)).1, P y := by
    intro l
    induction l with
    | nil => intro acc cur _ hacc _ y hm; exact hacc y hm
    | cons op l ih =>
      intro acc cur hsub hacc hcur
      simp only [List.foldl_cons]
      have hop := hs cur op (hsub op (by simp)) hcur
      apply ih
      · intro o ho; exact hsub o (by simp [ho])
      · intro y hm
        rcases List.mem_append.mp hm with h | h
        · exact hacc y h
        · simp at h; subst h; exact hop
      · exact hop
  exact key ops [init g] (init g) (fun _ h => h) (by intro y hm; simp at hm; subst hm; exact h0) h0

/-- **the scheduler side of a `Sched2B` run is a `Sched2` run** -/
theorem run_proj (cfg : Cfg) (g : Sched2.Graph) (ops : List Op) :
    (run cfg g ops).map (·.s) = Sched2.run g (ops.map proj) := by
  unfold run Sched2.run
  have key : ∀ (l : List Op) (acc : List State) (cur : State),
      ((l.foldl (fun (a : List State × State) op =>
          let y' := step cfg g a.2 op; (a.1 ++ [y'], y')) (acc, cur)).1.map (·.s),
       (l.foldl (fun (a : List State × State) op =>
          let y' := step cfg g a.2 op; (a.1 ++ [y'], y')) (acc, cur)).2.s) =
      ((l.map proj).foldl (fun (a : List Sched2.State × Sched2.State) op =>
          let s' := Sched2.step g a.2 op; (a.1 ++ [s'], s')) (acc.map (·.s), cur.s)) := by
    intro l
    induction l with
    | nil => intro acc cur; rfl
    | cons op l ih =>
      intro acc cur
      simp only [List.foldl_cons, List.map_cons]
      rw [ih]
      simp only [List.map_append, List.map_cons, List.map_nil, step_s]
  have := key ops [init g] (init g)
  exact congrArg Prod.fst this

/-! ### broadcasts -/

/-- the settings of every broadcast `put` of the op list are representable in the `key` column -/
def SafeOpB : Op → Prop
  | .bcast b => Bcast.SafeOp b
  | .sched _ => True

instance (op : Op) : Decidable (SafeOpB op) := by
  cases op <;> unfold SafeOpB <;> infer_instance

def SafeOps (ops : List Op) : Prop := ∀ op ∈ ops, SafeOpB op

instance (ops : List Op) : Decidable (SafeOps ops) := by unfold SafeOps; infer_instance

theorem persist_loopBcast (cfg : Cfg) (g : Sched2.Graph) (s0 s1 : Sched2.State) (b : Bcast.State)
    (h : Bcast.Persist b) : Bcast.Persist (loopBcast cfg g s0 s1 b) := by
  unfold loopBcast
  split
  · exact h
  · simp only
    apply Bcast.persist_step cfg.known _ .flush trivial
    split
    · exact Bcast.persist_step cfg.known _ _ trivial h
    · exact h

theorem persist_step (cfg : Cfg) (g : Sched2.Graph) (y : State) (op : Op)
    (hop : SafeOpB op) (h : Bcast.Persist y.b) :
    Bcast.Persist (step cfg g y op).b := by
  cases op with
  | bcast b => exact Bcast.persist_step cfg.known y.b b hop h
  | sched o =>
    cases o with
    | loop => exact persist_loopBcast cfg g _ _ _ h
    | restart => exact Bcast.persist_step cfg.known y.b .restart trivial h
    | _ => exact h

/-- in every state of every `Sched2B` run the `broadcast_states` table (pending writes applied) holds exactly
the broadcast store -/
theorem persist_run (cfg : Cfg) (g : Sched2.Graph) (ops : List Op) (hsafe : SafeOps ops) :
    ∀ y ∈ run cfg g ops, Bcast.Persist y.b :=
  run_inv (fun y => Bcast.Persist y.b) cfg g ops Bcast.persist_init
    (fun y op hop h => persist_step cfg g y op (hsafe op hop) h)

end CylcModel.Sched2B
