/-
Helper lemmas for C06 over the `Sched2` model (holds, hold point, restart), lemma-per-primitive,
lifted over op lists.  Three families:

* `launched_*`  : no primitive other than `releaseAndSubmit` records a job launch;
* `keyHeld_*`   : the part of a main loop that precedes job release keeps a held instance held;
* `holdInv_*`   : in the pool, `held` is exactly membership in `tasksToHold` (`HoldInv`).
-/
import CylcModel.Sched2

namespace CylcModel.Sched2

/-! ### Generic lifting (copies of the `Sched` v1 lemmas, stated for `Sched2`) -/

theorem foldl_inv {α σ} (P : σ → Prop) (f : σ → α → σ) (h : ∀ s a, P s → P (f s a)) :
    ∀ (l : List α) (s : σ), P s → P (l.foldl f s) := by
  intro l; induction l with
  | nil => intro s hs; exact hs
  | cons a l ih => intro s hs; exact ih _ (h s a hs)

/-- as `foldl_inv`, the step hypothesis may use that the element is in the list -/
theorem foldl_inv_mem {α σ} (P : σ → Prop) (f : σ → α → σ) :
    ∀ (l : List α) (s : σ), (∀ s a, a ∈ l → P s → P (f s a)) → P s → P (l.foldl f s) := by
  intro l; induction l with
  | nil => intro s _ hs; exact hs
  | cons a l ih =>
    intro s h hs
    exact ih _ (fun s b hb => h s b (List.mem_cons_of_mem _ hb)) (h s a (List.mem_cons_self) hs)

/-- every state of a run satisfies `P` when the start-up state does and every step preserves it -/
theorem run_inv (P : State → Prop) (g : Graph) (h0 : P (init g)) (hs : ∀ s op, P s → P (step g s op)) :
    ∀ ops, ∀ s ∈ run g ops, P s := by
  intro ops
  unfold run
  have key : ∀ (ops : List Op) (acc : List State) (cur : State),
      (∀ s ∈ acc, P s) → P cur →
      ∀ s ∈ (ops.foldl (fun (a : List State × State) op =>
          let s' := step g a.2 op; (a.1 ++ [s'], s')) (acc, cur)).1, P s := by
    intro ops
    induction ops with
    | nil => intro acc cur hacc _ s hm; exact hacc s hm
    | cons op ops ih =>
      intro acc cur hacc hcur
      simp only [List.foldl_cons]
      apply ih
      · intro s hm
        rcases List.mem_append.mp hm with h | h
        · exact hacc s h
        · simp at h; subst h; exact hs _ _ hcur
      · exact hs _ _ hcur
  exact key ops [init g] (init g) (by intro s hm; simp at hm; subst hm; exact h0) h0

/-- the state reached after an op list -/
def final (g : Graph) (ops : List Op) : State := ops.foldl (step g) (init g)

theorem final_snoc (g : Graph) (ops : List Op) (op : Op) :
    final g (ops ++ [op]) = step g (final g ops) op := by
  simp [final, List.foldl_append]

/-- the final state is a state of the run -/
theorem final_mem_run (g : Graph) (ops : List Op) : final g ops ∈ run g ops := by
  unfold run final
  have key : ∀ (ops : List Op) (acc : List State) (cur : State), cur ∈ acc →
      ops.foldl (step g) cur ∈ (ops.foldl (fun (a : List State × State) op =>
          let s' := step g a.2 op; (a.1 ++ [s'], s')) (acc, cur)).1 := by
    intro ops
    induction ops with
    | nil => intro acc cur h; exact h
    | cons op ops ih =>
      intro acc cur _
      simp only [List.foldl_cons]
      apply ih
      simp
  exact key ops [init g] (init g) (by simp)

/-! ### Pool primitives -/

theorem get?_some_mem {s : State} {p : Int} {n : String} {x : Proxy} (h : s.get? p n = some x) :
    x ∈ s.pool ∧ x.pt = p ∧ x.name = n := by
  unfold State.get? at h
  have h1 := List.mem_of_find?_eq_some h
  have h2 := List.find?_some h
  simp only [Bool.and_eq_true, beq_iff_eq] at h2
  exact ⟨h1, h2.1, h2.2⟩

theorem get?_none_forall {s : State} {p : Int} {n : String} (h : s.get? p n = none) :
    ∀ x ∈ s.pool, ¬ (x.pt = p ∧ x.name = n) := by
  unfold State.get? at h
  intro x hx hk
  have := List.find?_eq_none.mp h x hx
  simp [hk.1, hk.2] at this

theorem get?_isSome_of_mem {s : State} {x : Proxy} (h : x ∈ s.pool) : (s.get? x.pt x.name).isSome = true := by
  cases hg : s.get? x.pt x.name with
  | some y => rfl
  | none => exact absurd ⟨rfl, rfl⟩ (get?_none_forall hg x h)

/-- members of the pool after `put x`: `x` in place of every proxy with its key, the others unchanged -/
theorem mem_put {s : State} {x y : Proxy} (h : y ∈ (s.put x).pool) :
    (y = x ∧ ∃ z ∈ s.pool, z.pt = x.pt ∧ z.name = x.name) ∨ (y ∈ s.pool ∧ ¬ (y.pt = x.pt ∧ y.name = x.name)) := by
  unfold State.put at h
  simp only [List.mem_map] at h
  obtain ⟨z, hz, hzy⟩ := h
  split at hzy
  · rename_i hk
    simp only [Bool.and_eq_true, beq_iff_eq] at hk
    left; exact ⟨hzy.symm, z, hz, hk.1, hk.2⟩
  · rename_i hk
    simp only [Bool.and_eq_true, beq_iff_eq] at hk
    right; subst hzy; exact ⟨hz, hk⟩

theorem mem_put_of_ne {s : State} {x y : Proxy} (h : y ∈ s.pool) (hk : ¬ (y.pt = x.pt ∧ y.name = x.name)) :
    y ∈ (s.put x).pool := by
  unfold State.put
  simp only [List.mem_map]
  refine ⟨y, h, ?_⟩
  split
  · rename_i hk'
    simp only [Bool.and_eq_true, beq_iff_eq] at hk'
    exact absurd hk' hk
  · rfl

theorem mem_put_self {s : State} {x z : Proxy} (h : z ∈ s.pool) (hk : z.pt = x.pt ∧ z.name = x.name) :
    x ∈ (s.put x).pool := by
  unfold State.put
  simp only [List.mem_map]
  refine ⟨z, h, ?_⟩
  simp [hk.1, hk.2]

theorem mem_add {s : State} {x y : Proxy} (h : y ∈ (s.add x).pool) :
    y ∈ s.pool ∨ (y = x ∧ s.get? x.pt x.name = none) := by
  unfold State.add at h
  split at h
  · left; exact h
  · rename_i hn
    simp only [List.mem_append, List.mem_singleton] at h
    rcases h with h | h
    · left; exact h
    · right
      refine ⟨h, ?_⟩
      cases hg : s.get? x.pt x.name with
      | none => rfl
      | some v => simp [hg] at hn

theorem mem_add_of_mem {s : State} {x y : Proxy} (h : y ∈ s.pool) : y ∈ (s.add x).pool := by
  unfold State.add
  split
  · exact h
  · simp [h]

/-! ### `Proxy.reset` and friends keep what they do not set -/

@[simp] theorem reset_pt (x : Proxy) (a : Option Status) (b c d : Option Bool) :
    (x.reset a b c d).pt = x.pt := by unfold Proxy.reset; simp only; split <;> rfl
@[simp] theorem reset_name (x : Proxy) (a : Option Status) (b c d : Option Bool) :
    (x.reset a b c d).name = x.name := by unfold Proxy.reset; simp only; split <;> rfl
@[simp] theorem reset_submitNum (x : Proxy) (a : Option Status) (b c d : Option Bool) :
    (x.reset a b c d).submitNum = x.submitNum := by unfold Proxy.reset; simp only; split <;> rfl

/-- `reset` without a `held` argument keeps the held flag -/
@[simp] theorem reset_held_none (x : Proxy) (a : Option Status) (b c : Option Bool) :
    (x.reset a b c none).held = x.held := by
  unfold Proxy.reset; simp only; split <;> simp

theorem reset_held_some (x : Proxy) (v : Bool) :
    (x.reset none none none (some v)).held = v := by
  unfold Proxy.reset
  simp only [Option.getD_none, Option.getD_some]
  split
  · rename_i h
    simp only [beq_self_eq_true, Bool.true_and, beq_iff_eq] at h
    simpa using h.symm
  · rfl

@[simp] theorem satisfyMe_pt (x : Proxy) (a : Atom) : (x.satisfyMe a).pt = x.pt := rfl
@[simp] theorem satisfyMe_name (x : Proxy) (a : Atom) : (x.satisfyMe a).name = x.name := rfl
@[simp] theorem satisfyMe_held (x : Proxy) (a : Atom) : (x.satisfyMe a).held = x.held := rfl

theorem foldl_satisfyMe (l : List Atom) (x : Proxy) :
    (l.foldl (fun z a => z.satisfyMe a) x).pt = x.pt ∧ (l.foldl (fun z a => z.satisfyMe a) x).name = x.name ∧
      (l.foldl (fun z a => z.satisfyMe a) x).held = x.held := by
  induction l generalizing x with
  | nil => exact ⟨rfl, rfl, rfl⟩
  | cons a l ih => simp only [List.foldl_cons]; exact ih _

theorem setComplete_fields (g : Graph) (x : Proxy) (m : String) :
    (setComplete g x m).1.pt = x.pt ∧ (setComplete g x m).1.name = x.name ∧ (setComplete g x m).1.held = x.held := by
  unfold setComplete
  split
  · exact ⟨rfl, rfl, rfl⟩
  · split <;> exact ⟨rfl, rfl, rfl⟩

/-! ### `launched`: only `releaseAndSubmit` records job launches -/

/-- `spawnTask` changes nothing of the state but `tasksToHold` -/
theorem spawnTask_state (g : Graph) (s : State) (n : String) (p : Int) :
    (spawnTask g s n p).1 = { s with tasksToHold := (spawnTask g s n p).1.tasksToHold } := by
  unfold spawnTask
  simp only
  repeat' split
  all_goals rfl

theorem launched_spawnTask (g : Graph) (s : State) (n : String) (p : Int) :
    (spawnTask g s n p).1.launched = s.launched := by
  rw [spawnTask_state]

theorem pool_spawnTask (g : Graph) (s : State) (n : String) (p : Int) :
    (spawnTask g s n p).1.pool = s.pool := by
  rw [spawnTask_state]

theorem launched_add (s : State) (x : Proxy) : (s.add x).launched = s.launched := by
  unfold State.add; split <;> rfl

theorem launched_spawnAndAdd (g : Graph) (s : State) (n : String) (p : Int) :
    (spawnAndAdd g s n p).launched = s.launched := by
  unfold spawnAndAdd
  split
  · rfl
  · split
    · rename_i h; rw [launched_add]; have := launched_spawnTask g s n p; rw [h] at this; exact this
    · rename_i h; have := launched_spawnTask g s n p; rw [h] at this; exact this

theorem launched_spawnNextParentless (g : Graph) (s : State) (x : Proxy) :
    (spawnNextParentless g s x).launched = s.launched := by
  unfold spawnNextParentless
  split
  · rfl
  · split
    · exact launched_spawnAndAdd _ _ _ _
    · rfl

theorem launched_computeRunahead (g : Graph) (s : State) (f : Bool) :
    (computeRunahead g s f).launched = s.launched := by
  unfold computeRunahead
  simp only
  split
  · rfl
  · split <;> rfl

theorem launched_releaseRunahead (g : Graph) (s : State) : (releaseRunahead g s).1.launched = s.launched := by
  unfold releaseRunahead
  split
  · rfl
  · split
    · rfl
    · simp only
      apply foldl_inv (fun st : State => st.launched = s.launched)
      · intro st x hst
        rw [launched_spawnNextParentless]
        split
        · exact hst
        · exact hst
      · rfl

theorem launched_releaseHeldActive (s : State) (x : Proxy) : (releaseHeldActive s x).launched = s.launched := by
  unfold releaseHeldActive
  simp only
  split <;> rfl

theorem launched_holdActive (s : State) (x : Proxy) : (holdActive s x).launched = s.launched := by
  unfold holdActive
  simp only
  split <;> rfl

theorem launched_remove (g : Graph) (s : State) (x : Proxy) : (remove g s x).launched = s.launched := by
  unfold remove
  simp only
  split
  · rw [launched_spawnNextParentless, launched_releaseHeldActive]
  · rw [launched_releaseHeldActive]

theorem launched_removeIfComplete (g : Graph) (s : State) (x : Proxy) :
    (removeIfComplete g s x).launched = s.launched := by
  unfold removeIfComplete
  split
  · rfl
  · simp only
    have key : ∀ s1 : State, s1.launched = s.launched →
        (match g.task? x.name with
          | none => s1
          | some t => if isComplete t x.done = true then remove g s1 x else s1).launched = s.launched := by
      intro s1 h1
      split
      · exact h1
      · split
        · rw [launched_remove]; exact h1
        · exact h1
    apply key
    split <;> rfl

theorem launched_put (s : State) (x : Proxy) : (s.put x).launched = s.launched := rfl

/-- the second half of `spawnChild`, after the child was found or spawned -/
def spawnChildFin (p : Int) (n out : String) (sui : List (Int × String)) (c : Child)
    (st1 : State) (ch : Option Proxy) (inPool : Bool) : State × List (Int × String) :=
  match ch with
  | none => (st1, sui)
  | some y =>
    let st2 : State := if inPool then st1 else st1.add (y.satisfyMe ⟨p, n, out⟩)
    let targets : List (Int × String) :=
      if c.isAbs then
        let others := (st2.pool.filter fun z => z.name == c.name).map fun z => (z.pt, z.name)
        if others.contains (c.pt, c.name) then others else others ++ [(c.pt, c.name)]
      else [(c.pt, c.name)]
    targets.foldl (fun (a : State × List (Int × String)) k =>
      match a.1.get? k.1 k.2 with
      | none => a
      | some z =>
        let z := z.satisfyMe ⟨p, n, out⟩
        (a.1.put z, if z.suicideNow && !a.2.contains k then a.2 ++ [k] else a.2)) (st2, sui)

/-- `spawnChild` in two halves -/
theorem spawnChild_eq (g : Graph) (p : Int) (n out : String) (st : State) (sui : List (Int × String)) (c : Child) :
    spawnChild g p n out (st, sui) c =
      (let st0 : State := if c.isAbs && !st.absDone.contains ⟨p, n, out⟩ then
          { st with absDone := st.absDone ++ [⟨p, n, out⟩] } else st
       match st0.get? c.pt c.name with
       | some y => spawnChildFin p n out sui c st0 (some y) true
       | none => spawnChildFin p n out sui c (spawnTask g st0 c.name c.pt).1 (spawnTask g st0 c.name c.pt).2 false) := by
  unfold spawnChild
  simp only
  generalize (if (c.isAbs && !st.absDone.contains ⟨p, n, out⟩) = true then
      { st with absDone := st.absDone ++ [⟨p, n, out⟩] } else st) = st0
  cases hg : st0.get? c.pt c.name with
  | some y => rfl
  | none =>
    simp only
    generalize spawnTask g st0 c.name c.pt = R
    obtain ⟨st1, ch⟩ := R
    cases ch <;> rfl

theorem launched_spawnChildFin (p : Int) (n out : String) (sui : List (Int × String)) (c : Child)
    (st1 : State) (ch : Option Proxy) (inPool : Bool) :
    (spawnChildFin p n out sui c st1 ch inPool).1.launched = st1.launched := by
  unfold spawnChildFin
  split
  · rfl
  · refine foldl_inv (fun a : State × List (Int × String) => a.1.launched = st1.launched) _ ?_ _ _ ?_
    · intro a k ha
      simp only
      split
      · exact ha
      · exact ha
    · simp only
      split
      · rfl
      · rw [launched_add]

theorem launched_spawnChild (g : Graph) (p : Int) (n out : String) (acc : State × List (Int × String)) (c : Child) :
    (spawnChild g p n out acc c).1.launched = acc.1.launched := by
  obtain ⟨st, sui⟩ := acc
  rw [spawnChild_eq]
  simp only
  have h0 : (if (c.isAbs && !st.absDone.contains ⟨p, n, out⟩) = true then
      { st with absDone := st.absDone ++ [⟨p, n, out⟩] } else st).launched = st.launched := by
    split <;> rfl
  generalize (if (c.isAbs && !st.absDone.contains ⟨p, n, out⟩) = true then
      { st with absDone := st.absDone ++ [⟨p, n, out⟩] } else st) = st0 at h0 ⊢
  split
  · rw [launched_spawnChildFin]; exact h0
  · rw [launched_spawnChildFin, launched_spawnTask]; exact h0

theorem launched_spawnOnOutput (g : Graph) (s : State) (p : Int) (n out : String) :
    (spawnOnOutput g s p n out).launched = s.launched := by
  unfold spawnOnOutput
  split
  · rfl
  · simp only
    have h1 : ∀ (cs : List Child) (acc : State × List (Int × String)),
        (cs.foldl (spawnChild g p n out) acc).1.launched = acc.1.launched := by
      intro cs; induction cs with
      | nil => intro acc; rfl
      | cons c cs ih => intro acc; simp only [List.foldl_cons]; rw [ih, launched_spawnChild]
    have h2 : ∀ (ks : List (Int × String)) (st : State),
        (ks.foldl (fun (st : State) k => match st.get? k.1 k.2 with
          | some z => remove g st z
          | none => st) st).launched = st.launched := by
      intro ks; induction ks with
      | nil => intro st; rfl
      | cons k ks ih =>
        intro st
        simp only [List.foldl_cons]
        rw [ih]
        split
        · rw [launched_remove]
        · rfl
    generalize hR : (List.foldl (spawnChild g p n out) (s, []) _) = R
    have hRn : R.1.launched = s.launched := by rw [← hR, h1]
    have h3 := h2 R.2 R.1
    split
    · rw [launched_removeIfComplete]; exact h3.trans hRn
    · exact h3.trans hRn

theorem launched_store (s : State) (x : Proxy) (tr : Bool) : (store s x tr).launched = s.launched := by
  unfold store; split <;> rfl

theorem launched_spawnChildren (g : Graph) (s : State) (p : Int) (n out : String) (tr : Bool) :
    (spawnChildren g s p n out tr).launched = s.launched := by
  unfold spawnChildren; split
  · rfl
  · exact launched_spawnOnOutput _ _ _ _ _

theorem launched_processMessage (g : Graph) : ∀ (fuel : Nat) (s : State) (p : Int) (n : String) (flag : Flag)
    (sn : Nat) (msg : String), (processMessage g fuel s p n flag sn msg).1.launched = s.launched := by
  intro fuel
  induction fuel with
  | zero => intro s p n flag sn msg; rfl
  | succ fuel ih =>
    intro s p n flag sn msg
    unfold processMessage
    split
    · rfl
    · rename_i x tr _
      split
      · rfl
      · split
        · rfl
        · simp only
          have himp : ∀ (l : List String) (st : State),
              (l.foldl (fun st m => (processMessage g fuel st p n .internal sn m).1) st).launched = st.launched := by
            intro l; induction l with
            | nil => intro st; rfl
            | cons a l ihl => intro st; simp only [List.foldl_cons]; rw [ihl, ih]
          generalize hS : (List.foldl (fun st m => (processMessage g fuel st p n Flag.internal sn m).1) _ _) = S
          have hSn : S.launched = s.launched := by rw [← hS, himp, launched_store]
          split
          · exact hSn
          · repeat' split
            all_goals first
              | exact hSn
              | (rw [launched_store]; exact hSn)
              | (rw [launched_spawnChildren, launched_store]; exact hSn)
              | (rw [launched_spawnChildren]; exact hSn)

theorem launched_processQueue (g : Graph) (s : State) : (processQueue g s).launched = s.launched := by
  unfold processQueue
  refine foldl_inv (fun st : State => st.launched = s.launched) _ ?_ _ _ rfl
  intro st grp hst
  simp only
  split
  · exact hst
  · have : ∀ (l : List Msg) (acc : State × Bool),
        (l.foldl (fun (acc : State × Bool) m =>
          let (st', pl) := processMessage g 4 acc.1 grp.1.1 grp.1.2 .received m.submitNum m.text
          (st', acc.2 || pl)) acc).1.launched = acc.1.launched := by
      intro l; induction l with
      | nil => intro acc; rfl
      | cons m l ihl =>
        intro acc
        simp only [List.foldl_cons]
        rw [ihl]
        exact launched_processMessage g 4 _ _ _ _ _ _
    have h2 := this grp.2 (st, false)
    split
    · simp only; rw [h2]; exact hst
    · rw [h2]; exact hst

theorem launched_checkStalled (g : Graph) (s : State) : (checkStalled g s).launched = s.launched := by
  unfold checkStalled; split
  · rfl
  · split
    · rfl
    · split <;> rfl

theorem launched_checkAutoShutdown (g : Graph) (s : State) : (checkAutoShutdown g s).1.launched = s.launched := by
  unfold checkAutoShutdown
  split
  · rfl
  · simp only
    split
    · exact launched_checkStalled _ _
    · split
      · exact launched_checkStalled _ _
      · exact launched_checkStalled _ _

theorem launched_stopTaskDone (s : State) : (stopTaskDone s).1.launched = s.launched := by
  unfold stopTaskDone; split <;> rfl

theorem launched_queueIfReady (s : State) (x : Proxy) : (queueIfReady s x).launched = s.launched := by
  unfold queueIfReady; split <;> rfl

theorem launched_sweepQueue (s : State) : (sweepQueue s).launched = s.launched := by
  unfold sweepQueue
  refine foldl_inv (fun st : State => st.launched = s.launched) _ ?_ _ _ rfl
  intro st x hst
  split
  · split
    · rw [launched_queueIfReady]; exact hst
    · exact hst
  · exact hst

theorem launched_finishLoop (g : Graph) (s : State) : (finishLoop g s).launched = s.launched := by
  unfold finishLoop
  extract_lets hasUpd s1 s2 s3
  have h1 : s1.launched = s.launched := by simp only [s1]; split <;> rfl
  have h2 : s2.launched = s.launched := by simp only [s2]; split <;> exact h1
  have h3 : s3.launched = s.launched := h2
  split
  · rw [launched_checkStalled]; exact h3
  · exact h3

/-! ### `releaseAndSubmit`: who is launched -/

/-- the launches recorded by `releaseAndSubmit`: exactly the queued, not held proxies -/
theorem launched_releaseAndSubmit (s : State) :
    (releaseAndSubmit s).launched =
      s.launched ++ ((s.pool.filter fun x => x.queued && !x.held).map fun x => (x.pt, x.name, x.submitNum + 1)) := by
  unfold releaseAndSubmit
  simp only
  split
  · rename_i h
    simp only [List.isEmpty_iff] at h
    rw [h]; simp
  · show (List.foldl _ s _).launched = _
    have : ∀ (l : List Proxy) (st : State),
        (l.foldl (fun (st : State) x =>
          let y := x.reset (queued := some false)
          let y := { (y.reset (status := some .preparing)) with submitNum := x.submitNum + 1, live := true, timers := true }
          { (st.put y) with launched := st.launched ++ [(x.pt, x.name, x.submitNum + 1)] }) st).launched =
          st.launched ++ l.map fun x => (x.pt, x.name, x.submitNum + 1) := by
      intro l; induction l with
      | nil => intro st; simp
      | cons a l ih =>
        intro st
        simp only [List.foldl_cons, List.map_cons]
        rw [ih]
        simp
    exact this _ _

/-- **`releaseAndSubmit` skips held proxies**: every launch it records is for a proxy of the pool that is
queued and not held -/
theorem releaseAndSubmit_launch_not_held (s : State) (l : Int × String × Nat)
    (h : l ∈ (releaseAndSubmit s).launched) (h0 : l ∉ s.launched) :
    ∃ x ∈ s.pool, x.pt = l.1 ∧ x.name = l.2.1 ∧ x.submitNum + 1 = l.2.2 ∧ x.queued = true ∧ x.held = false := by
  rw [launched_releaseAndSubmit] at h
  rcases List.mem_append.mp h with h | h
  · exact absurd h h0
  · obtain ⟨x, hx, rfl⟩ := List.mem_map.mp h
    have := List.mem_filter.mp hx
    simp only [Bool.and_eq_true, Bool.not_eq_true', ] at this
    exact ⟨x, this.1, rfl, rfl, rfl, this.2.1, this.2.2⟩

/-! ### `KeyHeld`: a held instance stays held up to the release of jobs -/

/-- the instance `(p, n)` is in the pool and every proxy of that key is held -/
def KeyHeld (p : Int) (n : String) (s : State) : Prop :=
  (∃ x ∈ s.pool, x.pt = p ∧ x.name = n) ∧ ∀ x ∈ s.pool, x.pt = p → x.name = n → x.held = true

theorem keyHeld_put {p : Int} {n : String} {s : State} (x : Proxy) (h : KeyHeld p n s)
    (hx : x.pt = p → x.name = n → x.held = true) : KeyHeld p n (s.put x) := by
  obtain ⟨⟨z, hz, hzp, hzn⟩, hall⟩ := h
  constructor
  · by_cases hk : z.pt = x.pt ∧ z.name = x.name
    · exact ⟨x, mem_put_self hz hk, hk.1 ▸ hzp, hk.2 ▸ hzn⟩
    · exact ⟨z, mem_put_of_ne hz hk, hzp, hzn⟩
  · intro y hy hyp hyn
    rcases mem_put hy with ⟨rfl, _⟩ | ⟨hy', _⟩
    · exact hx hyp hyn
    · exact hall y hy' hyp hyn

theorem keyHeld_add {p : Int} {n : String} {s : State} (x : Proxy) (h : KeyHeld p n s) : KeyHeld p n (s.add x) := by
  obtain ⟨⟨z, hz, hzp, hzn⟩, hall⟩ := h
  constructor
  · exact ⟨z, mem_add_of_mem hz, hzp, hzn⟩
  · intro y hy hyp hyn
    rcases mem_add hy with hy' | ⟨rfl, hnone⟩
    · exact hall y hy' hyp hyn
    · exact absurd ⟨hzp.trans hyp.symm, hzn.trans hyn.symm⟩ (get?_none_forall hnone z hz)

theorem keyHeld_pool {p : Int} {n : String} {s s' : State} (h : KeyHeld p n s) (hp : s'.pool = s.pool) :
    KeyHeld p n s' := by
  unfold KeyHeld at *; rw [hp]; exact h

theorem keyHeld_spawnAndAdd {p : Int} {n : String} {s : State} (g : Graph) (m : String) (q : Int)
    (h : KeyHeld p n s) : KeyHeld p n (spawnAndAdd g s m q) := by
  unfold spawnAndAdd
  split
  · exact h
  · have hp := pool_spawnTask g s m q
    split
    · rename_i st y heq
      rw [heq] at hp
      exact keyHeld_add _ (keyHeld_pool h hp)
    · rename_i st heq
      rw [heq] at hp
      exact keyHeld_pool h hp

theorem keyHeld_spawnNextParentless {p : Int} {n : String} {s : State} (g : Graph) (x : Proxy)
    (h : KeyHeld p n s) : KeyHeld p n (spawnNextParentless g s x) := by
  unfold spawnNextParentless
  split
  · exact h
  · split
    · exact keyHeld_spawnAndAdd _ _ _ h
    · exact h

theorem pool_computeRunahead (g : Graph) (s : State) (f : Bool) : (computeRunahead g s f).pool = s.pool := by
  unfold computeRunahead
  simp only
  split
  · rfl
  · split <;> rfl

theorem keyHeld_releaseRunahead {p : Int} {n : String} {s : State} (g : Graph)
    (h : KeyHeld p n s) : KeyHeld p n (releaseRunahead g s).1 := by
  unfold releaseRunahead
  split
  · exact h
  · split
    · exact h
    · simp only
      refine foldl_inv (KeyHeld p n) _ ?_ _ _ h
      intro st x hst
      apply keyHeld_spawnNextParentless
      split
      · rename_i y hy
        obtain ⟨hy1, hy2, hy3⟩ := get?_some_mem hy
        apply keyHeld_put _ hst
        intro hp hn
        rw [reset_held_none]
        exact hst.2 y hy1 (by simpa using hp) (by simpa using hn)
      · exact hst

theorem pool_checkStalled (g : Graph) (s : State) : (checkStalled g s).pool = s.pool := by
  unfold checkStalled; split
  · rfl
  · split
    · rfl
    · split <;> rfl

theorem pool_checkAutoShutdown (g : Graph) (s : State) : (checkAutoShutdown g s).1.pool = s.pool := by
  unfold checkAutoShutdown
  split
  · rfl
  · simp only
    split
    · exact pool_checkStalled _ _
    · split
      · exact pool_checkStalled _ _
      · exact pool_checkStalled _ _

theorem pool_stopTaskDone (s : State) : (stopTaskDone s).1.pool = s.pool := by
  unfold stopTaskDone; split <;> rfl

theorem keyHeld_queueIfReady {p : Int} {n : String} {s : State} (x : Proxy) (h : KeyHeld p n s)
    (hx : x.pt = p → x.name = n → x.held = true) : KeyHeld p n (queueIfReady s x) := by
  unfold queueIfReady
  split
  · apply keyHeld_put _ h
    intro hp hn
    rw [reset_held_none]
    exact hx (by simpa using hp) (by simpa using hn)
  · exact h

theorem keyHeld_sweepQueue {p : Int} {n : String} {s : State} (h : KeyHeld p n s) : KeyHeld p n (sweepQueue s) := by
  unfold sweepQueue
  refine foldl_inv (KeyHeld p n) _ ?_ _ _ h
  intro st x hst
  split
  · rename_i y hy
    obtain ⟨hy1, hy2, hy3⟩ := get?_some_mem hy
    split
    · have hyh : ({ y with retryWait := false } : Proxy).pt = p → ({ y with retryWait := false } : Proxy).name = n →
          ({ y with retryWait := false } : Proxy).held = true := fun hp hn => hst.2 y hy1 hp hn
      exact keyHeld_queueIfReady _ (keyHeld_put _ hst hyh) hyh
    · exact hst
  · exact hst

/-- `s'` differs from `s` in neither pool, launches, hold table nor hold point -/
def Same (s' s : State) : Prop :=
  s'.pool = s.pool ∧ s'.launched = s.launched ∧ s'.tasksToHold = s.tasksToHold ∧ s'.holdPoint = s.holdPoint

theorem Same.refl (s : State) : Same s s := ⟨rfl, rfl, rfl, rfl⟩
theorem Same.trans {a b c : State} (h1 : Same a b) (h2 : Same b c) : Same a c :=
  ⟨h1.1.trans h2.1, h1.2.1.trans h2.2.1, h1.2.2.1.trans h2.2.2.1, h1.2.2.2.trans h2.2.2.2⟩

theorem same_checkStalled (g : Graph) (s : State) : Same (checkStalled g s) s := by
  unfold checkStalled; split
  · exact Same.refl s
  · split
    · exact Same.refl s
    · split
      · exact ⟨rfl, rfl, rfl, rfl⟩
      · exact Same.refl s

theorem same_checkAutoShutdown (g : Graph) (s : State) : Same (checkAutoShutdown g s).1 s := by
  unfold checkAutoShutdown
  split
  · exact Same.refl s
  · simp only
    split
    · exact same_checkStalled _ _
    · split
      · exact same_checkStalled _ _
      · exact same_checkStalled _ _

theorem same_stopTaskDone (s : State) : Same (stopTaskDone s).1 s := by
  unfold stopTaskDone; split
  · exact ⟨rfl, rfl, rfl, rfl⟩
  · exact Same.refl s

theorem same_computeRunahead (g : Graph) (s : State) (f : Bool) : Same (computeRunahead g s f) s := by
  unfold computeRunahead
  simp only
  split
  · exact Same.refl s
  · split
    · exact ⟨rfl, rfl, rfl, rfl⟩
    · exact ⟨rfl, rfl, rfl, rfl⟩

/-- the `workflow_shutdown` block of the main loop touches neither the pool, the launches nor the holds -/
theorem shutdownBlock_same (g : Graph) (s2 : State) :
    let s3 : State :=
      if s2.stopMode.isNone = true then
        match stopTaskDone s2 with
        | (s, std) =>
          if std = true then { s with stopMode := some "AUTOMATIC" }
          else
            match checkAutoShutdown g s with
            | (s, auto) => if auto = true then { s with stopMode := some "AUTOMATIC" } else s
      else s2
    Same s3 s2 := by
  intro s3
  simp only [s3]
  split
  · split
    · exact same_stopTaskDone s2
    · split
      · exact (same_checkAutoShutdown g _).trans (same_stopTaskDone s2)
      · exact (same_checkAutoShutdown g _).trans (same_stopTaskDone s2)
  · exact Same.refl s2

theorem mainLoop_held_no_launch (g : Graph) (s : State) (p : Int) (n : String) (h : KeyHeld p n s)
    (sn : Nat) (h0 : (p, n, sn) ∉ s.launched) : (p, n, sn) ∉ (mainLoop g s).launched := by
  unfold mainLoop
  split
  · exact h0
  · extract_lets s1 s2 s3 s4 s5 s6
    have k1 : KeyHeld p n s1 := keyHeld_pool h (pool_computeRunahead g s false)
    have l1 : s1.launched = s.launched := launched_computeRunahead g s false
    have k2 : KeyHeld p n s2 := keyHeld_releaseRunahead g k1
    have l2 : s2.launched = s.launched := (launched_releaseRunahead g s1).trans l1
    obtain ⟨hp3, hl3, _, _⟩ := shutdownBlock_same g s2
    have k3 : KeyHeld p n s3 := keyHeld_pool k2 hp3
    have l3 : s3.launched = s.launched := hl3.trans l2
    split
    · show (p, n, sn) ∉ s3.launched
      rw [l3]; exact h0
    · have k4 : KeyHeld p n s4 := keyHeld_sweepQueue k3
      have l4 : s4.launched = s.launched := (launched_sweepQueue s3).trans l3
      have l5 : (p, n, sn) ∉ s5.launched := by
        simp only [s5]
        split
        · intro hm
          obtain ⟨x, hx, hxp, hxn, _, _, hxh⟩ := releaseAndSubmit_launch_not_held s4 _ hm (by rw [l4]; exact h0)
          have := k4.2 x hx hxp hxn
          rw [hxh] at this
          exact absurd this (by decide)
        · rw [l4]; exact h0
      rw [launched_finishLoop, launched_processQueue]
      exact l5

theorem launched_setHoldPoint (s : State) (p : Int) : (setHoldPoint s p).launched = s.launched := by
  unfold setHoldPoint
  simp only
  refine foldl_inv (fun st : State => st.launched = s.launched) _ ?_ _ _ rfl
  intro st x hst
  split
  · split
    · rw [launched_holdActive]; exact hst
    · exact hst
  · exact hst

theorem launched_holdTasks (s : State) (ids : List (Int × String)) : (holdTasks s ids).launched = s.launched := by
  unfold holdTasks
  refine foldl_inv (fun st : State => st.launched = s.launched) _ ?_ _ _ rfl
  intro st k hst
  split
  · rw [launched_holdActive]; exact hst
  · split
    · exact hst
    · exact hst

theorem launched_releaseTasks (s : State) (ids : List (Int × String)) : (releaseTasks s ids).launched = s.launched := by
  unfold releaseTasks
  refine foldl_inv (fun st : State => st.launched = s.launched) _ ?_ _ _ rfl
  intro st k hst
  split
  · exact hst
  · split
    · rw [launched_releaseHeldActive]; exact hst
    · exact hst

theorem launched_releaseHoldPoint (s : State) : (releaseHoldPoint s).launched = s.launched := by
  unfold releaseHoldPoint
  simp only
  refine foldl_inv (fun st : State => st.launched = s.launched) _ ?_ _ _ rfl
  intro st x hst
  split
  · rw [launched_releaseHeldActive]; exact hst
  · exact hst

theorem launched_setStopPoint (s : State) (p : Int) : (setStopPoint s p).launched = s.launched := by
  unfold setStopPoint
  split
  · rfl
  · simp only
    split
    · split <;> rfl
    · rfl

theorem launched_restart (g : Graph) (s : State) : (restart g s).launched = [] := by
  unfold restart
  extract_lets restore cfgStop pool wait s'
  split
  · rw [launched_setHoldPoint]
  · rfl

/-- **job launches happen only in main loops**: every other operation records none -/
theorem launched_step_of_ne_loop (g : Graph) (s : State) (op : Op) (h : op ≠ .loop) : (step g s op).launched = [] := by
  unfold step
  have hc : (clearOp s).launched = [] := rfl
  cases op with
  | loop => exact absurd rfl h
  | subres p n ok sn => simp only; rw [launched_processMessage]; exact hc
  | msg p n sn text => exact hc
  | hold ids => simp only; rw [launched_holdTasks]; exact hc
  | release ids => simp only; rw [launched_releaseTasks]; exact hc
  | setHoldPoint p => simp only; rw [launched_setHoldPoint]; exact hc
  | releaseHoldPoint => simp only; rw [launched_releaseHoldPoint]; exact hc
  | stop mode => exact hc
  | stopPoint p => simp only; rw [launched_setStopPoint]; exact hc
  | stopTask p n => exact hc
  | pause => exact hc
  | resume => exact hc
  | restart => exact launched_restart g _

/-- a held pooled instance is not launched by any operation -/
theorem step_held_no_launch (g : Graph) (s : State) (op : Op) (p : Int) (n : String) (h : KeyHeld p n s)
    (sn : Nat) : (p, n, sn) ∉ (step g s op).launched := by
  by_cases hop : op = .loop
  · subst hop
    have hk : KeyHeld p n (clearOp s) := keyHeld_pool h rfl
    exact mainLoop_held_no_launch g (clearOp s) p n hk sn (by simp [clearOp])
  · rw [launched_step_of_ne_loop g s op hop]; simp

def beyondHold (hp : Option Int) (p : Int) : Bool :=
  match hp with | some h => decide (p > h) | none => false

theorem mkProxy_fields {g : Graph} {n : String} {p : Int} {x : Proxy} (h : mkProxy g n p = some x) :
    x.pt = p ∧ x.name = n ∧ x.held = false := by
  unfold mkProxy at h
  simp only [Option.bind_eq_bind, Option.pure_def] at h
  cases ht : g.task? n with
  | none => simp [ht] at h
  | some t =>
    simp only [ht, Option.bind_some] at h
    split at h
    · simp at h
    · cases hd : t.inst? p with
      | none => simp [hd] at h
      | some d =>
        simp only [hd, Option.bind_some, Option.some.injEq] at h
        subst h
        exact ⟨rfl, rfl, rfl⟩

/-- the DB-history part of `spawnTask`, on its own -/
def reviveAtSpawn (g : Graph) (s : State) (name : String) (p : Int) (x : Proxy) : Option Proxy :=
  match (s.hist.filter fun h => h.pt == p && h.name == name).getLast? with
  | none => some x
  | some h =>
    if h.done.isEmpty then none
    else
      let y := { x with status := h.status, submitNum := h.submitNum, done := h.done }
      if h.status.isFinal then
        match g.task? name with
        | some t => if isComplete t h.done then none else some y
        | none => none
      else some y

/-- the hold decision of `spawnTask`, on its own -/
def holdAtSpawn (s : State) (name : String) (p : Int) (y : Proxy) : State × Proxy :=
  if s.tasksToHold.contains (name, p) then (s, y.reset (held := some true))
  else match s.holdPoint with
    | some hp => if p > hp then
        ({ s with tasksToHold := s.tasksToHold ++ [(name, p)] }, y.reset (held := some true))
      else (s, y)
    | none => (s, y)

/-- the absolute-trigger part of `spawnTask`, on its own -/
def absAtSpawn (g : Graph) (s : State) (name : String) (y : Proxy) : Proxy :=
  match g.task? name with
  | some t => if t.hasAbs && !y.prereqsSatisfied then s.absDone.foldl (fun z a => z.satisfyMe a) y else y
  | none => y

/-- `spawnTask` in named parts -/
theorem spawnTask_eq (g : Graph) (s : State) (name : String) (p : Int) :
    spawnTask g s name p =
      (if (s.hist.filter fun h => h.pt == p && h.name == name).getLast?.isNone && p < g.start then (s, none)
       else match mkProxy g name p with
        | none => (s, none)
        | some x =>
          match reviveAtSpawn g s name p x with
          | none => (s, none)
          | some y => ((holdAtSpawn s name p y).1, some (absAtSpawn g (holdAtSpawn s name p y).1 name (holdAtSpawn s name p y).2))) := by
  unfold spawnTask reviveAtSpawn holdAtSpawn absAtSpawn
  rfl

theorem reviveAtSpawn_fields {g : Graph} {s : State} {n : String} {p : Int} {x y : Proxy}
    (h : reviveAtSpawn g s n p x = some y) : y.pt = x.pt ∧ y.name = x.name ∧ y.held = x.held := by
  unfold reviveAtSpawn at h
  split at h
  · simp only [Option.some.injEq] at h; subst h; exact ⟨rfl, rfl, rfl⟩
  · split at h
    · simp at h
    · simp only at h
      split at h
      · split at h
        · split at h
          · simp at h
          · simp only [Option.some.injEq] at h; subst h; exact ⟨rfl, rfl, rfl⟩
        · simp at h
      · simp only [Option.some.injEq] at h; subst h; exact ⟨rfl, rfl, rfl⟩

theorem absAtSpawn_fields (g : Graph) (s : State) (n : String) (y : Proxy) :
    (absAtSpawn g s n y).pt = y.pt ∧ (absAtSpawn g s n y).name = y.name ∧ (absAtSpawn g s n y).held = y.held := by
  unfold absAtSpawn
  split
  · split
    · exact foldl_satisfyMe _ _
    · exact ⟨rfl, rfl, rfl⟩
  · exact ⟨rfl, rfl, rfl⟩

/-- what the hold decision does: the proxy is held exactly when a hold was requested for it or it lies beyond the
hold point; in the second case the instance is entered in `tasksToHold` -/
theorem holdAtSpawn_spec (s : State) (n : String) (p : Int) (y : Proxy) (hy : y.held = false) :
    (holdAtSpawn s n p y).2.pt = y.pt ∧ (holdAtSpawn s n p y).2.name = y.name ∧
    (holdAtSpawn s n p y).2.held = (s.tasksToHold.contains (n, p) || beyondHold s.holdPoint p) ∧
    (holdAtSpawn s n p y).1 = { s with tasksToHold :=
      if (!(s.tasksToHold.contains (n, p)) && beyondHold s.holdPoint p) then s.tasksToHold ++ [(n, p)] else s.tasksToHold } := by
  unfold holdAtSpawn beyondHold
  split
  · rename_i hc
    have hc' : (n, p) ∈ s.tasksToHold := by simpa using hc
    simp [hc', reset_held_some]
  · rename_i hc
    have hc' : (n, p) ∉ s.tasksToHold := by simpa using hc
    split
    · rename_i hp hhp
      split
      · rename_i hgt
        simp [hc', hgt, reset_held_some]
      · rename_i hgt
        simp [hc', hgt, hy]
    · simp [hc', hy]

/-- the hold table after spawning `(n, p)`: the instance is entered when it lies beyond the hold point -/
def holdTableAfterSpawn (s : State) (n : String) (p : Int) : List (String × Int) :=
  if (!(s.tasksToHold.contains (n, p)) && beyondHold s.holdPoint p) then s.tasksToHold ++ [(n, p)] else s.tasksToHold

theorem spawnTask_none {g : Graph} {s : State} {n : String} {p : Int}
    (h : (spawnTask g s n p).2 = none) : (spawnTask g s n p).1 = s := by
  rw [spawnTask_eq] at h ⊢
  split
  · rfl
  · split
    · rfl
    · split
      · rfl
      · rename_i h1 _ _ _ _ _ _
        rw [if_neg h1] at h
        simp_all

/-- **`spawnTask`, hold part**: a newly spawned proxy is held exactly when a hold was requested for the instance
earlier or the instance lies beyond the hold point; nothing else of the state changes but the hold table entry. -/
theorem spawnTask_some {g : Graph} {s : State} {n : String} {p : Int} {y : Proxy}
    (h : (spawnTask g s n p).2 = some y) :
    y.pt = p ∧ y.name = n ∧ y.held = (s.tasksToHold.contains (n, p) || beyondHold s.holdPoint p) ∧
    (spawnTask g s n p).1 = { s with tasksToHold := holdTableAfterSpawn s n p } := by
  rw [spawnTask_eq] at h ⊢
  split at h
  · simp at h
  · rename_i h1
    rw [if_neg h1]
    split at h
    · simp at h
    · rename_i x hx
      obtain ⟨hx1, hx2, hx3⟩ := mkProxy_fields hx
      split at h
      · simp at h
      · rename_i y1 hy1
        obtain ⟨hr1, hr2, hr3⟩ := reviveAtSpawn_fields hy1
        simp only [Option.some.injEq] at h
        obtain ⟨hs1, hs2, hs3, hs4⟩ := holdAtSpawn_spec s n p y1 (hr3.trans hx3)
        obtain ⟨ha1, ha2, ha3⟩ := absAtSpawn_fields g (holdAtSpawn s n p y1).1 n (holdAtSpawn s n p y1).2
        subst h
        refine ⟨?_, ?_, ?_, ?_⟩
        · rw [ha1, hs1, hr1, hx1]
        · rw [ha2, hs2, hr2, hx2]
        · rw [ha3, hs3]
        · exact hs4

end CylcModel.Sched2
