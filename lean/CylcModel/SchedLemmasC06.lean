/-
Helper lemmas for C06 over the `Sched2` model (holds, hold point, restart), one lemma per primitive of the
model, lifted over op lists with `run_inv`.  Families:

* `launched_*`  : no primitive other than `releaseAndSubmit` records a job launch; `releaseAndSubmit` launches
                  exactly the queued, not held proxies (`launched_releaseAndSubmit`);
* `keyHeld_*`   : the part of a main loop that precedes job release keeps a held instance held
                  (`mainLoop_held_no_launch`, `step_held_no_launch`);
* `spawnTask_*` : `spawnTask` in named parts (`spawnTask_eq`) and its hold decision (`spawnTask_some`);
* `holdInv_*`   : in the pool, `held` is exactly membership in `tasksToHold` (`HoldInv`, `holdInv_run`);
* `holdBeyondFold_*`, `restart_*` : what `setHoldPoint` and `restart` do to pool, hold table and hold point;
* `holdTasks_*` : a hold command records every id;
* `keeps_*`     : a recorded hold disappears only by a release command or with the removal of the instance
                  (`Keeps`, `keeps_step`).
Auxiliary definitions (`spawnChildFin`, `holdAtSpawn`, `reviveAtSpawn`, `absAtSpawn`, `restoreProxy`,
`restartLoaded`, `holdBeyondFold`, `releaseAllFold`, `holdOne`) only name parts of model functions; each is tied to
the frozen model by an equation (`*_eq`, by `rfl`) or by definitional unfolding in the lemma that uses it.
-/
import CylcModel.Sched2

namespace CylcModel.Sched2

/-! ### Generic lifting (copies of the `Sched` v1 lemmas, stated for `Sched2`) -/

theorem foldl_inv {α σ} (P : σ → Prop) (f : σ → α → σ) (h : ∀ s a, P s → P (f s a)) :
    ∀ (l : List α) (s : σ), P s → P (l.foldl f s) := by
  intro l; induction l with
  | nil => intro s hs; exact hs
  | cons a l ih => intro s hs; exact ih _ (h s a hs)

/-- as `foldl_inv`, the step hypothesis may use that the element is in the list -/
theorem foldl_inv_mem {α σ} (P : σ → Prop) (f : σ → α → σ) :
    ∀ (l : List α) (s : σ), (∀ s a, a ∈ l → P s → P (f s a)) → P s → P (l.foldl f s) := by
  intro l; induction l with
  | nil => intro s _ hs; exact hs
  | cons a l ih =>
    intro s h hs
    exact ih _ (fun s b hb => h s b (List.mem_cons_of_mem _ hb)) (h s a (List.mem_cons_self) hs)

/-- every state of a run satisfies `P` when the start-up state does and every step preserves it -/
theorem run_inv (P : State → Prop) (g : Graph) (h0 : P (init g)) (hs : ∀ s op, P s → P (step g s op)) :
    ∀ ops, ∀ s ∈ run g ops, P s := by
  intro ops
  unfold run
  have key : ∀ (ops : List Op) (acc : List State) (cur : State),
      (∀ s ∈ acc, P s) → P cur →
      ∀ s ∈ (ops.foldl (fun (a : List State × State) op =>
          let s' := step g a.2 op; (a.1 ++ [s'], s')) (acc, cur)).1, P s := by
    intro ops
    induction ops with
    | nil => intro acc cur hacc _ s hm; exact hacc s hm
    | cons op ops ih =>
      intro acc cur hacc hcur
      simp only [List.foldl_cons]
      apply ih
      · intro s hm
        rcases List.mem_append.mp hm with h | h
        · exact hacc s h
        · simp at h; subst h; exact hs _ _ hcur
      · exact hs _ _ hcur
  exact key ops [init g] (init g) (by intro s hm; simp at hm; subst hm; exact h0) h0

/-- the state reached after an op list -/
def final (g : Graph) (ops : List Op) : State := ops.foldl (step g) (init g)

theorem final_snoc (g : Graph) (ops : List Op) (op : Op) :
    final g (ops ++ [op]) = step g (final g ops) op := by
  simp [final, List.foldl_append]

/-- the final state is a state of the run -/
theorem final_mem_run (g : Graph) (ops : List Op) : final g ops ∈ run g ops := by
  unfold run final
  have key : ∀ (ops : List Op) (acc : List State) (cur : State), cur ∈ acc →
      ops.foldl (step g) cur ∈ (ops.foldl (fun (a : List State × State) op =>
          let s' := step g a.2 op; (a.1 ++ [s'], s')) (acc, cur)).1 := by
    intro ops
    induction ops with
    | nil => intro acc cur h; exact h
    | cons op ops ih =>
      intro acc cur _
      simp only [List.foldl_cons]
      apply ih
      simp
  exact key ops [init g] (init g) (by simp)

/-! ### Pool primitives -/

theorem get?_some_mem {s : State} {p : Int} {n : String} {x : Proxy} (h : s.get? p n = some x) :
    x ∈ s.pool ∧ x.pt = p ∧ x.name = n := by
  unfold State.get? at h
  have h1 := List.mem_of_find?_eq_some h
  have h2 := List.find?_some h
  simp only [Bool.and_eq_true, beq_iff_eq] at h2
  exact ⟨h1, h2.1, h2.2⟩

theorem get?_none_forall {s : State} {p : Int} {n : String} (h : s.get? p n = none) :
    ∀ x ∈ s.pool, ¬ (x.pt = p ∧ x.name = n) := by
  unfold State.get? at h
  intro x hx hk
  have := List.find?_eq_none.mp h x hx
  simp [hk.1, hk.2] at this

theorem get?_isSome_of_mem {s : State} {x : Proxy} (h : x ∈ s.pool) : (s.get? x.pt x.name).isSome = true := by
  cases hg : s.get? x.pt x.name with
  | some y => rfl
  | none => exact absurd ⟨rfl, rfl⟩ (get?_none_forall hg x h)

/-- members of the pool after `put x`: `x` in place of every proxy with its key, the others unchanged -/
theorem mem_put {s : State} {x y : Proxy} (h : y ∈ (s.put x).pool) :
    (y = x ∧ ∃ z ∈ s.pool, z.pt = x.pt ∧ z.name = x.name) ∨ (y ∈ s.pool ∧ ¬ (y.pt = x.pt ∧ y.name = x.name)) := by
  unfold State.put at h
  simp only [List.mem_map] at h
  obtain ⟨z, hz, hzy⟩ := h
  split at hzy
  · rename_i hk
    simp only [Bool.and_eq_true, beq_iff_eq] at hk
    left; exact ⟨hzy.symm, z, hz, hk.1, hk.2⟩
  · rename_i hk
    simp only [Bool.and_eq_true, beq_iff_eq] at hk
    right; subst hzy; exact ⟨hz, hk⟩

theorem mem_put_of_ne {s : State} {x y : Proxy} (h : y ∈ s.pool) (hk : ¬ (y.pt = x.pt ∧ y.name = x.name)) :
    y ∈ (s.put x).pool := by
  unfold State.put
  simp only [List.mem_map]
  refine ⟨y, h, ?_⟩
  split
  · rename_i hk'
    simp only [Bool.and_eq_true, beq_iff_eq] at hk'
    exact absurd hk' hk
  · rfl

theorem mem_put_self {s : State} {x z : Proxy} (h : z ∈ s.pool) (hk : z.pt = x.pt ∧ z.name = x.name) :
    x ∈ (s.put x).pool := by
  unfold State.put
  simp only [List.mem_map]
  refine ⟨z, h, ?_⟩
  simp [hk.1, hk.2]

theorem mem_add {s : State} {x y : Proxy} (h : y ∈ (s.add x).pool) :
    y ∈ s.pool ∨ (y = x ∧ s.get? x.pt x.name = none) := by
  unfold State.add at h
  split at h
  · left; exact h
  · rename_i hn
    simp only [List.mem_append, List.mem_singleton] at h
    rcases h with h | h
    · left; exact h
    · right
      refine ⟨h, ?_⟩
      cases hg : s.get? x.pt x.name with
      | none => rfl
      | some v => simp [hg] at hn

theorem mem_add_of_mem {s : State} {x y : Proxy} (h : y ∈ s.pool) : y ∈ (s.add x).pool := by
  unfold State.add
  split
  · exact h
  · simp [h]

/-! ### `Proxy.reset` and friends keep what they do not set -/

@[simp] theorem reset_pt (x : Proxy) (a : Option Status) (b c d : Option Bool) :
    (x.reset a b c d).pt = x.pt := by unfold Proxy.reset; simp only; split <;> rfl
@[simp] theorem reset_name (x : Proxy) (a : Option Status) (b c d : Option Bool) :
    (x.reset a b c d).name = x.name := by unfold Proxy.reset; simp only; split <;> rfl
@[simp] theorem reset_submitNum (x : Proxy) (a : Option Status) (b c d : Option Bool) :
    (x.reset a b c d).submitNum = x.submitNum := by unfold Proxy.reset; simp only; split <;> rfl

/-- `reset` without a `held` argument keeps the held flag -/
@[simp] theorem reset_held_none (x : Proxy) (a : Option Status) (b c : Option Bool) :
    (x.reset a b c none).held = x.held := by
  unfold Proxy.reset; simp only; split <;> simp

theorem reset_held_some (x : Proxy) (v : Bool) :
    (x.reset none none none (some v)).held = v := by
  unfold Proxy.reset
  simp only [Option.getD_none, Option.getD_some]
  split
  · rename_i h
    simp only [beq_self_eq_true, Bool.true_and, beq_iff_eq] at h
    simpa using h.symm
  · rfl

@[simp] theorem satisfyMe_pt (x : Proxy) (a : Atom) : (x.satisfyMe a).pt = x.pt := rfl
@[simp] theorem satisfyMe_name (x : Proxy) (a : Atom) : (x.satisfyMe a).name = x.name := rfl
@[simp] theorem satisfyMe_held (x : Proxy) (a : Atom) : (x.satisfyMe a).held = x.held := rfl

theorem foldl_satisfyMe (l : List Atom) (x : Proxy) :
    (l.foldl (fun z a => z.satisfyMe a) x).pt = x.pt ∧ (l.foldl (fun z a => z.satisfyMe a) x).name = x.name ∧
      (l.foldl (fun z a => z.satisfyMe a) x).held = x.held := by
  induction l generalizing x with
  | nil => exact ⟨rfl, rfl, rfl⟩
  | cons a l ih => simp only [List.foldl_cons]; exact ih _

theorem setComplete_fields (g : Graph) (x : Proxy) (m : String) :
    (setComplete g x m).1.pt = x.pt ∧ (setComplete g x m).1.name = x.name ∧ (setComplete g x m).1.held = x.held := by
  unfold setComplete
  split
  · exact ⟨rfl, rfl, rfl⟩
  · split <;> exact ⟨rfl, rfl, rfl⟩

/-! ### `launched`: only `releaseAndSubmit` records job launches -/

/-- `spawnTask` changes nothing of the state but `tasksToHold` -/
theorem spawnTask_state (g : Graph) (s : State) (n : String) (p : Int) :
    (spawnTask g s n p).1 = { s with tasksToHold := (spawnTask g s n p).1.tasksToHold } := by
  unfold spawnTask
  simp only
  repeat' split
  all_goals rfl

theorem launched_spawnTask (g : Graph) (s : State) (n : String) (p : Int) :
    (spawnTask g s n p).1.launched = s.launched := by
  rw [spawnTask_state]

theorem pool_spawnTask (g : Graph) (s : State) (n : String) (p : Int) :
    (spawnTask g s n p).1.pool = s.pool := by
  rw [spawnTask_state]

theorem launched_add (s : State) (x : Proxy) : (s.add x).launched = s.launched := by
  unfold State.add; split <;> rfl

theorem launched_spawnAndAdd (g : Graph) (s : State) (n : String) (p : Int) :
    (spawnAndAdd g s n p).launched = s.launched := by
  unfold spawnAndAdd
  split
  · rfl
  · split
    · rename_i h; rw [launched_add]; have := launched_spawnTask g s n p; rw [h] at this; exact this
    · rename_i h; have := launched_spawnTask g s n p; rw [h] at this; exact this

theorem launched_spawnNextParentless (g : Graph) (s : State) (x : Proxy) :
    (spawnNextParentless g s x).launched = s.launched := by
  unfold spawnNextParentless
  split
  · rfl
  · split
    · exact launched_spawnAndAdd _ _ _ _
    · rfl

theorem launched_computeRunahead (g : Graph) (s : State) (f : Bool) :
    (computeRunahead g s f).launched = s.launched := by
  unfold computeRunahead
  simp only
  split
  · rfl
  · split <;> rfl

theorem launched_releaseRunahead (g : Graph) (s : State) : (releaseRunahead g s).1.launched = s.launched := by
  unfold releaseRunahead
  split
  · rfl
  · split
    · rfl
    · simp only
      apply foldl_inv (fun st : State => st.launched = s.launched)
      · intro st x hst
        rw [launched_spawnNextParentless]
        split
        · exact hst
        · exact hst
      · rfl

theorem launched_releaseHeldActive (s : State) (x : Proxy) : (releaseHeldActive s x).launched = s.launched := by
  unfold releaseHeldActive
  simp only
  split <;> rfl

theorem launched_holdActive (s : State) (x : Proxy) : (holdActive s x).launched = s.launched := by
  unfold holdActive
  simp only
  split <;> rfl

theorem launched_remove (g : Graph) (s : State) (x : Proxy) : (remove g s x).launched = s.launched := by
  unfold remove
  simp only
  split
  · rw [launched_spawnNextParentless, launched_releaseHeldActive]
  · rw [launched_releaseHeldActive]

theorem launched_removeIfComplete (g : Graph) (s : State) (x : Proxy) :
    (removeIfComplete g s x).launched = s.launched := by
  unfold removeIfComplete
  split
  · rfl
  · simp only
    have key : ∀ s1 : State, s1.launched = s.launched →
        (match g.task? x.name with
          | none => s1
          | some t => if isComplete t x.done = true then remove g s1 x else s1).launched = s.launched := by
      intro s1 h1
      split
      · exact h1
      · split
        · rw [launched_remove]; exact h1
        · exact h1
    apply key
    split <;> rfl

theorem launched_put (s : State) (x : Proxy) : (s.put x).launched = s.launched := rfl

/-- the second half of `spawnChild`, after the child was found or spawned -/
def spawnChildFin (p : Int) (n out : String) (sui : List (Int × String)) (c : Child)
    (st1 : State) (ch : Option Proxy) (inPool : Bool) : State × List (Int × String) :=
  match ch with
  | none => (st1, sui)
  | some y =>
    let st2 : State := if inPool then st1 else st1.add (y.satisfyMe ⟨p, n, out⟩)
    let targets : List (Int × String) :=
      if c.isAbs then
        let others := (st2.pool.filter fun z => z.name == c.name).map fun z => (z.pt, z.name)
        if others.contains (c.pt, c.name) then others else others ++ [(c.pt, c.name)]
      else [(c.pt, c.name)]
    targets.foldl (fun (a : State × List (Int × String)) k =>
      match a.1.get? k.1 k.2 with
      | none => a
      | some z =>
        let z := z.satisfyMe ⟨p, n, out⟩
        (a.1.put z, if z.suicideNow && !a.2.contains k then a.2 ++ [k] else a.2)) (st2, sui)

/-- `spawnChild` in two halves -/
theorem spawnChild_eq (g : Graph) (p : Int) (n out : String) (st : State) (sui : List (Int × String)) (c : Child) :
    spawnChild g p n out (st, sui) c =
      (let st0 : State := if c.isAbs && !st.absDone.contains ⟨p, n, out⟩ then
          { st with absDone := st.absDone ++ [⟨p, n, out⟩] } else st
       match st0.get? c.pt c.name with
       | some y => spawnChildFin p n out sui c st0 (some y) true
       | none => spawnChildFin p n out sui c (spawnTask g st0 c.name c.pt).1 (spawnTask g st0 c.name c.pt).2 false) := by
  unfold spawnChild
  simp only
  generalize (if (c.isAbs && !st.absDone.contains ⟨p, n, out⟩) = true then
      { st with absDone := st.absDone ++ [⟨p, n, out⟩] } else st) = st0
  cases hg : st0.get? c.pt c.name with
  | some y => rfl
  | none =>
    simp only
    generalize spawnTask g st0 c.name c.pt = R
    obtain ⟨st1, ch⟩ := R
    cases ch <;> rfl

theorem launched_spawnChildFin (p : Int) (n out : String) (sui : List (Int × String)) (c : Child)
    (st1 : State) (ch : Option Proxy) (inPool : Bool) :
    (spawnChildFin p n out sui c st1 ch inPool).1.launched = st1.launched := by
  unfold spawnChildFin
  split
  · rfl
  · refine foldl_inv (fun a : State × List (Int × String) => a.1.launched = st1.launched) _ ?_ _ _ ?_
    · intro a k ha
      simp only
      split
      · exact ha
      · exact ha
    · simp only
      split
      · rfl
      · rw [launched_add]

theorem launched_spawnChild (g : Graph) (p : Int) (n out : String) (acc : State × List (Int × String)) (c : Child) :
    (spawnChild g p n out acc c).1.launched = acc.1.launched := by
  obtain ⟨st, sui⟩ := acc
  rw [spawnChild_eq]
  simp only
  have h0 : (if (c.isAbs && !st.absDone.contains ⟨p, n, out⟩) = true then
      { st with absDone := st.absDone ++ [⟨p, n, out⟩] } else st).launched = st.launched := by
    split <;> rfl
  generalize (if (c.isAbs && !st.absDone.contains ⟨p, n, out⟩) = true then
      { st with absDone := st.absDone ++ [⟨p, n, out⟩] } else st) = st0 at h0 ⊢
  split
  · rw [launched_spawnChildFin]; exact h0
  · rw [launched_spawnChildFin, launched_spawnTask]; exact h0

theorem launched_spawnOnOutput (g : Graph) (s : State) (p : Int) (n out : String) :
    (spawnOnOutput g s p n out).launched = s.launched := by
  unfold spawnOnOutput
  split
  · rfl
  · simp only
    have h1 : ∀ (cs : List Child) (acc : State × List (Int × String)),
        (cs.foldl (spawnChild g p n out) acc).1.launched = acc.1.launched := by
      intro cs; induction cs with
      | nil => intro acc; rfl
      | cons c cs ih => intro acc; simp only [List.foldl_cons]; rw [ih, launched_spawnChild]
    have h2 : ∀ (ks : List (Int × String)) (st : State),
        (ks.foldl (fun (st : State) k => match st.get? k.1 k.2 with
          | some z => remove g st z
          | none => st) st).launched = st.launched := by
      intro ks; induction ks with
      | nil => intro st; rfl
      | cons k ks ih =>
        intro st
        simp only [List.foldl_cons]
        rw [ih]
        split
        · rw [launched_remove]
        · rfl
    generalize hR : (List.foldl (spawnChild g p n out) (s, []) _) = R
    have hRn : R.1.launched = s.launched := by rw [← hR, h1]
    have h3 := h2 R.2 R.1
    split
    · rw [launched_removeIfComplete]; exact h3.trans hRn
    · exact h3.trans hRn

theorem launched_store (s : State) (x : Proxy) (tr : Bool) : (store s x tr).launched = s.launched := by
  unfold store; split <;> rfl

theorem launched_spawnChildren (g : Graph) (s : State) (p : Int) (n out : String) (tr : Bool) :
    (spawnChildren g s p n out tr).launched = s.launched := by
  unfold spawnChildren; split
  · rfl
  · exact launched_spawnOnOutput _ _ _ _ _

theorem launched_processMessage (g : Graph) : ∀ (fuel : Nat) (s : State) (p : Int) (n : String) (flag : Flag)
    (sn : Nat) (msg : String), (processMessage g fuel s p n flag sn msg).1.launched = s.launched := by
  intro fuel
  induction fuel with
  | zero => intro s p n flag sn msg; rfl
  | succ fuel ih =>
    intro s p n flag sn msg
    unfold processMessage
    split
    · rfl
    · rename_i x tr _
      split
      · rfl
      · split
        · rfl
        · simp only
          have himp : ∀ (l : List String) (st : State),
              (l.foldl (fun st m => (processMessage g fuel st p n .internal sn m).1) st).launched = st.launched := by
            intro l; induction l with
            | nil => intro st; rfl
            | cons a l ihl => intro st; simp only [List.foldl_cons]; rw [ihl, ih]
          generalize hS : (List.foldl (fun st m => (processMessage g fuel st p n Flag.internal sn m).1) _ _) = S
          have hSn : S.launched = s.launched := by rw [← hS, himp, launched_store]
          split
          · exact hSn
          · repeat' split
            all_goals first
              | exact hSn
              | (rw [launched_store]; exact hSn)
              | (rw [launched_spawnChildren, launched_store]; exact hSn)
              | (rw [launched_spawnChildren]; exact hSn)

theorem launched_processQueue (g : Graph) (s : State) : (processQueue g s).launched = s.launched := by
  unfold processQueue
  refine foldl_inv (fun st : State => st.launched = s.launched) _ ?_ _ _ rfl
  intro st grp hst
  simp only
  split
  · exact hst
  · have : ∀ (l : List Msg) (acc : State × Bool),
        (l.foldl (fun (acc : State × Bool) m =>
          let (st', pl) := processMessage g 4 acc.1 grp.1.1 grp.1.2 .received m.submitNum m.text
          (st', acc.2 || pl)) acc).1.launched = acc.1.launched := by
      intro l; induction l with
      | nil => intro acc; rfl
      | cons m l ihl =>
        intro acc
        simp only [List.foldl_cons]
        rw [ihl]
        exact launched_processMessage g 4 _ _ _ _ _ _
    have h2 := this grp.2 (st, false)
    split
    · simp only; rw [h2]; exact hst
    · rw [h2]; exact hst

theorem launched_checkStalled (g : Graph) (s : State) : (checkStalled g s).launched = s.launched := by
  unfold checkStalled; split
  · rfl
  · split
    · rfl
    · split <;> rfl

theorem launched_checkAutoShutdown (g : Graph) (s : State) : (checkAutoShutdown g s).1.launched = s.launched := by
  unfold checkAutoShutdown
  split
  · rfl
  · simp only
    split
    · exact launched_checkStalled _ _
    · split
      · exact launched_checkStalled _ _
      · exact launched_checkStalled _ _

theorem launched_stopTaskDone (s : State) : (stopTaskDone s).1.launched = s.launched := by
  unfold stopTaskDone; split <;> rfl

theorem launched_queueIfReady (s : State) (x : Proxy) : (queueIfReady s x).launched = s.launched := by
  unfold queueIfReady; split <;> rfl

theorem launched_sweepQueue (s : State) : (sweepQueue s).launched = s.launched := by
  unfold sweepQueue
  refine foldl_inv (fun st : State => st.launched = s.launched) _ ?_ _ _ rfl
  intro st x hst
  split
  · split
    · rw [launched_queueIfReady]; exact hst
    · exact hst
  · exact hst

theorem launched_finishLoop (g : Graph) (s : State) : (finishLoop g s).launched = s.launched := by
  unfold finishLoop
  extract_lets hasUpd s1 s2 s3
  have h1 : s1.launched = s.launched := by simp only [s1]; split <;> rfl
  have h2 : s2.launched = s.launched := by simp only [s2]; split <;> exact h1
  have h3 : s3.launched = s.launched := h2
  split
  · rw [launched_checkStalled]; exact h3
  · exact h3

/-! ### `releaseAndSubmit`: who is launched -/

/-- the launches recorded by `releaseAndSubmit`: exactly the queued, not held proxies -/
theorem launched_releaseAndSubmit (s : State) :
    (releaseAndSubmit s).launched =
      s.launched ++ ((s.pool.filter fun x => x.queued && !x.held).map fun x => (x.pt, x.name, x.submitNum + 1)) := by
  unfold releaseAndSubmit
  simp only
  split
  · rename_i h
    simp only [List.isEmpty_iff] at h
    rw [h]; simp
  · show (List.foldl _ s _).launched = _
    have : ∀ (l : List Proxy) (st : State),
        (l.foldl (fun (st : State) x =>
          let y := x.reset (queued := some false)
          let y := { (y.reset (status := some .preparing)) with submitNum := x.submitNum + 1, live := true, timers := true }
          { (st.put y) with launched := st.launched ++ [(x.pt, x.name, x.submitNum + 1)] }) st).launched =
          st.launched ++ l.map fun x => (x.pt, x.name, x.submitNum + 1) := by
      intro l; induction l with
      | nil => intro st; simp
      | cons a l ih =>
        intro st
        simp only [List.foldl_cons, List.map_cons]
        rw [ih]
        simp
    exact this _ _

/-- **`releaseAndSubmit` skips held proxies**: every launch it records is for a proxy of the pool that is
queued and not held -/
theorem releaseAndSubmit_launch_not_held (s : State) (l : Int × String × Nat)
    (h : l ∈ (releaseAndSubmit s).launched) (h0 : l ∉ s.launched) :
    ∃ x ∈ s.pool, x.pt = l.1 ∧ x.name = l.2.1 ∧ x.submitNum + 1 = l.2.2 ∧ x.queued = true ∧ x.held = false := by
  rw [launched_releaseAndSubmit] at h
  rcases List.mem_append.mp h with h | h
  · exact absurd h h0
  · obtain ⟨x, hx, rfl⟩ := List.mem_map.mp h
    have := List.mem_filter.mp hx
    simp only [Bool.and_eq_true, Bool.not_eq_true', ] at this
    exact ⟨x, this.1, rfl, rfl, rfl, this.2.1, this.2.2⟩

/-! ### `KeyHeld`: a held instance stays held up to the release of jobs -/

/-- the instance `(p, n)` is in the pool and every proxy of that key is held -/
def KeyHeld (p : Int) (n : String) (s : State) : Prop :=
  (∃ x ∈ s.pool, x.pt = p ∧ x.name = n) ∧ ∀ x ∈ s.pool, x.pt = p → x.name = n → x.held = true

theorem keyHeld_put {p : Int} {n : String} {s : State} (x : Proxy) (h : KeyHeld p n s)
    (hx : x.pt = p → x.name = n → x.held = true) : KeyHeld p n (s.put x) := by
  obtain ⟨⟨z, hz, hzp, hzn⟩, hall⟩ := h
  constructor
  · by_cases hk : z.pt = x.pt ∧ z.name = x.name
    · exact ⟨x, mem_put_self hz hk, hk.1 ▸ hzp, hk.2 ▸ hzn⟩
    · exact ⟨z, mem_put_of_ne hz hk, hzp, hzn⟩
  · intro y hy hyp hyn
    rcases mem_put hy with ⟨rfl, _⟩ | ⟨hy', _⟩
    · exact hx hyp hyn
    · exact hall y hy' hyp hyn

theorem keyHeld_add {p : Int} {n : String} {s : State} (x : Proxy) (h : KeyHeld p n s) : KeyHeld p n (s.add x) := by
  obtain ⟨⟨z, hz, hzp, hzn⟩, hall⟩ := h
  constructor
  · exact ⟨z, mem_add_of_mem hz, hzp, hzn⟩
  · intro y hy hyp hyn
    rcases mem_add hy with hy' | ⟨rfl, hnone⟩
    · exact hall y hy' hyp hyn
    · exact absurd ⟨hzp.trans hyp.symm, hzn.trans hyn.symm⟩ (get?_none_forall hnone z hz)

theorem keyHeld_pool {p : Int} {n : String} {s s' : State} (h : KeyHeld p n s) (hp : s'.pool = s.pool) :
    KeyHeld p n s' := by
  unfold KeyHeld at *; rw [hp]; exact h

theorem keyHeld_spawnAndAdd {p : Int} {n : String} {s : State} (g : Graph) (m : String) (q : Int)
    (h : KeyHeld p n s) : KeyHeld p n (spawnAndAdd g s m q) := by
  unfold spawnAndAdd
  split
  · exact h
  · have hp := pool_spawnTask g s m q
    split
    · rename_i st y heq
      rw [heq] at hp
      exact keyHeld_add _ (keyHeld_pool h hp)
    · rename_i st heq
      rw [heq] at hp
      exact keyHeld_pool h hp

theorem keyHeld_spawnNextParentless {p : Int} {n : String} {s : State} (g : Graph) (x : Proxy)
    (h : KeyHeld p n s) : KeyHeld p n (spawnNextParentless g s x) := by
  unfold spawnNextParentless
  split
  · exact h
  · split
    · exact keyHeld_spawnAndAdd _ _ _ h
    · exact h

theorem pool_computeRunahead (g : Graph) (s : State) (f : Bool) : (computeRunahead g s f).pool = s.pool := by
  unfold computeRunahead
  simp only
  split
  · rfl
  · split <;> rfl

theorem keyHeld_releaseRunahead {p : Int} {n : String} {s : State} (g : Graph)
    (h : KeyHeld p n s) : KeyHeld p n (releaseRunahead g s).1 := by
  unfold releaseRunahead
  split
  · exact h
  · split
    · exact h
    · simp only
      refine foldl_inv (KeyHeld p n) _ ?_ _ _ h
      intro st x hst
      apply keyHeld_spawnNextParentless
      split
      · rename_i y hy
        obtain ⟨hy1, hy2, hy3⟩ := get?_some_mem hy
        apply keyHeld_put _ hst
        intro hp hn
        rw [reset_held_none]
        exact hst.2 y hy1 (by simpa using hp) (by simpa using hn)
      · exact hst

theorem pool_checkStalled (g : Graph) (s : State) : (checkStalled g s).pool = s.pool := by
  unfold checkStalled; split
  · rfl
  · split
    · rfl
    · split <;> rfl

theorem pool_checkAutoShutdown (g : Graph) (s : State) : (checkAutoShutdown g s).1.pool = s.pool := by
  unfold checkAutoShutdown
  split
  · rfl
  · simp only
    split
    · exact pool_checkStalled _ _
    · split
      · exact pool_checkStalled _ _
      · exact pool_checkStalled _ _

theorem pool_stopTaskDone (s : State) : (stopTaskDone s).1.pool = s.pool := by
  unfold stopTaskDone; split <;> rfl

theorem keyHeld_queueIfReady {p : Int} {n : String} {s : State} (x : Proxy) (h : KeyHeld p n s)
    (hx : x.pt = p → x.name = n → x.held = true) : KeyHeld p n (queueIfReady s x) := by
  unfold queueIfReady
  split
  · apply keyHeld_put _ h
    intro hp hn
    rw [reset_held_none]
    exact hx (by simpa using hp) (by simpa using hn)
  · exact h

theorem keyHeld_sweepQueue {p : Int} {n : String} {s : State} (h : KeyHeld p n s) : KeyHeld p n (sweepQueue s) := by
  unfold sweepQueue
  refine foldl_inv (KeyHeld p n) _ ?_ _ _ h
  intro st x hst
  split
  · rename_i y hy
    obtain ⟨hy1, hy2, hy3⟩ := get?_some_mem hy
    split
    · have hyh : ({ y with retryWait := false } : Proxy).pt = p → ({ y with retryWait := false } : Proxy).name = n →
          ({ y with retryWait := false } : Proxy).held = true := fun hp hn => hst.2 y hy1 hp hn
      exact keyHeld_queueIfReady _ (keyHeld_put _ hst hyh) hyh
    · exact hst
  · exact hst

/-- `s'` differs from `s` in neither pool, launches, hold table nor hold point -/
def Same (s' s : State) : Prop :=
  s'.pool = s.pool ∧ s'.launched = s.launched ∧ s'.tasksToHold = s.tasksToHold ∧ s'.holdPoint = s.holdPoint

theorem Same.refl (s : State) : Same s s := ⟨rfl, rfl, rfl, rfl⟩
theorem Same.trans {a b c : State} (h1 : Same a b) (h2 : Same b c) : Same a c :=
  ⟨h1.1.trans h2.1, h1.2.1.trans h2.2.1, h1.2.2.1.trans h2.2.2.1, h1.2.2.2.trans h2.2.2.2⟩

theorem same_checkStalled (g : Graph) (s : State) : Same (checkStalled g s) s := by
  unfold checkStalled; split
  · exact Same.refl s
  · split
    · exact Same.refl s
    · split
      · exact ⟨rfl, rfl, rfl, rfl⟩
      · exact Same.refl s

theorem same_checkAutoShutdown (g : Graph) (s : State) : Same (checkAutoShutdown g s).1 s := by
  unfold checkAutoShutdown
  split
  · exact Same.refl s
  · simp only
    split
    · exact same_checkStalled _ _
    · split
      · exact same_checkStalled _ _
      · exact same_checkStalled _ _

theorem same_stopTaskDone (s : State) : Same (stopTaskDone s).1 s := by
  unfold stopTaskDone; split
  · exact ⟨rfl, rfl, rfl, rfl⟩
  · exact Same.refl s

theorem same_computeRunahead (g : Graph) (s : State) (f : Bool) : Same (computeRunahead g s f) s := by
  unfold computeRunahead
  simp only
  split
  · exact Same.refl s
  · split
    · exact ⟨rfl, rfl, rfl, rfl⟩
    · exact ⟨rfl, rfl, rfl, rfl⟩

/-- the `workflow_shutdown` block of the main loop touches neither the pool, the launches nor the holds -/
theorem shutdownBlock_same (g : Graph) (s2 : State) :
    let s3 : State :=
      if s2.stopMode.isNone = true then
        match stopTaskDone s2 with
        | (s, std) =>
          if std = true then { s with stopMode := some "AUTOMATIC" }
          else
            match checkAutoShutdown g s with
            | (s, auto) => if auto = true then { s with stopMode := some "AUTOMATIC" } else s
      else s2
    Same s3 s2 := by
  intro s3
  simp only [s3]
  split
  · split
    · exact same_stopTaskDone s2
    · split
      · exact (same_checkAutoShutdown g _).trans (same_stopTaskDone s2)
      · exact (same_checkAutoShutdown g _).trans (same_stopTaskDone s2)
  · exact Same.refl s2

theorem mainLoop_held_no_launch (g : Graph) (s : State) (p : Int) (n : String) (h : KeyHeld p n s)
    (sn : Nat) (h0 : (p, n, sn) ∉ s.launched) : (p, n, sn) ∉ (mainLoop g s).launched := by
  unfold mainLoop
  split
  · exact h0
  · extract_lets s1 s2 s3 s4 s5 s6
    have k1 : KeyHeld p n s1 := keyHeld_pool h (pool_computeRunahead g s false)
    have l1 : s1.launched = s.launched := launched_computeRunahead g s false
    have k2 : KeyHeld p n s2 := keyHeld_releaseRunahead g k1
    have l2 : s2.launched = s.launched := (launched_releaseRunahead g s1).trans l1
    obtain ⟨hp3, hl3, _, _⟩ := shutdownBlock_same g s2
    have k3 : KeyHeld p n s3 := keyHeld_pool k2 hp3
    have l3 : s3.launched = s.launched := hl3.trans l2
    split
    · show (p, n, sn) ∉ s3.launched
      rw [l3]; exact h0
    · have k4 : KeyHeld p n s4 := keyHeld_sweepQueue k3
      have l4 : s4.launched = s.launched := (launched_sweepQueue s3).trans l3
      have l5 : (p, n, sn) ∉ s5.launched := by
        simp only [s5]
        split
        · intro hm
          obtain ⟨x, hx, hxp, hxn, _, _, hxh⟩ := releaseAndSubmit_launch_not_held s4 _ hm (by rw [l4]; exact h0)
          have := k4.2 x hx hxp hxn
          rw [hxh] at this
          exact absurd this (by decide)
        · rw [l4]; exact h0
      rw [launched_finishLoop, launched_processQueue]
      exact l5

theorem launched_setHoldPoint (s : State) (p : Int) : (setHoldPoint s p).launched = s.launched := by
  unfold setHoldPoint
  simp only
  refine foldl_inv (fun st : State => st.launched = s.launched) _ ?_ _ _ rfl
  intro st x hst
  split
  · split
    · rw [launched_holdActive]; exact hst
    · exact hst
  · exact hst

theorem launched_holdTasks (s : State) (ids : List (Int × String)) : (holdTasks s ids).launched = s.launched := by
  unfold holdTasks
  refine foldl_inv (fun st : State => st.launched = s.launched) _ ?_ _ _ rfl
  intro st k hst
  split
  · rw [launched_holdActive]; exact hst
  · split
    · exact hst
    · exact hst

theorem launched_releaseTasks (s : State) (ids : List (Int × String)) : (releaseTasks s ids).launched = s.launched := by
  unfold releaseTasks
  refine foldl_inv (fun st : State => st.launched = s.launched) _ ?_ _ _ rfl
  intro st k hst
  split
  · exact hst
  · split
    · rw [launched_releaseHeldActive]; exact hst
    · exact hst

theorem launched_releaseHoldPoint (s : State) : (releaseHoldPoint s).launched = s.launched := by
  unfold releaseHoldPoint
  simp only
  refine foldl_inv (fun st : State => st.launched = s.launched) _ ?_ _ _ rfl
  intro st x hst
  split
  · rw [launched_releaseHeldActive]; exact hst
  · exact hst

theorem launched_setStopPoint (s : State) (p : Int) : (setStopPoint s p).launched = s.launched := by
  unfold setStopPoint
  split
  · rfl
  · simp only
    split
    · split <;> rfl
    · rfl

theorem launched_restart (g : Graph) (s : State) : (restart g s).launched = [] := by
  unfold restart
  extract_lets restore cfgStop pool wait s'
  split
  · rw [launched_setHoldPoint]
  · rfl

/-- **job launches happen only in main loops**: every other operation records none -/
theorem launched_step_of_ne_loop (g : Graph) (s : State) (op : Op) (h : op ≠ .loop) : (step g s op).launched = [] := by
  unfold step
  have hc : (clearOp s).launched = [] := rfl
  cases op with
  | loop => exact absurd rfl h
  | subres p n ok sn => simp only; rw [launched_processMessage]; exact hc
  | msg p n sn text => exact hc
  | hold ids => simp only; rw [launched_holdTasks]; exact hc
  | release ids => simp only; rw [launched_releaseTasks]; exact hc
  | setHoldPoint p => simp only; rw [launched_setHoldPoint]; exact hc
  | releaseHoldPoint => simp only; rw [launched_releaseHoldPoint]; exact hc
  | stop mode => exact hc
  | stopPoint p => simp only; rw [launched_setStopPoint]; exact hc
  | stopTask p n => exact hc
  | pause => exact hc
  | resume => exact hc
  | restart => exact launched_restart g _

/-- a held pooled instance is not launched by any operation -/
theorem step_held_no_launch (g : Graph) (s : State) (op : Op) (p : Int) (n : String) (h : KeyHeld p n s)
    (sn : Nat) : (p, n, sn) ∉ (step g s op).launched := by
  by_cases hop : op = .loop
  · subst hop
    have hk : KeyHeld p n (clearOp s) := keyHeld_pool h rfl
    exact mainLoop_held_no_launch g (clearOp s) p n hk sn (by simp [clearOp])
  · rw [launched_step_of_ne_loop g s op hop]; simp

def beyondHold (hp : Option Int) (p : Int) : Bool :=
  match hp with | some h => decide (p > h) | none => false

theorem mkProxy_fields {g : Graph} {n : String} {p : Int} {x : Proxy} (h : mkProxy g n p = some x) :
    x.pt = p ∧ x.name = n ∧ x.held = false := by
  unfold mkProxy at h
  simp only [Option.bind_eq_bind, Option.pure_def] at h
  cases ht : g.task? n with
  | none => simp [ht] at h
  | some t =>
    simp only [ht, Option.bind_some] at h
    split at h
    · simp at h
    · cases hd : t.inst? p with
      | none => simp [hd] at h
      | some d =>
        simp only [hd, Option.bind_some, Option.some.injEq] at h
        subst h
        exact ⟨rfl, rfl, rfl⟩

/-- the DB-history part of `spawnTask`, on its own -/
def reviveAtSpawn (g : Graph) (s : State) (name : String) (p : Int) (x : Proxy) : Option Proxy :=
  match (s.hist.filter fun h => h.pt == p && h.name == name).getLast? with
  | none => some x
  | some h =>
    if h.done.isEmpty then none
    else
      let y := { x with status := h.status, submitNum := h.submitNum, done := h.done }
      if h.status.isFinal then
        match g.task? name with
        | some t => if isComplete t h.done then none else some y
        | none => none
      else some y

/-- the hold decision of `spawnTask`, on its own -/
def holdAtSpawn (s : State) (name : String) (p : Int) (y : Proxy) : State × Proxy :=
  if s.tasksToHold.contains (name, p) then (s, y.reset (held := some true))
  else match s.holdPoint with
    | some hp => if p > hp then
        ({ s with tasksToHold := s.tasksToHold ++ [(name, p)] }, y.reset (held := some true))
      else (s, y)
    | none => (s, y)

/-- the absolute-trigger part of `spawnTask`, on its own -/
def absAtSpawn (g : Graph) (s : State) (name : String) (y : Proxy) : Proxy :=
  match g.task? name with
  | some t => if t.hasAbs && !y.prereqsSatisfied then s.absDone.foldl (fun z a => z.satisfyMe a) y else y
  | none => y

/-- `spawnTask` in named parts -/
theorem spawnTask_eq (g : Graph) (s : State) (name : String) (p : Int) :
    spawnTask g s name p =
      (if (s.hist.filter fun h => h.pt == p && h.name == name).getLast?.isNone && p < g.start then (s, none)
       else match mkProxy g name p with
        | none => (s, none)
        | some x =>
          match reviveAtSpawn g s name p x with
          | none => (s, none)
          | some y => ((holdAtSpawn s name p y).1, some (absAtSpawn g (holdAtSpawn s name p y).1 name (holdAtSpawn s name p y).2))) := by
  unfold spawnTask reviveAtSpawn holdAtSpawn absAtSpawn
  rfl

theorem reviveAtSpawn_fields {g : Graph} {s : State} {n : String} {p : Int} {x y : Proxy}
    (h : reviveAtSpawn g s n p x = some y) : y.pt = x.pt ∧ y.name = x.name ∧ y.held = x.held := by
  unfold reviveAtSpawn at h
  split at h
  · simp only [Option.some.injEq] at h; subst h; exact ⟨rfl, rfl, rfl⟩
  · split at h
    · simp at h
    · simp only at h
      split at h
      · split at h
        · split at h
          · simp at h
          · simp only [Option.some.injEq] at h; subst h; exact ⟨rfl, rfl, rfl⟩
        · simp at h
      · simp only [Option.some.injEq] at h; subst h; exact ⟨rfl, rfl, rfl⟩

theorem absAtSpawn_fields (g : Graph) (s : State) (n : String) (y : Proxy) :
    (absAtSpawn g s n y).pt = y.pt ∧ (absAtSpawn g s n y).name = y.name ∧ (absAtSpawn g s n y).held = y.held := by
  unfold absAtSpawn
  split
  · split
    · exact foldl_satisfyMe _ _
    · exact ⟨rfl, rfl, rfl⟩
  · exact ⟨rfl, rfl, rfl⟩

/-- what the hold decision does: the proxy is held exactly when a hold was requested for it or it lies beyond the
hold point; in the second case the instance is entered in `tasksToHold` -/
theorem holdAtSpawn_spec (s : State) (n : String) (p : Int) (y : Proxy) (hy : y.held = false) :
    (holdAtSpawn s n p y).2.pt = y.pt ∧ (holdAtSpawn s n p y).2.name = y.name ∧
    (holdAtSpawn s n p y).2.held = (s.tasksToHold.contains (n, p) || beyondHold s.holdPoint p) ∧
    (holdAtSpawn s n p y).1 = { s with tasksToHold :=
      if (!(s.tasksToHold.contains (n, p)) && beyondHold s.holdPoint p) then s.tasksToHold ++ [(n, p)] else s.tasksToHold } := by
  unfold holdAtSpawn beyondHold
  split
  · rename_i hc
    have hc' : (n, p) ∈ s.tasksToHold := by simpa using hc
    simp [hc', reset_held_some]
  · rename_i hc
    have hc' : (n, p) ∉ s.tasksToHold := by simpa using hc
    split
    · rename_i hp hhp
      split
      · rename_i hgt
        simp [hc', hgt, reset_held_some]
      · rename_i hgt
        simp [hc', hgt, hy]
    · simp [hc', hy]

/-- the hold table after spawning `(n, p)`: the instance is entered when it lies beyond the hold point -/
def holdTableAfterSpawn (s : State) (n : String) (p : Int) : List (String × Int) :=
  if (!(s.tasksToHold.contains (n, p)) && beyondHold s.holdPoint p) then s.tasksToHold ++ [(n, p)] else s.tasksToHold

theorem spawnTask_none {g : Graph} {s : State} {n : String} {p : Int}
    (h : (spawnTask g s n p).2 = none) : (spawnTask g s n p).1 = s := by
  rw [spawnTask_eq] at h ⊢
  split
  · rfl
  · split
    · rfl
    · split
      · rfl
      · rename_i h1 _ _ _ _ _ _
        rw [if_neg h1] at h
        simp_all

/-- **`spawnTask`, hold part**: a newly spawned proxy is held exactly when a hold was requested for the instance
earlier or the instance lies beyond the hold point; nothing else of the state changes but the hold table entry. -/
theorem spawnTask_some {g : Graph} {s : State} {n : String} {p : Int} {y : Proxy}
    (h : (spawnTask g s n p).2 = some y) :
    y.pt = p ∧ y.name = n ∧ y.held = (s.tasksToHold.contains (n, p) || beyondHold s.holdPoint p) ∧
    (spawnTask g s n p).1 = { s with tasksToHold := holdTableAfterSpawn s n p } := by
  rw [spawnTask_eq] at h ⊢
  split at h
  · simp at h
  · rename_i h1
    rw [if_neg h1]
    split at h
    · simp at h
    · rename_i x hx
      obtain ⟨hx1, hx2, hx3⟩ := mkProxy_fields hx
      split at h
      · simp at h
      · rename_i y1 hy1
        obtain ⟨hr1, hr2, hr3⟩ := reviveAtSpawn_fields hy1
        simp only [Option.some.injEq] at h
        obtain ⟨hs1, hs2, hs3, hs4⟩ := holdAtSpawn_spec s n p y1 (hr3.trans hx3)
        obtain ⟨ha1, ha2, ha3⟩ := absAtSpawn_fields g (holdAtSpawn s n p y1).1 n (holdAtSpawn s n p y1).2
        subst h
        refine ⟨?_, ?_, ?_, ?_⟩
        · rw [ha1, hs1, hr1, hx1]
        · rw [ha2, hs2, hr2, hx2]
        · rw [ha3, hs3]
        · exact hs4

/-! ### `HoldInv`: in the pool, held = listed in the hold table -/

/-- every pooled proxy is held exactly when its instance is in `tasksToHold` -/
def HoldInv (s : State) : Prop := ∀ x ∈ s.pool, x.held = s.tasksToHold.contains (x.name, x.pt)

/-- the proxy's held flag agrees with the hold table of `s` -/
def Agrees (s : State) (x : Proxy) : Prop := x.held = s.tasksToHold.contains (x.name, x.pt)

theorem agrees_of_get? {s : State} {p : Int} {n : String} {x : Proxy} (h : HoldInv s) (hx : s.get? p n = some x) :
    Agrees s x := h x (get?_some_mem hx).1

theorem holdInv_sub {s s' : State} (hp : ∀ x ∈ s'.pool, x ∈ s.pool) (ht : s'.tasksToHold = s.tasksToHold)
    (h : HoldInv s) : HoldInv s' := by
  intro x hx; rw [ht]; exact h x (hp x hx)

theorem holdInv_same {s s' : State} (hs : Same s' s) (h : HoldInv s) : HoldInv s' :=
  holdInv_sub (fun _ hx => hs.1 ▸ hx) hs.2.2.1 h

theorem holdInv_put {s : State} {x : Proxy} (h : HoldInv s) (hx : Agrees s x) : HoldInv (s.put x) := by
  intro y hy
  rcases mem_put hy with ⟨rfl, _⟩ | ⟨hy', _⟩
  · exact hx
  · exact h y hy'

theorem holdInv_add {s : State} {x : Proxy} (h : HoldInv s) (hx : Agrees s x) : HoldInv (s.add x) := by
  intro y hy
  have ht : (s.add x).tasksToHold = s.tasksToHold := by unfold State.add; split <;> rfl
  rw [ht]
  rcases mem_add hy with hy' | ⟨rfl, _⟩
  · exact h y hy'
  · exact hx

theorem contains_append_ne {l : List (String × Int)} {k k' : String × Int} (hne : k ≠ k') :
    (l ++ [k']).contains k = l.contains k := by
  simp [hne]

theorem holdInv_spawnTask {g : Graph} {s : State} {n : String} {p : Int} (h : HoldInv s)
    (hg : s.get? p n = none) :
    HoldInv (spawnTask g s n p).1 ∧ ∀ y, (spawnTask g s n p).2 = some y → Agrees (spawnTask g s n p).1 y := by
  cases hsp : (spawnTask g s n p).2 with
  | none =>
    rw [spawnTask_none hsp]
    exact ⟨h, fun y hy => by simp at hy⟩
  | some y =>
    obtain ⟨hy1, hy2, hy3, hy4⟩ := spawnTask_some hsp
    rw [hy4]
    constructor
    · intro x hx
      have hx' : x ∈ s.pool := hx
      show x.held = (holdTableAfterSpawn s n p).contains (x.name, x.pt)
      have hne : (x.name, x.pt) ≠ (n, p) := by
        intro he
        simp only [Prod.mk.injEq] at he
        exact get?_none_forall hg x hx' ⟨he.2, he.1⟩
      unfold holdTableAfterSpawn
      split
      · rw [contains_append_ne hne]; exact h x hx'
      · exact h x hx'
    · intro y' hy'
      simp only [Option.some.injEq] at hy'
      subst hy'
      show y.held = (holdTableAfterSpawn s n p).contains (y.name, y.pt)
      rw [hy3, hy1, hy2]
      unfold holdTableAfterSpawn
      cases hc : s.tasksToHold.contains (n, p) <;> cases hb : beyondHold s.holdPoint p <;> simp_all

theorem holdInv_spawnAndAdd {g : Graph} {s : State} (n : String) (p : Int) (h : HoldInv s) :
    HoldInv (spawnAndAdd g s n p) := by
  unfold spawnAndAdd
  split
  · exact h
  · rename_i hn
    have hg : s.get? p n = none := by
      cases hg : s.get? p n with
      | none => rfl
      | some v => simp [hg] at hn
    obtain ⟨h1, h2⟩ := holdInv_spawnTask (g := g) h hg
    split
    · rename_i st x heq
      rw [heq] at h1 h2
      exact holdInv_add h1 (h2 x rfl)
    · rename_i st heq
      rw [heq] at h1
      exact h1

theorem holdInv_spawnNextParentless {g : Graph} {s : State} (x : Proxy) (h : HoldInv s) :
    HoldInv (spawnNextParentless g s x) := by
  unfold spawnNextParentless
  split
  · exact h
  · split
    · exact holdInv_spawnAndAdd _ _ h
    · exact h

theorem agrees_reset {s : State} {x : Proxy} (a : Option Status) (b c : Option Bool) (hx : Agrees s x) :
    Agrees s (x.reset a b c none) := by
  unfold Agrees at *
  simp only [reset_held_none, reset_name, reset_pt]
  exact hx

theorem holdInv_releaseRunahead {g : Graph} {s : State} (h : HoldInv s) : HoldInv (releaseRunahead g s).1 := by
  unfold releaseRunahead
  split
  · exact h
  · split
    · exact h
    · simp only
      refine foldl_inv HoldInv _ ?_ _ _ h
      intro st x hst
      apply holdInv_spawnNextParentless
      split
      · rename_i y hy
        exact holdInv_put hst (agrees_reset _ _ _ (agrees_of_get? hst hy))
      · exact hst

theorem holdInv_releaseRunaheadN {g : Graph} : ∀ (n : Nat) (s : State), HoldInv s → HoldInv (releaseRunaheadN g n s) := by
  intro n; induction n with
  | zero => intro s h; exact h
  | succ n ih =>
    intro s h
    unfold releaseRunaheadN
    simp only
    split
    · exact ih _ (holdInv_releaseRunahead h)
    · exact holdInv_releaseRunahead h

theorem holdInv_queueIfReady {s : State} {x : Proxy} (h : HoldInv s) (hx : Agrees s x) :
    HoldInv (queueIfReady s x) := by
  unfold queueIfReady; split
  · exact holdInv_put h (agrees_reset _ _ _ hx)
  · exact h

/-- `hold_active_task` keeps the invariant, whatever proxy it is given -/
theorem holdInv_holdActive {s : State} (x : Proxy) (h : HoldInv s) : HoldInv (holdActive s x) := by
  unfold holdActive
  simp only
  have hx' : (x.reset (held := some true)).held = true := reset_held_some x true
  split
  · rename_i hc
    apply holdInv_put h
    unfold Agrees
    rw [hx']; simp only [reset_name, reset_pt]
    exact hc.symm
  · rename_i hc
    intro y hy
    show y.held = (s.tasksToHold ++ [(x.name, x.pt)]).contains (y.name, y.pt)
    rcases mem_put hy with ⟨rfl, _⟩ | ⟨hy', hk⟩
    · rw [hx']; simp
    · have hne : (y.name, y.pt) ≠ (x.name, x.pt) := by
        intro he
        simp only [Prod.mk.injEq] at he
        exact hk ⟨by simpa using he.2, by simpa using he.1⟩
      rw [contains_append_ne hne]
      exact h y hy'

theorem contains_filter_ne {l : List (String × Int)} {k k' : String × Int} (hne : k ≠ k') :
    (l.filter (· != k')).contains k = l.contains k := by
  induction l with
  | nil => rfl
  | cons a l ih =>
    simp only [List.filter_cons]
    split
    · simp only [List.contains_cons, ih]
    · rename_i ha
      simp only [bne_iff_ne, ne_eq, Decidable.not_not] at ha
      subst ha
      simp only [List.contains_cons, ih]
      have : (k == a) = false := by simpa using hne
      rw [this]; simp

theorem contains_filter_self {l : List (String × Int)} {k : String × Int} :
    (l.filter (· != k)).contains k = false := by
  induction l with
  | nil => rfl
  | cons a l ih =>
    simp only [List.filter_cons]
    split
    · rename_i ha
      simp only [List.contains_cons, ih, Bool.or_false]
      simp only [bne_iff_ne, ne_eq] at ha
      simpa using fun h => ha h.symm
    · exact ih

/-- `release_held_active_task` keeps the invariant when the given proxy is the pooled one -/
theorem holdInv_releaseHeldActive {s : State} {x : Proxy} (h : HoldInv s) (hx : Agrees s x) :
    HoldInv (releaseHeldActive s x) := by
  unfold releaseHeldActive
  by_cases hxh : x.held = true
  · -- the proxy was held: it is replaced by a released copy
    simp only [hxh, if_true]
    intro y hy
    show y.held = (s.tasksToHold.filter (· != (x.name, x.pt))).contains (y.name, y.pt)
    have hy' := mem_put hy
    have hyf : (x.reset (held := some false)).held = false := reset_held_some x false
    rcases hy' with ⟨hy1, _⟩ | ⟨hy1, hk⟩
    · have hk : y.name = x.name ∧ y.pt = x.pt := by
        rw [hy1]; split <;> simp
      have hh : y.held = false := by
        rw [hy1]; split
        · rw [reset_held_none]; exact hyf
        · exact hyf
      rw [hh, hk.1, hk.2, contains_filter_self]
    · have hk' : ¬ (y.pt = x.pt ∧ y.name = x.name) := by
        intro hh; apply hk
        split <;> simp [hh.1, hh.2]
      have hne : (y.name, y.pt) ≠ (x.name, x.pt) := by
        intro he; simp only [Prod.mk.injEq] at he; exact hk' ⟨he.2, he.1⟩
      rw [contains_filter_ne hne]; exact h y hy1
  · simp only [hxh]
    have hxf : x.held = false := by simpa using hxh
    intro y hy
    show y.held = (s.tasksToHold.filter (· != (x.name, x.pt))).contains (y.name, y.pt)
    have hy1 : y ∈ s.pool := hy
    by_cases hk : y.pt = x.pt ∧ y.name = x.name
    · rw [hk.1, hk.2, contains_filter_self]
      have := h y hy1
      rw [hk.1, hk.2] at this
      rw [this]
      unfold Agrees at hx
      rw [← hx]; exact hxf
    · have hne : (y.name, y.pt) ≠ (x.name, x.pt) := by
        intro he; simp only [Prod.mk.injEq] at he; exact hk ⟨he.2, he.1⟩
      rw [contains_filter_ne hne]; exact h y hy1

theorem holdInv_empty (sp : Option Int) : HoldInv ({ stopPoint := sp } : State) := by
  intro x hx; simp at hx

theorem holdInv_loadFromPoint (g : Graph) : HoldInv (loadFromPoint g) := by
  unfold loadFromPoint
  simp only
  refine foldl_inv HoldInv _ ?_ _ _ ?_
  · intro st x hst
    split
    · rename_i y hy
      exact holdInv_queueIfReady hst (agrees_of_get? hst hy)
    · exact hst
  · apply holdInv_releaseRunaheadN
    apply holdInv_same (same_computeRunahead g _ false)
    refine foldl_inv HoldInv _ ?_ _ _ (holdInv_empty _)
    intro st t hst
    split
    · exact holdInv_spawnAndAdd _ _ hst
    · exact hst

theorem holdInv_releaseAndSubmit {s : State} (h : HoldInv s) : HoldInv (releaseAndSubmit s) := by
  unfold releaseAndSubmit
  simp only
  split
  · exact h
  · show HoldInv _
    have hmem : ∀ x ∈ (s.pool.filter fun x => x.queued && !x.held), x ∈ s.pool :=
      fun x hx => (List.mem_filter.mp hx).1
    -- along the fold the hold table stays that of `s`
    have key : ∀ (l : List Proxy) (st : State), (∀ x ∈ l, x ∈ s.pool) → st.tasksToHold = s.tasksToHold → HoldInv st →
        HoldInv (l.foldl (fun (st : State) x =>
          let y := x.reset (queued := some false)
          let y := { (y.reset (status := some .preparing)) with submitNum := x.submitNum + 1, live := true, timers := true }
          { (st.put y) with launched := st.launched ++ [(x.pt, x.name, x.submitNum + 1)] }) st) ∧
        (l.foldl (fun (st : State) x =>
          let y := x.reset (queued := some false)
          let y := { (y.reset (status := some .preparing)) with submitNum := x.submitNum + 1, live := true, timers := true }
          { (st.put y) with launched := st.launched ++ [(x.pt, x.name, x.submitNum + 1)] }) st).tasksToHold = s.tasksToHold := by
      intro l; induction l with
      | nil => intro st _ ht hst; exact ⟨hst, ht⟩
      | cons a l ih =>
        intro st hl ht hst
        simp only [List.foldl_cons]
        apply ih
        · exact fun x hx => hl x (List.mem_cons_of_mem _ hx)
        · exact ht
        · have ha : Agrees st ({ ((a.reset (queued := some false)).reset (status := some .preparing)) with
              submitNum := a.submitNum + 1, live := true, timers := true } : Proxy) := by
            unfold Agrees
            simp only [reset_held_none, reset_name, reset_pt]
            rw [ht]
            exact h a (hl a List.mem_cons_self)
          exact holdInv_put hst ha
    have := (key _ s hmem rfl h).1
    exact this

theorem holdInv_remove {g : Graph} {s : State} {x : Proxy} (h : HoldInv s) (hx : Agrees s x) :
    HoldInv (remove g s x) := by
  unfold remove
  extract_lets s1 x1 s2
  have h1 : HoldInv s1 := holdInv_releaseHeldActive h hx
  have h2 : HoldInv s2 := by
    simp only [s2]
    split
    · exact holdInv_spawnNextParentless _ h1
    · exact h1
  exact holdInv_sub (s := s2) (fun y hy => (List.mem_filter.mp hy).1) rfl h2

theorem holdInv_removeIfComplete {g : Graph} {s : State} {x : Proxy} (h : HoldInv s) (hx : Agrees s x) :
    HoldInv (removeIfComplete g s x) := by
  unfold removeIfComplete
  split
  · exact h
  · simp only
    have key : ∀ s1 : State, Same s1 s →
        HoldInv (match g.task? x.name with
          | none => s1
          | some t => if isComplete t x.done = true then remove g s1 x else s1) := by
      intro s1 hs1
      have h1 : HoldInv s1 := holdInv_same hs1 h
      have hx1 : Agrees s1 x := by unfold Agrees at *; rw [hs1.2.2.1]; exact hx
      split
      · exact h1
      · split
        · exact holdInv_remove h1 hx1
        · exact h1
    apply key
    split
    · exact ⟨rfl, rfl, rfl, rfl⟩
    · exact Same.refl s

theorem agrees_satisfyMe {s : State} {x : Proxy} (a : Atom) (hx : Agrees s x) : Agrees s (x.satisfyMe a) := hx

theorem holdInv_spawnChildFin {p : Int} {n out : String} {sui : List (Int × String)} {c : Child}
    {st1 : State} {ch : Option Proxy} {inPool : Bool} (h : HoldInv st1)
    (hch : inPool = false → ∀ y, ch = some y → Agrees st1 y) :
    HoldInv (spawnChildFin p n out sui c st1 ch inPool).1 := by
  unfold spawnChildFin
  split
  · exact h
  · rename_i y
    refine foldl_inv (fun a : State × List (Int × String) => HoldInv a.1) _ ?_ _ _ ?_
    · intro a k ha
      simp only
      split
      · exact ha
      · rename_i z hz
        exact holdInv_put ha (agrees_satisfyMe _ (agrees_of_get? ha hz))
    · simp only
      split
      · exact h
      · rename_i hin
        have hin' : inPool = false := by simpa using hin
        exact holdInv_add h (agrees_satisfyMe _ (hch hin' y rfl))

theorem holdInv_spawnChild {g : Graph} {p : Int} {n out : String} {acc : State × List (Int × String)} {c : Child}
    (h : HoldInv acc.1) : HoldInv (spawnChild g p n out acc c).1 := by
  obtain ⟨st, sui⟩ := acc
  rw [spawnChild_eq]
  simp only
  have h0 : HoldInv (if (c.isAbs && !st.absDone.contains ⟨p, n, out⟩) = true then
      { st with absDone := st.absDone ++ [⟨p, n, out⟩] } else st) := by
    split
    · exact holdInv_same (s := st) ⟨rfl, rfl, rfl, rfl⟩ h
    · exact h
  generalize (if (c.isAbs && !st.absDone.contains ⟨p, n, out⟩) = true then
      { st with absDone := st.absDone ++ [⟨p, n, out⟩] } else st) = st0 at h0 ⊢
  split
  · exact holdInv_spawnChildFin h0 (by intro hf; simp at hf)
  · rename_i hg
    obtain ⟨h1, h2⟩ := holdInv_spawnTask (g := g) h0 hg
    exact holdInv_spawnChildFin h1 (fun _ y hy => h2 y hy)

theorem holdInv_spawnOnOutput {g : Graph} {s : State} (p : Int) (n out : String) (h : HoldInv s) :
    HoldInv (spawnOnOutput g s p n out) := by
  unfold spawnOnOutput
  split
  · exact h
  · simp only
    have h1 : ∀ (cs : List Child) (acc : State × List (Int × String)), HoldInv acc.1 →
        HoldInv (cs.foldl (spawnChild g p n out) acc).1 := by
      intro cs; induction cs with
      | nil => intro acc ha; exact ha
      | cons c cs ih => intro acc ha; exact ih _ (holdInv_spawnChild ha)
    have h2 : ∀ (ks : List (Int × String)) (st : State), HoldInv st →
        HoldInv (ks.foldl (fun (st : State) k => match st.get? k.1 k.2 with
          | some z => remove g st z
          | none => st) st) := by
      intro ks; induction ks with
      | nil => intro st hst; exact hst
      | cons k ks ih =>
        intro st hst
        apply ih
        simp only
        split
        · rename_i z hz
          exact holdInv_remove hst (agrees_of_get? hst hz)
        · exact hst
    generalize hR : (List.foldl (spawnChild g p n out) (s, []) _) = R
    have hRn : HoldInv R.1 := by rw [← hR]; exact h1 _ _ h
    have h3 := h2 R.2 R.1 hRn
    split
    · rename_i x' hx'
      exact holdInv_removeIfComplete h3 (agrees_of_get? h3 hx')
    · exact h3

theorem holdInv_store {s : State} {x : Proxy} {tr : Bool} (h : HoldInv s) (hx : tr = false → Agrees s x) :
    HoldInv (store s x tr) := by
  unfold store; split
  · exact holdInv_same (s := s) ⟨rfl, rfl, rfl, rfl⟩ h
  · rename_i htr
    exact holdInv_put h (hx (by simpa using htr))

theorem holdInv_spawnChildren {g : Graph} {s : State} (p : Int) (n out : String) (tr : Bool) (h : HoldInv s) :
    HoldInv (spawnChildren g s p n out tr) := by
  unfold spawnChildren; split
  · exact h
  · exact holdInv_spawnOnOutput _ _ _ h

theorem tasksToHold_store (s : State) (x : Proxy) (tr : Bool) : (store s x tr).tasksToHold = s.tasksToHold := by
  unfold store; split <;> rfl

theorem agrees_of_lookup {s : State} {p : Int} {n : String} {x : Proxy} {tr : Bool} (h : HoldInv s)
    (hl : lookup s p n = some (x, tr)) : tr = false → Agrees s x := by
  intro htr
  unfold lookup at hl
  split at hl
  · rename_i y hy
    simp only [Option.some.injEq, Prod.mk.injEq] at hl
    rw [← hl.1]; exact agrees_of_get? h hy
  · simp only [Option.map_eq_some_iff, Prod.mk.injEq] at hl
    obtain ⟨_, _, _, ht⟩ := hl
    rw [htr] at ht; simp at ht

@[simp] theorem setComplete_pt (g : Graph) (x : Proxy) (m : String) : (setComplete g x m).1.pt = x.pt :=
  (setComplete_fields g x m).1
@[simp] theorem setComplete_name (g : Graph) (x : Proxy) (m : String) : (setComplete g x m).1.name = x.name :=
  (setComplete_fields g x m).2.1
@[simp] theorem setComplete_held (g : Graph) (x : Proxy) (m : String) : (setComplete g x m).1.held = x.held :=
  (setComplete_fields g x m).2.2

/-- discharge `tr = false → Agrees S y` for a `y` obtained from `x` by status / counter / output updates -/
macro "agr " h:ident : tactic =>
  `(tactic| (intro htr; have hh := $h htr; unfold Agrees at hh ⊢
             simp only [reset_held_none, reset_pt, reset_name, setComplete_pt, setComplete_name, setComplete_held]
             exact hh))

theorem holdInv_processMessage (g : Graph) : ∀ (fuel : Nat) (s : State) (p : Int) (n : String) (flag : Flag)
    (sn : Nat) (msg : String), HoldInv s → HoldInv (processMessage g fuel s p n flag sn msg).1 := by
  intro fuel
  induction fuel with
  | zero => intro s p n flag sn msg h; exact h
  | succ fuel ih =>
    intro s p n flag sn msg h
    unfold processMessage
    split
    · exact h
    · rename_i x tr hl
      split
      · exact h
      · split
        · exact h
        · simp only
          have hx : tr = false → Agrees s x := agrees_of_lookup h hl
          have hx0 : tr = false → Agrees s
              (if (msg == "submit-failed" || msg == "failed") = true then (x, some false) else setComplete g x msg).1 := by
            split
            · exact hx
            · agr hx
          generalize (if (msg == "submit-failed" || msg == "failed") = true then (x, some false)
            else setComplete g x msg).1 = x0 at hx0 ⊢
          have himp : ∀ (l : List String) (st : State), HoldInv st →
              HoldInv (l.foldl (fun st m => (processMessage g fuel st p n .internal sn m).1) st) := by
            intro l; induction l with
            | nil => intro st hst; exact hst
            | cons a l ihl => intro st hst; exact ihl _ (ih _ _ _ _ _ _ hst)
          generalize hS : (List.foldl (fun st m => (processMessage g fuel st p n Flag.internal sn m).1) _ _) = S
          have hSn : HoldInv S := by rw [← hS]; exact himp _ _ (holdInv_store h hx0)
          split
          · exact hSn
          · rename_i x1 tr1 hl1
            have hx1 : tr1 = false → Agrees S x1 := agrees_of_lookup hSn hl1
            repeat' split
            all_goals first
              | exact hSn
              | exact holdInv_store hSn (by agr hx1)
              | exact holdInv_spawnChildren _ _ _ _ (holdInv_store hSn (by agr hx1))
              | exact holdInv_spawnChildren _ _ _ _ hSn

theorem holdInv_processQueue {g : Graph} {s : State} (h : HoldInv s) : HoldInv (processQueue g s) := by
  unfold processQueue
  refine foldl_inv HoldInv _ ?_ _ _ (holdInv_same (s := s) ⟨rfl, rfl, rfl, rfl⟩ h)
  intro st grp hst
  simp only
  split
  · exact hst
  · have : ∀ (l : List Msg) (acc : State × Bool), HoldInv acc.1 →
        HoldInv (l.foldl (fun (acc : State × Bool) m =>
          let (st', pl) := processMessage g 4 acc.1 grp.1.1 grp.1.2 .received m.submitNum m.text
          (st', acc.2 || pl)) acc).1 := by
      intro l; induction l with
      | nil => intro acc ha; exact ha
      | cons m l ihl =>
        intro acc ha
        apply ihl
        exact holdInv_processMessage g 4 _ _ _ _ _ _ ha
    have h2 := this grp.2 (st, false) hst
    split
    · exact holdInv_same (s := _) ⟨rfl, rfl, rfl, rfl⟩ h2
    · exact h2

theorem holdInv_sweepQueue {s : State} (h : HoldInv s) : HoldInv (sweepQueue s) := by
  unfold sweepQueue
  refine foldl_inv HoldInv _ ?_ _ _ h
  intro st x hst
  split
  · rename_i y hy
    split
    · have hy0 : Agrees st y := agrees_of_get? hst hy
      have hy' : Agrees st ({ y with retryWait := false } : Proxy) := hy0
      exact holdInv_queueIfReady (holdInv_put hst hy') hy'
    · exact hst
  · exact hst

theorem holdInv_mapUpd {s : State} (h : HoldInv s) (a b : Bool) :
    HoldInv { s with stalled := a, schedUpd := b, pool := s.pool.map fun x => { x with upd := false } } := by
  intro x hx
  simp only [List.mem_map] at hx
  obtain ⟨y, hy, rfl⟩ := hx
  exact h y hy

theorem holdInv_finishLoop {g : Graph} {s : State} (h : HoldInv s) : HoldInv (finishLoop g s) := by
  unfold finishLoop
  extract_lets hasUpd s1 s2 s3
  have h1 : HoldInv s1 := by
    simp only [s1]; split
    · exact holdInv_same (s := s) ⟨rfl, rfl, rfl, rfl⟩ h
    · exact h
  have h2 : HoldInv s2 := by
    simp only [s2]; split
    · exact holdInv_mapUpd h1 _ _
    · exact h1
  have h3 : HoldInv s3 := holdInv_same (s := s2) ⟨rfl, rfl, rfl, rfl⟩ h2
  split
  · exact holdInv_same (same_checkStalled g s3) h3
  · exact h3

theorem holdInv_mainLoop {g : Graph} {s : State} (h : HoldInv s) : HoldInv (mainLoop g s) := by
  unfold mainLoop
  split
  · exact h
  · extract_lets s1 s2 s3 s4 s5 s6
    have h1 : HoldInv s1 := holdInv_same (same_computeRunahead g s false) h
    have h2 : HoldInv s2 := holdInv_releaseRunahead h1
    have h3 : HoldInv s3 := holdInv_same (shutdownBlock_same g s2) h2
    split
    · exact holdInv_same (s := s3) ⟨rfl, rfl, rfl, rfl⟩ h3
    · have h4 : HoldInv s4 := holdInv_sweepQueue h3
      have h5 : HoldInv s5 := by
        simp only [s5]; split
        · exact holdInv_releaseAndSubmit h4
        · exact h4
      exact holdInv_finishLoop (holdInv_processQueue h5)

theorem holdInv_setStopPoint {s : State} (p : Int) (h : HoldInv s) : HoldInv (setStopPoint s p) := by
  unfold setStopPoint
  split
  · exact h
  · simp only
    split
    · split
      · intro x hx
        simp only [List.mem_map] at hx
        obtain ⟨y, hy, rfl⟩ := hx
        have := h y hy
        split
        · show (y.reset (runahead := some true)).held = _
          rw [reset_held_none, reset_name, reset_pt]; exact this
        · exact this
      · exact holdInv_same (s := s) ⟨rfl, rfl, rfl, rfl⟩ h
    · exact holdInv_same (s := s) ⟨rfl, rfl, rfl, rfl⟩ h

theorem holdInv_setHoldPoint {s : State} (p : Int) (h : HoldInv s) : HoldInv (setHoldPoint s p) := by
  unfold setHoldPoint
  simp only
  refine foldl_inv HoldInv _ ?_ _ _ (holdInv_sub (s := s) (fun _ hx => hx) rfl h)
  intro st x hst
  split
  · split
    · exact holdInv_holdActive _ hst
    · exact hst
  · exact hst

theorem holdInv_holdTasks {s : State} (ids : List (Int × String)) (h : HoldInv s) : HoldInv (holdTasks s ids) := by
  unfold holdTasks
  refine foldl_inv HoldInv _ ?_ _ _ h
  intro st k hst
  split
  · exact holdInv_holdActive _ hst
  · rename_i hg
    split
    · exact hst
    · intro x hx
      have hx' : x ∈ st.pool := hx
      show x.held = (st.tasksToHold ++ [(k.2, k.1)]).contains (x.name, x.pt)
      have hne : (x.name, x.pt) ≠ (k.2, k.1) := by
        intro he; simp only [Prod.mk.injEq] at he
        exact get?_none_forall hg x hx' ⟨he.2, he.1⟩
      rw [contains_append_ne hne]; exact hst x hx'

theorem holdInv_releaseTasks {s : State} (ids : List (Int × String)) (h : HoldInv s) :
    HoldInv (releaseTasks s ids) := by
  unfold releaseTasks
  refine foldl_inv HoldInv _ ?_ _ _ h
  intro st k hst
  split
  · exact hst
  · split
    · rename_i y hy
      exact holdInv_releaseHeldActive hst (agrees_of_get? hst hy)
    · rename_i hg
      intro x hx
      have hx' : x ∈ st.pool := hx
      show x.held = (st.tasksToHold.filter (· != (k.2, k.1))).contains (x.name, x.pt)
      have hne : (x.name, x.pt) ≠ (k.2, k.1) := by
        intro he; simp only [Prod.mk.injEq] at he
        exact get?_none_forall hg x hx' ⟨he.2, he.1⟩
      rw [contains_filter_ne hne]; exact hst x hx'

/-! ### `releaseHoldPoint`: everything in the pool is released -/

def releaseAllFold (l : List Proxy) (st : State) : State :=
  l.foldl (fun st x => match st.get? x.pt x.name with
    | some y => releaseHeldActive st y | none => st) st

theorem tasksToHold_releaseHeldActive (s : State) (x : Proxy) :
    (releaseHeldActive s x).tasksToHold = s.tasksToHold.filter (· != (x.name, x.pt)) := by
  unfold releaseHeldActive
  simp only
  split <;> rfl

theorem mem_pool_releaseHeldActive {s : State} {x y : Proxy} (h : y ∈ (releaseHeldActive s x).pool) :
    ∃ z ∈ s.pool, z.pt = y.pt ∧ z.name = y.name := by
  unfold releaseHeldActive at h
  simp only at h
  split at h
  · rcases mem_put h with ⟨rfl, z, hz, hk⟩ | ⟨hy, _⟩
    · exact ⟨z, hz, hk⟩
    · exact ⟨y, hy, rfl, rfl⟩
  · exact ⟨y, h, rfl, rfl⟩

theorem hasKey_releaseHeldActive {s : State} {x : Proxy} {p : Int} {n : String}
    (h : (s.get? p n).isSome = true) : ((releaseHeldActive s x).get? p n).isSome = true := by
  cases hg : s.get? p n with
  | none => simp [hg] at h
  | some z =>
    obtain ⟨hz, hzp, hzn⟩ := get?_some_mem hg
    unfold releaseHeldActive
    simp only
    have key : ∀ s' : State, (∃ w ∈ s'.pool, w.pt = p ∧ w.name = n) → (s'.get? p n).isSome = true := by
      intro s' ⟨w, hw, hwp, hwn⟩
      have := get?_isSome_of_mem hw
      rw [hwp, hwn] at this; exact this
    split
    · show ((State.put s _).get? p n).isSome = true
      apply key
      by_cases hk : z.pt = x.pt ∧ z.name = x.name
      · refine ⟨_, mem_put_self (x := _) hz ?_, ?_, ?_⟩
        · split <;> simp [hk.1, hk.2]
        · split <;> simp [← hk.1, hzp]
        · split <;> simp [← hk.2, hzn]
      · refine ⟨z, mem_put_of_ne hz ?_, hzp, hzn⟩
        intro hh; apply hk
        split at hh <;> simpa using hh
    · exact key _ ⟨z, hz, hzp, hzn⟩

theorem releaseAllFold_shrinks : ∀ (l : List Proxy) (st : State) (k : String × Int),
    k ∉ st.tasksToHold → k ∉ (releaseAllFold l st).tasksToHold := by
  intro l; induction l with
  | nil => intro st k h; exact h
  | cons a l ih =>
    intro st k h
    unfold releaseAllFold
    simp only [List.foldl_cons]
    apply ih
    split
    · rw [tasksToHold_releaseHeldActive]
      intro hm; exact h (List.mem_filter.mp hm).1
    · exact h

theorem releaseAllFold_removes : ∀ (l : List Proxy) (st : State) (x : Proxy), x ∈ l →
    (st.get? x.pt x.name).isSome = true → (x.name, x.pt) ∉ (releaseAllFold l st).tasksToHold := by
  intro l; induction l with
  | nil => intro st x hx; simp at hx
  | cons a l ih =>
    intro st x hx hk
    unfold releaseAllFold
    simp only [List.foldl_cons]
    rcases List.mem_cons.mp hx with rfl | hx'
    · apply releaseAllFold_shrinks
      cases hg : st.get? x.pt x.name with
      | none => simp [hg] at hk
      | some y =>
        obtain ⟨_, hyp, hyn⟩ := get?_some_mem hg
        simp only
        rw [tasksToHold_releaseHeldActive, hyp, hyn]
        intro hm
        have := (List.mem_filter.mp hm).2
        simp at this
    · apply ih _ x hx'
      split
      · exact hasKey_releaseHeldActive hk
      · exact hk

theorem releaseAllFold_keys : ∀ (l : List Proxy) (st : State) (y : Proxy), y ∈ (releaseAllFold l st).pool →
    ∃ z ∈ st.pool, z.pt = y.pt ∧ z.name = y.name := by
  intro l; induction l with
  | nil => intro st y hy; exact ⟨y, hy, rfl, rfl⟩
  | cons a l ih =>
    intro st y hy
    unfold releaseAllFold at hy
    simp only [List.foldl_cons] at hy
    obtain ⟨z, hz, hzp, hzn⟩ := ih _ y hy
    split at hz
    · obtain ⟨w, hw, hwp, hwn⟩ := mem_pool_releaseHeldActive hz
      exact ⟨w, hw, hwp.trans hzp, hwn.trans hzn⟩
    · exact ⟨z, hz, hzp, hzn⟩

theorem holdInv_releaseAllFold : ∀ (l : List Proxy) (st : State), HoldInv st → HoldInv (releaseAllFold l st) := by
  intro l st h
  unfold releaseAllFold
  refine foldl_inv HoldInv _ ?_ _ _ h
  intro st x hst
  split
  · rename_i y hy
    exact holdInv_releaseHeldActive hst (agrees_of_get? hst hy)
  · exact hst

/-- after `release_hold_point` no proxy of the pool is held -/
theorem releaseHoldPoint_all_released {s : State} (h : HoldInv s) :
    ∀ y ∈ (releaseHoldPoint s).pool, y.held = false := by
  unfold releaseHoldPoint
  simp only
  intro y hy
  have h0 : HoldInv ({ s with holdPoint := none } : State) := holdInv_sub (s := s) (fun _ hx => hx) rfl h
  have hy' : y ∈ (releaseAllFold s.pool { s with holdPoint := none }).pool := hy
  obtain ⟨z, hz, hzp, hzn⟩ := releaseAllFold_keys _ _ y hy'
  have hz' : z ∈ s.pool := hz
  have hrem := releaseAllFold_removes s.pool { s with holdPoint := none } z hz' (get?_isSome_of_mem hz)
  have := holdInv_releaseAllFold s.pool _ h0 y hy'
  rw [this, ← hzp, ← hzn]
  simpa using hrem

theorem holdInv_releaseHoldPoint {s : State} (h : HoldInv s) : HoldInv (releaseHoldPoint s) := by
  intro y hy
  rw [releaseHoldPoint_all_released h y hy]
  unfold releaseHoldPoint
  simp

/-! ### restart -/

/-- the per-proxy part of `restart` (what `load_db_task_pool_for_restart` rebuilds from a `task_pool` row) -/
def restoreProxy (x : Proxy) : Proxy :=
  let (status, sn) := if x.status == .preparing then (Status.waiting, x.submitNum - 1) else (x.status, x.submitNum)
  let keepOut := status == .running || status == .failed || status == .succeeded
  let final := status == .failed || status == .succeeded || status == .expired
  { x with status := status, submitNum := sn, done := if keepOut then x.done else [],
           queued := false, runahead := !final, retryWait := false, live := false,
           upd := (x.status == .preparing) || final }

theorem restoreProxy_fields (x : Proxy) :
    (restoreProxy x).pt = x.pt ∧ (restoreProxy x).name = x.name ∧ (restoreProxy x).held = x.held :=
  ⟨rfl, rfl, rfl⟩

/-- the state loaded from the database, before `configure` re-applies the hold point -/
def restartLoaded (g : Graph) (s : State) : State :=
  let cfgStop : Option Int := match s.dbStopCp with | some p => some p | none => g.cfgStop
  let pool := s.pool.map restoreProxy
  let wait := pool.isEmpty || (match cfgStop with
    | some sp => pool.all (fun x => x.pt > sp)
    | none => false)
  { pool := pool, hist := s.hist, absDone := s.absDone,
    tasksToHold := s.tasksToHold, holdPoint := s.holdPoint, stopPoint := some (cfgStop.getD g.fcp),
    dbStopCp := s.dbStopCp, restartWait := wait,
    stopTask := s.stopTask, stopTaskFinished := false, schedUpd := true }

/-- `restart` = load, then re-apply the hold point -/
theorem restart_eq (g : Graph) (s : State) :
    restart g s = match s.holdPoint with
      | some hp => setHoldPoint (restartLoaded g s) hp
      | none => restartLoaded g s := by
  unfold restart restartLoaded restoreProxy
  rfl

theorem holdInv_restartLoaded {g : Graph} {s : State} (h : HoldInv s) : HoldInv (restartLoaded g s) := by
  intro x hx
  have hx' : x ∈ s.pool.map restoreProxy := hx
  obtain ⟨y, hy, rfl⟩ := List.mem_map.mp hx'
  exact h y hy

theorem holdInv_restart {g : Graph} {s : State} (h : HoldInv s) : HoldInv (restart g s) := by
  rw [restart_eq]
  split
  · exact holdInv_setHoldPoint _ (holdInv_restartLoaded h)
  · exact holdInv_restartLoaded h

theorem holdInv_step {g : Graph} {s : State} (op : Op) (h : HoldInv s) : HoldInv (step g s op) := by
  unfold step
  have hc : HoldInv (clearOp s) := holdInv_sub (s := s) (fun _ hx => hx) rfl h
  cases op with
  | loop => exact holdInv_mainLoop hc
  | subres p n ok sn => exact holdInv_processMessage g 4 _ _ _ _ _ _ hc
  | msg p n sn text => exact holdInv_same (s := clearOp s) ⟨rfl, rfl, rfl, rfl⟩ hc
  | hold ids => exact holdInv_holdTasks _ hc
  | release ids => exact holdInv_releaseTasks _ hc
  | setHoldPoint p => exact holdInv_setHoldPoint _ hc
  | releaseHoldPoint => exact holdInv_releaseHoldPoint hc
  | stop mode => exact holdInv_same (s := clearOp s) ⟨rfl, rfl, rfl, rfl⟩ hc
  | stopPoint p => exact holdInv_setStopPoint _ hc
  | stopTask p n => exact holdInv_same (s := clearOp s) ⟨rfl, rfl, rfl, rfl⟩ hc
  | pause => exact holdInv_same (s := clearOp s) ⟨rfl, rfl, rfl, rfl⟩ hc
  | resume => exact holdInv_same (s := clearOp s) ⟨rfl, rfl, rfl, rfl⟩ hc
  | restart => exact holdInv_restart hc

/-- in every state of every run, a pooled proxy is held exactly when its instance is in the hold table -/
theorem holdInv_run (g : Graph) (ops : List Op) : ∀ s ∈ run g ops, HoldInv s :=
  run_inv HoldInv g (holdInv_loadFromPoint g) (fun _ op h => holdInv_step op h) ops

theorem holdInv_final (g : Graph) (ops : List Op) : HoldInv (final g ops) :=
  holdInv_run g ops _ (final_mem_run g ops)

/-- with the invariant, one held proxy of an instance means the instance is held -/
theorem keyHeld_of_holdInv {s : State} {x : Proxy} (h : HoldInv s) (hx : x ∈ s.pool) (hh : x.held = true) :
    KeyHeld x.pt x.name s := by
  refine ⟨⟨x, hx, rfl, rfl⟩, ?_⟩
  intro y hy hp hn
  rw [h y hy, hp, hn, ← h x hx]; exact hh

/-! ### `setHoldPoint`: what it does to the pool and the hold table -/

def holdBeyondFold (p : Int) (l : List Proxy) (st : State) : State :=
  l.foldl (fun st x => if x.pt > p then
      match st.get? x.pt x.name with | some y => holdActive st y | none => st
    else st) st

theorem setHoldPoint_eq (s : State) (p : Int) :
    setHoldPoint s p = holdBeyondFold p s.pool { s with holdPoint := some p } := rfl

/-- every proxy of the instance is held -/
def AllHeld (p : Int) (n : String) (st : State) : Prop := ∀ y ∈ st.pool, y.pt = p → y.name = n → y.held = true

theorem pool_holdActive (s : State) (x : Proxy) : (holdActive s x).pool = (s.put (x.reset (held := some true))).pool := by
  unfold holdActive; simp only; split <;> rfl

theorem allHeld_holdActive {p : Int} {n : String} {st : State} (x : Proxy) (h : AllHeld p n st) :
    AllHeld p n (holdActive st x) := by
  intro y hy hp hn
  rw [pool_holdActive] at hy
  rcases mem_put hy with ⟨rfl, _⟩ | ⟨hy', _⟩
  · exact reset_held_some x true
  · exact h y hy' hp hn

theorem allHeld_holdActive_self {st : State} (x : Proxy) : AllHeld x.pt x.name (holdActive st x) := by
  intro y hy hp hn
  rw [pool_holdActive] at hy
  rcases mem_put hy with ⟨rfl, _⟩ | ⟨_, hk⟩
  · exact reset_held_some x true
  · exact absurd ⟨by simpa using hp, by simpa using hn⟩ hk

theorem hasKey_of_exists {s : State} {p : Int} {n : String} (h : ∃ w ∈ s.pool, w.pt = p ∧ w.name = n) :
    (s.get? p n).isSome = true := by
  obtain ⟨w, hw, hwp, hwn⟩ := h
  have := get?_isSome_of_mem hw
  rw [hwp, hwn] at this; exact this

theorem exists_of_hasKey {s : State} {p : Int} {n : String} (h : (s.get? p n).isSome = true) :
    ∃ w ∈ s.pool, w.pt = p ∧ w.name = n := by
  cases hg : s.get? p n with
  | none => simp [hg] at h
  | some z => exact ⟨z, get?_some_mem hg⟩

/-- `put` keeps the set of keys -/
theorem keys_put_iff (s : State) (x : Proxy) (p : Int) (n : String) :
    (∃ w ∈ (s.put x).pool, w.pt = p ∧ w.name = n) ↔ (∃ w ∈ s.pool, w.pt = p ∧ w.name = n) := by
  constructor
  · rintro ⟨w, hw, hwp, hwn⟩
    rcases mem_put hw with ⟨rfl, z, hz, hk⟩ | ⟨hw', _⟩
    · exact ⟨z, hz, hk.1.trans hwp, hk.2.trans hwn⟩
    · exact ⟨w, hw', hwp, hwn⟩
  · rintro ⟨w, hw, hwp, hwn⟩
    by_cases hk : w.pt = x.pt ∧ w.name = x.name
    · exact ⟨x, mem_put_self hw hk, hk.1 ▸ hwp, hk.2 ▸ hwn⟩
    · exact ⟨w, mem_put_of_ne hw hk, hwp, hwn⟩

theorem keys_holdActive_iff (s : State) (x : Proxy) (p : Int) (n : String) :
    (∃ w ∈ (holdActive s x).pool, w.pt = p ∧ w.name = n) ↔ (∃ w ∈ s.pool, w.pt = p ∧ w.name = n) := by
  rw [pool_holdActive]; exact keys_put_iff s _ p n

theorem holdBeyondFold_keys (p : Int) : ∀ (l : List Proxy) (st : State) (q : Int) (n : String),
    (∃ w ∈ (holdBeyondFold p l st).pool, w.pt = q ∧ w.name = n) ↔ (∃ w ∈ st.pool, w.pt = q ∧ w.name = n) := by
  intro l; induction l with
  | nil => intro st q n; exact Iff.rfl
  | cons a l ih =>
    intro st q n
    unfold holdBeyondFold
    simp only [List.foldl_cons]
    refine (ih _ q n).trans ?_
    split
    · split
      · exact keys_holdActive_iff _ _ _ _
      · exact Iff.rfl
    · exact Iff.rfl

theorem holdBeyondFold_allHeld_mono (p : Int) : ∀ (l : List Proxy) (st : State) (q : Int) (n : String),
    AllHeld q n st → AllHeld q n (holdBeyondFold p l st) := by
  intro l; induction l with
  | nil => intro st q n h; exact h
  | cons a l ih =>
    intro st q n h
    unfold holdBeyondFold
    simp only [List.foldl_cons]
    apply ih
    split
    · split
      · exact allHeld_holdActive _ h
      · exact h
    · exact h

/-- every instance of the list that lies beyond the point and is in the pool is held afterwards -/
theorem holdBeyondFold_holds (p : Int) : ∀ (l : List Proxy) (st : State) (x : Proxy), x ∈ l → x.pt > p →
    AllHeld x.pt x.name (holdBeyondFold p l st) := by
  intro l; induction l with
  | nil => intro st x hx; simp at hx
  | cons a l ih =>
    intro st x hx hgt
    rcases List.mem_cons.mp hx with rfl | hx'
    · unfold holdBeyondFold
      simp only [List.foldl_cons, hgt, if_true]
      apply holdBeyondFold_allHeld_mono
      cases hg : st.get? x.pt x.name with
      | none =>
        intro y hy hp hn
        exact absurd ⟨hp, hn⟩ (get?_none_forall hg y hy)
      | some y0 =>
        obtain ⟨_, h1, h2⟩ := get?_some_mem hg
        have := allHeld_holdActive_self (st := st) y0
        rw [h1, h2] at this
        exact this
    · unfold holdBeyondFold
      simp only [List.foldl_cons]
      exact ih _ x hx' hgt

/-- proxies at or before the point are not touched -/
theorem holdBeyondFold_untouched (p : Int) : ∀ (l : List Proxy) (st : State) (y : Proxy), ¬ y.pt > p →
    (y ∈ (holdBeyondFold p l st).pool ↔ y ∈ st.pool) := by
  intro l; induction l with
  | nil => intro st y _; exact Iff.rfl
  | cons a l ih =>
    intro st y hy
    unfold holdBeyondFold
    simp only [List.foldl_cons]
    refine (ih _ y hy).trans ?_
    split
    · rename_i hgt
      split
      · rename_i y0 hy0
        obtain ⟨_, h1, h2⟩ := get?_some_mem hy0
        rw [pool_holdActive]
        have hne : ¬ (y.pt = (y0.reset (held := some true)).pt ∧ y.name = (y0.reset (held := some true)).name) := by
          intro hk
          apply hy
          rw [hk.1, reset_pt, h1]; exact hgt
        constructor
        · intro hm
          rcases mem_put hm with ⟨rfl, _⟩ | ⟨hm', _⟩
          · exact absurd ⟨rfl, rfl⟩ hne
          · exact hm'
        · intro hm; exact mem_put_of_ne hm hne
      · exact Iff.rfl
    · exact Iff.rfl

theorem tasksToHold_holdActive (s : State) (x : Proxy) :
    (holdActive s x).tasksToHold =
      if s.tasksToHold.contains (x.name, x.pt) then s.tasksToHold else s.tasksToHold ++ [(x.name, x.pt)] := by
  unfold holdActive
  simp only
  by_cases hc : s.tasksToHold.contains (x.name, x.pt) = true
  · have hc' : (s.put (x.reset (held := some true))).tasksToHold.contains (x.name, x.pt) = true := hc
    rw [if_pos hc', if_pos hc]; rfl
  · have hc' : ¬ (s.put (x.reset (held := some true))).tasksToHold.contains (x.name, x.pt) = true := hc
    rw [if_neg hc', if_neg hc]; rfl

/-- the hold table only grows, and only by pooled instances beyond the point -/
theorem holdBeyondFold_table (p : Int) : ∀ (l : List Proxy) (st : State),
    (∀ k ∈ st.tasksToHold, k ∈ (holdBeyondFold p l st).tasksToHold) ∧
    (∀ k ∈ (holdBeyondFold p l st).tasksToHold, k ∈ st.tasksToHold ∨ ∃ x ∈ l, k = (x.name, x.pt) ∧ x.pt > p) := by
  intro l; induction l with
  | nil => intro st; exact ⟨fun k hk => hk, fun k hk => Or.inl hk⟩
  | cons a l ih =>
    intro st
    unfold holdBeyondFold
    simp only [List.foldl_cons]
    split
    · rename_i hgt
      split
      · rename_i y0 hy0
        obtain ⟨_, h1, h2⟩ := get?_some_mem hy0
        obtain ⟨i1, i2⟩ := ih (holdActive st y0)
        constructor
        · intro k hk
          apply i1
          rw [tasksToHold_holdActive]
          split
          · exact hk
          · exact List.mem_append_left _ hk
        · intro k hk
          rcases i2 k hk with hk' | ⟨x, hx, hkx⟩
          · rw [tasksToHold_holdActive] at hk'
            split at hk'
            · exact Or.inl hk'
            · rcases List.mem_append.mp hk' with hk'' | hk''
              · exact Or.inl hk''
              · right
                simp only [List.mem_singleton] at hk''
                exact ⟨a, List.mem_cons_self, by rw [hk'', h1, h2], hgt⟩
          · exact Or.inr ⟨x, List.mem_cons_of_mem _ hx, hkx⟩
      · obtain ⟨i1, i2⟩ := ih st
        refine ⟨i1, fun k hk => ?_⟩
        rcases i2 k hk with hk' | ⟨x, hx, hkx⟩
        · exact Or.inl hk'
        · exact Or.inr ⟨x, List.mem_cons_of_mem _ hx, hkx⟩
    · obtain ⟨i1, i2⟩ := ih st
      refine ⟨i1, fun k hk => ?_⟩
      rcases i2 k hk with hk' | ⟨x, hx, hkx⟩
      · exact Or.inl hk'
      · exact Or.inr ⟨x, List.mem_cons_of_mem _ hx, hkx⟩

theorem holdPoint_holdBeyondFold (p : Int) : ∀ (l : List Proxy) (st : State),
    (holdBeyondFold p l st).holdPoint = st.holdPoint := by
  intro l st
  unfold holdBeyondFold
  refine foldl_inv (fun s' : State => s'.holdPoint = st.holdPoint) _ ?_ _ _ rfl
  intro s' x hs'
  split
  · split
    · unfold holdActive; simp only; split <;> exact hs'
    · exact hs'
  · exact hs'

/-! ### what a restart does to the holds -/

theorem restart_holdPoint (g : Graph) (s : State) : (restart g s).holdPoint = s.holdPoint := by
  rw [restart_eq]
  split
  · rename_i hp hhp
    rw [setHoldPoint_eq, holdPoint_holdBeyondFold, hhp]
  · rfl

theorem restart_table (g : Graph) (s : State) :
    (∀ k ∈ s.tasksToHold, k ∈ (restart g s).tasksToHold) ∧
    (∀ k ∈ (restart g s).tasksToHold, k ∈ s.tasksToHold ∨
      ∃ x ∈ s.pool, k = (x.name, x.pt) ∧ beyondHold s.holdPoint x.pt = true) := by
  rw [restart_eq]
  split
  · rename_i hp hhp
    rw [setHoldPoint_eq]
    obtain ⟨i1, i2⟩ := holdBeyondFold_table hp (restartLoaded g s).pool { restartLoaded g s with holdPoint := some hp }
    refine ⟨fun k hk => i1 k hk, fun k hk => ?_⟩
    rcases i2 k hk with hk' | ⟨y, hy, hky, hgt⟩
    · exact Or.inl hk'
    · have hy' : y ∈ s.pool.map restoreProxy := hy
      obtain ⟨x, hx, rfl⟩ := List.mem_map.mp hy'
      exact Or.inr ⟨x, hx, hky, by simp [beyondHold, hhp]; exact hgt⟩
  · exact ⟨fun k hk => hk, fun k hk => Or.inl hk⟩

/-- every proxy after the restart is a proxy from before, with its held flag, or held because it lies
beyond the hold point -/
theorem restart_pool_after (g : Graph) (s : State) :
    ∀ y ∈ (restart g s).pool, ∃ x ∈ s.pool, x.pt = y.pt ∧ x.name = y.name ∧
      (y.held = x.held ∨ (beyondHold s.holdPoint y.pt = true ∧ y.held = true)) := by
  intro y hy
  rw [restart_eq] at hy
  split at hy
  · rename_i hp hhp
    rw [setHoldPoint_eq] at hy
    by_cases hgt : y.pt > hp
    · -- some proxy of that key was loaded, and all of them are held now
      obtain ⟨w, hw, hwp, hwn⟩ :=
        (holdBeyondFold_keys hp (restartLoaded g s).pool { restartLoaded g s with holdPoint := some hp } y.pt y.name).mp
          ⟨y, hy, rfl, rfl⟩
      have hw' : w ∈ s.pool.map restoreProxy := hw
      obtain ⟨x, hx, rfl⟩ := List.mem_map.mp hw'
      have hall := holdBeyondFold_holds hp (restartLoaded g s).pool { restartLoaded g s with holdPoint := some hp }
        (restoreProxy x) hw (by rw [hwp]; exact hgt)
      refine ⟨x, hx, hwp, hwn, Or.inr ⟨by simp [beyondHold, hhp]; exact hgt, ?_⟩⟩
      exact hall y hy hwp.symm hwn.symm
    · have hy0 := (holdBeyondFold_untouched hp (restartLoaded g s).pool
        { restartLoaded g s with holdPoint := some hp } y hgt).mp hy
      have hy' : y ∈ s.pool.map restoreProxy := hy0
      obtain ⟨x, hx, rfl⟩ := List.mem_map.mp hy'
      exact ⟨x, hx, rfl, rfl, Or.inl rfl⟩
  · have hy' : y ∈ s.pool.map restoreProxy := hy
    obtain ⟨x, hx, rfl⟩ := List.mem_map.mp hy'
    exact ⟨x, hx, rfl, rfl, Or.inl rfl⟩

/-- every proxy from before the restart is there after it, with its held flag, or held because it lies
beyond the hold point -/
theorem restart_pool_before (g : Graph) (s : State) :
    ∀ x ∈ s.pool, ∃ y ∈ (restart g s).pool, y.pt = x.pt ∧ y.name = x.name ∧
      (y.held = x.held ∨ (beyondHold s.holdPoint x.pt = true ∧ y.held = true)) := by
  intro x hx
  have hrx : restoreProxy x ∈ (restartLoaded g s).pool := List.mem_map.mpr ⟨x, hx, rfl⟩
  rw [restart_eq]
  split
  · rename_i hp hhp
    rw [setHoldPoint_eq]
    by_cases hgt : x.pt > hp
    · obtain ⟨y, hy, hyp, hyn⟩ :=
        (holdBeyondFold_keys hp (restartLoaded g s).pool { restartLoaded g s with holdPoint := some hp } x.pt x.name).mpr
          ⟨restoreProxy x, hrx, rfl, rfl⟩
      have hall := holdBeyondFold_holds hp (restartLoaded g s).pool { restartLoaded g s with holdPoint := some hp }
        (restoreProxy x) hrx hgt
      exact ⟨y, hy, hyp, hyn, Or.inr ⟨by simp [beyondHold, hhp]; exact hgt, hall y hy hyp hyn⟩⟩
    · have := (holdBeyondFold_untouched hp (restartLoaded g s).pool
        { restartLoaded g s with holdPoint := some hp } (restoreProxy x) hgt).mpr hrx
      exact ⟨restoreProxy x, this, rfl, rfl, Or.inl rfl⟩
  · exact ⟨restoreProxy x, hrx, rfl, rfl, Or.inl rfl⟩

/-! ### hold commands -/

theorem holdActive_table_mono (s : State) (x : Proxy) : ∀ k ∈ s.tasksToHold, k ∈ (holdActive s x).tasksToHold := by
  intro k hk
  rw [tasksToHold_holdActive]
  split
  · exact hk
  · exact List.mem_append_left _ hk

theorem holdActive_table_self (s : State) (x : Proxy) : (x.name, x.pt) ∈ (holdActive s x).tasksToHold := by
  rw [tasksToHold_holdActive]
  split
  · rename_i hc; simpa using hc
  · simp

/-- one id of a hold command -/
def holdOne (st : State) (k : Int × String) : State :=
  match st.get? k.1 k.2 with
  | some y => holdActive st y
  | none => if st.tasksToHold.contains (k.2, k.1) then st
            else { st with tasksToHold := st.tasksToHold ++ [(k.2, k.1)] }

theorem holdTasks_eq (s : State) (ids : List (Int × String)) : holdTasks s ids = ids.foldl holdOne s := rfl

theorem holdOne_mono (st : State) (k : Int × String) : ∀ j ∈ st.tasksToHold, j ∈ (holdOne st k).tasksToHold := by
  intro j hj
  unfold holdOne
  split
  · exact holdActive_table_mono _ _ j hj
  · split
    · exact hj
    · exact List.mem_append_left _ hj

theorem holdOne_self (st : State) (k : Int × String) : (k.2, k.1) ∈ (holdOne st k).tasksToHold := by
  unfold holdOne
  split
  · rename_i y hy
    obtain ⟨_, h1, h2⟩ := get?_some_mem hy
    have := holdActive_table_self st y
    rw [h1, h2] at this; exact this
  · split
    · rename_i hc; simpa using hc
    · simp

theorem holdTasks_mono (s : State) (ids : List (Int × String)) :
    ∀ j ∈ s.tasksToHold, j ∈ (holdTasks s ids).tasksToHold := by
  rw [holdTasks_eq]
  induction ids generalizing s with
  | nil => intro j hj; exact hj
  | cons k ids ih =>
    intro j hj
    simp only [List.foldl_cons]
    exact ih _ j (holdOne_mono s k j hj)

/-- **a hold command records every id it is given** (pooled or not) -/
theorem holdTasks_mem (s : State) (ids : List (Int × String)) :
    ∀ k ∈ ids, (k.2, k.1) ∈ (holdTasks s ids).tasksToHold := by
  rw [holdTasks_eq]
  induction ids generalizing s with
  | nil => intro k hk; simp at hk
  | cons a ids ih =>
    intro k hk
    simp only [List.foldl_cons]
    rcases List.mem_cons.mp hk with rfl | hk'
    · have := holdTasks_mono (holdOne s k) ids _ (holdOne_self s k)
      rw [holdTasks_eq] at this; exact this
    · exact ih _ k hk'

/-- after `set_hold_point p` every pooled proxy beyond `p` is held -/
theorem setHoldPoint_holds (s : State) (p : Int) :
    (setHoldPoint s p).holdPoint = some p ∧ ∀ y ∈ (setHoldPoint s p).pool, y.pt > p → y.held = true := by
  rw [setHoldPoint_eq]
  refine ⟨by rw [holdPoint_holdBeyondFold], ?_⟩
  intro y hy hgt
  obtain ⟨w, hw, hwp, hwn⟩ :=
    (holdBeyondFold_keys p s.pool { s with holdPoint := some p } y.pt y.name).mp ⟨y, hy, rfl, rfl⟩
  have hw' : w ∈ s.pool := hw
  exact holdBeyondFold_holds p s.pool { s with holdPoint := some p } w hw' (by rw [hwp]; exact hgt) y hy hwp.symm hwn.symm

/-! ### `Keeps`: a recorded hold disappears only with the removal of the instance (or a release command) -/

/-- an instance removed from the pool during the current operation -/
def GhostKey (s : State) (k : String × Int) : Prop := ∃ x ∈ s.ghosts, (x.name, x.pt) = k

/-- every hold recorded in `s` is still recorded in `s'`, unless the instance was removed from the pool meanwhile -/
def Keeps (s s' : State) : Prop :=
  (∀ k ∈ s.tasksToHold, k ∈ s'.tasksToHold ∨ GhostKey s' k) ∧ (∀ k, GhostKey s k → GhostKey s' k)

theorem Keeps.refl (s : State) : Keeps s s := ⟨fun _ hk => Or.inl hk, fun _ hk => hk⟩

theorem Keeps.trans {a b c : State} (h1 : Keeps a b) (h2 : Keeps b c) : Keeps a c := by
  refine ⟨fun k hk => ?_, fun k hk => h2.2 k (h1.2 k hk)⟩
  rcases h1.1 k hk with h | h
  · exact h2.1 k h
  · exact Or.inr (h2.2 k h)

theorem keeps_of_eq {s s' : State} (ht : s'.tasksToHold = s.tasksToHold) (hg : s'.ghosts = s.ghosts) : Keeps s s' := by
  refine ⟨fun k hk => Or.inl (ht ▸ hk), fun k hk => ?_⟩
  unfold GhostKey at *; rw [hg]; exact hk

theorem keeps_of_same_ghosts {s s' : State} (hs : Same s' s) (hg : s'.ghosts = s.ghosts) : Keeps s s' :=
  keeps_of_eq hs.2.2.1 hg

theorem keeps_put (s : State) (x : Proxy) : Keeps s (s.put x) := keeps_of_eq rfl rfl

theorem keeps_add (s : State) (x : Proxy) : Keeps s (s.add x) := by
  unfold State.add; split
  · exact Keeps.refl s
  · exact keeps_of_eq rfl rfl

theorem keeps_spawnTask (g : Graph) (s : State) (n : String) (p : Int) : Keeps s (spawnTask g s n p).1 := by
  cases hsp : (spawnTask g s n p).2 with
  | none => rw [spawnTask_none hsp]; exact Keeps.refl s
  | some y =>
    rw [(spawnTask_some hsp).2.2.2]
    refine ⟨fun k hk => Or.inl ?_, fun k hk => hk⟩
    show k ∈ holdTableAfterSpawn s n p
    unfold holdTableAfterSpawn
    split
    · exact List.mem_append_left _ hk
    · exact hk

theorem keeps_spawnAndAdd (g : Graph) (s : State) (n : String) (p : Int) : Keeps s (spawnAndAdd g s n p) := by
  unfold spawnAndAdd
  split
  · exact Keeps.refl s
  · have h := keeps_spawnTask g s n p
    split
    · rename_i st x heq
      rw [heq] at h
      exact h.trans (keeps_add _ _)
    · rename_i st heq
      rw [heq] at h
      exact h

theorem keeps_spawnNextParentless (g : Graph) (s : State) (x : Proxy) : Keeps s (spawnNextParentless g s x) := by
  unfold spawnNextParentless
  split
  · exact Keeps.refl s
  · split
    · exact keeps_spawnAndAdd _ _ _ _
    · exact Keeps.refl s

theorem foldl_keeps {α} (f : State → α → State) (h : ∀ s a, Keeps s (f s a)) :
    ∀ (l : List α) (s : State), Keeps s (l.foldl f s) := by
  intro l; induction l with
  | nil => intro s; exact Keeps.refl s
  | cons a l ih => intro s; exact (h s a).trans (ih _)

theorem keeps_releaseRunahead (g : Graph) (s : State) : Keeps s (releaseRunahead g s).1 := by
  unfold releaseRunahead
  split
  · exact Keeps.refl s
  · split
    · exact Keeps.refl s
    · simp only
      apply foldl_keeps
      intro st x
      have h1 : Keeps st (match st.get? x.pt x.name with
          | some y => st.put (y.reset (runahead := some false))
          | none => st) := by
        split
        · exact keeps_put _ _
        · exact Keeps.refl st
      exact h1.trans (keeps_spawnNextParentless _ _ _)

theorem ghosts_releaseHeldActive (s : State) (x : Proxy) : (releaseHeldActive s x).ghosts = s.ghosts := by
  unfold releaseHeldActive; simp only; split <;> rfl

/-- `remove` drops the hold of the removed instance only, and that instance becomes a ghost -/
theorem keeps_remove (g : Graph) (s : State) (x : Proxy) : Keeps s (remove g s x) := by
  unfold remove
  extract_lets s1 x1 s2
  have hx1 : (x1.name, x1.pt) = (x.name, x.pt) := by
    simp only [x1]
    cases hg : s1.get? x.pt x.name with
    | none => rfl
    | some y =>
      obtain ⟨_, h1, h2⟩ := get?_some_mem hg
      simp [h1, h2]
  have h12 : Keeps s1 s2 := by
    simp only [s2]; split
    · exact keeps_spawnNextParentless _ _ _
    · exact Keeps.refl s1
  constructor
  · intro k hk
    by_cases hkx : k = (x.name, x.pt)
    · right
      refine ⟨x1, ?_, hx1.trans hkx.symm⟩
      show x1 ∈ s2.ghosts ++ [x1]
      simp
    · have hk1 : k ∈ s1.tasksToHold := by
        simp only [s1]
        rw [tasksToHold_releaseHeldActive]
        exact List.mem_filter.mpr ⟨hk, by simpa using hkx⟩
      rcases h12.1 k hk1 with h | ⟨w, hw, hwk⟩
      · exact Or.inl h
      · right
        refine ⟨w, ?_, hwk⟩
        show w ∈ s2.ghosts ++ [x1]
        exact List.mem_append_left _ hw
  · intro k ⟨w, hw, hwk⟩
    have hw1 : w ∈ s1.ghosts := by simp only [s1]; rw [ghosts_releaseHeldActive]; exact hw
    obtain ⟨w', hw', hwk'⟩ := h12.2 k ⟨w, hw1, hwk⟩
    refine ⟨w', ?_, hwk'⟩
    show w' ∈ s2.ghosts ++ [x1]
    exact List.mem_append_left _ hw'

theorem keeps_removeIfComplete (g : Graph) (s : State) (x : Proxy) : Keeps s (removeIfComplete g s x) := by
  unfold removeIfComplete
  split
  · exact Keeps.refl s
  · simp only
    have key : ∀ s1 : State, Keeps s s1 →
        Keeps s (match g.task? x.name with
          | none => s1
          | some t => if isComplete t x.done = true then remove g s1 x else s1) := by
      intro s1 hs1
      split
      · exact hs1
      · split
        · exact hs1.trans (keeps_remove _ _ _)
        · exact hs1
    apply key
    split
    · exact keeps_of_eq rfl rfl
    · exact Keeps.refl s

theorem keeps_spawnChildFin (p : Int) (n out : String) (sui : List (Int × String)) (c : Child)
    (st1 : State) (ch : Option Proxy) (inPool : Bool) : Keeps st1 (spawnChildFin p n out sui c st1 ch inPool).1 := by
  unfold spawnChildFin
  split
  · exact Keeps.refl st1
  · refine foldl_inv (fun a : State × List (Int × String) => Keeps st1 a.1) _ ?_ _ _ ?_
    · intro a k ha
      simp only
      split
      · exact ha
      · exact ha.trans (keeps_put _ _)
    · simp only
      split
      · exact Keeps.refl st1
      · exact keeps_add _ _

theorem keeps_spawnChild (g : Graph) (p : Int) (n out : String) (acc : State × List (Int × String)) (c : Child) :
    Keeps acc.1 (spawnChild g p n out acc c).1 := by
  obtain ⟨st, sui⟩ := acc
  rw [spawnChild_eq]
  simp only
  have h0 : Keeps st (if (c.isAbs && !st.absDone.contains ⟨p, n, out⟩) = true then
      { st with absDone := st.absDone ++ [⟨p, n, out⟩] } else st) := by
    split
    · exact keeps_of_eq rfl rfl
    · exact Keeps.refl st
  generalize (if (c.isAbs && !st.absDone.contains ⟨p, n, out⟩) = true then
      { st with absDone := st.absDone ++ [⟨p, n, out⟩] } else st) = st0 at h0 ⊢
  split
  · exact h0.trans (keeps_spawnChildFin _ _ _ _ _ _ _ _)
  · exact (h0.trans (keeps_spawnTask g st0 c.name c.pt)).trans (keeps_spawnChildFin _ _ _ _ _ _ _ _)

theorem keeps_spawnOnOutput (g : Graph) (s : State) (p : Int) (n out : String) :
    Keeps s (spawnOnOutput g s p n out) := by
  unfold spawnOnOutput
  split
  · exact Keeps.refl s
  · simp only
    have h1 : ∀ (cs : List Child) (acc : State × List (Int × String)),
        Keeps acc.1 (cs.foldl (spawnChild g p n out) acc).1 := by
      intro cs; induction cs with
      | nil => intro acc; exact Keeps.refl _
      | cons c cs ih => intro acc; exact (keeps_spawnChild g p n out acc c).trans (ih _)
    have h2 : ∀ (ks : List (Int × String)) (st : State),
        Keeps st (ks.foldl (fun (st : State) k => match st.get? k.1 k.2 with
          | some z => remove g st z
          | none => st) st) := by
      intro ks; induction ks with
      | nil => intro st; exact Keeps.refl _
      | cons k ks ih =>
        intro st
        simp only [List.foldl_cons]
        refine Keeps.trans ?_ (ih _)
        split
        · exact keeps_remove _ _ _
        · exact Keeps.refl st
    generalize hR : (List.foldl (spawnChild g p n out) (s, []) _) = R
    have hRn : Keeps s R.1 := by rw [← hR]; exact h1 _ (s, [])
    have h3 := hRn.trans (h2 R.2 R.1)
    split
    · exact h3.trans (keeps_removeIfComplete _ _ _)
    · exact h3

/-- `store` of a proxy with the key it was looked up under -/
theorem keeps_store (s : State) (x : Proxy) (tr : Bool) : Keeps s (store s x tr) := by
  unfold store; split
  · refine ⟨fun k hk => Or.inl hk, fun k hk => ?_⟩
    obtain ⟨w, hw, hwk⟩ := hk
    by_cases hkx : w.pt = x.pt ∧ w.name = x.name
    · refine ⟨x, ?_, by rw [← hwk, hkx.1, hkx.2]⟩
      simp only [List.mem_map]
      exact ⟨w, hw, by simp [hkx.1, hkx.2]⟩
    · refine ⟨w, ?_, hwk⟩
      simp only [List.mem_map]
      refine ⟨w, hw, ?_⟩
      split
      · rename_i hk'
        simp only [Bool.and_eq_true, beq_iff_eq] at hk'
        exact absurd hk' hkx
      · rfl
  · exact keeps_put _ _

theorem keeps_spawnChildren (g : Graph) (s : State) (p : Int) (n out : String) (tr : Bool) :
    Keeps s (spawnChildren g s p n out tr) := by
  unfold spawnChildren; split
  · exact Keeps.refl s
  · exact keeps_spawnOnOutput _ _ _ _ _

theorem keeps_processMessage (g : Graph) : ∀ (fuel : Nat) (s : State) (p : Int) (n : String) (flag : Flag)
    (sn : Nat) (msg : String), Keeps s (processMessage g fuel s p n flag sn msg).1 := by
  intro fuel
  induction fuel with
  | zero => intro s p n flag sn msg; exact Keeps.refl s
  | succ fuel ih =>
    intro s p n flag sn msg
    unfold processMessage
    split
    · exact Keeps.refl s
    · rename_i x tr _
      split
      · exact Keeps.refl s
      · split
        · exact Keeps.refl s
        · simp only
          have himp : ∀ (l : List String) (st : State),
              Keeps st (l.foldl (fun st m => (processMessage g fuel st p n .internal sn m).1) st) := by
            intro l; induction l with
            | nil => intro st; exact Keeps.refl st
            | cons a l ihl => intro st; exact (ih _ _ _ _ _ _).trans (ihl _)
          generalize hS : (List.foldl (fun st m => (processMessage g fuel st p n Flag.internal sn m).1) _ _) = S
          have hSn : Keeps s S := by rw [← hS]; exact (keeps_store _ _ _).trans (himp _ _)
          split
          · exact hSn
          · repeat' split
            all_goals first
              | exact hSn
              | exact hSn.trans (keeps_store _ _ _)
              | exact (hSn.trans (keeps_store _ _ _)).trans (keeps_spawnChildren _ _ _ _ _ _)
              | exact hSn.trans (keeps_spawnChildren _ _ _ _ _ _)

theorem foldl_keeps_fst {α β} (f : State × β → α → State × β) (h : ∀ a x, Keeps a.1 (f a x).1) :
    ∀ (l : List α) (a : State × β), Keeps a.1 (l.foldl f a).1 := by
  intro l; induction l with
  | nil => intro a; exact Keeps.refl _
  | cons x l ih => intro a; exact (h a x).trans (ih _)

theorem keeps_processQueue (g : Graph) (s : State) : Keeps s (processQueue g s) := by
  unfold processQueue
  refine Keeps.trans (b := { s with queue := [] }) (keeps_of_eq rfl rfl) ?_
  apply foldl_keeps
  intro st grp
  simp only
  split
  · exact Keeps.refl st
  · have h2 := foldl_keeps_fst (fun (acc : State × Bool) (m : Msg) =>
          let (st', pl) := processMessage g 4 acc.1 grp.1.1 grp.1.2 .received m.submitNum m.text
          (st', acc.2 || pl))
        (fun a m => keeps_processMessage g 4 a.1 grp.1.1 grp.1.2 .received m.submitNum m.text) grp.2 (st, false)
    split
    · exact h2.trans (keeps_of_eq rfl rfl)
    · exact h2

theorem ghosts_checkStalled (g : Graph) (s : State) : (checkStalled g s).ghosts = s.ghosts := by
  unfold checkStalled; split
  · rfl
  · split
    · rfl
    · split <;> rfl

theorem ghosts_checkAutoShutdown (g : Graph) (s : State) : (checkAutoShutdown g s).1.ghosts = s.ghosts := by
  unfold checkAutoShutdown
  split
  · rfl
  · simp only
    split
    · exact ghosts_checkStalled _ _
    · split
      · exact ghosts_checkStalled _ _
      · exact ghosts_checkStalled _ _

theorem ghosts_stopTaskDone (s : State) : (stopTaskDone s).1.ghosts = s.ghosts := by
  unfold stopTaskDone; split <;> rfl

theorem ghosts_computeRunahead (g : Graph) (s : State) (f : Bool) : (computeRunahead g s f).ghosts = s.ghosts := by
  unfold computeRunahead
  simp only
  split
  · rfl
  · split <;> rfl

theorem keeps_queueIfReady (s : State) (x : Proxy) : Keeps s (queueIfReady s x) := by
  unfold queueIfReady; split
  · exact keeps_put _ _
  · exact Keeps.refl s

theorem keeps_sweepQueue (s : State) : Keeps s (sweepQueue s) := by
  unfold sweepQueue
  apply foldl_keeps
  intro st x
  split
  · split
    · exact (keeps_put _ _).trans (keeps_queueIfReady _ _)
    · exact Keeps.refl st
  · exact Keeps.refl st

theorem keeps_releaseAndSubmit (s : State) : Keeps s (releaseAndSubmit s) := by
  unfold releaseAndSubmit
  simp only
  split
  · exact Keeps.refl s
  · refine Keeps.trans (b := List.foldl _ s _) ?_ (keeps_of_eq rfl rfl)
    apply foldl_keeps
    intro st x
    exact keeps_of_eq rfl rfl

theorem keeps_finishLoop (g : Graph) (s : State) : Keeps s (finishLoop g s) := by
  unfold finishLoop
  extract_lets hasUpd s1 s2 s3
  have h1 : Keeps s s1 := by simp only [s1]; split; exact keeps_of_eq rfl rfl; exact Keeps.refl s
  have h2 : Keeps s1 s2 := by simp only [s2]; split; exact keeps_of_eq rfl rfl; exact Keeps.refl s1
  have h3 : Keeps s2 s3 := keeps_of_eq rfl rfl
  have h := (h1.trans h2).trans h3
  split
  · exact h.trans (keeps_of_same_ghosts (same_checkStalled g s3) (ghosts_checkStalled g s3))
  · exact h

theorem shutdownBlock_ghosts (g : Graph) (s2 : State) :
    (if s2.stopMode.isNone = true then
        match stopTaskDone s2 with
        | (s, std) =>
          if std = true then { s with stopMode := some "AUTOMATIC" }
          else
            match checkAutoShutdown g s with
            | (s, auto) => if auto = true then { s with stopMode := some "AUTOMATIC" } else s
      else s2).ghosts = s2.ghosts := by
  split
  · simp only
    split
    · exact ghosts_stopTaskDone s2
    · split
      · exact (ghosts_checkAutoShutdown g _).trans (ghosts_stopTaskDone s2)
      · exact (ghosts_checkAutoShutdown g _).trans (ghosts_stopTaskDone s2)
  · rfl

theorem keeps_mainLoop (g : Graph) (s : State) : Keeps s (mainLoop g s) := by
  unfold mainLoop
  split
  · exact Keeps.refl s
  · extract_lets s1 s2 s3 s4 s5 s6
    have h1 : Keeps s s1 := keeps_of_same_ghosts (same_computeRunahead g s false) (ghosts_computeRunahead g s false)
    have h2 : Keeps s1 s2 := keeps_releaseRunahead g s1
    have h3 : Keeps s2 s3 := keeps_of_same_ghosts (shutdownBlock_same g s2) (shutdownBlock_ghosts g s2)
    have h123 := (h1.trans h2).trans h3
    split
    · exact h123.trans (keeps_of_eq rfl rfl)
    · have h4 : Keeps s3 s4 := keeps_sweepQueue s3
      have h5 : Keeps s4 s5 := by
        simp only [s5]; split
        · exact keeps_releaseAndSubmit s4
        · exact Keeps.refl s4
      exact (((h123.trans h4).trans h5).trans (keeps_processQueue g s5)).trans (keeps_finishLoop g s6)

theorem keeps_holdActive (s : State) (x : Proxy) : Keeps s (holdActive s x) := by
  refine ⟨fun k hk => Or.inl (holdActive_table_mono s x k hk), fun k hk => ?_⟩
  have : (holdActive s x).ghosts = s.ghosts := by unfold holdActive; simp only; split <;> rfl
  unfold GhostKey at *; rw [this]; exact hk

theorem keeps_setHoldPoint (s : State) (p : Int) : Keeps s (setHoldPoint s p) := by
  rw [setHoldPoint_eq]
  refine Keeps.trans (b := { s with holdPoint := some p }) (keeps_of_eq rfl rfl) ?_
  unfold holdBeyondFold
  apply foldl_keeps
  intro st x
  split
  · split
    · exact keeps_holdActive _ _
    · exact Keeps.refl st
  · exact Keeps.refl st

theorem keeps_holdTasks (s : State) (ids : List (Int × String)) : Keeps s (holdTasks s ids) := by
  rw [holdTasks_eq]
  apply foldl_keeps
  intro st k
  unfold holdOne
  split
  · exact keeps_holdActive _ _
  · split
    · exact Keeps.refl st
    · exact ⟨fun j hj => Or.inl (List.mem_append_left _ hj), fun j hj => hj⟩

theorem keeps_setStopPoint (s : State) (p : Int) : Keeps s (setStopPoint s p) := by
  unfold setStopPoint
  split
  · exact Keeps.refl s
  · simp only
    split
    · split
      · exact keeps_of_eq rfl rfl
      · exact keeps_of_eq rfl rfl
    · exact keeps_of_eq rfl rfl

/-- an operation that is not a release command never drops a recorded hold, except with the removal of the
instance from the pool in that very operation -/
theorem keeps_step (g : Graph) (s : State) (op : Op)
    (hop : (∀ ids, op ≠ .release ids) ∧ op ≠ .releaseHoldPoint) :
    ∀ k ∈ s.tasksToHold, k ∈ (step g s op).tasksToHold ∨ GhostKey (step g s op) k := by
  have hc : ∀ s' : State, Keeps (clearOp s) s' → ∀ k ∈ s.tasksToHold, k ∈ s'.tasksToHold ∨ GhostKey s' k :=
    fun s' h k hk => h.1 k hk
  unfold step
  cases op with
  | loop => exact hc _ (keeps_mainLoop g _)
  | subres p n ok sn => exact hc _ (keeps_processMessage g 4 _ _ _ _ _ _)
  | msg p n sn text => exact hc _ (keeps_of_eq rfl rfl)
  | hold ids => exact hc _ (keeps_holdTasks _ _)
  | release ids => exact absurd rfl (hop.1 ids)
  | setHoldPoint p => exact hc _ (keeps_setHoldPoint _ _)
  | releaseHoldPoint => exact absurd rfl hop.2
  | stop mode => exact hc _ (keeps_of_eq rfl rfl)
  | stopPoint p => exact hc _ (keeps_setStopPoint _ _)
  | stopTask p n => exact hc _ (keeps_of_eq rfl rfl)
  | pause => exact hc _ (keeps_of_eq rfl rfl)
  | resume => exact hc _ (keeps_of_eq rfl rfl)
  | restart => exact fun k hk => Or.inl ((restart_table g (clearOp s)).1 k hk)

end CylcModel.Sched2
