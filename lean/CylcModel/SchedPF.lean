/-
Extension of the `Sched` model (which stays as it is) by one outcome of job submission: **job-file preparation
fails** for some of the proxies that a main loop has just sent to job preparation.  Anchor:
`TaskJobManager._prep_submit_task_job` (the `except Exception` handler of "(prepare job file)") and
`_prep_submit_task_job_error`: the flag `waiting_on_job_prep` is cleared and the failure is reported as the internal
message "submission failed" (submit-failed via the preparation path: submission retry or final submit-failed),
inside the main loop, after the release of the queued tasks and before the message queue is processed.
The failed attempt has consumed a submit number; it is not a launch (no job exists).
The JSON layer also canonicalises the failure texts of job scripts (`failed/<SIGNAL>`, `aborted/<reason>` → `failed`).
Core Lean only.
-/
import CylcModel.SchedJson
open Lean CylcModel.Drv

namespace CylcModel.Sched

/-- operations of the extended model: the operations of `Sched`, or a main loop in which the job-file preparation of
the listed instances (in processing order) fails -/
inductive OpX where
  | base (op : Op)
  | loopPF (fails : List (Int × String))

/-- the preparation failure of one instance that this main loop has sent to job preparation -/
def prepFail (g : Graph) (s : State) (k : Int × String) : State :=
  match s.get? k.1 k.2 with
  | some x =>
    if x.status == .preparing && s.launched.any (fun l => l.1 == k.1 && l.2.1 == k.2) then
      (processMessage g 4 s k.1 k.2 .internal x.submitNum "submit-failed").1
    else s
  | none => s

/-- `mainLoop` with preparation failures between job submission and message processing.  `launched` keeps the
failed attempts (they carry submit numbers); the observation splits them off (`obsX`). -/
def mainLoopPF (g : Graph) (s : State) (fails : List (Int × String)) : State :=
  if s.stop.isSome then s else
  let s := computeRunahead g s
  let s := (releaseRunahead g s).1
  let r := checkAutoShutdown g s
  if r.2 then { r.1 with stop := some "AUTOMATIC" } else
  let s := releaseAndSubmit (sweepQueue r.1)
  let s := fails.foldl (prepFail g) s
  finishLoop g (processQueue g s)

def stepX (g : Graph) (s : State) : OpX → State
  | .base op => step g s op
  | .loopPF fails => mainLoopPF g (clearOp s) fails

/-- all states of a run of the extended model -/
def traceX (g : Graph) : State → List OpX → List State
  | s, [] => [s]
  | s, op :: ops => s :: traceX g (stepX g s op) ops

def runX (g : Graph) (ops : List OpX) : List State := traceX g (init g) ops

/-! ### JSON -/

/-- the text of a job message as `process_message` reads it: the failure report of a job script carries the run
signal or the abort reason (`failed/ERR`, `failed/SIGTERM`, `aborted/<reason>`); `split_run_signal` strips it and
both prefixes denote the output `failed` -/
def canonMsg (text : String) : String :=
  if text.startsWith "failed/" || text.startsWith "aborted/" then "failed" else text

def canonOp : Op → Op
  | .msg p n sn text => .msg p n sn (canonMsg text)
  | op => op

def parseOpX (j : Json) : Except String OpX := do
  match jStrField? j "op", jArrField? j "prepfail" with
  | some "loop", some (f :: fs) =>
    let ks ← (f :: fs).mapM fun e => do
      match jArr? e with
      | some (t :: _) => parseTaskId (← req (jStr? t) "prepfail task")
      | _ => .error "bad prepfail entry"
    return .loopPF ks
  | _, _ => return .base (canonOp (← parseOp j))

structure CaseX where
  graph : Graph
  ops : List OpX

def parseCaseX (i : Json) : Except String CaseX := do
  let g ← parseGraph (← req (jField? i "graph") "graph")
  let ops ← ((jArrField? i "ops").getD []).mapM parseOpX
  return { graph := g, ops }

def launchJson (l : Int × String × Nat) : Json := Json.arr #[jOfInt l.1, Json.str l.2.1, jOfNat l.2.2]

/-- the observation of a state reached by `op`: as `obsJson`, with the failed preparations taken off the launch list
and listed (in processing order) under "prepfail" -/
def obsX (g : Graph) (s : State) (op : Option OpX) : Json :=
  let fails : List (Int × String) := match op with
    | some (.loopPF fs) => fs.filter fun k => s.launched.any fun l => l.1 == k.1 && l.2.1 == k.2
    | _ => []
  let isFail (l : Int × String × Nat) : Bool := fails.any fun k => k.1 == l.1 && k.2 == l.2.1
  let good := s.launched.filter fun l => !isFail l
  let bad := fails.filterMap fun k => s.launched.find? fun l => l.1 == k.1 && l.2.1 == k.2
  ((obsJson g s).setObjVal! "launch" (jOfList launchJson (sortBy launchLt good))).setObjVal! "prepfail"
    (jOfList launchJson bad)

def modelObsX (c : CaseX) : Json :=
  let states := runX c.graph c.ops
  let ops : List (Option OpX) := none :: c.ops.map some
  Json.arr ((states.zip ops).map fun so => obsX c.graph so.1 so.2).toArray


/-! ### Job vacation

A poll finds the message `vacated/<SIGNAL>` in the job status file of the CURRENT job of a pooled proxy (the
batch system pre-empted the running job and will start it again).  Anchor: the vacation branch of
`TaskEventsManager.process_message` (flag POLLED): ignored while a retry is lined up; otherwise the status goes
back to `submitted` (queued flag cleared if the status changed), the SUBMISSION try counter is reset, the
execution try counter is left alone.  The operations of `SchedPF` and their theorems are unchanged; vacation is a
further operation of the correspondence only (not covered by the theorems). -/

def vacate (g : Graph) (s : State) (p : Int) (n : String) (sn : Nat) : State :=
  let _ := g
  match s.get? p n with
  | none => s
  | some x =>
    if x.submitNum != sn || sn == 0 then s                       -- the poll output is matched to the current job
    else if x.status == .waiting && x.submitNum > 0 && (x.subTry > 0 || x.execTry > 0) then s
    else
      let y := x.reset (status := some .submitted)
      let y := if x.status != .submitted then y.reset (queued := some false) else y
      s.put { y with subTry := 0 }

inductive OpV where
  | x (op : OpX)
  | vacate (p : Int) (n : String) (sn : Nat)

def stepV (g : Graph) (s : State) : OpV → State
  | .x op => stepX g s op
  | .vacate p n sn => vacate g (clearOp s) p n sn

def traceV (g : Graph) : State → List OpV → List State
  | s, [] => [s]
  | s, op :: ops => s :: traceV g (stepV g s op) ops

def runV (g : Graph) (ops : List OpV) : List State := traceV g (init g) ops

def parseOpV (j : Json) : Except String OpV := do
  match jStrField? j "op" with
  | some "pollres" =>
    let st ← req (jStrField? j "state") "pollres state"
    if st.startsWith "vacated/" then
      let (p, n) ← parseTaskId (← req (jStrField? j "task") "task")
      return .vacate p n (← req (jNatField? j "sn") "sn")
    else .error s!"unsupported poll result {st}"
  | _ => return .x (← parseOpX j)

structure CaseV where
  graph : Graph
  ops : List OpV

def parseCaseV (i : Json) : Except String CaseV := do
  let g ← parseGraph (← req (jField? i "graph") "graph")
  let ops ← ((jArrField? i "ops").getD []).mapM parseOpV
  return { graph := g, ops }

def modelObsV (c : CaseV) : Json :=
  let states := runV c.graph c.ops
  let ops : List (Option OpX) := none :: c.ops.map fun o => match o with | .x op => some op | _ => none
  Json.arr ((states.zip ops).map fun so => obsX c.graph so.1 so.2).toArray

end CylcModel.Sched
