/-
DataStore: executable model of the delta algebra of `cylc/flow/data_store_mgr.py` (C25).

What is ported, as it is:

* `apply_delta(key, delta, data)` for the six id-keyed element types and for the workflow element
  (added / updated / pruned, the `CLEAR_FIELD_MAP` and `DEQUE_FIELD_MAP` rules, the removal of
  relationships when an element is pruned, missing elements skipped);
* the protocol of a subscriber (cylc-uiserver): a delta flagged `reloaded` first clears its type;
* `generate_checksum` (adler32 of the sorted, concatenated stamps);
* the delta constructors for task proxies: `delta_task_state` ("only the fields that differ from the store
  or from the pending delta"), `delta_task_held`, `_delta_task_flow_nums`, `delta_task_outputs`,
  `delta_task_prerequisite`, and the flush of a pending delta into the store.

Protobuf messages are modelled by their *set* fields (what `ListFields()` reports), flattened:
`s` singular scalars (sub-messages flattened to dotted paths, every value rendered as text),
`r` repeated fields (message items rendered as canonical text), `m` map fields (key -> value text;
protobuf `MergeFrom` replaces a map entry as a whole).  `MergeFrom` semantics are ASSUMED to be:
set scalars overwrite, repeated fields append, map entries are replaced by key, singular sub-messages
merge field-wise (= the flattening).  The assumption is exercised against the real protobuf runtime by
the correspondence run, it is not proved about protobuf.

Tables (`CLEAR_FIELD_MAP`, `DEQUE_FIELD_MAP`, `RESET_PROTOBUF_TYPES`) are regenerated from the live
source into `Generated/DataStoreTables.lean`.

Core Lean only (links into the driver executable).
-/
import CylcModel.Generated.DataStoreTables

namespace CylcModel.DataStore

/-! ## association lists (Python dicts: insertion ordered, unique keys) -/

abbrev AL (β : Type) := List (String × β)

namespace AL
variable {β : Type}

def get? : AL β → String → Option β
  | [], _ => none
  | (k, v) :: t, x => if k = x then some v else get? t x

def has (l : AL β) (x : String) : Bool := (get? l x).isSome

/-- `d[k] = v`: replace in place when present, append otherwise. -/
def upsert : AL β → String → β → AL β
  | [], x, v => [(x, v)]
  | (k, w) :: t, x, v => if k = x then (k, v) :: t else (k, w) :: upsert t x v

/-- `del d[k]` (no-op when absent). -/
def erase : AL β → String → AL β
  | [], _ => []
  | (k, w) :: t, x => if k = x then t else (k, w) :: erase t x

def keys (l : AL β) : List String := l.map (·.1)

end AL

/-! ## elements (protobuf messages reduced to their set fields) -/

structure Elem where
  s : AL String := []
  r : AL (List String) := []
  m : AL (AL String) := []
  deriving DecidableEq, Repr, Inhabited

namespace Elem

def empty : Elem := {}

def isEmpty (e : Elem) : Bool := e.s.isEmpty && e.r.isEmpty && e.m.isEmpty

/-- value of a singular string field, protobuf default `""` when unset -/
def getS (e : Elem) (k : String) : String := (e.s.get? k).getD ""
/-- value of a singular bool field (rendered "true"/"false"), default false -/
def getB (e : Elem) (k : String) : Bool := e.getS k == "true"
def getR (e : Elem) (k : String) : List String := (e.r.get? k).getD []
def getM (e : Elem) (k : String) : AL String := (e.m.get? k).getD []
def id (e : Elem) : String := e.getS "id"

def setS (e : Elem) (k v : String) : Elem := { e with s := e.s.upsert k v }
def setB (e : Elem) (k : String) (v : Bool) : Elem := e.setS k (if v then "true" else "false")

/-- a path belongs to top-level field `name`: the field itself or a flattened sub-message field -/
def pathUnder (name path : String) : Bool :=
  path == name || (name.toList ++ ['.']).isPrefixOf path.toList

/-- `msg.ClearField(name)` -/
def clearField (e : Elem) (name : String) : Elem :=
  { s := e.s.filter (fun p => !pathUnder name p.1)
    r := e.r.filter (fun p => !pathUnder name p.1)
    m := e.m.filter (fun p => !pathUnder name p.1) }

/-- is top-level field `name` among `msg.ListFields()` -/
def hasField (e : Elem) (name : String) : Bool :=
  e.s.any (fun p => pathUnder name p.1) || e.r.any (fun p => pathUnder name p.1)
    || e.m.any (fun p => pathUnder name p.1)

/-- `d.MergeFrom(u)`: scalars overwrite, repeated fields append, map entries are replaced by key.
(`foldr`: for a list with a repeated key the FIRST pair wins, like `AL.get?`; the flattened form of a
real message never repeats a key.) -/
def merge (d u : Elem) : Elem :=
  { s := u.s.foldr (fun p acc => acc.upsert p.1 p.2) d.s
    r := u.r.foldr (fun p acc => acc.upsert p.1 ((acc.get? p.1).getD [] ++ p.2)) d.r
    m := u.m.foldr (fun p acc =>
        acc.upsert p.1 (p.2.foldr (fun q a => a.upsert q.1 q.2) ((acc.get? p.1).getD []))) d.m }

/-- `list.remove(x)`: first occurrence, no-op (ValueError suppressed) when absent -/
def removeFirst (x : String) : List String → List String
  | [] => []
  | y :: t => if y = x then t else y :: removeFirst x t

/-- `getattr(msg, path).remove(x)` with ValueError suppressed; an emptied repeated field is unset -/
def remR (e : Elem) (path x : String) : Elem :=
  match e.r.get? path with
  | none => e
  | some vs =>
    let vs' := removeFirst x vs
    { e with r := if vs'.isEmpty then e.r.erase path else e.r.upsert path vs' }

end Elem

/-! ## the store -/

inductive Key | edges | families | familyProxies | jobs | tasks | taskProxies
  deriving DecidableEq, Repr, Inhabited

def Key.name : Key → String
  | .edges => "edges" | .families => "families" | .familyProxies => "family_proxies"
  | .jobs => "jobs" | .tasks => "tasks" | .taskProxies => "task_proxies"

def Key.all : List Key := [.edges, .families, .familyProxies, .jobs, .tasks, .taskProxies]

def Key.ofName? (s : String) : Option Key := Key.all.find? (fun k => k.name == s)

structure Store where
  edges : AL Elem := []
  families : AL Elem := []
  familyProxies : AL Elem := []
  jobs : AL Elem := []
  tasks : AL Elem := []
  taskProxies : AL Elem := []
  workflow : Elem := {}
  deriving DecidableEq, Repr, Inhabited

def Store.empty : Store := {}

def Store.get (s : Store) : Key → AL Elem
  | .edges => s.edges | .families => s.families | .familyProxies => s.familyProxies
  | .jobs => s.jobs | .tasks => s.tasks | .taskProxies => s.taskProxies

def Store.set (s : Store) (k : Key) (l : AL Elem) : Store :=
  match k with
  | .edges => { s with edges := l } | .families => { s with families := l }
  | .familyProxies => { s with familyProxies := l } | .jobs => { s with jobs := l }
  | .tasks => { s with tasks := l } | .taskProxies => { s with taskProxies := l }

/-! ## deltas -/

structure Delta where
  key : Key
  reloaded : Bool := false
  added : List Elem := []
  updated : List Elem := []
  pruned : List String := []
  deriving DecidableEq, Repr, Inhabited

structure WDelta where
  reloaded : Bool := false
  added : Elem := {}
  updated : Elem := {}
  pruned : Bool := false
  deriving DecidableEq, Repr, Inhabited

inductive AnyDelta
  | el (d : Delta)
  | wf (d : WDelta)
  deriving DecidableEq, Repr, Inhabited

abbrev Batch := List AnyDelta

/-! ## tables (from the generated file) -/

def clearFields (k : Key) : List String :=
  ((Generated.DataStoreTables.clearFieldMap.find? (fun p => p.1 == k.name)).map (·.2)).getD []
def clearFieldsW : List String :=
  ((Generated.DataStoreTables.clearFieldMap.find? (fun p => p.1 == "workflow")).map (·.2)).getD []
def dequeFieldsW : List (String × Nat) :=
  ((Generated.DataStoreTables.dequeFieldMap.find? (fun p => p.1 == "workflow")).map (·.2)).getD []
def isResetType (k : Key) : Bool := Generated.DataStoreTables.resetTypes.contains k.name

/-! ## apply_delta -/

/-- `data[key].update({e.id: e for e in delta.added})` -/
def addElems (l : AL Elem) (es : List Elem) : AL Elem := es.foldl (fun acc e => acc.upsert e.id e) l

/-- clear the fields of `d` that must be overwritten by update `u` -/
def clearFor (clear : List String) (d u : Elem) : Elem :=
  clear.foldl (fun d f => if u.hasField f then d.clearField f else d) d

/-- the store element after `MergeFrom(u)` with the clear-field rule -/
def flush (clear : List String) (d u : Elem) : Elem := (clearFor clear d u).merge u

/-- one element of `delta.updated`; an element missing from the store is skipped (KeyError) -/
def updElem (clear : List String) (l : AL Elem) (u : Elem) : AL Elem :=
  match l.get? u.id with
  | none => l
  | some d => l.upsert u.id (flush clear d u)

def updElems (clear : List String) (l : AL Elem) (us : List Elem) : AL Elem := us.foldl (updElem clear) l

/-- apply `f` to element `k` of a list when present (KeyError suppressed) -/
def modify (l : AL Elem) (k : String) (f : Elem → Elem) : AL Elem :=
  match l.get? k with
  | none => l
  | some e => l.upsert k (f e)

/-- prune one id of type `key`: remove its relationships, then the element -/
def pruneOne (key : Key) (s : Store) (del : String) : Store :=
  match (s.get key).get? del with
  | none => s
  | some e =>
    let s :=
      match key with
      | .taskProxies =>
        let s := { s with familyProxies := modify s.familyProxies (e.getS "first_parent")
                                             (fun p => p.remR "child_tasks" del) }
        { s with workflow := s.workflow.remR "task_proxies" del }
      | .familyProxies =>
        let s := { s with familyProxies := modify s.familyProxies (e.getS "first_parent")
                                             (fun p => p.remR "child_families" del) }
        { s with workflow := s.workflow.remR "family_proxies" del }
      | .edges =>
        let s := { s with taskProxies := modify s.taskProxies (e.getS "source") (fun p => p.remR "edges" del) }
        let s := { s with taskProxies := modify s.taskProxies (e.getS "target") (fun p => p.remR "edges" del) }
        { s with workflow := s.workflow.remR "edges.edges" del }
      | .jobs => { s with workflow := s.workflow.remR "jobs" del }
      | .tasks => s
      | .families => s
    s.set key ((s.get key).erase del)

/-- `apply_delta(key, delta, data)` for an id-keyed type (the `reloaded` flag is not read here) -/
def applyRaw (s : Store) (d : Delta) : Store :=
  let s := s.set d.key (addElems (s.get d.key) d.added)
  let s := s.set d.key (updElems (clearFields d.key) (s.get d.key) d.updated)
  d.pruned.foldl (pruneOne d.key) s

/-- top-level field names set in a message (`{f.name for f, _ in msg.ListFields()}`), as a membership test -/
def Elem.trimFront (n : Nat) (l : List String) : List String := l.drop (l.length - n)

/-- `apply_delta(WORKFLOW, delta, data)` -/
def applyRawW (w : Elem) (d : WDelta) : Elem :=
  let w := if d.added.isEmpty then w else d.added            -- CopyFrom when any field is set
  let statesUpd := d.updated.getB "states_updated"
  let w := clearFieldsW.foldl (fun w f => if d.updated.hasField f || statesUpd then w.clearField f else w) w
  let w := w.merge d.updated
  let w := dequeFieldsW.foldl (fun w p =>
      if d.updated.hasField p.1 then
        match w.r.get? p.1 with
        | none => w
        | some l => { w with r := w.r.upsert p.1 (Elem.trimFront p.2 l) }
      else w) w
  if d.pruned then w.setB "pruned" true else w

/-- what the scheduler does with one per-type delta of its own batch -/
def applySrv (s : Store) : AnyDelta → Store
  | .el d => applyRaw s d
  | .wf d => { s with workflow := applyRawW s.workflow d }

/-- what a subscriber does with one published per-type delta: `reloaded` clears the type first -/
def applyAny (s : Store) : AnyDelta → Store
  | .el d => applyRaw (if d.reloaded then s.set d.key [] else s) d
  | .wf d => { s with workflow := applyRawW (if d.reloaded then {} else s.workflow) d }

def applyBatch (s : Store) (b : Batch) : Store := b.foldl applyAny s
def applyBatchSrv (s : Store) (b : Batch) : Store := b.foldl applySrv s
def replay (s : Store) (bs : List Batch) : Store := bs.foldl applyBatch s

/-! ## publication -/

def AnyDelta.setReloaded (f : Bool) : AnyDelta → AnyDelta
  | .el d => .el { d with reloaded := f }
  | .wf d => .wf { d with reloaded := f }

/-- the batch `initiate_data_model` publishes: the whole store as `added`, every type flagged `reloaded` -/
def snapshot (s : Store) : Batch :=
  (Key.all.map fun k => AnyDelta.el { key := k, reloaded := true, added := (s.get k).map (·.2) })
    ++ [AnyDelta.wf { reloaded := true, added := s.workflow }]

/-- How the scheduler's own application of a batch changes the batch it publishes afterwards.
`faithful`: not at all.  `aliased` (the code as found): `apply_delta` stores the `added` elements of the delta
themselves (`data[key].update({e.id: e ...})`), so the updates of the same delta are merged INTO the element of
the delta that is published afterwards - for the types in `RESET_PROTOBUF_TYPES` only the first update of an id
(the store entry is then replaced by a copy), for the other types every update. -/
inductive PubPolicy | faithful | aliased
  deriving DecidableEq, Repr, Inhabited

def codePolicy : PubPolicy := if Generated.DataStoreTables.addedAliased then .aliased else .faithful

/-- the `added` element `e` of a delta of type `k` after the scheduler applied the delta to its own store -/
def premerge (k : Key) (updated : List Elem) (e : Elem) : Elem :=
  let us := updated.filter (fun u => u.id == e.id)
  (if isResetType k then us.take 1 else us).foldl (flush (clearFields k)) e

/-- only the last `added` element of an id is the one stored (and aliased) -/
def aliasAdded (k : Key) (updated : List Elem) : List Elem → List Elem
  | [] => []
  | e :: t => (if t.any (fun x => x.id == e.id) then e else premerge k updated e) :: aliasAdded k updated t

def publishDelta (pol : PubPolicy) : AnyDelta → AnyDelta
  | .el d => match pol with
    | .faithful => .el d
    | .aliased => .el { d with added := aliasAdded d.key d.updated d.added }
  | .wf d => .wf d          -- the workflow element is copied (CopyFrom), never aliased

/-- the batch that is published after the scheduler applied batch `b` to its own store -/
def publish (pol : PubPolicy) (b : Batch) : Batch := b.map (publishDelta pol)

/-- what the scheduler does between two observations, as far as the data store is concerned -/
inductive SrvOp
  | upd (b : Batch)      -- a batch applied to the store and published (update_data_structure)
  | loc (b : Batch)      -- a batch applied to the store but not published (first batch of initiate_data_model)
  | snap                 -- the whole store published as a `reloaded` snapshot
  | reset                -- the store re-initialised (reload)
  deriving Repr, Inhabited

structure Sys where
  server : Store := {}
  client : Store := {}
  synced : Bool := false
  deriving Repr, Inhabited

def Sys.step (pol : PubPolicy) (y : Sys) : SrvOp → Sys
  | .upd b => { y with server := applyBatchSrv y.server b
                       client := applyBatch y.client ((publish pol b).map (AnyDelta.setReloaded false)) }
  | .loc b => { y with server := applyBatchSrv y.server b, synced := false }
  | .snap => { y with client := applyBatch y.client (snapshot y.server), synced := true }
  | .reset => { y with server := {}, synced := false }

def Sys.run (pol : PubPolicy) (y : Sys) (ops : List SrvOp) : Sys := ops.foldl (Sys.step pol) y

/-! ## checksums -/

def adler32 (bytes : List UInt8) : Nat :=
  let ab := bytes.foldl (fun (ab : Nat × Nat) c =>
    let a := (ab.1 + c.toNat) % 65521
    (a, (ab.2 + a) % 65521)) (1, 0)
  ab.2 * 65536 + ab.1

def insertSorted (x : String) : List String → List String
  | [] => [x]
  | y :: t => if x ≤ y then x :: y :: t else y :: insertSorted x t

def sortStrings (l : List String) : List String := l.foldr insertSorted []

/-- `generate_checksum(in_strings)` -/
def generateChecksum (strs : List String) : Nat :=
  adler32 (String.join (sortStrings strs)).toUTF8.toList

/-- the checksum of one type of a store: stamps (ids for edges) of all its elements -/
def Store.checksum (s : Store) (k : Key) : Nat :=
  generateChecksum ((s.get k).map fun p => p.2.getS (if k = .edges then "id" else "stamp"))

/-! ## delta constructors for task proxies -/

structure ProxyState where
  status : String
  isHeld : Bool
  isQueued : Bool
  isRunahead : Bool
  deriving DecidableEq, Repr, Inhabited

def ProxyState.flag (p : ProxyState) : String → Bool
  | "is_held" => p.isHeld | "is_queued" => p.isQueued | _ => p.isRunahead

def stateFlags : List String := ["is_held", "is_queued", "is_runahead"]

/-- `delta_task_state`: a field is set on the pending delta when its value differs from the store element
or from the pending delta (unset protobuf fields read as their default) -/
def deltaTaskState (store pending : Elem) (p : ProxyState) (stamp : String) : Elem :=
  let pending := pending.setS "stamp" stamp
  let pending := stateFlags.foldl (fun pend f =>
      if store.getB f != p.flag f || pend.getB f != p.flag f then pend.setB f (p.flag f) else pend) pending
  if store.getS "state" != p.status || pending.getS "state" != p.status then pending.setS "state" p.status
  else pending

/-- `delta_task_held` -/
def deltaTaskHeld (pending : Elem) (held : Bool) (stamp : String) : Elem :=
  (pending.setS "stamp" stamp).setB "is_held" held

/-- `_delta_task_flow_nums` (the serialised set is an opaque text) -/
def deltaTaskFlowNums (pending : Elem) (flows stamp : String) : Elem :=
  (pending.setS "stamp" stamp).setS "flow_nums" flows

/-- `delta_task_outputs`: every output of the proxy is written whole into the `outputs` map of the delta -/
def deltaTaskOutputs (pending : Elem) (outs : AL String) (stamp : String) : Elem :=
  let pending := pending.setS "stamp" stamp
  if outs.isEmpty then pending
  else { pending with m := pending.m.upsert "outputs"
                                (outs.foldr (fun q a => a.upsert q.1 q.2) (pending.getM "outputs")) }

/-- `delta_task_prerequisite`: `del delta.prerequisites[:]; delta.prerequisites.extend(dumps)` -/
def deltaTaskPrereq (pending : Elem) (pres : List String) (stamp : String) : Elem :=
  let pending := pending.setS "stamp" stamp
  { pending with r := if pres.isEmpty then pending.r.erase "prerequisites"
                      else pending.r.upsert "prerequisites" pres }

/-- the store element after the pending delta has been applied (`apply_delta`, task proxies) -/
def flushTP (store pending : Elem) : Elem := flush (clearFields .taskProxies) store pending

end CylcModel.DataStore
