/-
C02 retry bound on the `Sched` model: under the environment assumption (`envOK2`: a failed job-submission is only
reported for an instance that is still preparing; job messages carry the submit number of a real launch, ≥ 1, and
never read "submit-failed") and for runs in which no instance is removed before it is finished and complete
(`histFinalOK`: no suicide removal, hence no revival of a removed proxy), every proxy is launched at most
`(N+1)*(M+1)` times.  Per-proxy invariant of the atomic actions admitted by `Kinds.env`.
-/
import CylcModel.SchedInvC01

namespace CylcModel.Sched

/-- the atomic actions of runs that respect the environment assumption: a submission failure is handled only on
a preparing proxy; started / succeeded / failed are handled only on a proxy that is not waiting; no instance is
removed before it is finished and complete -/
def Kinds.env : Kinds :=
  { allow := prepOnly, msg := fun _ => true, sched := true, live := fun x => x.status != .waiting, retry := true,
    sui := false }

def phaseB : Status → Bool
  | .running | .succeeded | .failed => true
  | _ => false

/-- the invariant on the components of one proxy: `N`, `M` retry limits; status, queued flag, submit number,
execution and submission try numbers -/
def PIl (N M : Nat) (st : Status) (q : Bool) (sn e sb : Nat) : Prop :=
  (q = true → st = .waiting) ∧ (st = .waiting → sn > 0 → e > 0 ∨ sb > 0) ∧ e ≤ N ∧ sb ≤ M ∧
  (phaseB st = true → sn + (if q = true then 1 else 0) ≤ (e + 1) * (M + 1)) ∧
  (phaseB st = false → sn + (if q = true then 1 else 0) ≤ e * (M + 1) + sb + (if st = .waiting ∧ q = false then 0 else 1))

def PI (g : Graph) (x : Proxy) : Prop :=
  PIl (maxExec g x.name) (maxSub g x.name) x.status x.queued x.submitNum x.execTry x.subTry

theorem PIl.bound {N M : Nat} {st : Status} {q : Bool} {sn e sb : Nat} (h : PIl N M st q sn e sb) :
    sn ≤ (N + 1) * (M + 1) := by
  obtain ⟨_, _, h3, h4, h5, h6⟩ := h
  have hm : (e + 1) * (M + 1) ≤ (N + 1) * (M + 1) := Nat.mul_le_mul_right _ (by omega)
  have hm2 : (e + 1) * (M + 1) = e * (M + 1) + M + 1 := by rw [Nat.add_mul]; omega
  cases hb : phaseB st with
  | true => have := h5 hb; split at this <;> omega
  | false => have := h6 hb; split at this <;> split at this <;> omega


theorem failedFinal_fields (g : Graph) (x : Proxy) (st : Status) (m : String) :
    let y := (if (x.status != st) = true then setComplete g (x.reset (status := some st)) m
         else (x.reset (status := some st), none)).1
    y.status = st ∧ y.queued = x.queued ∧ y.submitNum = x.submitNum ∧ y.execTry = x.execTry ∧
      y.subTry = x.subTry ∧ y.name = x.name := by
  simp only
  split
  · have h := setComplete_fields g (x.reset (status := some st)) m
    have hk := setComplete_key g (x.reset (status := some st)) m
    have hs := setComplete_status g (x.reset (status := some st)) m
    simp only [reset_status, Option.getD_some, reset_queued, Option.getD_none, reset_submitNum, reset_execTry,
      reset_subTry, reset_name] at h hk hs
    exact ⟨hs, h.2.2.1, h.2.2.2.2.1, h.2.2.2.2.2.1, h.2.2.2.2.2.2, hk.2⟩
  · simp

theorem setc_fields (g : Graph) (x : Proxy) (m : String) :
    (setComplete g x m).1.status = x.status ∧ (setComplete g x m).1.queued = x.queued ∧
    (setComplete g x m).1.submitNum = x.submitNum ∧ (setComplete g x m).1.execTry = x.execTry ∧
    (setComplete g x m).1.subTry = x.subTry ∧ (setComplete g x m).1.name = x.name := by
  have h := setComplete_fields g x m
  exact ⟨setComplete_status g x m, h.2.2.1, h.2.2.2.2.1, h.2.2.2.2.2.1, h.2.2.2.2.2.2, (setComplete_key g x m).2⟩

/-- every atomic update admitted by `Kinds.env` preserves the per-proxy invariant -/
theorem upd_pi {g : Graph} {s : State} {x y : Proxy} (h : Upd g Kinds.env s x y) (hx : PI g x) : PI g y := by
  unfold PI at *
  have hm2 : ∀ e M : Nat, (e + 1) * (M + 1) = e * (M + 1) + M + 1 := by intro e M; rw [Nat.add_mul]; omega
  cases h with
  | refl => exact hx
  | satisfy => exact hx
  | unwait => exact hx
  | setc msg =>
    obtain ⟨h1, h2, h3, h4, h5, h6⟩ := setc_fields g x msg
    rw [h1, h2, h3, h4, h5, h6]; exact hx
  | release => simpa using hx
  | queue hq =>
    simp only [Bool.and_eq_true, Bool.not_eq_true'] at hq
    have hw : x.status = .waiting := by
      have := hq.2
      unfold Proxy.isReadyToRun at this
      simp only [Bool.and_eq_true, beq_iff_eq] at this
      exact this.1.1.2
    obtain ⟨p1, p2, p3, p4, p5, p6⟩ := hx
    simp only [reset_status, Option.getD_none, reset_queued, Option.getD_some, reset_submitNum, reset_execTry,
      reset_subTry, reset_name]
    refine ⟨fun _ => hw, p2, p3, p4, ?_, ?_⟩
    · intro hb; rw [hw] at hb; cases hb
    · intro hb
      have := p6 hb
      simp only [hq.1.1, hw, Bool.false_eq_true, if_false, true_and, and_self, if_true] at this ⊢
      simp only [Bool.true_eq_false, if_false] at this ⊢
      omega
  | running hm hl =>
    have hnw : x.status ≠ .waiting := by simpa [Kinds.env] using hl
    obtain ⟨p1, p2, p3, p4, p5, p6⟩ := hx
    have hq : x.queued = false := by
      cases hqq : x.queued with
      | false => rfl
      | true => exact absurd (p1 hqq) hnw
    simp only [reset_status, Option.getD_some, reset_queued, Option.getD_none, reset_submitNum, reset_execTry, reset_name]
    refine ⟨(by intro h; rw [hq] at h; cases h), (by intro h; cases h), p3, Nat.zero_le _, ?_, (by intro h; cases h)⟩
    intro _
    rw [hq]
    simp only [Bool.false_eq_true, if_false, Nat.add_zero]
    cases hb : phaseB x.status with
    | true => have := p5 hb; rw [hq] at this; simpa using this
    | false =>
      have := p6 hb
      rw [hq] at this
      simp only [Bool.false_eq_true, if_false, Nat.add_zero, hnw, false_and] at this
      have := hm2 x.execTry (maxSub g x.name)
      omega
  | succeeded hm hl =>
    have hnw : x.status ≠ .waiting := by simpa [Kinds.env] using hl
    obtain ⟨p1, p2, p3, p4, p5, p6⟩ := hx
    have hq : x.queued = false := by
      cases hqq : x.queued with
      | false => rfl
      | true => exact absurd (p1 hqq) hnw
    simp only [reset_status, Option.getD_some, reset_queued, Option.getD_none, reset_submitNum, reset_execTry,
      reset_subTry, reset_name]
    refine ⟨(by intro h; rw [hq] at h; cases h), (by intro h; cases h), p3, p4, ?_, (by intro h; cases h)⟩
    intro _
    rw [hq]
    simp only [Bool.false_eq_true, if_false, Nat.add_zero]
    cases hb : phaseB x.status with
    | true => have := p5 hb; rw [hq] at this; simpa using this
    | false =>
      have := p6 hb
      rw [hq] at this
      simp only [Bool.false_eq_true, if_false, Nat.add_zero, hnw, false_and] at this
      have := hm2 x.execTry (maxSub g x.name)
      omega
  | failedFinal hr hm hl =>
    have hnw : x.status ≠ .waiting := by simpa [Kinds.env] using hl
    obtain ⟨p1, p2, p3, p4, p5, p6⟩ := hx
    have hq : x.queued = false := by
      cases hqq : x.queued with
      | false => rfl
      | true => exact absurd (p1 hqq) hnw
    obtain ⟨f1, f2, f3, f4, f5, f6⟩ := failedFinal_fields g x .failed "failed"
    rw [f1, f2, f3, f4, f5, f6]
    refine ⟨(by intro h; rw [hq] at h; cases h), (by intro h; cases h), p3, p4, ?_, (by intro h; cases h)⟩
    intro _
    rw [hq]
    simp only [Bool.false_eq_true, if_false, Nat.add_zero]
    cases hb : phaseB x.status with
    | true => have := p5 hb; rw [hq] at this; simpa using this
    | false =>
      have := p6 hb
      rw [hq] at this
      simp only [Bool.false_eq_true, if_false, Nat.add_zero, hnw, false_and] at this
      have := hm2 x.execTry (maxSub g x.name)
      omega
  | execRetry hr hm hl hret =>
    have hnw : x.status ≠ .waiting := by simpa [Kinds.env] using hl
    obtain ⟨p1, p2, p3, p4, p5, p6⟩ := hx
    have hq : x.queued = false := by
      cases hqq : x.queued with
      | false => rfl
      | true => exact absurd (p1 hqq) hnw
    simp only [reset_status, Option.getD_some, reset_queued, Option.getD_none, reset_submitNum, reset_subTry, reset_name]
    refine ⟨(fun _ => rfl), fun _ _ => Or.inl (Nat.succ_pos _), hr.2, p4, (by simp [phaseB]), ?_⟩
    intro _
    rw [hq]
    simp only [Bool.false_eq_true, if_false, Nat.add_zero, and_self, if_true]
    have e1 := hm2 x.execTry (maxSub g x.name)
    cases hb : phaseB x.status with
    | true => have := p5 hb; rw [hq] at this; simp only [Bool.false_eq_true, if_false, Nat.add_zero] at this; omega
    | false =>
      have := p6 hb
      rw [hq] at this
      simp only [Bool.false_eq_true, if_false, Nat.add_zero, hnw, false_and] at this
      omega
  | subRetry ha hr hm hret =>
    have hp : x.status = .preparing := by simpa [Kinds.env, prepOnly] using ha
    obtain ⟨p1, p2, p3, p4, p5, p6⟩ := hx
    have hq : x.queued = false := by
      cases hqq : x.queued with
      | false => rfl
      | true => have := p1 hqq; rw [hp] at this; cases this
    simp only [reset_status, Option.getD_some, reset_queued, Option.getD_none, reset_submitNum, reset_execTry, reset_name]
    refine ⟨(fun _ => rfl), fun _ _ => Or.inr (Nat.succ_pos _), p3, hr.2, (by simp [phaseB]), ?_⟩
    intro _
    rw [hq]
    simp only [Bool.false_eq_true, if_false, Nat.add_zero, and_self, if_true]
    have := p6 (by rw [hp]; rfl)
    rw [hq, hp] at this
    simp only [Bool.false_eq_true, if_false, Nat.add_zero, reduceCtorEq, false_and] at this
    omega
  | subFailedFinal ha hr hm =>
    have hp : x.status = .preparing := by simpa [Kinds.env, prepOnly] using ha
    obtain ⟨p1, p2, p3, p4, p5, p6⟩ := hx
    have hq : x.queued = false := by
      cases hqq : x.queued with
      | false => rfl
      | true => have := p1 hqq; rw [hp] at this; cases this
    obtain ⟨f1, f2, f3, f4, f5, f6⟩ := failedFinal_fields g x .submitFailed "submit-failed"
    rw [f1, f2, f3, f4, f5, f6]
    refine ⟨(by intro h; rw [hq] at h; cases h), (by intro h; cases h), p3, p4, (by intro h; cases h), ?_⟩
    intro _
    have := p6 (by rw [hp]; rfl)
    rw [hq, hp] at this
    rw [hq]
    simp only [Bool.false_eq_true, if_false, Nat.add_zero, reduceCtorEq, false_and] at this ⊢
    exact this
  | submitted hp hm =>
    obtain ⟨p1, p2, p3, p4, p5, p6⟩ := hx
    have hq : x.queued = false := by
      cases hqq : x.queued with
      | false => rfl
      | true => have := p1 hqq; rw [hp] at this; cases this
    simp only [reset_status, Option.getD_some, reset_queued, Option.getD_none, reset_submitNum, reset_execTry,
      reset_subTry, reset_name]
    refine ⟨(by intro h; cases h), (by intro h; cases h), p3, p4, (by intro h; cases h), ?_⟩
    intro _
    have := p6 (by rw [hp]; rfl)
    rw [hq, hp] at this
    simp only [Bool.false_eq_true, if_false, Nat.add_zero, reduceCtorEq, false_and] at this ⊢
    exact this


/-! ### The invariant of the state -/

/-- a finished-and-complete history record is never revived -/
theorem spawnTask_not_final {g : Graph} {s : State} {n : String} {p : Int} {y : Proxy} {hr : Hist}
    (h : spawnTask g s n p = some y) (hl : lastHist s n p = some hr) : histFinal g hr = false := by
  have hname := (lastHist_mem hl).2.2
  unfold spawnTask at h
  simp only at h
  change (if ((lastHist s n p).isNone && decide (p < g.start)) = true then none else _) = some y at h
  rw [hl] at h
  simp only [Option.isNone_some, Bool.false_and, Bool.false_eq_true, if_false] at h
  have hl' : (List.filter (fun h => h.pt == p && h.name == n) s.hist).getLast? = some hr := hl
  cases hm : mkProxy g n p with
  | none => simp [hm] at h
  | some x0 =>
    simp only [hm, hl'] at h
    unfold histFinal
    rw [hname]
    by_cases he : hr.done.isEmpty = true
    · simp [he] at h
    · simp only [he, Bool.false_eq_true, if_false] at h
      cases hf : hr.status.isFinal with
      | false => rfl
      | true =>
        simp only [hf, if_true] at h
        cases ht : g.task? n with
        | none => simp [ht] at h
        | some t =>
          simp only [ht] at h
          cases hc : isComplete t hr.done with
          | false => simp [hc]
          | true => simp [hc] at h

structure EnvI (g : Graph) (s : State) : Prop where
  pool : ∀ x ∈ s.pool, PI g x
  hist : ∀ h ∈ s.hist, histFinal g h = true ∧ h.submitNum ≤ (maxExec g h.name + 1) * (maxSub g h.name + 1)

theorem PI_upd_flag (g : Graph) (x : Proxy) (h : PI g x) : PI g { x with upd := false } := h

theorem env_act {g : Graph} {s s' : State} (hinv : EnvI g s) (ha : Act g Kinds.env s s') : EnvI g s' := by
  cases ha with
  | frame hp hs => exact ⟨by rw [hp]; exact hinv.pool, by rw [hs.1]; exact hinv.hist⟩
  | absAdd a hc hp hh ha' hl => exact ⟨by rw [hp]; exact hinv.pool, by rw [hh]; exact hinv.hist⟩
  | clearUpd hp hs =>
    refine ⟨?_, by rw [hs.1]; exact hinv.hist⟩
    intro z hz
    rw [hp] at hz
    obtain ⟨w, hw, rfl⟩ := List.mem_map.mp hz
    exact hinv.pool w hw
  | upd x y hg hu hp hs =>
    refine ⟨?_, by rw [hs.1]; exact hinv.hist⟩
    intro z hz
    rw [hp] at hz
    rcases mem_put hz with rfl | hz
    · exact upd_pi hu (hinv.pool x (get?_some_spec hg).1)
    · exact hinv.pool z hz
  | launch x hg hq hp hh ha' hl hs =>
    refine ⟨?_, by rw [hh]; exact hinv.hist⟩
    intro z hz
    rw [hp] at hz
    rcases mem_put hz with rfl | hz
    · have hx := hinv.pool x (get?_some_spec hg).1
      unfold PI PIl at *
      obtain ⟨p1, p2, p3, p4, p5, p6⟩ := hx
      have hw := p1 hq
      simp only [launchOf_status, launchOf_queued, launchOf_submitNum, launchOf_execTry, launchOf_subTry, launchOf_name]
      refine ⟨(by intro h; cases h), (by intro h; cases h), p3, p4, (by intro h; cases h), ?_⟩
      intro _
      have := p6 (by rw [hw]; rfl)
      rw [hq, hw] at this
      simp only [if_true, Bool.true_eq_false, and_false, if_false] at this
      simp only [Bool.false_eq_true, if_false, Nat.add_zero, reduceCtorEq, false_and]
      omega
    · exact hinv.pool z hz
  | spawn y0 y hg hsp hy hw hp hs =>
    refine ⟨?_, by rw [hs.1]; exact hinv.hist⟩
    intro z hz
    rw [hp] at hz
    rcases List.mem_append.mp hz with hz | hz
    · exact hinv.pool z hz
    · simp only [List.mem_singleton] at hz
      subst hz
      obtain ⟨x0, hm, hc⟩ := spawned_spec hsp hy
      obtain ⟨t, d, _, _, _, _, hx0⟩ := mkProxy_spec hm
      rcases hc with ⟨_, _, hc⟩ | ⟨hr, hl, _, _⟩
      · simp only [Proxy.core, Prod.mk.injEq] at hc
        unfold PI PIl
        rw [hc.2.2.1, hc.2.2.2.2.1, hc.2.2.2.2.2.2.2.1, hc.2.2.2.2.2.2.2.2.2.1, hc.2.2.2.2.2.2.2.2.2.2.1, hx0]
        simp
      · have h1 := spawnTask_not_final hsp hl
        have h2 := (hinv.hist hr (lastHist_mem hl).1).1
        rw [h1] at h2; cases h2
  | remove x hg hp hh ha' hl hr =>
    have hxm := (get?_some_spec hg).1
    refine ⟨?_, ?_⟩
    · intro z hz; rw [hp] at hz; exact hinv.pool z (List.mem_filter.mp hz).1
    · intro h hm
      rw [hh] at hm
      rcases List.mem_append.mp hm with hm | hm
      · exact hinv.hist h hm
      · simp only [List.mem_singleton] at hm
        subst hm
        refine ⟨?_, (hinv.pool x hxm).bound⟩
        rcases hr with hr | hr
        · exact hr
        · cases hr


/-! ### Runs -/

/-- the environment assumption on one operation, in the state it is applied to: a failed job-submission is
reported only for an instance that is still preparing (or gone); the queued job messages carry a submit number
≥ 1 and never read "submit-failed" -/
def opOK2 (s : State) : Op → Bool
  | .loop => s.queue.all fun m => m.text != "submit-failed" && decide (m.submitNum ≥ 1)
  | .subres p n ok _ => ok || (match s.get? p n with | some x => x.status == .preparing | none => true)
  | .msg _ _ _ _ => true

/-- every operation of the run respects the environment assumption -/
def envOK2 (g : Graph) (ops : List Op) : Bool := envAll opOK2 g (init g) ops

theorem envI_clearOp {g : Graph} {s : State} (h : EnvI g s) : EnvI g (clearOp s) := ⟨h.pool, h.hist⟩

theorem env_step {g : Graph} (hwf : g.wf = true) (hns : g.noSui = true) {s : State} (hi : RInv g s)
    (hinv : EnvI g s) (op : Op) (hop : opOK2 s op = true) :
    Steps g Kinds.env (clearOp s) (step g s op) := by
  apply steps_step_gen hwf rfl (fun _ => rfl) rfl (Or.inr hns) (EnvI g) (fun _ _ _ h ha => env_act h ha) hi
    (envI_clearOp hinv) op
  · -- the `live` knowledge for the queued messages of a main loop
    intro hloop st _ hst m hm
    subst hloop
    right
    refine ⟨fun x _ _ hnw => by simpa [Kinds.env] using hnw, ?_⟩
    intro x0 hg hpass hw
    have hpi := hst.pool x0 (get?_some_spec hg).1
    obtain ⟨hp1, hp2⟩ := hpass
    unfold opOK2 at hop
    have hm' := List.all_eq_true.mp hop m hm
    simp only [Bool.and_eq_true, decide_eq_true_eq] at hm'
    have hsn : m.submitNum = x0.submitNum := by
      simp only [Bool.not_false, Bool.true_and, beq_self_eq_true, Bool.and_eq_true, bne_iff_ne, ne_eq,
        true_and, Decidable.not_not] at hp1
      exact hp1
    have hpos : x0.submitNum > 0 := by omega
    have hr := hpi.2.1 hw hpos
    apply hp2
    simp only [Bool.not_false, Bool.true_and, hw, beq_self_eq_true, Bool.and_eq_true, decide_eq_true_eq,
      Bool.or_eq_true]
    exact ⟨hpos, hr.symm⟩
  · -- the submission-failure guard
    right
    cases op with
    | loop =>
      unfold opOK2 at hop
      unfold opOK
      apply List.all_eq_true.mpr
      intro m hm
      have := List.all_eq_true.mp hop m hm
      simp only [Bool.and_eq_true] at this
      exact this.1
    | subres p n ok sn => exact hop
    | msg p n sn text => rfl

/-- under the environment assumption and without suicide triggers the invariant holds in every state of the run -/
theorem env_run {g : Graph} (hwf : g.wf = true) (hns : g.noSui = true) (ops : List Op)
    (henv : envOK2 g ops = true) : ∀ s ∈ run g ops, RInv g s ∧ EnvI g s := by
  intro s hm
  rw [run_eq_trace] at hm
  have hstep : ∀ a b, Steps g Kinds.env a b → (RInv g a ∧ EnvI g a) → (RInv g b ∧ EnvI g b) := by
    intro a b hab hpa
    exact Steps.inv (fun st => RInv g st ∧ EnvI g st)
      (fun s s' h ha => ⟨rinv_act hwf h.1 ha, env_act h.2 ha⟩) hab hpa
  refine trace_inv g (fun st => RInv g st ∧ EnvI g st) opOK2 ?_ ops (init g) ?_ henv s hm
  · intro st op hp hop
    exact hstep _ _ (env_step hwf hns hp.1 hp.2 op hop) ⟨rinv_clearOp hp.1, envI_clearOp hp.2⟩
  · exact hstep _ _ (steps_init hwf rfl) ⟨rinv_empty, ⟨(by intro x hx; cases hx), (by intro x hx; cases hx)⟩⟩

end CylcModel.Sched
