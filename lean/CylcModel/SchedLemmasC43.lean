/-
Helper lemmas for C43 (stop point, stop task, stop modes) over the `Sched2` model:

* lifting lemmas `foldl_inv`, `run_inv` and a guarded variant `run_inv_guarded` for `Sched2`;
* the *control frame*: which primitives leave the control part of the state (`ctl`: stop, stop mode,
  stop point, DB stop point, stop task, pause flag, runahead limit, launches …) untouched;
* the stop-point invariant `SPInv` (nothing beyond the stop point is queued or can become ready),
  one lemma per primitive;
* the DB stop point invariant `DbInv`.
-/
import CylcModel.Sched2

namespace CylcModel.Sched2

/-! ### Generic lifting -/

theorem foldl_inv {α σ} (P : σ → Prop) (f : σ → α → σ) (h : ∀ s a, P s → P (f s a)) :
    ∀ (l : List α) (s : σ), P s → P (l.foldl f s) := by
  intro l; induction l with
  | nil => intro s hs; exact hs
  | cons a l ih => intro s hs; exact ih _ (h s a hs)

/-- like `foldl_inv`, the step may use that the element comes from the list -/
theorem foldl_inv_mem {α σ} (P : σ → Prop) (f : σ → α → σ) :
    ∀ (l : List α), (∀ s a, a ∈ l → P s → P (f s a)) → ∀ (s : σ), P s → P (l.foldl f s) := by
  intro l; induction l with
  | nil => intro _ s hs; exact hs
  | cons a l ih =>
    intro h s hs
    exact ih (fun s b hb => h s b (List.mem_cons_of_mem _ hb)) _ (h s a (List.mem_cons_self) hs)

/-- every state of a run satisfies `P` when the start-up state does and every step preserves it -/
theorem run_inv (P : State → Prop) (g : Graph) (h0 : P (init g)) (hs : ∀ s op, P s → P (step g s op)) :
    ∀ ops, ∀ s ∈ run g ops, P s := by
  intro ops
  unfold run
  have key : ∀ (ops : List Op) (acc : List State) (cur : State),
      (∀ s ∈ acc, P s) → P cur →
      ∀ s ∈ (ops.foldl (fun (a : List State × State) op =>
          let s' := step g a.2 op; (a.1 ++ [s'], s')) (acc, cur)).1, P s := by
    intro ops
    induction ops with
    | nil => intro acc cur hacc _ s hm; exact hacc s hm
    | cons op ops ih =>
      intro acc cur hacc hcur
      simp only [List.foldl_cons]
      apply ih
      · intro s hm
        rcases List.mem_append.mp hm with h | h
        · exact hacc s h
        · simp at h; subst h; exact hs _ _ hcur
      · exact hs _ _ hcur
  exact key ops [init g] (init g) (by intro s hm; simp at hm; subst hm; exact h0) h0

/-- an op list all of whose ops satisfy the guard `ok` in the state they are applied to -/
def Guarded (g : Graph) (ok : State → Op → Bool) : State → List Op → Prop
  | _, [] => True
  | s, op :: ops => ok s op = true ∧ Guarded g ok (step g s op) ops

/-- `Guarded` as a computation -/
def guardedB (g : Graph) (ok : State → Op → Bool) : State → List Op → Bool
  | _, [] => true
  | s, op :: ops => ok s op && guardedB g ok (step g s op) ops

theorem guarded_of_b (g : Graph) (ok : State → Op → Bool) : ∀ (ops : List Op) (s : State),
    guardedB g ok s ops = true → Guarded g ok s ops := by
  intro ops
  induction ops with
  | nil => intro _ _; trivial
  | cons op ops ih =>
    intro s h
    unfold guardedB at h
    simp only [Bool.and_eq_true] at h
    exact ⟨h.1, ih _ h.2⟩

/-- `run_inv` for guarded op lists: the step lemma may use the guard -/
theorem run_inv_guarded (P : State → Prop) (g : Graph) (ok : State → Op → Bool) (h0 : P (init g))
    (hs : ∀ s op, P s → ok s op = true → P (step g s op)) :
    ∀ ops, Guarded g ok (init g) ops → ∀ s ∈ run g ops, P s := by
  intro ops
  unfold run
  have key : ∀ (ops : List Op) (acc : List State) (cur : State),
      (∀ s ∈ acc, P s) → P cur → Guarded g ok cur ops →
      ∀ s ∈ (ops.foldl (fun (a : List State × State) op =>
          let s' := step g a.2 op; (a.1 ++ [s'], s')) (acc, cur)).1, P s := by
    intro ops
    induction ops with
    | nil => intro acc cur hacc _ _ s hm; exact hacc s hm
    | cons op ops ih =>
      intro acc cur hacc hcur hg
      simp only [List.foldl_cons]
      obtain ⟨hok, hrest⟩ := hg
      apply ih
      · intro s hm
        rcases List.mem_append.mp hm with h | h
        · exact hacc s h
        · simp at h; subst h; exact hs _ _ hcur hok
      · exact hs _ _ hcur hok
      · exact hrest
  intro hg
  exact key ops [init g] (init g) (by intro s hm; simp at hm; subst hm; exact h0) h0 hg

/-! ### Pool lookups -/

theorem get?_mem {s : State} {p : Int} {n : String} {x : Proxy} (h : s.get? p n = some x) : x ∈ s.pool :=
  List.mem_of_find?_eq_some h

theorem get?_key {s : State} {p : Int} {n : String} {x : Proxy} (h : s.get? p n = some x) :
    x.pt = p ∧ x.name = n := by
  have := List.find?_some h
  simpa using this

/-! ### The control frame -/

/-- the part of the state that only commands, the runahead computation, job release and the shutdown
logic write -/
structure Ctl where
  stop : Option String
  stopMode : Option String
  stopPoint : Option Int
  dbStopCp : Option Int
  stopTask : Option (Int × String)
  paused : Bool
  restartWait : Bool
  rhLimit : Option Int
  launched : List (Int × String × Nat)
  holdPoint : Option Int

def ctl (s : State) : Ctl :=
  ⟨s.stop, s.stopMode, s.stopPoint, s.dbStopCp, s.stopTask, s.paused, s.restartWait, s.rhLimit, s.launched,
   s.holdPoint⟩

theorem ctl_put (s : State) (x : Proxy) : ctl (s.put x) = ctl s := rfl

theorem ctl_add (s : State) (x : Proxy) : ctl (s.add x) = ctl s := by
  unfold State.add; split <;> rfl

theorem ctl_spawnTask (g : Graph) (s : State) (n : String) (p : Int) : ctl (spawnTask g s n p).1 = ctl s := by
  unfold spawnTask
  simp only
  split
  · rfl
  · split
    · rfl
    · split
      · rfl
      · split
        · rfl
        · split
          · split <;> rfl
          · rfl

theorem ctl_spawnAndAdd (g : Graph) (s : State) (n : String) (p : Int) : ctl (spawnAndAdd g s n p) = ctl s := by
  unfold spawnAndAdd
  split
  · rfl
  · have h := ctl_spawnTask g s n p
    split
    · rename_i s' x heq
      rw [heq] at h
      rw [ctl_add]; exact h
    · rename_i s' heq
      rw [heq] at h
      exact h

theorem ctl_spawnNextParentless (g : Graph) (s : State) (x : Proxy) : ctl (spawnNextParentless g s x) = ctl s := by
  unfold spawnNextParentless
  split
  · rfl
  · split
    · exact ctl_spawnAndAdd _ _ _ _
    · rfl

theorem ctl_releaseRunahead (g : Graph) (s : State) : ctl (releaseRunahead g s).1 = ctl s := by
  unfold releaseRunahead
  split
  · rfl
  · split
    · rfl
    · simp only
      apply foldl_inv (fun st => ctl st = ctl s)
      · intro st x hst
        rw [ctl_spawnNextParentless]
        split
        · rw [ctl_put]; exact hst
        · exact hst
      · rfl

theorem ctl_queueIfReady (s : State) (x : Proxy) : ctl (queueIfReady s x) = ctl s := by
  unfold queueIfReady; split <;> rfl

theorem ctl_holdActive (s : State) (x : Proxy) : ctl (holdActive s x) = ctl s := by
  unfold holdActive; simp only; split <;> rfl

theorem ctl_releaseHeldActive (s : State) (x : Proxy) : ctl (releaseHeldActive s x) = ctl s := by
  unfold releaseHeldActive; simp only; split <;> rfl

theorem ctl_remove (g : Graph) (s : State) (x : Proxy) : ctl (remove g s x) = ctl s := by
  unfold remove
  simp only
  split
  · show ctl (spawnNextParentless g _ _) = _
    rw [ctl_spawnNextParentless, ctl_releaseHeldActive]
  · show ctl (releaseHeldActive s x) = _
    exact ctl_releaseHeldActive _ _

theorem ctl_removeIfComplete (g : Graph) (s : State) (x : Proxy) : ctl (removeIfComplete g s x) = ctl s := by
  unfold removeIfComplete
  split
  · rfl
  · simp only
    split
    · split <;> rfl
    · split
      · rw [ctl_remove]; split <;> rfl
      · split <;> rfl

theorem ctl_spawnChild (g : Graph) (p : Int) (n out : String) (acc : State × List (Int × String)) (c : Child) :
    ctl (spawnChild g p n out acc c).1 = ctl acc.1 := by
  obtain ⟨st, sui⟩ := acc
  unfold spawnChild
  simp only
  have h0 : ctl (if (c.isAbs && !st.absDone.contains ⟨p, n, out⟩) = true then
      { st with absDone := st.absDone ++ [⟨p, n, out⟩] } else st) = ctl st := by
    split <;> rfl
  generalize (if (c.isAbs && !st.absDone.contains ⟨p, n, out⟩) = true then
      { st with absDone := st.absDone ++ [⟨p, n, out⟩] } else st) = st0 at h0 ⊢
  have hfold : ∀ (ks : List (Int × String)) (a : State × List (Int × String)),
      ctl (ks.foldl (fun (a : State × List (Int × String)) k =>
        match a.1.get? k.1 k.2 with
        | none => a
        | some z =>
          (a.1.put (z.satisfyMe ⟨p, n, out⟩),
            if ((z.satisfyMe ⟨p, n, out⟩).suicideNow && !a.2.contains k) = true then a.2 ++ [k] else a.2)) a).1
        = ctl a.1 := by
    intro ks; induction ks with
    | nil => intro a; rfl
    | cons k ks ih =>
      intro a
      simp only [List.foldl_cons]
      rw [ih]
      split <;> rfl
  cases hget : st0.get? c.pt c.name with
  | some y =>
    simp only [Option.isSome_some, if_true]
    exact (hfold _ _).trans h0
  | none =>
    simp only [Option.isSome_none]
    have h1 := ctl_spawnTask g st0 c.name c.pt
    generalize spawnTask g st0 c.name c.pt = R at h1 ⊢
    obtain ⟨st1, child⟩ := R
    simp only at h1 ⊢
    cases child with
    | none => simp only; rw [h1, h0]
    | some y =>
      simp only [Bool.false_eq_true, if_false]
      refine (hfold _ _).trans ?_
      rw [ctl_add, h1, h0]

theorem ctl_spawnOnOutput (g : Graph) (s : State) (p : Int) (n out : String) :
    ctl (spawnOnOutput g s p n out) = ctl s := by
  unfold spawnOnOutput
  split
  · rfl
  · simp only
    have h1 : ∀ (cs : List Child) (acc : State × List (Int × String)),
        ctl (cs.foldl (spawnChild g p n out) acc).1 = ctl acc.1 := by
      intro cs; induction cs with
      | nil => intro acc; rfl
      | cons c cs ih => intro acc; simp only [List.foldl_cons]; rw [ih, ctl_spawnChild]
    have h2 : ∀ (ks : List (Int × String)) (st : State),
        ctl (ks.foldl (fun (st : State) k => match st.get? k.1 k.2 with
          | some z => remove g st z
          | none => st) st) = ctl st := by
      intro ks; induction ks with
      | nil => intro st; rfl
      | cons k ks ih =>
        intro st
        simp only [List.foldl_cons]
        rw [ih]
        split
        · exact ctl_remove _ _ _
        · rfl
    generalize hR : (List.foldl (spawnChild g p n out) (s, []) _) = R
    have hRn : ctl R.1 = ctl s := by rw [← hR, h1]
    have h3 := h2 R.2 R.1
    split
    · refine (ctl_removeIfComplete _ _ _).trans ?_
      exact h3.trans hRn
    · exact h3.trans hRn

theorem ctl_store (s : State) (x : Proxy) (tr : Bool) : ctl (store s x tr) = ctl s := by
  unfold store; split <;> rfl

theorem ctl_spawnChildren (g : Graph) (s : State) (p : Int) (n out : String) (tr : Bool) :
    ctl (spawnChildren g s p n out tr) = ctl s := by
  unfold spawnChildren; split
  · rfl
  · exact ctl_spawnOnOutput _ _ _ _ _

theorem ctl_processMessage (g : Graph) : ∀ (fuel : Nat) (s : State) (p : Int) (n : String) (flag : Flag)
    (sn : Nat) (msg : String), ctl (processMessage g fuel s p n flag sn msg).1 = ctl s := by
  intro fuel
  induction fuel with
  | zero => intro s p n flag sn msg; rfl
  | succ fuel ih =>
    intro s p n flag sn msg
    unfold processMessage
    split
    · rfl
    · rename_i x tr _
      split
      · rfl
      · split
        · rfl
        · simp only
          have himp : ∀ (l : List String) (st : State),
              ctl (l.foldl (fun st m => (processMessage g fuel st p n .internal sn m).1) st) = ctl st := by
            intro l; induction l with
            | nil => intro st; rfl
            | cons a l ihl => intro st; simp only [List.foldl_cons]; rw [ihl, ih]
          generalize hS : (List.foldl (fun st m => (processMessage g fuel st p n Flag.internal sn m).1) _ _) = S
          have hSn : ctl S = ctl s := by rw [← hS, himp, ctl_store]
          split
          · exact hSn
          · repeat' split
            all_goals first
              | exact hSn
              | exact (ctl_store _ _ _).trans hSn
              | exact (ctl_spawnChildren _ _ _ _ _ _).trans ((ctl_store _ _ _).trans hSn)
              | exact (ctl_spawnChildren _ _ _ _ _ _).trans hSn


/-! ### The stop-point invariant -/

/-- a pooled proxy beyond the stop point `sp` is not queued, and is either still runahead-limited or
has never had a job and is not waiting — so it can never become ready -/
def Good (sp : Int) (x : Proxy) : Prop :=
  sp < x.pt → x.queued = false ∧ (x.runahead = true ∨ (x.timers = false ∧ x.status ≠ .waiting))

def PoolGood (sp : Int) (s : State) : Prop := ∀ x ∈ s.pool, Good sp x

/-- `y` is an update of `x` that cannot make it ready -/
def Upd (x y : Proxy) : Prop :=
  y.pt = x.pt ∧ (y.queued = true → x.queued = true) ∧ y.runahead = x.runahead ∧ y.timers = x.timers ∧
  (y.status = .waiting → x.status = .waiting ∨ x.timers = true)

theorem Upd.refl (x : Proxy) : Upd x x := ⟨rfl, id, rfl, rfl, fun h => Or.inl h⟩

theorem Upd.trans {x y z : Proxy} (h1 : Upd x y) (h2 : Upd y z) : Upd x z := by
  obtain ⟨a1, b1, c1, d1, e1⟩ := h1
  obtain ⟨a2, b2, c2, d2, e2⟩ := h2
  refine ⟨a2.trans a1, fun h => b1 (b2 h), c2.trans c1, d2.trans d1, ?_⟩
  intro h
  rcases e2 h with h' | h'
  · exact e1 h'
  · exact Or.inr (d1 ▸ h')

theorem Good.upd {sp : Int} {x y : Proxy} (hx : Good sp x) (h : Upd x y) : Good sp y := by
  obtain ⟨a, b, c, d, e⟩ := h
  intro hlt
  rw [a] at hlt
  obtain ⟨hq, hr⟩ := hx hlt
  refine ⟨?_, ?_⟩
  · cases hyq : y.queued with
    | false => rfl
    | true => rw [b hyq] at hq; exact absurd hq (by decide)
  · rcases hr with hr | ⟨ht, hs⟩
    · exact Or.inl (c.trans hr)
    · refine Or.inr ⟨d.trans ht, ?_⟩
      intro hw
      rcases e hw with h' | h'
      · exact hs h'
      · rw [ht] at h'; exact absurd h' (by decide)

theorem good_of_le {sp : Int} {x : Proxy} (h : x.pt ≤ sp) : Good sp x := by
  intro hlt; omega

theorem good_put {sp : Int} {s : State} {x : Proxy} (h : PoolGood sp s) (hx : Good sp x) : PoolGood sp (s.put x) := by
  intro y hy
  unfold State.put at hy
  simp only [List.mem_map] at hy
  obtain ⟨z, hz, rfl⟩ := hy
  split
  · exact hx
  · exact h z hz

theorem good_add {sp : Int} {s : State} {x : Proxy} (h : PoolGood sp s) (hx : Good sp x) : PoolGood sp (s.add x) := by
  unfold State.add
  split
  · exact h
  · intro y hy
    simp only [List.mem_append, List.mem_singleton] at hy
    rcases hy with hy | rfl
    · exact h y hy
    · exact hx

theorem good_get? {sp : Int} {s : State} {p : Int} {n : String} {x : Proxy} (h : PoolGood sp s)
    (hg : s.get? p n = some x) : Good sp x := h x (get?_mem hg)

/-- updates by `Proxy.reset` that do not touch the runahead flag and do not queue -/
theorem upd_reset (x : Proxy) (st : Option Status) (q : Option Bool) (hd : Option Bool)
    (hst : st = some .waiting → x.status = .waiting ∨ x.timers = true) (hq : q ≠ some true) :
    Upd x (x.reset (status := st) (queued := q) (held := hd)) := by
  unfold Proxy.reset
  simp only
  split
  · exact Upd.refl x
  · refine ⟨rfl, ?_, by simp, rfl, ?_⟩
    · intro h
      cases q with
      | none => simpa using h
      | some b => cases b with
        | false => simp at h
        | true => exact absurd rfl hq
    · intro h
      cases st with
      | none => exact Or.inl (by simpa using h)
      | some v =>
        simp at h
        subst h
        exact hst rfl

theorem upd_satisfyMe (x : Proxy) (a : Atom) : Upd x (x.satisfyMe a) := ⟨rfl, id, rfl, rfl, fun h => Or.inl h⟩


/-- a freshly spawned proxy: runahead-limited and not queued -/
def Fresh (y : Proxy) : Prop := y.runahead = true ∧ y.queued = false

theorem mkProxy_fresh {g : Graph} {n : String} {p : Int} {x : Proxy} (h : mkProxy g n p = some x) : Fresh x := by
  unfold mkProxy at h
  cases ht : g.task? n with
  | none => simp [ht] at h
  | some t =>
    simp only [ht, Option.bind_eq_bind, Option.bind_some] at h
    split at h
    · simp at h
    · cases hd : t.inst? p with
      | none => simp [hd] at h
      | some d =>
        simp [hd] at h
        subst h
        exact ⟨rfl, rfl⟩

theorem fresh_reset_held (y : Proxy) (b : Option Bool) (h : Fresh y) : Fresh (y.reset (held := b)) := by
  unfold Proxy.reset
  simp only
  split
  · exact h
  · exact h

theorem fresh_foldl_satisfyMe (l : List Atom) : ∀ (y : Proxy), Fresh y → Fresh (l.foldl (fun z a => z.satisfyMe a) y) := by
  induction l with
  | nil => intro y h; exact h
  | cons a l ih => intro y h; exact ih _ h

theorem spawnTask_fresh {g : Graph} {s s' : State} {n : String} {p : Int} {y : Proxy}
    (h : spawnTask g s n p = (s', some y)) : Fresh y := by
  unfold spawnTask at h
  simp only at h
  split at h
  · simp at h
  · split at h
    · simp at h
    · rename_i x hx
      have hfx := mkProxy_fresh hx
      split at h
      · simp at h
      · rename_i y0 hy0
        -- the revived proxy is fresh
        have hy0f : Fresh y0 := by
          split at hy0
          · simp at hy0; subst hy0; exact hfx
          · split at hy0
            · simp at hy0
            · split at hy0
              · split at hy0
                · split at hy0
                  · simp at hy0
                  · simp at hy0; subst hy0; exact hfx
                · simp at hy0
              · simp at hy0; subst hy0; exact hfx
        have hH : Fresh (if s.tasksToHold.contains (n, p) = true then (s, y0.reset (held := some true))
            else match s.holdPoint with
              | some hp => if p > hp then
                  ({ s with tasksToHold := s.tasksToHold ++ [(n, p)] }, y0.reset (held := some true))
                else (s, y0)
              | none => (s, y0)).2 := by
          split
          · exact fresh_reset_held _ _ hy0f
          · split
            · split
              · exact fresh_reset_held _ _ hy0f
              · exact hy0f
            · exact hy0f
        generalize (if s.tasksToHold.contains (n, p) = true then (s, y0.reset (held := some true))
            else match s.holdPoint with
              | some hp => if p > hp then
                  ({ s with tasksToHold := s.tasksToHold ++ [(n, p)] }, y0.reset (held := some true))
                else (s, y0)
              | none => (s, y0)) = H at h hH
        simp only [Prod.mk.injEq, Option.some.injEq] at h
        obtain ⟨_, rfl⟩ := h
        split
        · split
          · exact fresh_foldl_satisfyMe _ _ hH
          · exact hH
        · exact hH


theorem good_of_fresh {sp : Int} {y : Proxy} (h : Fresh y) : Good sp y := fun _ => ⟨h.2, Or.inl h.1⟩

theorem good_of_pool_eq {sp : Int} {s s' : State} (h : s'.pool = s.pool) (hs : PoolGood sp s) : PoolGood sp s' := by
  intro x hx; rw [h] at hx; exact hs x hx

theorem pool_spawnTask (g : Graph) (s : State) (n : String) (p : Int) : (spawnTask g s n p).1.pool = s.pool := by
  unfold spawnTask
  simp only
  split
  · rfl
  · split
    · rfl
    · split
      · rfl
      · split
        · rfl
        · split
          · split <;> rfl
          · rfl

theorem good_spawnAndAdd {sp : Int} (g : Graph) (s : State) (n : String) (p : Int) (h : PoolGood sp s) :
    PoolGood sp (spawnAndAdd g s n p) := by
  unfold spawnAndAdd
  split
  · exact h
  · have hp := pool_spawnTask g s n p
    split
    · rename_i s' x heq
      rw [heq] at hp
      exact good_add (good_of_pool_eq hp h) (good_of_fresh (spawnTask_fresh heq))
    · rename_i s' heq
      rw [heq] at hp
      exact good_of_pool_eq hp h

theorem good_spawnNextParentless {sp : Int} (g : Graph) (s : State) (x : Proxy) (h : PoolGood sp s) :
    PoolGood sp (spawnNextParentless g s x) := by
  unfold spawnNextParentless
  split
  · exact h
  · split
    · exact good_spawnAndAdd _ _ _ _ h
    · exact h

theorem reset_pt (x : Proxy) (a : Option Status) (b c d : Option Bool) : (x.reset a b c d).pt = x.pt := by
  unfold Proxy.reset; simp only; split <;> rfl

theorem good_releaseRunahead {sp : Int} (g : Graph) (s : State) (h : PoolGood sp s)
    (hl : ∀ l, s.rhLimit = some l → l ≤ sp) : PoolGood sp (releaseRunahead g s).1 := by
  unfold releaseRunahead
  split
  · exact h
  · rename_i lim hlim
    split
    · exact h
    · simp only
      apply foldl_inv_mem (PoolGood sp)
      · intro st x hx hst
        apply good_spawnNextParentless
        split
        · rename_i y hy
          apply good_put hst
          apply good_of_le
          rw [reset_pt, (get?_key hy).1]
          have := (List.mem_filter.mp hx).2
          simp only [Bool.and_eq_true, decide_eq_true_eq] at this
          have := hl lim hlim
          omega
        · exact hst
      · exact h

/-- a proxy that is ready to be queued lies at or before the stop point -/
theorem ready_le {sp : Int} {x : Proxy} (hx : Good sp x) (hr : x.runahead = false) (hw : x.status = .waiting) :
    x.pt ≤ sp := by
  by_cases hlt : sp < x.pt
  · obtain ⟨_, h⟩ := hx hlt
    rcases h with h | ⟨_, h⟩
    · rw [hr] at h; exact absurd h (by decide)
    · exact absurd hw h
  · omega

theorem isReady_waiting {x : Proxy} (h : x.isReadyToRun = true) : x.status = .waiting := by
  unfold Proxy.isReadyToRun at h
  simp only [Bool.and_eq_true, beq_iff_eq] at h
  exact h.1.1.2

theorem good_queueIfReady {sp : Int} (s : State) (x : Proxy) (h : PoolGood sp s) (hx : Good sp x) :
    PoolGood sp (queueIfReady s x) := by
  unfold queueIfReady
  split
  · rename_i hc
    simp only [Bool.and_eq_true, Bool.not_eq_eq_eq_not, Bool.not_true] at hc
    apply good_put h
    apply good_of_le
    rw [reset_pt]
    exact ready_le hx hc.1.2 (isReady_waiting hc.2)
  · exact h

theorem good_holdActive {sp : Int} (s : State) (x : Proxy) (h : PoolGood sp s) (hx : Good sp x) :
    PoolGood sp (holdActive s x) := by
  unfold holdActive
  simp only
  have : PoolGood sp (s.put (x.reset (held := some true))) :=
    good_put h (hx.upd (upd_reset x none none _ (by simp) (by simp)))
  split
  · exact this
  · exact this

theorem reset_held_runahead (x : Proxy) (b : Option Bool) : (x.reset (held := b)).runahead = x.runahead := by
  unfold Proxy.reset; simp only; split <;> rfl

theorem reset_held_pt (x : Proxy) (b : Option Bool) : (x.reset (held := b)).pt = x.pt := reset_pt _ _ _ _ _

theorem good_releaseHeldActive {sp : Int} (s : State) (x : Proxy) (h : PoolGood sp s) (hx : Good sp x) :
    PoolGood sp (releaseHeldActive s x) := by
  unfold releaseHeldActive
  simp only
  apply good_of_pool_eq (s := if x.held = true then _ else s) rfl
  split
  · have hy : Good sp (x.reset (held := some false)) := hx.upd (upd_reset x none none _ (by simp) (by simp))
    apply good_put h
    split
    · rename_i hc
      simp only [Bool.and_eq_true, Bool.not_eq_eq_eq_not, Bool.not_true] at hc
      apply good_of_le
      rw [reset_pt]
      exact ready_le hy hc.1 (isReady_waiting hc.2)
    · exact hy
  · exact h


theorem good_filter {sp : Int} {s : State} (f : Proxy → Bool) (h : PoolGood sp s) :
    PoolGood sp { s with pool := s.pool.filter f } := by
  intro x hx
  exact h x (List.mem_filter.mp hx).1

theorem good_remove {sp : Int} (g : Graph) (s : State) (x : Proxy) (h : PoolGood sp s) (hx : Good sp x) :
    PoolGood sp (remove g s x) := by
  unfold remove
  simp only
  have h1 := good_releaseHeldActive s x h hx
  intro y hy
  have hy' := (List.mem_filter.mp hy).1
  split at hy'
  · exact good_spawnNextParentless _ _ _ h1 y hy'
  · exact h1 y hy'

theorem good_removeIfComplete {sp : Int} (g : Graph) (s : State) (x : Proxy) (h : PoolGood sp s) (hx : Good sp x) :
    PoolGood sp (removeIfComplete g s x) := by
  unfold removeIfComplete
  split
  · exact h
  · simp only
    have h0 : PoolGood sp (if (s.stopTask == some (x.pt, x.name)) = true then { s with stopTaskFinished := true } else s) := by
      split
      · exact h
      · exact h
    split
    · exact h0
    · split
      · exact good_remove _ _ _ h0 hx
      · exact h0

theorem good_spawnChild {sp : Int} (g : Graph) (p : Int) (n out : String) (acc : State × List (Int × String))
    (c : Child) (h : PoolGood sp acc.1) : PoolGood sp (spawnChild g p n out acc c).1 := by
  obtain ⟨st, sui⟩ := acc
  unfold spawnChild
  simp only
  have h0 : PoolGood sp (if (c.isAbs && !st.absDone.contains ⟨p, n, out⟩) = true then
      { st with absDone := st.absDone ++ [⟨p, n, out⟩] } else st) := by
    split
    · exact h
    · exact h
  generalize (if (c.isAbs && !st.absDone.contains ⟨p, n, out⟩) = true then
      { st with absDone := st.absDone ++ [⟨p, n, out⟩] } else st) = st0 at h0 ⊢
  have hfold : ∀ (ks : List (Int × String)) (a : State × List (Int × String)), PoolGood sp a.1 →
      PoolGood sp (ks.foldl (fun (a : State × List (Int × String)) k =>
        match a.1.get? k.1 k.2 with
        | none => a
        | some z =>
          (a.1.put (z.satisfyMe ⟨p, n, out⟩),
            if ((z.satisfyMe ⟨p, n, out⟩).suicideNow && !a.2.contains k) = true then a.2 ++ [k] else a.2)) a).1 := by
    intro ks; induction ks with
    | nil => intro a ha; exact ha
    | cons k ks ih =>
      intro a ha
      simp only [List.foldl_cons]
      apply ih
      split
      · exact ha
      · rename_i z hz
        exact good_put ha ((good_get? ha hz).upd (upd_satisfyMe _ _))
  cases hget : st0.get? c.pt c.name with
  | some y =>
    simp only [Option.isSome_some, if_true]
    exact hfold _ _ h0
  | none =>
    simp only [Option.isSome_none]
    have h1 := pool_spawnTask g st0 c.name c.pt
    have hf : ∀ s' y, spawnTask g st0 c.name c.pt = (s', some y) → Fresh y := fun s' y e => spawnTask_fresh e
    generalize spawnTask g st0 c.name c.pt = R at h1 hf ⊢
    obtain ⟨st1, child⟩ := R
    simp only at h1 ⊢
    cases child with
    | none => simp only; exact good_of_pool_eq h1 h0
    | some y =>
      simp only [Bool.false_eq_true, if_false]
      apply hfold
      exact good_add (good_of_pool_eq h1 h0) ((good_of_fresh (hf st1 y rfl)).upd (upd_satisfyMe _ _))

theorem good_spawnOnOutput {sp : Int} (g : Graph) (s : State) (p : Int) (n out : String) (h : PoolGood sp s) :
    PoolGood sp (spawnOnOutput g s p n out) := by
  unfold spawnOnOutput
  split
  · exact h
  · simp only
    have h1 : ∀ (cs : List Child) (acc : State × List (Int × String)), PoolGood sp acc.1 →
        PoolGood sp (cs.foldl (spawnChild g p n out) acc).1 := by
      intro cs; induction cs with
      | nil => intro acc ha; exact ha
      | cons c cs ih => intro acc ha; exact ih _ (good_spawnChild g p n out acc c ha)
    have h2 : ∀ (ks : List (Int × String)) (st : State), PoolGood sp st →
        PoolGood sp (ks.foldl (fun (st : State) k => match st.get? k.1 k.2 with
          | some z => remove g st z
          | none => st) st) := by
      intro ks; induction ks with
      | nil => intro st hst; exact hst
      | cons k ks ih =>
        intro st hst
        simp only [List.foldl_cons]
        apply ih
        split
        · rename_i z hz
          exact good_remove _ _ _ hst (good_get? hst hz)
        · exact hst
    generalize hR : (List.foldl (spawnChild g p n out) (s, []) _) = R
    have hRn : PoolGood sp R.1 := by rw [← hR]; exact h1 _ _ h
    have h3 := h2 R.2 R.1 hRn
    split
    · rename_i x' hx'
      exact good_removeIfComplete _ _ _ h3 (good_get? h3 hx')
    · exact h3

theorem good_store {sp : Int} {s : State} {x : Proxy} {tr : Bool} (h : PoolGood sp s)
    (hx : tr = false → Good sp x) : PoolGood sp (store s x tr) := by
  unfold store
  split
  · exact h
  · rename_i htr
    exact good_put h (hx (by simpa using htr))

theorem good_spawnChildren {sp : Int} (g : Graph) (s : State) (p : Int) (n out : String) (tr : Bool)
    (h : PoolGood sp s) : PoolGood sp (spawnChildren g s p n out tr) := by
  unfold spawnChildren; split
  · exact h
  · exact good_spawnOnOutput _ _ _ _ _ h

theorem lookup_good {sp : Int} {s : State} {p : Int} {n : String} {x : Proxy} {tr : Bool} (h : PoolGood sp s)
    (hl : lookup s p n = some (x, tr)) (htr : tr = false) : Good sp x := by
  unfold lookup at hl
  split at hl
  · rename_i y hy
    simp only [Option.some.injEq, Prod.mk.injEq] at hl
    obtain ⟨rfl, _⟩ := hl
    exact good_get? h hy
  · simp only [Option.map_eq_some_iff, Prod.mk.injEq] at hl
    obtain ⟨_, _, _, h2⟩ := hl
    rw [htr] at h2
    exact absurd h2 (by decide)


/-- closes `Upd x y` for the proxy updates of `processMessage` -/
macro "upd_tac" : tactic => `(tactic| (
  unfold Upd
  simp only [Proxy.reset, setComplete]
  (repeat' split) <;> simp_all))

theorem upd_first (g : Graph) (x : Proxy) (msg : String) :
    Upd x (if (msg == "submit-failed" || msg == "failed") = true then (x, some false) else setComplete g x msg).1 := by
  upd_tac
theorem upd_running (x : Proxy) : Upd x { (x.reset (status := some .running)) with subTry := 0 } := by upd_tac
theorem upd_succeeded (x : Proxy) : Upd x (x.reset (status := some .succeeded)) := by upd_tac
theorem upd_retry_exec (x : Proxy) (n : Nat) (h : (x.timers && decide (x.execTry < n)) = true) :
    Upd x { (x.reset (status := some .waiting)) with execTry := x.execTry + 1, retryWait := true } := by upd_tac
theorem upd_retry_sub (x : Proxy) (n : Nat) (h : (x.timers && decide (x.subTry < n)) = true) :
    Upd x { (x.reset (status := some .waiting)) with subTry := x.subTry + 1, retryWait := true } := by upd_tac
theorem upd_failed (g : Graph) (x : Proxy) :
    Upd x (if (x.status != .failed) = true then setComplete g (x.reset (status := some .failed)) "failed"
      else (x.reset (status := some .failed), none)).1 := by upd_tac
theorem upd_subfailed (g : Graph) (x : Proxy) :
    Upd x (if (x.status != .submitFailed) = true then setComplete g (x.reset (status := some .submitFailed)) "submit-failed"
      else (x.reset (status := some .submitFailed), none)).1 := by upd_tac
theorem upd_final (x : Proxy) (st : Status) (h : st ≠ .waiting) : Upd x (x.reset (status := some st)) := by
  upd_tac
theorem upd_final_set (g : Graph) (x : Proxy) (st : Status) (m : String) (h : st ≠ .waiting) :
    Upd x (setComplete g (x.reset (status := some st)) m).1 := by
  upd_tac
theorem upd_submitted (x : Proxy) : Upd x ((x.reset (status := some .submitted)).reset (queued := some false)) := by
  upd_tac

theorem good_processMessage {sp : Int} (g : Graph) : ∀ (fuel : Nat) (s : State) (p : Int) (n : String) (flag : Flag)
    (sn : Nat) (msg : String), PoolGood sp s → PoolGood sp (processMessage g fuel s p n flag sn msg).1 := by
  intro fuel
  induction fuel with
  | zero => intro s p n flag sn msg h; exact h
  | succ fuel ih =>
    intro s p n flag sn msg h
    unfold processMessage
    split
    · exact h
    · rename_i x tr hlk
      split
      · exact h
      · split
        · exact h
        · simp only
          have hstore : PoolGood sp (store s (if (msg == "submit-failed" || msg == "failed") = true then (x, some false)
              else setComplete g x msg).1 tr) :=
            good_store h (fun htr => (lookup_good h hlk htr).upd (upd_first g x msg))
          have himp : ∀ (l : List String) (st : State), PoolGood sp st →
              PoolGood sp (l.foldl (fun st m => (processMessage g fuel st p n .internal sn m).1) st) := by
            intro l; induction l with
            | nil => intro st hst; exact hst
            | cons a l ihl => intro st hst; exact ihl _ (ih _ _ _ _ _ _ hst)
          generalize hS : (List.foldl (fun st m => (processMessage g fuel st p n Flag.internal sn m).1) _ _) = S
          have hSn : PoolGood sp S := by rw [← hS]; exact himp _ _ hstore
          clear hS hstore himp
          split
          · exact hSn
          · rename_i x' tr' hlk'
            have hx' : tr' = false → Good sp x' := lookup_good hSn hlk'
            split
            · -- started
              split
              · exact hSn
              · exact good_spawnChildren _ _ _ _ _ _ (good_store hSn (fun htr => (hx' htr).upd (upd_running _)))
            · split
              · -- succeeded
                exact good_spawnChildren _ _ _ _ _ _ (good_store hSn (fun htr => (hx' htr).upd (upd_succeeded _)))
              · split
                · -- failed
                  split
                  · exact hSn
                  · split
                    all_goals (
                      split
                      · rename_i hretry
                        exact good_store hSn (fun htr => (hx' htr).upd (upd_retry_exec _ _ hretry))
                      · exact good_spawnChildren _ _ _ _ _ _ (good_store hSn
                          (fun htr => (hx' htr).upd (upd_failed g _))))
                · split
                  · -- submit-failed
                    split
                    · exact hSn
                    · split
                      all_goals (
                        split
                        · rename_i hretry
                          exact good_store hSn (fun htr => (hx' htr).upd (upd_retry_sub _ _ hretry))
                        · exact good_spawnChildren _ _ _ _ _ _ (good_store hSn
                            (fun htr => (hx' htr).upd (upd_subfailed g _))))
                  · split
                    · -- submitted
                      split
                      · exact hSn
                      · split
                        · exact good_spawnChildren _ _ _ _ _ _ (good_store hSn
                            (fun htr => (hx' htr).upd (upd_submitted _)))
                        · exact good_spawnChildren _ _ _ _ _ _ hSn
                    · split
                      all_goals (
                        split
                        · exact good_spawnChildren _ _ _ _ _ _ hSn
                        · exact hSn)


theorem ctl_processQueue (g : Graph) (s : State) : ctl (processQueue g s) = ctl s := by
  unfold processQueue
  simp only
  apply foldl_inv (fun st => ctl st = ctl s)
  · intro st grp hst
    split
    · exact hst
    · have : ∀ (l : List Msg) (acc : State × Bool),
          ctl (l.foldl (fun (acc : State × Bool) m =>
            let (st', pl) := processMessage g 4 acc.1 grp.1.1 grp.1.2 .received m.submitNum m.text
            (st', acc.2 || pl)) acc).1 = ctl acc.1 := by
        intro l; induction l with
        | nil => intro acc; rfl
        | cons m l ihl =>
          intro acc
          simp only [List.foldl_cons]
          refine (ihl _).trans ?_
          exact ctl_processMessage g 4 _ _ _ _ _ _
      have h2 := this grp.2 (st, false)
      split
      · exact h2.trans hst
      · exact h2.trans hst
  · rfl

theorem good_processQueue {sp : Int} (g : Graph) (s : State) (h : PoolGood sp s) : PoolGood sp (processQueue g s) := by
  unfold processQueue
  simp only
  apply foldl_inv (PoolGood sp)
  · intro st grp hst
    split
    · exact hst
    · have : ∀ (l : List Msg) (acc : State × Bool), PoolGood sp acc.1 →
          PoolGood sp (l.foldl (fun (acc : State × Bool) m =>
            let (st', pl) := processMessage g 4 acc.1 grp.1.1 grp.1.2 .received m.submitNum m.text
            (st', acc.2 || pl)) acc).1 := by
        intro l; induction l with
        | nil => intro acc ha; exact ha
        | cons m l ihl =>
          intro acc ha
          apply ihl
          exact good_processMessage g 4 _ _ _ _ _ _ ha
      have h2 := this grp.2 (st, false) hst
      split
      · exact h2
      · exact h2
  · exact h

theorem ctl_sweepQueue (s : State) : ctl (sweepQueue s) = ctl s := by
  unfold sweepQueue
  apply foldl_inv (fun st => ctl st = ctl s)
  · intro st x hst
    split
    · split
      · exact (ctl_queueIfReady _ _).trans hst
      · exact hst
    · exact hst
  · rfl

theorem good_sweepQueue {sp : Int} (s : State) (h : PoolGood sp s) : PoolGood sp (sweepQueue s) := by
  unfold sweepQueue
  apply foldl_inv (PoolGood sp)
  · intro st x hst
    split
    · rename_i y hy
      split
      · have hy' : Good sp { y with retryWait := false } :=
          (good_get? hst hy).upd ⟨rfl, id, rfl, rfl, fun h => Or.inl h⟩
        exact good_queueIfReady _ _ (good_put hst hy') hy'
      · exact hst
    · exact hst
  · exact h

/-- what `releaseAndSubmit` leaves alone -/
theorem frame_releaseAndSubmit (s : State) :
    (releaseAndSubmit s).stopPoint = s.stopPoint ∧ (releaseAndSubmit s).rhLimit = s.rhLimit ∧
    (releaseAndSubmit s).stop = s.stop ∧ (releaseAndSubmit s).stopMode = s.stopMode ∧
    (releaseAndSubmit s).dbStopCp = s.dbStopCp ∧ (releaseAndSubmit s).stopTask = s.stopTask ∧
    (releaseAndSubmit s).stopTaskFinished = s.stopTaskFinished ∧ (releaseAndSubmit s).paused = s.paused := by
  unfold releaseAndSubmit
  simp only
  split
  · exact ⟨rfl, rfl, rfl, rfl, rfl, rfl, rfl, rfl⟩
  · simp only
    have : ∀ (l : List Proxy) (st : State),
        let r := l.foldl (fun (st : State) x =>
          let y := x.reset (queued := some false)
          let y := { (y.reset (status := some .preparing)) with submitNum := x.submitNum + 1, live := true, timers := true }
          { (st.put y) with launched := st.launched ++ [(x.pt, x.name, x.submitNum + 1)] }) st
        r.stopPoint = st.stopPoint ∧ r.rhLimit = st.rhLimit ∧ r.stop = st.stop ∧ r.stopMode = st.stopMode ∧
        r.dbStopCp = st.dbStopCp ∧ r.stopTask = st.stopTask ∧ r.stopTaskFinished = st.stopTaskFinished ∧
        r.paused = st.paused := by
      intro l; induction l with
      | nil => intro st; exact ⟨rfl, rfl, rfl, rfl, rfl, rfl, rfl, rfl⟩
      | cons a l ih => intro st; simp only [List.foldl_cons]; exact ih _
    exact this _ _

/-- `releaseAndSubmit` launches only queued proxies, which lie at or before the stop point -/
theorem good_releaseAndSubmit {sp : Int} (s : State) (h : PoolGood sp s) :
    PoolGood sp (releaseAndSubmit s) ∧ ∀ l ∈ (releaseAndSubmit s).launched, l ∈ s.launched ∨ l.1 ≤ sp := by
  unfold releaseAndSubmit
  simp only
  split
  · exact ⟨h, fun l hl => Or.inl hl⟩
  · simp only
    have key : ∀ (l : List Proxy), (∀ x ∈ l, x.pt ≤ sp) → ∀ (st : State),
        (PoolGood sp st ∧ ∀ e ∈ st.launched, e ∈ s.launched ∨ e.1 ≤ sp) →
        let r := l.foldl (fun (st : State) x =>
          let y := x.reset (queued := some false)
          let y := { (y.reset (status := some .preparing)) with submitNum := x.submitNum + 1, live := true, timers := true }
          { (st.put y) with launched := st.launched ++ [(x.pt, x.name, x.submitNum + 1)] }) st
        (PoolGood sp r ∧ ∀ e ∈ r.launched, e ∈ s.launched ∨ e.1 ≤ sp) := by
      intro l; induction l with
      | nil => intro _ st hst; exact hst
      | cons a l ih =>
        intro hl st hst
        simp only [List.foldl_cons]
        apply ih (fun x hx => hl x (List.mem_cons_of_mem _ hx))
        have ha := hl a List.mem_cons_self
        refine ⟨?_, ?_⟩
        · apply good_put hst.1
          apply good_of_le
          show ((a.reset (queued := some false)).reset (status := some .preparing)).pt ≤ sp
          rw [reset_pt, reset_pt]; exact ha
        · intro e he
          simp only [List.mem_append, List.mem_singleton] at he
          rcases he with he | rfl
          · exact hst.2 e he
          · exact Or.inr ha
    apply key
    · intro x hx
      have hx' := List.mem_filter.mp hx
      have hq : x.queued = true := by
        have := hx'.2; simp only [Bool.and_eq_true] at this; exact this.1
      by_cases hlt : sp < x.pt
      · have := (h x hx'.1 hlt).1
        rw [hq] at this; exact absurd this (by decide)
      · omega
    · exact ⟨h, fun e he => Or.inl he⟩


/-! ### The main loop in named pieces -/

/-- the `workflow_shutdown` decision of the main loop -/
def shutdownDecision (g : Graph) (s : State) : State :=
  if s.stopMode.isNone then
    let (s, std) := stopTaskDone s
    if std then { s with stopMode := some "AUTOMATIC" }
    else
      let (s, auto) := checkAutoShutdown g s
      if auto then { s with stopMode := some "AUTOMATIC" } else s
  else s

/-- the rest of the main loop when the scheduler does not stop -/
def loopBody (g : Graph) (s : State) : State :=
  let s := sweepQueue s
  let s := if s.stopMode.isNone && !s.paused then releaseAndSubmit s else s
  let s := processQueue g s
  finishLoop g s

theorem mainLoop_eq (g : Graph) (s : State) :
    mainLoop g s =
      if s.stop.isSome then s else
      let s3 := shutdownDecision g (releaseRunahead g (computeRunahead g s)).1
      if canStop s3 then { s3 with stop := s3.stopMode } else loopBody g s3 := rfl


def LimOK (sp : Int) (s : State) : Prop := ∀ l, s.rhLimit = some l → l ≤ sp

/-- **the stop-point invariant**: the runahead limit does not exceed the stop point, and no pooled proxy
beyond the stop point is queued or can become ready -/
def SPInv (s : State) : Prop := ∀ sp, s.stopPoint = some sp → LimOK sp s ∧ PoolGood sp s

/-- every job launched by the current op lies at or before the stop point -/
def LaunchOK (s : State) : Prop := ∀ sp, s.stopPoint = some sp → ∀ l ∈ s.launched, l.1 ≤ sp

/-- what `computeRunahead` leaves alone -/
theorem frame_computeRunahead (g : Graph) (s : State) (f : Bool) :
    let r := computeRunahead g s f
    r.pool = s.pool ∧ r.stopPoint = s.stopPoint ∧ r.launched = s.launched ∧ r.stop = s.stop ∧
    r.stopMode = s.stopMode ∧ r.dbStopCp = s.dbStopCp ∧ r.stopTask = s.stopTask ∧
    r.stopTaskFinished = s.stopTaskFinished ∧ r.paused = s.paused ∧ r.restartWait = s.restartWait ∧
    r.stalled = s.stalled := by
  unfold computeRunahead
  simp only
  split
  · exact ⟨rfl, rfl, rfl, rfl, rfl, rfl, rfl, rfl, rfl, rfl, rfl⟩
  · split <;> exact ⟨rfl, rfl, rfl, rfl, rfl, rfl, rfl, rfl, rfl, rfl, rfl⟩

theorem limOK_computeRunahead {sp : Int} (g : Graph) (s : State) (f : Bool) (hsp : s.stopPoint = some sp)
    (h : LimOK sp s) : LimOK sp (computeRunahead g s f) := by
  unfold computeRunahead
  simp only
  split
  · exact h
  · split
    · exact h
    · intro l hl
      simp only [hsp, Option.some.injEq] at hl
      rw [← hl]
      exact Int.min_le_left _ _

theorem frame_checkStalled (g : Graph) (s : State) :
    ctl (checkStalled g s) = ctl s ∧ (checkStalled g s).pool = s.pool ∧
    (checkStalled g s).stopTaskFinished = s.stopTaskFinished := by
  unfold checkStalled
  split
  · exact ⟨rfl, rfl, rfl⟩
  · split
    · exact ⟨rfl, rfl, rfl⟩
    · split <;> exact ⟨rfl, rfl, rfl⟩

/-- what `checkAutoShutdown` leaves alone (it may clear the DB stop point) -/
theorem frame_checkAutoShutdown (g : Graph) (s : State) :
    let r := (checkAutoShutdown g s).1
    r.pool = s.pool ∧ r.stopPoint = s.stopPoint ∧ r.rhLimit = s.rhLimit ∧ r.launched = s.launched ∧
    r.stop = s.stop ∧ r.stopMode = s.stopMode ∧ r.stopTask = s.stopTask ∧
    r.stopTaskFinished = s.stopTaskFinished ∧ r.paused = s.paused ∧ r.restartWait = s.restartWait := by
  unfold checkAutoShutdown
  simp only
  obtain ⟨hc, hp, hf⟩ := frame_checkStalled g s
  have e1 := congrArg Ctl.stopPoint hc
  have e2 := congrArg Ctl.rhLimit hc
  have e3 := congrArg Ctl.launched hc
  have e4 := congrArg Ctl.stop hc
  have e5 := congrArg Ctl.stopMode hc
  have e6 := congrArg Ctl.stopTask hc
  have e7 := congrArg Ctl.paused hc
  have e8 := congrArg Ctl.restartWait hc
  simp only [ctl] at e1 e2 e3 e4 e5 e6 e7 e8
  split
  · exact ⟨rfl, rfl, rfl, rfl, rfl, rfl, rfl, rfl, rfl, rfl⟩
  · split
    · exact ⟨hp, e1, e2, e3, e4, e5, e6, hf, e7, e8⟩
    · split
      · exact ⟨hp, e1, e2, e3, e4, e5, e6, hf, e7, e8⟩
      · exact ⟨hp, e1, e2, e3, e4, e5, e6, hf, e7, e8⟩

theorem frame_stopTaskDone (s : State) :
    let r := (stopTaskDone s).1
    r.pool = s.pool ∧ r.stopPoint = s.stopPoint ∧ r.rhLimit = s.rhLimit ∧ r.launched = s.launched ∧
    r.stop = s.stop ∧ r.stopMode = s.stopMode ∧ r.dbStopCp = s.dbStopCp ∧ r.paused = s.paused ∧
    r.restartWait = s.restartWait ∧ r.stalled = s.stalled := by
  unfold stopTaskDone
  simp only
  split <;> exact ⟨rfl, rfl, rfl, rfl, rfl, rfl, rfl, rfl, rfl, rfl⟩

/-- the shutdown decision changes neither the pool nor the stop point, runahead limit, launches -/
theorem frame_shutdownDecision (g : Graph) (s : State) :
    let r := shutdownDecision g s
    r.pool = s.pool ∧ r.stopPoint = s.stopPoint ∧ r.rhLimit = s.rhLimit ∧ r.launched = s.launched ∧
    r.stop = s.stop ∧ r.paused = s.paused := by
  unfold shutdownDecision
  simp only
  split
  · obtain ⟨a1, a2, a3, a4, a5, _, _, a8, _, _⟩ := frame_stopTaskDone s
    split
    · exact ⟨a1, a2, a3, a4, a5, a8⟩
    · obtain ⟨b1, b2, b3, b4, b5, _, _, _, b9, _⟩ := frame_checkAutoShutdown g (stopTaskDone s).1
      split
      · exact ⟨b1.trans a1, b2.trans a2, b3.trans a3, b4.trans a4, b5.trans a5, b9.trans a8⟩
      · exact ⟨b1.trans a1, b2.trans a2, b3.trans a3, b4.trans a4, b5.trans a5, b9.trans a8⟩
  · exact ⟨rfl, rfl, rfl, rfl, rfl, rfl⟩

/-- `finishLoop` up to (excluding) the final stall check -/
def preCommit (s : State) : State :=
  let hasUpd := s.schedUpd || s.pool.any (·.upd)
  let s := if s.pool.any (·.upd) then { s with restartWait := false } else s
  let s := if hasUpd then
      { s with stalled := false, schedUpd := false, pool := s.pool.map fun x => { x with upd := false } }
    else s
  { s with db := some s.pool }

theorem finishLoop_eq (g : Graph) (s : State) :
    finishLoop g s =
      if (!(s.schedUpd || s.pool.any (·.upd)) && (preCommit s).stopMode.isNone) = true then
        checkStalled g (preCommit s) else preCommit s := rfl

theorem frame_preCommit (s : State) :
    let r := preCommit s
    r.stopPoint = s.stopPoint ∧ r.rhLimit = s.rhLimit ∧ r.launched = s.launched ∧ r.stop = s.stop ∧
    r.stopMode = s.stopMode ∧ r.dbStopCp = s.dbStopCp ∧ r.stopTask = s.stopTask ∧
    r.stopTaskFinished = s.stopTaskFinished ∧ r.paused = s.paused := by
  unfold preCommit
  simp only
  split <;> split <;> exact ⟨rfl, rfl, rfl, rfl, rfl, rfl, rfl, rfl, rfl⟩

theorem good_preCommit {sp : Int} (s : State) (h : PoolGood sp s) : PoolGood sp (preCommit s) := by
  unfold preCommit
  simp only
  have hmap : ∀ (t : State), PoolGood sp t → ∀ x ∈ t.pool.map (fun x => { x with upd := false }), Good sp x := by
    intro t ht x hx
    obtain ⟨y, hy, rfl⟩ := List.mem_map.mp hx
    exact (ht y hy).upd ⟨rfl, id, rfl, rfl, fun h => Or.inl h⟩
  split <;> split
  · exact hmap { s with restartWait := false } h
  · exact hmap s h
  · exact h
  · exact h

/-- what `finishLoop` leaves alone -/
theorem frame_finishLoop (g : Graph) (s : State) :
    let r := finishLoop g s
    r.stopPoint = s.stopPoint ∧ r.rhLimit = s.rhLimit ∧ r.launched = s.launched ∧ r.stop = s.stop ∧
    r.stopMode = s.stopMode ∧ r.dbStopCp = s.dbStopCp ∧ r.stopTask = s.stopTask ∧
    r.stopTaskFinished = s.stopTaskFinished ∧ r.paused = s.paused := by
  rw [finishLoop_eq]
  obtain ⟨a1, a2, a3, a4, a5, a6, a7, a8, a9⟩ := frame_preCommit s
  simp only
  split
  · obtain ⟨hc, _, hf⟩ := frame_checkStalled g (preCommit s)
    have e1 := congrArg Ctl.stopPoint hc
    have e2 := congrArg Ctl.rhLimit hc
    have e3 := congrArg Ctl.launched hc
    have e4 := congrArg Ctl.stop hc
    have e5 := congrArg Ctl.stopMode hc
    have e6 := congrArg Ctl.dbStopCp hc
    have e7 := congrArg Ctl.stopTask hc
    have e8 := congrArg Ctl.paused hc
    simp only [ctl] at e1 e2 e3 e4 e5 e6 e7 e8
    exact ⟨e1.trans a1, e2.trans a2, e3.trans a3, e4.trans a4, e5.trans a5, e6.trans a6, e7.trans a7,
      hf.trans a8, e8.trans a9⟩
  · exact ⟨a1, a2, a3, a4, a5, a6, a7, a8, a9⟩

theorem good_finishLoop {sp : Int} (g : Graph) (s : State) (h : PoolGood sp s) : PoolGood sp (finishLoop g s) := by
  rw [finishLoop_eq]
  split
  · exact good_of_pool_eq (frame_checkStalled g _).2.1 (good_preCommit s h)
  · exact good_preCommit s h

/-- the body of the main loop keeps the invariant and launches nothing beyond the stop point -/
theorem spinv_loopBody {sp : Int} (g : Graph) (s : State) (hsp : s.stopPoint = some sp) (hl : LimOK sp s)
    (h : PoolGood sp s) (hnl : s.launched = []) :
    (loopBody g s).stopPoint = some sp ∧ LimOK sp (loopBody g s) ∧ PoolGood sp (loopBody g s) ∧
    ∀ l ∈ (loopBody g s).launched, l.1 ≤ sp := by
  unfold loopBody
  simp only
  -- sweep
  have c1 := ctl_sweepQueue s
  have g1 := good_sweepQueue s h
  have sp1 : (sweepQueue s).stopPoint = some sp := (congrArg Ctl.stopPoint c1).trans hsp
  have rl1 : (sweepQueue s).rhLimit = s.rhLimit := congrArg Ctl.rhLimit c1
  have la1 : (sweepQueue s).launched = [] := (congrArg Ctl.launched c1).trans hnl
  generalize sweepQueue s = s1 at c1 g1 sp1 rl1 la1 ⊢
  -- release and submit
  have h2 : let s2 := if (s1.stopMode.isNone && !s1.paused) = true then releaseAndSubmit s1 else s1
      s2.stopPoint = some sp ∧ s2.rhLimit = s.rhLimit ∧ PoolGood sp s2 ∧ ∀ l ∈ s2.launched, l.1 ≤ sp := by
    simp only
    split
    · obtain ⟨f1, f2, _⟩ := frame_releaseAndSubmit s1
      obtain ⟨g2, l2⟩ := good_releaseAndSubmit s1 g1
      refine ⟨f1.trans sp1, f2.trans rl1, g2, ?_⟩
      intro l hl
      rcases l2 l hl with h' | h'
      · rw [la1] at h'; simp at h'
      · exact h'
    · exact ⟨sp1, rl1, g1, by rw [la1]; simp⟩
  generalize (if (s1.stopMode.isNone && !s1.paused) = true then releaseAndSubmit s1 else s1) = s2 at h2 ⊢
  obtain ⟨sp2, rl2, g2, la2⟩ := h2
  -- messages
  have c3 := ctl_processQueue g s2
  have g3 := good_processQueue g s2 g2
  have sp3 : (processQueue g s2).stopPoint = some sp := (congrArg Ctl.stopPoint c3).trans sp2
  have rl3 : (processQueue g s2).rhLimit = s.rhLimit := (congrArg Ctl.rhLimit c3).trans rl2
  have la3 : (processQueue g s2).launched = s2.launched := congrArg Ctl.launched c3
  generalize processQueue g s2 = s3 at c3 g3 sp3 rl3 la3 ⊢
  obtain ⟨f1, f2, f3, _⟩ := frame_finishLoop g s3
  refine ⟨f1.trans sp3, ?_, good_finishLoop g s3 g3, ?_⟩
  · intro l hl'
    rw [f2, rl3] at hl'
    exact hl l hl'
  · intro l hl'
    rw [f3, la3] at hl'
    exact la2 l hl'


/-- what the body of the main loop leaves alone -/
theorem frame_loopBody (g : Graph) (s : State) :
    let r := loopBody g s
    r.stopPoint = s.stopPoint ∧ r.rhLimit = s.rhLimit ∧ r.stop = s.stop ∧ r.stopMode = s.stopMode ∧
    r.dbStopCp = s.dbStopCp ∧ r.stopTask = s.stopTask ∧ r.paused = s.paused := by
  unfold loopBody
  simp only
  have c1 := ctl_sweepQueue s
  generalize sweepQueue s = s1 at c1 ⊢
  have h2 : let s2 := if (s1.stopMode.isNone && !s1.paused) = true then releaseAndSubmit s1 else s1
      s2.stopPoint = s1.stopPoint ∧ s2.rhLimit = s1.rhLimit ∧ s2.stop = s1.stop ∧ s2.stopMode = s1.stopMode ∧
      s2.dbStopCp = s1.dbStopCp ∧ s2.stopTask = s1.stopTask ∧ s2.paused = s1.paused := by
    simp only
    split
    · obtain ⟨f1, f2, f3, f4, f5, f6, _, f8⟩ := frame_releaseAndSubmit s1
      exact ⟨f1, f2, f3, f4, f5, f6, f8⟩
    · exact ⟨rfl, rfl, rfl, rfl, rfl, rfl, rfl⟩
  generalize (if (s1.stopMode.isNone && !s1.paused) = true then releaseAndSubmit s1 else s1) = s2 at h2 ⊢
  obtain ⟨a1, a2, a3, a4, a5, a6, a7⟩ := h2
  have c3 := ctl_processQueue g s2
  generalize processQueue g s2 = s3 at c3 ⊢
  obtain ⟨f1, f2, _, f4, f5, f6, f7, _, f9⟩ := frame_finishLoop g s3
  have e1 := congrArg Ctl.stopPoint c1
  have e2 := congrArg Ctl.rhLimit c1
  have e3 := congrArg Ctl.stop c1
  have e4 := congrArg Ctl.stopMode c1
  have e5 := congrArg Ctl.dbStopCp c1
  have e6 := congrArg Ctl.stopTask c1
  have e7 := congrArg Ctl.paused c1
  have d1 := congrArg Ctl.stopPoint c3
  have d2 := congrArg Ctl.rhLimit c3
  have d3 := congrArg Ctl.stop c3
  have d4 := congrArg Ctl.stopMode c3
  have d5 := congrArg Ctl.dbStopCp c3
  have d6 := congrArg Ctl.stopTask c3
  have d7 := congrArg Ctl.paused c3
  simp only [ctl] at e1 e2 e3 e4 e5 e6 e7 d1 d2 d3 d4 d5 d6 d7
  exact ⟨((f1.trans d1).trans a1).trans e1, ((f2.trans d2).trans a2).trans e2, ((f4.trans d3).trans a3).trans e3,
    ((f5.trans d4).trans a4).trans e4, ((f6.trans d5).trans a5).trans e5, ((f7.trans d6).trans a6).trans e6,
    ((f9.trans d7).trans a7).trans e7⟩

/-- the main loop never changes the stop point -/
theorem stopPoint_mainLoop (g : Graph) (s : State) : (mainLoop g s).stopPoint = s.stopPoint := by
  rw [mainLoop_eq]
  split
  · rfl
  · simp only
    obtain ⟨_, sp1, _⟩ := frame_computeRunahead g s false
    have sp2 := (congrArg Ctl.stopPoint (ctl_releaseRunahead g (computeRunahead g s))).trans sp1
    obtain ⟨_, sp3, _⟩ := frame_shutdownDecision g (releaseRunahead g (computeRunahead g s)).1
    split
    · exact sp3.trans sp2
    · exact ((frame_loopBody g _).1.trans sp3).trans sp2

theorem spinv_mainLoop (g : Graph) (s : State) (h : SPInv s) (hnl : s.launched = []) :
    SPInv (mainLoop g s) ∧ LaunchOK (mainLoop g s) := by
  have key : ∀ sp, s.stopPoint = some sp →
      LimOK sp (mainLoop g s) ∧ PoolGood sp (mainLoop g s) ∧ ∀ l ∈ (mainLoop g s).launched, l.1 ≤ sp := by
    intro sp hsp
    rw [mainLoop_eq]
    split
    · exact ⟨(h sp hsp).1, (h sp hsp).2, fun l hl => by rw [hnl] at hl; simp at hl⟩
    · simp only
      obtain ⟨p1, sp1, la1, _⟩ := frame_computeRunahead g s false
      have c2 := ctl_releaseRunahead g (computeRunahead g s)
      have sp2 : (releaseRunahead g (computeRunahead g s)).1.stopPoint = some sp :=
        ((congrArg Ctl.stopPoint c2).trans sp1).trans hsp
      have la2 : (releaseRunahead g (computeRunahead g s)).1.launched = [] :=
        ((congrArg Ctl.launched c2).trans la1).trans hnl
      have rl2 : (releaseRunahead g (computeRunahead g s)).1.rhLimit = (computeRunahead g s).rhLimit :=
        congrArg Ctl.rhLimit c2
      obtain ⟨hl, hg⟩ := h sp hsp
      have hl1 := limOK_computeRunahead g s false hsp hl
      have hg2 := good_releaseRunahead g _ (good_of_pool_eq p1 hg) hl1
      have hl2 : LimOK sp (releaseRunahead g (computeRunahead g s)).1 := by
        intro l hl'
        rw [rl2] at hl'
        exact hl1 l hl'
      generalize (releaseRunahead g (computeRunahead g s)).1 = s2 at sp2 la2 hg2 hl2 ⊢
      obtain ⟨p3, sp3, rl3, la3, _, _⟩ := frame_shutdownDecision g s2
      have hg3 : PoolGood sp (shutdownDecision g s2) := good_of_pool_eq p3 hg2
      have hl3 : LimOK sp (shutdownDecision g s2) := by
        intro l hl'
        rw [rl3] at hl'
        exact hl2 l hl'
      have sp3' : (shutdownDecision g s2).stopPoint = some sp := sp3.trans sp2
      have la3' : (shutdownDecision g s2).launched = [] := la3.trans la2
      generalize shutdownDecision g s2 = s3 at sp3' la3' hg3 hl3 ⊢
      split
      · refine ⟨hl3, hg3, ?_⟩
        intro l hl'
        have : l ∈ s3.launched := hl'
        rw [la3'] at this; simp at this
      · obtain ⟨_, r1, r2, r3⟩ := spinv_loopBody g s3 sp3' hl3 hg3 la3'
        exact ⟨r1, r2, r3⟩
  have hsp := stopPoint_mainLoop g s
  refine ⟨?_, ?_⟩
  · intro sp hsp'
    obtain ⟨a, b, _⟩ := key sp (hsp.symm.trans hsp')
    exact ⟨a, b⟩
  · intro sp hsp'
    exact (key sp (hsp.symm.trans hsp')).2.2


/-! ### Commands -/

theorem ctl_setHoldPoint (s : State) (p : Int) :
    (setHoldPoint s p).stopPoint = s.stopPoint ∧ (setHoldPoint s p).rhLimit = s.rhLimit ∧
    (setHoldPoint s p).launched = s.launched ∧ (setHoldPoint s p).dbStopCp = s.dbStopCp ∧
    (setHoldPoint s p).stop = s.stop ∧ (setHoldPoint s p).stopMode = s.stopMode ∧
    (setHoldPoint s p).stopTask = s.stopTask ∧ (setHoldPoint s p).paused = s.paused ∧
    (setHoldPoint s p).restartWait = s.restartWait := by
  unfold setHoldPoint
  simp only
  have : ctl (s.pool.foldl (fun st x => if x.pt > p then
      match st.get? x.pt x.name with | some y => holdActive st y | none => st
    else st) { s with holdPoint := some p }) = ctl { s with holdPoint := some p } := by
    apply foldl_inv (fun st => ctl st = ctl { s with holdPoint := some p })
    · intro st x hst
      split
      · split
        · exact (ctl_holdActive _ _).trans hst
        · exact hst
      · exact hst
    · rfl
  have e1 := congrArg Ctl.stopPoint this
  have e2 := congrArg Ctl.rhLimit this
  have e3 := congrArg Ctl.launched this
  have e4 := congrArg Ctl.dbStopCp this
  have e5 := congrArg Ctl.stop this
  have e6 := congrArg Ctl.stopMode this
  have e7 := congrArg Ctl.stopTask this
  have e8 := congrArg Ctl.paused this
  have e9 := congrArg Ctl.restartWait this
  exact ⟨e1, e2, e3, e4, e5, e6, e7, e8, e9⟩

theorem good_setHoldPoint {sp : Int} (s : State) (p : Int) (h : PoolGood sp s) : PoolGood sp (setHoldPoint s p) := by
  unfold setHoldPoint
  simp only
  apply foldl_inv (PoolGood sp)
  · intro st x hst
    split
    · split
      · rename_i y hy
        exact good_holdActive _ _ hst (good_get? hst hy)
      · exact hst
    · exact hst
  · exact h

theorem ctl_holdTasks (s : State) (ids : List (Int × String)) : ctl (holdTasks s ids) = ctl s := by
  unfold holdTasks
  apply foldl_inv (fun st => ctl st = ctl s)
  · intro st k hst
    split
    · exact (ctl_holdActive _ _).trans hst
    · split
      · exact hst
      · exact hst
  · rfl

theorem good_holdTasks {sp : Int} (s : State) (ids : List (Int × String)) (h : PoolGood sp s) :
    PoolGood sp (holdTasks s ids) := by
  unfold holdTasks
  apply foldl_inv (PoolGood sp)
  · intro st k hst
    split
    · rename_i y hy
      exact good_holdActive _ _ hst (good_get? hst hy)
    · split
      · exact hst
      · exact hst
  · exact h

theorem ctl_releaseTasks (s : State) (ids : List (Int × String)) : ctl (releaseTasks s ids) = ctl s := by
  unfold releaseTasks
  apply foldl_inv (fun st => ctl st = ctl s)
  · intro st k hst
    split
    · exact hst
    · split
      · exact (ctl_releaseHeldActive _ _).trans hst
      · exact hst
  · rfl

theorem good_releaseTasks {sp : Int} (s : State) (ids : List (Int × String)) (h : PoolGood sp s) :
    PoolGood sp (releaseTasks s ids) := by
  unfold releaseTasks
  apply foldl_inv (PoolGood sp)
  · intro st k hst
    split
    · exact hst
    · split
      · rename_i y hy
        exact good_releaseHeldActive _ _ hst (good_get? hst hy)
      · exact hst
  · exact h

theorem ctl_releaseHoldPoint (s : State) :
    (releaseHoldPoint s).stopPoint = s.stopPoint ∧ (releaseHoldPoint s).rhLimit = s.rhLimit ∧
    (releaseHoldPoint s).launched = s.launched ∧ (releaseHoldPoint s).dbStopCp = s.dbStopCp ∧
    (releaseHoldPoint s).stop = s.stop ∧ (releaseHoldPoint s).stopMode = s.stopMode ∧
    (releaseHoldPoint s).stopTask = s.stopTask ∧ (releaseHoldPoint s).paused = s.paused := by
  unfold releaseHoldPoint
  simp only
  have : ctl (s.pool.foldl (fun st x => match st.get? x.pt x.name with
      | some y => releaseHeldActive st y | none => st) { s with holdPoint := none }) =
      ctl { s with holdPoint := none } := by
    apply foldl_inv (fun st => ctl st = ctl { s with holdPoint := none })
    · intro st x hst
      split
      · exact (ctl_releaseHeldActive _ _).trans hst
      · exact hst
    · rfl
  exact ⟨congrArg Ctl.stopPoint this, congrArg Ctl.rhLimit this, congrArg Ctl.launched this,
    congrArg Ctl.dbStopCp this, congrArg Ctl.stop this, congrArg Ctl.stopMode this, congrArg Ctl.stopTask this,
    congrArg Ctl.paused this⟩

theorem good_releaseHoldPoint {sp : Int} (s : State) (h : PoolGood sp s) : PoolGood sp (releaseHoldPoint s) := by
  unfold releaseHoldPoint
  simp only
  apply good_of_pool_eq (s := s.pool.foldl (fun st x => match st.get? x.pt x.name with
      | some y => releaseHeldActive st y | none => st) { s with holdPoint := none }) rfl
  apply foldl_inv (PoolGood sp)
  · intro st x hst
    split
    · rename_i y hy
      exact good_releaseHeldActive _ _ hst (good_get? hst hy)
    · exact hst
  · exact h

/-! ### Lowering the stop point, restart: the guards -/

/-- guard of a `stopPoint p` op: every pooled proxy beyond `p` is unqueued and either still
runahead-limited, or never had a job and is not waiting, or is waiting while the runahead limit is above
`p` (then `set_stop_point` puts it back under the runahead limit) -/
def okStopPoint (s : State) (p : Int) : Bool :=
  s.stopPoint == some p ||
  s.pool.all fun x => decide (x.pt ≤ p) ||
    (!x.queued && (x.runahead || (!x.timers && x.status != .waiting) ||
      (x.status == .waiting && match s.rhLimit with | some l => decide (l > p) | none => false)))

theorem okStopPoint_spec {s : State} {p : Int} (hne : ¬ (s.stopPoint == some p) = true) (hok : okStopPoint s p = true) :
    ∀ x ∈ s.pool, p < x.pt → x.queued = false ∧ (x.runahead = true ∨ (x.timers = false ∧ x.status ≠ .waiting) ∨
      (x.status = .waiting ∧ ∃ l, s.rhLimit = some l ∧ l > p)) := by
  intro x hx hlt
  unfold okStopPoint at hok
  simp only [Bool.or_eq_true, List.all_eq_true] at hok
  have h := (hok.resolve_left hne) x hx
  have hnle : ¬ x.pt ≤ p := by omega
  simp only [decide_eq_true_eq, hnle, false_or, Bool.and_eq_true, Bool.not_eq_eq_eq_not, Bool.not_true,
    Bool.or_eq_true, bne_iff_ne, ne_eq, beq_iff_eq] at h
  obtain ⟨hq, h2⟩ := h
  refine ⟨hq, ?_⟩
  rcases h2 with (h2 | h2) | ⟨h3, h4⟩
  · exact Or.inl h2
  · exact Or.inr (Or.inl h2)
  · refine Or.inr (Or.inr ⟨h3, ?_⟩)
    cases hrl : s.rhLimit with
    | none => simp [hrl] at h4
    | some l => simp only [hrl, decide_eq_true_eq] at h4; exact ⟨l, rfl, h4⟩

theorem reset_runahead_true (x : Proxy) :
    (x.reset (runahead := some true)).queued = x.queued ∧ (x.reset (runahead := some true)).runahead = true := by
  unfold Proxy.reset
  simp only
  split
  · rename_i hsame
    simp only [Option.getD_none, Option.getD_some, beq_self_eq_true, Bool.true_and, Bool.and_true,
      beq_iff_eq] at hsame
    exact ⟨rfl, hsame.symm⟩
  · exact ⟨rfl, rfl⟩

theorem spinv_setStopPoint (s : State) (p : Int) (hok : okStopPoint s p = true) (h : SPInv s) :
    SPInv (setStopPoint s p) := by
  unfold setStopPoint
  split
  · exact h
  · rename_i hne
    have spec := okStopPoint_spec hne hok
    simp only
    split
    · rename_i l hrl
      split
      · rename_i hgt
        intro sp hsp
        simp only [Option.some.injEq] at hsp
        subst hsp
        refine ⟨?_, ?_⟩
        · intro l' hl'
          simp only [Option.some.injEq] at hl'
          omega
        · intro y hy hlt
          obtain ⟨x, hx, rfl⟩ := List.mem_map.mp hy
          by_cases hc : (decide (x.pt > p) && x.status == .waiting) = true
          · simp only [hc, if_true] at hlt ⊢
            rw [reset_pt] at hlt
            obtain ⟨hq, _⟩ := spec x hx hlt
            obtain ⟨e1, e2⟩ := reset_runahead_true x
            exact ⟨e1.trans hq, Or.inl e2⟩
          · simp only [hc, Bool.false_eq_true, if_false] at hlt ⊢
            obtain ⟨hq, h2⟩ := spec x hx hlt
            refine ⟨hq, ?_⟩
            rcases h2 with h2 | h2 | ⟨h3, _⟩
            · exact Or.inl h2
            · exact Or.inr h2
            · exfalso
              apply hc
              simp only [Bool.and_eq_true, decide_eq_true_eq, beq_iff_eq]
              exact ⟨hlt, h3⟩
      · rename_i hle
        intro sp hsp
        simp only [Option.some.injEq] at hsp
        subst hsp
        refine ⟨?_, ?_⟩
        · intro l' hl'
          have : s.rhLimit = some l' := hl'
          rw [hrl] at this
          simp only [Option.some.injEq] at this
          omega
        · intro x hx hlt
          obtain ⟨hq, h2⟩ := spec x hx hlt
          refine ⟨hq, ?_⟩
          rcases h2 with h2 | h2 | ⟨_, l', hl', hgt⟩
          · exact Or.inl h2
          · exact Or.inr h2
          · rw [hrl] at hl'
            simp only [Option.some.injEq] at hl'
            omega
    · rename_i hrl
      intro sp hsp
      simp only [Option.some.injEq] at hsp
      subst hsp
      refine ⟨?_, ?_⟩
      · intro l' hl'
        have : s.rhLimit = some l' := hl'
        rw [hrl] at this
        exact absurd this (by simp)
      · intro x hx hlt
        obtain ⟨hq, h2⟩ := spec x hx hlt
        refine ⟨hq, ?_⟩
        rcases h2 with h2 | h2 | ⟨_, l', hl', _⟩
        · exact Or.inl h2
        · exact Or.inr h2
        · rw [hrl] at hl'
          exact absurd hl' (by simp)


/-- the stop point a restart restores: DB `stopcp`, else flow.cylc, else the final point -/
def restoredStop (g : Graph) (s : State) : Int :=
  (match s.dbStopCp with | some p => some p | none => g.cfgStop).getD g.fcp

/-- guard of a `restart` op: no pooled proxy beyond the restored stop point has finished a job
(the restart loads finished proxies as released from the runahead pool) -/
def okRestart (g : Graph) (s : State) : Bool :=
  s.pool.all fun x => decide (x.pt ≤ restoredStop g s) ||
    !(x.status == .failed || x.status == .succeeded || x.status == .expired) || !x.timers

theorem spinv_of_frame {s s' : State} (h : SPInv s) (h1 : s'.stopPoint = s.stopPoint) (h2 : s'.rhLimit = s.rhLimit)
    (h3 : ∀ sp, PoolGood sp s → PoolGood sp s') : SPInv s' := by
  intro sp hsp
  rw [h1] at hsp
  obtain ⟨a, b⟩ := h sp hsp
  refine ⟨?_, h3 sp b⟩
  intro l hl
  rw [h2] at hl
  exact a l hl

theorem stopPoint_restart (g : Graph) (s : State) : (restart g s).stopPoint = some (restoredStop g s) := by
  unfold restart restoredStop
  simp only
  split
  · exact (ctl_setHoldPoint _ _).1
  · rfl

/-- how `restart` restores one proxy from the `task_pool` table -/
def restoreProxy (x : Proxy) : Proxy :=
  let (status, sn) := if x.status == .preparing then (Status.waiting, x.submitNum - 1) else (x.status, x.submitNum)
  let keepOut := status == .running || status == .failed || status == .succeeded
  let final := status == .failed || status == .succeeded || status == .expired
  { x with status := status, submitNum := sn, done := if keepOut then x.done else [],
           queued := false, runahead := !final, retryWait := false, live := false,
           upd := (x.status == .preparing) || final }

/-- the restarted state before `configure` re-applies the hold point -/
def restartBase (g : Graph) (s : State) : State :=
  let cfgStop : Option Int := match s.dbStopCp with | some p => some p | none => g.cfgStop
  let pool := s.pool.map restoreProxy
  let wait := pool.isEmpty || (match cfgStop with
    | some sp => pool.all (fun x => x.pt > sp)
    | none => false)
  { pool := pool, hist := s.hist, absDone := s.absDone,
    tasksToHold := s.tasksToHold, holdPoint := s.holdPoint, stopPoint := some (cfgStop.getD g.fcp),
    dbStopCp := s.dbStopCp, restartWait := wait,
    stopTask := s.stopTask, stopTaskFinished := false, schedUpd := true }

theorem restart_eq (g : Graph) (s : State) :
    restart g s = match (restartBase g s).holdPoint with
      | some hp => setHoldPoint (restartBase g s) hp
      | none => restartBase g s := rfl

theorem restoreProxy_spec (x : Proxy) :
    (restoreProxy x).pt = x.pt ∧ (restoreProxy x).name = x.name ∧ (restoreProxy x).queued = false ∧
    (restoreProxy x).timers = x.timers ∧
    ((restoreProxy x).runahead = false →
      (x.status == .failed || x.status == .succeeded || x.status == .expired) = true ∧
      (restoreProxy x).status ≠ .waiting) ∧
    (x.status ≠ .preparing → (restoreProxy x).status = x.status ∧ (restoreProxy x).submitNum = x.submitNum) := by
  unfold restoreProxy
  refine ⟨rfl, rfl, rfl, rfl, ?_, ?_⟩
  · cases hst : x.status <;> simp
  · intro h
    cases hst : x.status <;> simp_all

theorem spinv_restartBase (g : Graph) (s : State) (hok : okRestart g s = true) : SPInv (restartBase g s) := by
  intro sp hsp
  have e1 : (restartBase g s).stopPoint = some (restoredStop g s) := rfl
  rw [e1] at hsp
  simp only [Option.some.injEq] at hsp
  subst hsp
  refine ⟨fun l hl => by exact absurd (show (none : Option Int) = some l from hl) (by simp), ?_⟩
  intro y hy hlt
  have hy' : y ∈ s.pool.map restoreProxy := hy
  obtain ⟨x, hx, rfl⟩ := List.mem_map.mp hy'
  obtain ⟨a1, _, a2, a3, a4, _⟩ := restoreProxy_spec x
  refine ⟨a2, ?_⟩
  cases hr : (restoreProxy x).runahead with
  | true => exact Or.inl rfl
  | false =>
    obtain ⟨hf, hw⟩ := a4 hr
    refine Or.inr ⟨?_, hw⟩
    unfold okRestart at hok
    have := List.all_eq_true.mp hok x hx
    rw [a1] at hlt
    have hnle : ¬ x.pt ≤ restoredStop g s := by omega
    simp only [Bool.or_eq_true, decide_eq_true_eq, hnle, false_or, hf, Bool.not_true, Bool.false_eq_true,
      Bool.not_eq_eq_eq_not] at this
    rw [a3]; exact this

theorem spinv_restart (g : Graph) (s : State) (hok : okRestart g s = true) : SPInv (restart g s) := by
  rw [restart_eq]
  have hb := spinv_restartBase g s hok
  split
  · obtain ⟨e1, e2, _⟩ := ctl_setHoldPoint (restartBase g s) ‹_›
    exact spinv_of_frame hb e1 e2 (fun sp h => good_setHoldPoint _ _ h)
  · exact hb

theorem launched_restart (g : Graph) (s : State) : (restart g s).launched = [] := by
  rw [restart_eq]
  split
  · exact (ctl_setHoldPoint _ _).2.2.1
  · rfl


/-! ### Start-up and the step theorem -/

theorem ctl_stopPoint {a b : State} (h : ctl a = ctl b) : a.stopPoint = b.stopPoint := congrArg Ctl.stopPoint h
theorem ctl_rhLimit {a b : State} (h : ctl a = ctl b) : a.rhLimit = b.rhLimit := congrArg Ctl.rhLimit h
theorem ctl_launched {a b : State} (h : ctl a = ctl b) : a.launched = b.launched := congrArg Ctl.launched h
theorem ctl_stop {a b : State} (h : ctl a = ctl b) : a.stop = b.stop := congrArg Ctl.stop h
theorem ctl_stopMode {a b : State} (h : ctl a = ctl b) : a.stopMode = b.stopMode := congrArg Ctl.stopMode h
theorem ctl_dbStopCp {a b : State} (h : ctl a = ctl b) : a.dbStopCp = b.dbStopCp := congrArg Ctl.dbStopCp h
theorem ctl_stopTask {a b : State} (h : ctl a = ctl b) : a.stopTask = b.stopTask := congrArg Ctl.stopTask h
theorem ctl_paused {a b : State} (h : ctl a = ctl b) : a.paused = b.paused := congrArg Ctl.paused h
theorem ctl_restartWait {a b : State} (h : ctl a = ctl b) : a.restartWait = b.restartWait :=
  congrArg Ctl.restartWait h

theorem ctl_releaseRunaheadN (g : Graph) : ∀ (n : Nat) (s : State), ctl (releaseRunaheadN g n s) = ctl s := by
  intro n; induction n with
  | zero => intro s; rfl
  | succ n ih =>
    intro s
    unfold releaseRunaheadN
    simp only
    split
    · exact (ih _).trans (ctl_releaseRunahead g s)
    · exact ctl_releaseRunahead g s

theorem good_releaseRunaheadN {sp : Int} (g : Graph) : ∀ (n : Nat) (s : State), PoolGood sp s → LimOK sp s →
    PoolGood sp (releaseRunaheadN g n s) := by
  intro n; induction n with
  | zero => intro s h _; exact h
  | succ n ih =>
    intro s h hl
    unfold releaseRunaheadN
    simp only
    have h1 := good_releaseRunahead g s h hl
    split
    · apply ih _ h1
      intro l hl'
      rw [ctl_rhLimit (ctl_releaseRunahead g s)] at hl'
      exact hl l hl'
    · exact h1

theorem spinv_init (g : Graph) : SPInv (init g) ∧ (init g).launched = [] := by
  unfold init loadFromPoint
  simp only
  -- parentless tasks
  have c1 : ctl (g.tasks.foldl (fun st t => match t.firstParentless with
      | some p => spawnAndAdd g st t.name p
      | none => st) ({ stopPoint := g.stopPoint } : State)) = ctl ({ stopPoint := g.stopPoint } : State) := by
    apply foldl_inv (fun st => ctl st = ctl ({ stopPoint := g.stopPoint } : State))
    · intro st t hst
      split
      · exact (ctl_spawnAndAdd _ _ _ _).trans hst
      · exact hst
    · rfl
  have g1 : ∀ sp, PoolGood sp (g.tasks.foldl (fun st t => match t.firstParentless with
      | some p => spawnAndAdd g st t.name p
      | none => st) ({ stopPoint := g.stopPoint } : State)) := by
    intro sp
    apply foldl_inv (PoolGood sp)
    · intro st t hst
      split
      · exact good_spawnAndAdd _ _ _ _ hst
      · exact hst
    · intro x hx; simp at hx
  generalize (g.tasks.foldl (fun st t => match t.firstParentless with
      | some p => spawnAndAdd g st t.name p
      | none => st) ({ stopPoint := g.stopPoint } : State)) = s1 at c1 g1 ⊢
  have sp1 : s1.stopPoint = g.stopPoint := congrArg Ctl.stopPoint c1
  have la1 : s1.launched = [] := congrArg Ctl.launched c1
  have rl1 : s1.rhLimit = none := congrArg Ctl.rhLimit c1
  -- runahead
  obtain ⟨p2, sp2, la2, _⟩ := frame_computeRunahead g s1 false
  have c3 := ctl_releaseRunaheadN g 10 (computeRunahead g s1)
  have fin : ∀ (s3 : State), s3.stopPoint = g.stopPoint → s3.launched = [] → SPInv s3 →
      SPInv (s3.pool.foldl (fun st x => match st.get? x.pt x.name with
        | some y => queueIfReady st y | none => st) s3) ∧
      (s3.pool.foldl (fun st x => match st.get? x.pt x.name with
        | some y => queueIfReady st y | none => st) s3).launched = [] := by
    intro s3 e1 e2 h3
    have cq : ctl (s3.pool.foldl (fun st x => match st.get? x.pt x.name with
        | some y => queueIfReady st y | none => st) s3) = ctl s3 := by
      apply foldl_inv (fun st => ctl st = ctl s3)
      · intro st x hst
        split
        · exact (ctl_queueIfReady _ _).trans hst
        · exact hst
      · rfl
    refine ⟨?_, (congrArg Ctl.launched cq).trans e2⟩
    apply spinv_of_frame h3 (congrArg Ctl.stopPoint cq) (congrArg Ctl.rhLimit cq)
    intro sp hg
    apply foldl_inv (PoolGood sp)
    · intro st x hst
      split
      · rename_i y hy
        exact good_queueIfReady _ _ hst (good_get? hst hy)
      · exact hst
    · exact hg
  apply fin
  · exact ((congrArg Ctl.stopPoint c3).trans sp2).trans sp1
  · exact ((congrArg Ctl.launched c3).trans la2).trans la1
  · intro sp hsp
    have hsp1 : s1.stopPoint = some sp := by
      rw [← sp2, ← ctl_stopPoint c3]; exact hsp
    have hl1 : LimOK sp s1 := fun l hl => by rw [rl1] at hl; exact absurd hl (by simp)
    have hl2 := limOK_computeRunahead g s1 false hsp1 hl1
    refine ⟨?_, good_releaseRunaheadN g 10 _ (good_of_pool_eq p2 (g1 sp)) hl2⟩
    intro l hl
    rw [ctl_rhLimit c3] at hl
    exact hl2 l hl

/-- the guard of the partial stop-point theorem: `stopPoint` and `restart` ops are restricted -/
def okOp (g : Graph) (s : State) : Op → Bool
  | .stopPoint p => okStopPoint s p
  | .restart => okRestart g s
  | _ => true

theorem launched_setStopPoint (s : State) (p : Int) : (setStopPoint s p).launched = s.launched := by
  unfold setStopPoint
  split
  · rfl
  · simp only
    split
    · split <;> rfl
    · rfl

theorem spinv_step (g : Graph) (s : State) (op : Op) (h : SPInv s) (hok : okOp g s op = true) :
    SPInv (step g s op) ∧ LaunchOK (step g s op) := by
  have hc : SPInv (clearOp s) := h
  have hl0 : (clearOp s).launched = [] := rfl
  have nolaunch : ∀ (s' : State), s'.launched = [] → LaunchOK s' := by
    intro s' e sp _ l hl; rw [e] at hl; simp at hl
  unfold step
  cases op with
  | loop => exact spinv_mainLoop g _ hc hl0
  | subres p n ok sn =>
    simp only
    have c := ctl_processMessage g 4 (clearOp s) p n .internal sn (if ok = true then "submitted" else "submit-failed")
    exact ⟨spinv_of_frame hc (congrArg Ctl.stopPoint c) (congrArg Ctl.rhLimit c)
      (fun sp hg => good_processMessage g 4 _ _ _ _ _ _ hg), nolaunch _ ((congrArg Ctl.launched c).trans hl0)⟩
  | msg p n sn text => exact ⟨hc, nolaunch _ hl0⟩
  | hold ids =>
    have c := ctl_holdTasks (clearOp s) ids
    exact ⟨spinv_of_frame hc (congrArg Ctl.stopPoint c) (congrArg Ctl.rhLimit c)
      (fun sp hg => good_holdTasks _ _ hg), nolaunch _ ((congrArg Ctl.launched c).trans hl0)⟩
  | release ids =>
    have c := ctl_releaseTasks (clearOp s) ids
    exact ⟨spinv_of_frame hc (congrArg Ctl.stopPoint c) (congrArg Ctl.rhLimit c)
      (fun sp hg => good_releaseTasks _ _ hg), nolaunch _ ((congrArg Ctl.launched c).trans hl0)⟩
  | setHoldPoint p =>
    obtain ⟨e1, e2, e3, _⟩ := ctl_setHoldPoint (clearOp s) p
    exact ⟨spinv_of_frame hc e1 e2 (fun sp hg => good_setHoldPoint _ _ hg), nolaunch _ (e3.trans hl0)⟩
  | releaseHoldPoint =>
    obtain ⟨e1, e2, e3, _⟩ := ctl_releaseHoldPoint (clearOp s)
    exact ⟨spinv_of_frame hc e1 e2 (fun sp hg => good_releaseHoldPoint _ hg), nolaunch _ (e3.trans hl0)⟩
  | stop mode => exact ⟨hc, nolaunch _ hl0⟩
  | stopPoint p =>
    exact ⟨spinv_setStopPoint (clearOp s) p hok hc, nolaunch _ ((launched_setStopPoint _ _).trans hl0)⟩
  | stopTask p n => exact ⟨hc, nolaunch _ hl0⟩
  | pause => exact ⟨hc, nolaunch _ hl0⟩
  | resume => exact ⟨hc, nolaunch _ hl0⟩
  | restart => exact ⟨spinv_restart g (clearOp s) hok, nolaunch _ (launched_restart g _)⟩


/-! ### The stop-task flag is only written by message processing -/

theorem stf_spawnTask (g : Graph) (s : State) (n : String) (p : Int) :
    (spawnTask g s n p).1.stopTaskFinished = s.stopTaskFinished := by
  unfold spawnTask
  simp only
  split
  · rfl
  · split
    · rfl
    · split
      · rfl
      · split
        · rfl
        · split
          · split <;> rfl
          · rfl

theorem stf_add (s : State) (x : Proxy) : (s.add x).stopTaskFinished = s.stopTaskFinished := by
  unfold State.add; split <;> rfl

theorem stf_spawnAndAdd (g : Graph) (s : State) (n : String) (p : Int) :
    (spawnAndAdd g s n p).stopTaskFinished = s.stopTaskFinished := by
  unfold spawnAndAdd
  split
  · rfl
  · have h := stf_spawnTask g s n p
    split
    · rename_i s' x heq
      rw [heq] at h
      rw [stf_add]; exact h
    · rename_i s' heq
      rw [heq] at h
      exact h

theorem stf_spawnNextParentless (g : Graph) (s : State) (x : Proxy) :
    (spawnNextParentless g s x).stopTaskFinished = s.stopTaskFinished := by
  unfold spawnNextParentless
  split
  · rfl
  · split
    · exact stf_spawnAndAdd _ _ _ _
    · rfl

theorem stf_releaseRunahead (g : Graph) (s : State) :
    (releaseRunahead g s).1.stopTaskFinished = s.stopTaskFinished := by
  unfold releaseRunahead
  split
  · rfl
  · split
    · rfl
    · simp only
      apply foldl_inv (fun (st : State) => st.stopTaskFinished = s.stopTaskFinished)
      · intro st x hst
        rw [stf_spawnNextParentless]
        split
        · exact hst
        · exact hst
      · rfl

theorem stf_holdActive (s : State) (x : Proxy) : (holdActive s x).stopTaskFinished = s.stopTaskFinished := by
  unfold holdActive; simp only; split <;> rfl

theorem stf_releaseHeldActive (s : State) (x : Proxy) :
    (releaseHeldActive s x).stopTaskFinished = s.stopTaskFinished := by
  unfold releaseHeldActive; simp only; split <;> rfl

theorem stf_holdTasks (s : State) (ids : List (Int × String)) :
    (holdTasks s ids).stopTaskFinished = s.stopTaskFinished := by
  unfold holdTasks
  apply foldl_inv (fun (st : State) => st.stopTaskFinished = s.stopTaskFinished)
  · intro st k hst
    split
    · exact (stf_holdActive _ _).trans hst
    · split
      · exact hst
      · exact hst
  · rfl

theorem stf_releaseTasks (s : State) (ids : List (Int × String)) :
    (releaseTasks s ids).stopTaskFinished = s.stopTaskFinished := by
  unfold releaseTasks
  apply foldl_inv (fun (st : State) => st.stopTaskFinished = s.stopTaskFinished)
  · intro st k hst
    split
    · exact hst
    · split
      · exact (stf_releaseHeldActive _ _).trans hst
      · exact hst
  · rfl

theorem stf_setHoldPoint (s : State) (p : Int) : (setHoldPoint s p).stopTaskFinished = s.stopTaskFinished := by
  unfold setHoldPoint
  simp only
  apply foldl_inv (fun (st : State) => st.stopTaskFinished = s.stopTaskFinished)
  · intro st x hst
    split
    · split
      · exact (stf_holdActive _ _).trans hst
      · exact hst
    · exact hst
  · rfl

theorem stf_releaseHoldPoint (s : State) : (releaseHoldPoint s).stopTaskFinished = s.stopTaskFinished := by
  unfold releaseHoldPoint
  simp only
  show (s.pool.foldl (fun (st : State) x => match st.get? x.pt x.name with
      | some y => releaseHeldActive st y | none => st) { s with holdPoint := none }).stopTaskFinished = _
  apply foldl_inv (fun (st : State) => st.stopTaskFinished = s.stopTaskFinished)
  · intro st x hst
    split
    · exact (stf_releaseHeldActive _ _).trans hst
    · exact hst
  · rfl

/-- what `setStopPoint` leaves alone -/
theorem frame_setStopPoint (s : State) (p : Int) :
    let r := setStopPoint s p
    r.stopTaskFinished = s.stopTaskFinished ∧ r.stop = s.stop ∧ r.stopMode = s.stopMode ∧
    r.stopTask = s.stopTask ∧ r.paused = s.paused := by
  unfold setStopPoint
  simp only
  split
  · exact ⟨rfl, rfl, rfl, rfl, rfl⟩
  · split
    · split <;> exact ⟨rfl, rfl, rfl, rfl, rfl⟩
    · exact ⟨rfl, rfl, rfl, rfl, rfl⟩

/-! ### The DB stop point -/

/-- `set_stop_point`: either nothing changes, or the new stop point is set and recorded in the DB -/
theorem db_setStopPoint (s : State) (p : Int) :
    ((setStopPoint s p).stopPoint = s.stopPoint ∧ (setStopPoint s p).dbStopCp = s.dbStopCp ∧ s.stopPoint = some p) ∨
    ((setStopPoint s p).stopPoint = some p ∧ (setStopPoint s p).dbStopCp = some p) := by
  unfold setStopPoint
  split
  · rename_i h
    exact Or.inl ⟨rfl, rfl, by simpa using h⟩
  · simp only
    split
    · split <;> exact Or.inr ⟨rfl, rfl⟩
    · exact Or.inr ⟨rfl, rfl⟩

/-- the DB stop point invariant: a recorded stop point is the current stop point -/
def DbInv (s : State) : Prop := ∀ p, s.dbStopCp = some p → s.stopPoint = some p

/-- the shutdown decision keeps the DB stop point or clears it while deciding to stop automatically -/
theorem db_shutdownDecision (g : Graph) (s : State) :
    (shutdownDecision g s).dbStopCp = s.dbStopCp ∨
    ((shutdownDecision g s).dbStopCp = none ∧ (shutdownDecision g s).stopMode = some "AUTOMATIC" ∧
      s.stopMode = none) := by
  unfold shutdownDecision
  simp only
  split
  · rename_i hm
    have hm' : s.stopMode = none := by simpa using hm
    obtain ⟨_, _, _, _, _, _, a7, _⟩ := frame_stopTaskDone s
    split
    · exact Or.inl a7
    · unfold checkAutoShutdown
      simp only
      split
      · simp only [Bool.false_eq_true, if_false]; exact Or.inl a7
      · split
        · simp only [Bool.false_eq_true, if_false]
          exact Or.inl ((ctl_dbStopCp (frame_checkStalled g _).1).trans a7)
        · split
          · simp only [Bool.false_eq_true, if_false]
            exact Or.inl ((ctl_dbStopCp (frame_checkStalled g _).1).trans a7)
          · simp only [if_true]
            exact Or.inr ⟨trivial, trivial, hm'⟩
  · exact Or.inl rfl

theorem canStop_none {s : State} (h : s.stopMode = none) : canStop s = false := by
  unfold canStop; rw [h]

/-- the main loop keeps the DB stop point, or clears it when it shuts down automatically -/
theorem db_mainLoop (g : Graph) (s : State) :
    (mainLoop g s).dbStopCp = s.dbStopCp ∨
    ((mainLoop g s).dbStopCp = none ∧ (mainLoop g s).stop = some "AUTOMATIC" ∧ s.stop = none ∧
      s.stopMode = none) := by
  rw [mainLoop_eq]
  split
  · exact Or.inl rfl
  · rename_i hstop
    have hstop' : s.stop = none := by simpa using hstop
    simp only
    obtain ⟨_, _, _, _, m1, d1, _⟩ := frame_computeRunahead g s false
    have c2 := ctl_releaseRunahead g (computeRunahead g s)
    have d2 : (releaseRunahead g (computeRunahead g s)).1.dbStopCp = s.dbStopCp := (ctl_dbStopCp c2).trans d1
    have m2 : (releaseRunahead g (computeRunahead g s)).1.stopMode = s.stopMode := (ctl_stopMode c2).trans m1
    generalize (releaseRunahead g (computeRunahead g s)).1 = s2 at d2 m2 ⊢
    rcases db_shutdownDecision g s2 with h | ⟨h1, h2, h3⟩
    · split
      · exact Or.inl (h.trans d2)
      · exact Or.inl (((frame_loopBody g _).2.2.2.2.1.trans h).trans d2)
    · split
      · exact Or.inr ⟨h1, h2, hstop', m2.symm.trans h3⟩
      · rename_i hc
        exfalso
        apply hc
        unfold canStop
        rw [h2]
        simp only
        have e1 : ("AUTOMATIC" == "REQUEST(NOW-NOW)") = false := by decide
        have e2 : ("AUTOMATIC" == "REQUEST(CLEAN)") = false := by decide
        have e3 : ("AUTOMATIC" == "REQUEST(KILL)") = false := by decide
        simp [e1, e2, e3]


/-! ### Instances keep their job (status and submit number) -/

/-- every pooled instance of `s` is still pooled in `s'` with the same status and submit number -/
def Kept (s s' : State) : Prop :=
  ∀ p n x, s.get? p n = some x → ∃ y, s'.get? p n = some y ∧ y.status = x.status ∧ y.submitNum = x.submitNum

theorem Kept.refl (s : State) : Kept s s := fun _ _ x h => ⟨x, h, rfl, rfl⟩

theorem Kept.trans {a b c : State} (h1 : Kept a b) (h2 : Kept b c) : Kept a c := by
  intro p n x hx
  obtain ⟨y, hy, e1, e2⟩ := h1 p n x hx
  obtain ⟨z, hz, f1, f2⟩ := h2 p n y hy
  exact ⟨z, hz, f1.trans e1, f2.trans e2⟩

theorem kept_of_pool_eq {s s' : State} (h : s'.pool = s.pool) : Kept s s' := by
  intro p n x hx
  refine ⟨x, ?_, rfl, rfl⟩
  unfold State.get? at hx ⊢
  rw [h]; exact hx

theorem find?_map_key (l : List Proxy) (f : Proxy → Proxy) (hf : ∀ w, (f w).pt = w.pt ∧ (f w).name = w.name)
    (p : Int) (n : String) :
    (l.map f).find? (fun x => x.pt == p && x.name == n) = (l.find? (fun x => x.pt == p && x.name == n)).map f := by
  rw [List.find?_map]
  have : ((fun x : Proxy => x.pt == p && x.name == n) ∘ f) = fun x => x.pt == p && x.name == n := by
    funext w
    simp only [Function.comp, (hf w).1, (hf w).2]
  rw [this]

/-- replacing the proxy of an instance by one with the same key, status and submit number -/
theorem kept_put {s : State} {y z : Proxy} (hy : s.get? y.pt y.name = some y)
    (h1 : z.pt = y.pt) (h2 : z.name = y.name) (h3 : z.status = y.status) (h4 : z.submitNum = y.submitNum) :
    Kept s (s.put z) := by
  intro p n x hx
  have hf : ∀ w : Proxy, ((fun w => if (w.pt == z.pt && w.name == z.name) = true then z else w) w).pt = w.pt ∧
      ((fun w => if (w.pt == z.pt && w.name == z.name) = true then z else w) w).name = w.name := by
    intro w
    simp only
    split
    · rename_i hw
      simp only [Bool.and_eq_true, beq_iff_eq] at hw
      exact ⟨hw.1.symm, hw.2.symm⟩
    · exact ⟨rfl, rfl⟩
  have hget : (s.put z).get? p n = (s.get? p n).map
      (fun w => if (w.pt == z.pt && w.name == z.name) = true then z else w) := by
    unfold State.put State.get?
    exact find?_map_key s.pool _ hf p n
  rw [hget, hx]
  refine ⟨_, rfl, ?_⟩
  simp only
  split
  · rename_i hw
    simp only [Bool.and_eq_true, beq_iff_eq] at hw
    obtain ⟨k1, k2⟩ := get?_key hx
    have : s.get? y.pt y.name = some x := by
      rw [← h1, ← h2, ← hw.1, ← hw.2, k1, k2]; exact hx
    rw [hy] at this
    simp only [Option.some.injEq] at this
    subst this
    exact ⟨h3, h4⟩
  · exact ⟨rfl, rfl⟩

theorem kept_add (s : State) (x : Proxy) : Kept s (s.add x) := by
  unfold State.add
  split
  · exact Kept.refl s
  · intro p n y hy
    refine ⟨y, ?_, rfl, rfl⟩
    unfold State.get? at hy ⊢
    simp only [List.find?_append, hy, Option.some_or]

theorem reset_flags (x : Proxy) (q r h : Option Bool) :
    (x.reset (queued := q) (runahead := r) (held := h)).pt = x.pt ∧
    (x.reset (queued := q) (runahead := r) (held := h)).name = x.name ∧
    (x.reset (queued := q) (runahead := r) (held := h)).status = x.status ∧
    (x.reset (queued := q) (runahead := r) (held := h)).submitNum = x.submitNum := by
  unfold Proxy.reset
  simp only
  split <;> exact ⟨rfl, rfl, rfl, rfl⟩

theorem get?_self {s : State} {p : Int} {n : String} {y : Proxy} (h : s.get? p n = some y) :
    s.get? y.pt y.name = some y := by
  obtain ⟨k1, k2⟩ := get?_key h
  rw [k1, k2]; exact h

theorem kept_spawnAndAdd (g : Graph) (s : State) (n : String) (p : Int) : Kept s (spawnAndAdd g s n p) := by
  unfold spawnAndAdd
  split
  · exact Kept.refl s
  · have hp := pool_spawnTask g s n p
    split
    · rename_i s' x heq
      rw [heq] at hp
      exact (kept_of_pool_eq hp).trans (kept_add _ _)
    · rename_i s' heq
      rw [heq] at hp
      exact kept_of_pool_eq hp

theorem kept_spawnNextParentless (g : Graph) (s : State) (x : Proxy) : Kept s (spawnNextParentless g s x) := by
  unfold spawnNextParentless
  split
  · exact Kept.refl s
  · split
    · exact kept_spawnAndAdd _ _ _ _
    · exact Kept.refl s

theorem kept_releaseRunahead (g : Graph) (s : State) : Kept s (releaseRunahead g s).1 := by
  unfold releaseRunahead
  split
  · exact Kept.refl s
  · split
    · exact Kept.refl s
    · simp only
      apply foldl_inv (fun st => Kept s st)
      · intro st x hst
        refine hst.trans (Kept.trans ?_ (kept_spawnNextParentless g _ x))
        split
        · rename_i y hy
          obtain ⟨a, b, c, d⟩ := reset_flags y none (some false) none
          exact kept_put (get?_self hy) a b c d
        · exact Kept.refl st
      · exact Kept.refl s

theorem kept_holdActive {s : State} {p : Int} {n : String} {y : Proxy} (hy : s.get? p n = some y) :
    Kept s (holdActive s y) := by
  unfold holdActive
  simp only
  obtain ⟨a, b, c, d⟩ := reset_flags y none none (some true)
  have := kept_put (get?_self hy) a b c d
  split
  · exact this
  · exact this.trans (kept_of_pool_eq rfl)

theorem kept_setHoldPoint (s : State) (p : Int) : Kept s (setHoldPoint s p) := by
  unfold setHoldPoint
  simp only
  apply foldl_inv (fun st => Kept s st)
  · intro st x hst
    split
    · split
      · rename_i y hy
        exact hst.trans (kept_holdActive hy)
      · exact hst
    · exact hst
  · exact kept_of_pool_eq rfl

/-- a restart keeps every instance that is not `preparing` under its status and submit number -/
theorem kept_restart (g : Graph) (s : State) (p : Int) (n : String) (x : Proxy) (hx : s.get? p n = some x)
    (hprep : x.status ≠ .preparing) :
    ∃ y, (restart g s).get? p n = some y ∧ y.status = x.status ∧ y.submitNum = x.submitNum := by
  rw [restart_eq]
  have hb : (restartBase g s).get? p n = some (restoreProxy x) := by
    have : (restartBase g s).get? p n = (s.get? p n).map restoreProxy := by
      unfold State.get?
      exact find?_map_key s.pool restoreProxy (fun w => ⟨(restoreProxy_spec w).1, (restoreProxy_spec w).2.1⟩) p n
    rw [this, hx]; rfl
  obtain ⟨e1, e2⟩ := (restoreProxy_spec x).2.2.2.2.2 hprep
  split
  · obtain ⟨y, hy, f1, f2⟩ := kept_setHoldPoint (restartBase g s) ‹_› p n _ hb
    exact ⟨y, hy, f1.trans e1, f2.trans e2⟩
  · exact ⟨_, hb, e1, e2⟩


/-! ### The main loop up to the shutdown decision -/

/-- the state in which the main loop takes its shutdown decision -/
def preShutdown (g : Graph) (s : State) : State := (releaseRunahead g (computeRunahead g s)).1

theorem mainLoop_eq' (g : Graph) (s : State) :
    mainLoop g s =
      if s.stop.isSome then s else
      if canStop (shutdownDecision g (preShutdown g s)) then
        { shutdownDecision g (preShutdown g s) with stop := (shutdownDecision g (preShutdown g s)).stopMode }
      else loopBody g (shutdownDecision g (preShutdown g s)) := rfl

theorem frame_preShutdown (g : Graph) (s : State) :
    let r := preShutdown g s
    r.stop = s.stop ∧ r.stopMode = s.stopMode ∧ r.stopPoint = s.stopPoint ∧ r.dbStopCp = s.dbStopCp ∧
    r.stopTask = s.stopTask ∧ r.stopTaskFinished = s.stopTaskFinished ∧ r.paused = s.paused ∧
    r.restartWait = s.restartWait ∧ r.launched = s.launched ∧ Kept s r := by
  unfold preShutdown
  simp only
  obtain ⟨a0, a1, a2, a3, a4, a5, a6, a7, a8, a9, _⟩ := frame_computeRunahead g s false
  have c := ctl_releaseRunahead g (computeRunahead g s)
  exact ⟨(ctl_stop c).trans a3, (ctl_stopMode c).trans a4, (ctl_stopPoint c).trans a1, (ctl_dbStopCp c).trans a5,
    (ctl_stopTask c).trans a6, (stf_releaseRunahead g _).trans a7, (ctl_paused c).trans a8,
    (ctl_restartWait c).trans a9, (ctl_launched c).trans a2,
    (kept_of_pool_eq a0).trans (kept_releaseRunahead g _)⟩

theorem shutdownDecision_some {g : Graph} {s : State} (h : s.stopMode.isSome = true) : shutdownDecision g s = s := by
  unfold shutdownDecision
  cases hm : s.stopMode with
  | none => rw [hm] at h; exact absurd h (by simp)
  | some m => simp

/-- with a stop requested or the workflow paused the body of the main loop launches nothing -/
theorem launched_loopBody_idle (g : Graph) (s : State) (h : s.stopMode.isSome = true ∨ s.paused = true) :
    (loopBody g s).launched = s.launched := by
  unfold loopBody
  simp only
  have c1 := ctl_sweepQueue s
  have hcond : ((sweepQueue s).stopMode.isNone && !(sweepQueue s).paused) = false := by
    rw [ctl_stopMode c1, ctl_paused c1]
    rcases h with h | h
    · cases hm : s.stopMode with
      | none => rw [hm] at h; exact absurd h (by simp)
      | some m => simp
    · rw [h]; simp
  simp only [hcond, Bool.false_eq_true, if_false]
  exact ((frame_finishLoop g _).2.2.1.trans (ctl_launched (ctl_processQueue g _))).trans (ctl_launched c1)

theorem canStop_now {s : State} (h : s.stopMode = some "REQUEST(NOW)" ∨ s.stopMode = some "REQUEST(NOW-NOW)") :
    canStop s = true := by
  unfold canStop
  rcases h with h | h
  · rw [h]
    have e1 : ("REQUEST(NOW)" == "REQUEST(NOW-NOW)") = false := by decide
    have e2 : ("REQUEST(NOW)" == "REQUEST(CLEAN)") = false := by decide
    have e3 : ("REQUEST(NOW)" == "REQUEST(KILL)") = false := by decide
    simp [e1, e2, e3]
  · rw [h]; simp

theorem canStop_auto {s : State} (h : s.stopMode = some "AUTOMATIC") : canStop s = true := by
  unfold canStop
  rw [h]
  have e1 : ("AUTOMATIC" == "REQUEST(NOW-NOW)") = false := by decide
  have e2 : ("AUTOMATIC" == "REQUEST(CLEAN)") = false := by decide
  have e3 : ("AUTOMATIC" == "REQUEST(KILL)") = false := by decide
  simp [e1, e2, e3]

theorem canStop_clean {s : State} (h : s.stopMode = some "REQUEST(CLEAN)") :
    canStop s = true ↔ ∀ x ∈ s.pool, x.status.isActive = false := by
  unfold canStop
  rw [h]
  have e1 : ("REQUEST(CLEAN)" == "REQUEST(NOW-NOW)") = false := by decide
  simp only [e1, Bool.false_eq_true, if_false, beq_self_eq_true, Bool.true_or, Bool.true_and, Bool.not_eq_eq_eq_not,
    Bool.not_true]
  constructor
  · intro hh x hx
    cases ha : x.status.isActive with
    | false => rfl
    | true =>
      have : (s.pool.any fun x => x.status.isActive) = true := List.any_eq_true.mpr ⟨x, hx, ha⟩
      rw [this] at hh; exact absurd hh (by decide)
  · intro hh
    cases ha : (s.pool.any fun x => x.status.isActive) with
    | false => rfl
    | true =>
      obtain ⟨x, hx, hx'⟩ := List.any_eq_true.mp ha
      rw [hh x hx] at hx'; exact absurd hx' (by decide)


/-! ### Runs -/

/-- the last state of a run is the fold of `step` -/
theorem mem_run_last (g : Graph) (ops : List Op) : ops.foldl (step g) (init g) ∈ run g ops := by
  unfold run
  have key : ∀ (ops : List Op) (acc : List State) (cur : State), cur ∈ acc →
      ops.foldl (step g) cur ∈ (ops.foldl (fun (a : List State × State) op =>
          let s' := step g a.2 op; (a.1 ++ [s'], s')) (acc, cur)).1 := by
    intro ops
    induction ops with
    | nil => intro acc cur h; exact h
    | cons op ops ih =>
      intro acc cur _
      simp only [List.foldl_cons]
      apply ih
      simp
  exact key ops [init g] (init g) (by simp)

/-- op lists without `stopPoint` and `restart` ops satisfy the guard trivially -/
theorem guarded_of_plain (g : Graph) : ∀ (ops : List Op) (s : State),
    (∀ op ∈ ops, (∀ p, op ≠ .stopPoint p) ∧ op ≠ .restart) → Guarded g (okOp g) s ops := by
  intro ops
  induction ops with
  | nil => intro _ _; trivial
  | cons op ops ih =>
    intro s h
    refine ⟨?_, ih _ (fun o ho => h o (List.mem_cons_of_mem _ ho))⟩
    have := h op List.mem_cons_self
    cases op with
    | stopPoint p => exact absurd rfl (this.1 p)
    | restart => exact absurd rfl this.2
    | _ => rfl

end CylcModel.Sched2
