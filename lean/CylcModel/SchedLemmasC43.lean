/-
Helper lemmas for C43 (stop point, stop task, stop modes) over the `Sched2` model:

* lifting lemmas `foldl_inv`, `run_inv` and a guarded variant `run_inv_guarded` for `Sched2`;
* the *control frame*: which primitives leave the control part of the state (`ctl`: stop, stop mode,
  stop point, DB stop point, stop task, pause flag, runahead limit, launches …) untouched;
* the stop-point invariant `SPInv` (nothing beyond the stop point is queued or can become ready),
  one lemma per primitive;
* the DB stop point invariant `DbInv`.
-/
import CylcModel.Sched2

namespace CylcModel.Sched2

/-! ### Generic lifting -/

theorem foldl_inv {α σ} (P : σ → Prop) (f : σ → α → σ) (h : ∀ s a, P s → P (f s a)) :
    ∀ (l : List α) (s : σ), P s → P (l.foldl f s) := by
  intro l; induction l with
  | nil => intro s hs; exact hs
  | cons a l ih => intro s hs; exact ih _ (h s a hs)

/-- like `foldl_inv`, the step may use that the element comes from the list -/
theorem foldl_inv_mem {α σ} (P : σ → Prop) (f : σ → α → σ) :
    ∀ (l : List α), (∀ s a, a ∈ l → P s → P (f s a)) → ∀ (s : σ), P s → P (l.foldl f s) := by
  intro l; induction l with
  | nil => intro _ s hs; exact hs
  | cons a l ih =>
    intro h s hs
    exact ih (fun s b hb => h s b (List.mem_cons_of_mem _ hb)) _ (h s a (List.mem_cons_self) hs)

/-- every state of a run satisfies `P` when the start-up state does and every step preserves it -/
theorem run_inv (P : State → Prop) (g : Graph) (h0 : P (init g)) (hs : ∀ s op, P s → P (step g s op)) :
    ∀ ops, ∀ s ∈ run g ops, P s := by
  intro ops
  unfold run
  have key : ∀ (ops : List Op) (acc : List State) (cur : State),
      (∀ s ∈ acc, P s) → P cur →
      ∀ s ∈ (ops.foldl (fun (a : List State × State) op =>
          let s' := step g a.2 op; (a.1 ++ [s'], s')) (acc, cur)).1, P s := by
    intro ops
    induction ops with
    | nil => intro acc cur hacc _ s hm; exact hacc s hm
    | cons op ops ih =>
      intro acc cur hacc hcur
      simp only [List.foldl_cons]
      apply ih
      · intro s hm
        rcases List.mem_append.mp hm with h | h
        · exact hacc s h
        · simp at h; subst h; exact hs _ _ hcur
      · exact hs _ _ hcur
  exact key ops [init g] (init g) (by intro s hm; simp at hm; subst hm; exact h0) h0

/-- an op list all of whose ops satisfy the guard `ok` in the state they are applied to -/
def Guarded (g : Graph) (ok : State → Op → Bool) : State → List Op → Prop
  | _, [] => True
  | s, op :: ops => ok s op = true ∧ Guarded g ok (step g s op) ops

/-- `run_inv` for guarded op lists: the step lemma may use the guard -/
theorem run_inv_guarded (P : State → Prop) (g : Graph) (ok : State → Op → Bool) (h0 : P (init g))
    (hs : ∀ s op, P s → ok s op = true → P (step g s op)) :
    ∀ ops, Guarded g ok (init g) ops → ∀ s ∈ run g ops, P s := by
  intro ops
  unfold run
  have key : ∀ (ops : List Op) (acc : List State) (cur : State),
      (∀ s ∈ acc, P s) → P cur → Guarded g ok cur ops →
      ∀ s ∈ (ops.foldl (fun (a : List State × State) op =>
          let s' := step g a.2 op; (a.1 ++ [s'], s')) (acc, cur)).1, P s := by
    intro ops
    induction ops with
    | nil => intro acc cur hacc _ _ s hm; exact hacc s hm
    | cons op ops ih =>
      intro acc cur hacc hcur hg
      simp only [List.foldl_cons]
      obtain ⟨hok, hrest⟩ := hg
      apply ih
      · intro s hm
        rcases List.mem_append.mp hm with h | h
        · exact hacc s h
        · simp at h; subst h; exact hs _ _ hcur hok
      · exact hs _ _ hcur hok
      · exact hrest
  intro hg
  exact key ops [init g] (init g) (by intro s hm; simp at hm; subst hm; exact h0) h0 hg

/-! ### Pool lookups -/

theorem get?_mem {s : State} {p : Int} {n : String} {x : Proxy} (h : s.get? p n = some x) : x ∈ s.pool :=
  List.mem_of_find?_eq_some h

theorem get?_key {s : State} {p : Int} {n : String} {x : Proxy} (h : s.get? p n = some x) :
    x.pt = p ∧ x.name = n := by
  have := List.find?_some h
  simpa using this

/-! ### The control frame -/

/-- the part of the state that only commands, the runahead computation, job release and the shutdown
logic write -/
structure Ctl where
  stop : Option String
  stopMode : Option String
  stopPoint : Option Int
  dbStopCp : Option Int
  stopTask : Option (Int × String)
  paused : Bool
  restartWait : Bool
  rhLimit : Option Int
  launched : List (Int × String × Nat)
  holdPoint : Option Int

def ctl (s : State) : Ctl :=
  ⟨s.stop, s.stopMode, s.stopPoint, s.dbStopCp, s.stopTask, s.paused, s.restartWait, s.rhLimit, s.launched,
   s.holdPoint⟩

theorem ctl_put (s : State) (x : Proxy) : ctl (s.put x) = ctl s := rfl

theorem ctl_add (s : State) (x : Proxy) : ctl (s.add x) = ctl s := by
  unfold State.add; split <;> rfl

theorem ctl_spawnTask (g : Graph) (s : State) (n : String) (p : Int) : ctl (spawnTask g s n p).1 = ctl s := by
  unfold spawnTask
  simp only
  split
  · rfl
  · split
    · rfl
    · split
      · rfl
      · split
        · rfl
        · split
          · split <;> rfl
          · rfl

theorem ctl_spawnAndAdd (g : Graph) (s : State) (n : String) (p : Int) : ctl (spawnAndAdd g s n p) = ctl s := by
  unfold spawnAndAdd
  split
  · rfl
  · have h := ctl_spawnTask g s n p
    split
    · rename_i s' x heq
      rw [heq] at h
      rw [ctl_add]; exact h
    · rename_i s' heq
      rw [heq] at h
      exact h

theorem ctl_spawnNextParentless (g : Graph) (s : State) (x : Proxy) : ctl (spawnNextParentless g s x) = ctl s := by
  unfold spawnNextParentless
  split
  · rfl
  · split
    · exact ctl_spawnAndAdd _ _ _ _
    · rfl

theorem ctl_releaseRunahead (g : Graph) (s : State) : ctl (releaseRunahead g s).1 = ctl s := by
  unfold releaseRunahead
  split
  · rfl
  · split
    · rfl
    · simp only
      apply foldl_inv (fun st => ctl st = ctl s)
      · intro st x hst
        rw [ctl_spawnNextParentless]
        split
        · rw [ctl_put]; exact hst
        · exact hst
      · rfl

theorem ctl_queueIfReady (s : State) (x : Proxy) : ctl (queueIfReady s x) = ctl s := by
  unfold queueIfReady; split <;> rfl

theorem ctl_holdActive (s : State) (x : Proxy) : ctl (holdActive s x) = ctl s := by
  unfold holdActive; simp only; split <;> rfl

theorem ctl_releaseHeldActive (s : State) (x : Proxy) : ctl (releaseHeldActive s x) = ctl s := by
  unfold releaseHeldActive; simp only; split <;> rfl

theorem ctl_remove (g : Graph) (s : State) (x : Proxy) : ctl (remove g s x) = ctl s := by
  unfold remove
  simp only
  split
  · show ctl (spawnNextParentless g _ _) = _
    rw [ctl_spawnNextParentless, ctl_releaseHeldActive]
  · show ctl (releaseHeldActive s x) = _
    exact ctl_releaseHeldActive _ _

theorem ctl_removeIfComplete (g : Graph) (s : State) (x : Proxy) : ctl (removeIfComplete g s x) = ctl s := by
  unfold removeIfComplete
  split
  · rfl
  · simp only
    split
    · split <;> rfl
    · split
      · rw [ctl_remove]; split <;> rfl
      · split <;> rfl

theorem ctl_spawnChild (g : Graph) (p : Int) (n out : String) (acc : State × List (Int × String)) (c : Child) :
    ctl (spawnChild g p n out acc c).1 = ctl acc.1 := by
  obtain ⟨st, sui⟩ := acc
  unfold spawnChild
  simp only
  have h0 : ctl (if (c.isAbs && !st.absDone.contains ⟨p, n, out⟩) = true then
      { st with absDone := st.absDone ++ [⟨p, n, out⟩] } else st) = ctl st := by
    split <;> rfl
  generalize (if (c.isAbs && !st.absDone.contains ⟨p, n, out⟩) = true then
      { st with absDone := st.absDone ++ [⟨p, n, out⟩] } else st) = st0 at h0 ⊢
  have hfold : ∀ (ks : List (Int × String)) (a : State × List (Int × String)),
      ctl (ks.foldl (fun (a : State × List (Int × String)) k =>
        match a.1.get? k.1 k.2 with
        | none => a
        | some z =>
          (a.1.put (z.satisfyMe ⟨p, n, out⟩),
            if ((z.satisfyMe ⟨p, n, out⟩).suicideNow && !a.2.contains k) = true then a.2 ++ [k] else a.2)) a).1
        = ctl a.1 := by
    intro ks; induction ks with
    | nil => intro a; rfl
    | cons k ks ih =>
      intro a
      simp only [List.foldl_cons]
      rw [ih]
      split <;> rfl
  cases hget : st0.get? c.pt c.name with
  | some y =>
    simp only [Option.isSome_some, if_true]
    exact (hfold _ _).trans h0
  | none =>
    simp only [Option.isSome_none]
    have h1 := ctl_spawnTask g st0 c.name c.pt
    generalize spawnTask g st0 c.name c.pt = R at h1 ⊢
    obtain ⟨st1, child⟩ := R
    simp only at h1 ⊢
    cases child with
    | none => simp only; rw [h1, h0]
    | some y =>
      simp only [Bool.false_eq_true, if_false]
      refine (hfold _ _).trans ?_
      rw [ctl_add, h1, h0]

theorem ctl_spawnOnOutput (g : Graph) (s : State) (p : Int) (n out : String) :
    ctl (spawnOnOutput g s p n out) = ctl s := by
  unfold spawnOnOutput
  split
  · rfl
  · simp only
    have h1 : ∀ (cs : List Child) (acc : State × List (Int × String)),
        ctl (cs.foldl (spawnChild g p n out) acc).1 = ctl acc.1 := by
      intro cs; induction cs with
      | nil => intro acc; rfl
      | cons c cs ih => intro acc; simp only [List.foldl_cons]; rw [ih, ctl_spawnChild]
    have h2 : ∀ (ks : List (Int × String)) (st : State),
        ctl (ks.foldl (fun (st : State) k => match st.get? k.1 k.2 with
          | some z => remove g st z
          | none => st) st) = ctl st := by
      intro ks; induction ks with
      | nil => intro st; rfl
      | cons k ks ih =>
        intro st
        simp only [List.foldl_cons]
        rw [ih]
        split
        · exact ctl_remove _ _ _
        · rfl
    generalize hR : (List.foldl (spawnChild g p n out) (s, []) _) = R
    have hRn : ctl R.1 = ctl s := by rw [← hR, h1]
    have h3 := h2 R.2 R.1
    split
    · refine (ctl_removeIfComplete _ _ _).trans ?_
      exact h3.trans hRn
    · exact h3.trans hRn

theorem ctl_store (s : State) (x : Proxy) (tr : Bool) : ctl (store s x tr) = ctl s := by
  unfold store; split <;> rfl

theorem ctl_spawnChildren (g : Graph) (s : State) (p : Int) (n out : String) (tr : Bool) :
    ctl (spawnChildren g s p n out tr) = ctl s := by
  unfold spawnChildren; split
  · rfl
  · exact ctl_spawnOnOutput _ _ _ _ _

theorem ctl_processMessage (g : Graph) : ∀ (fuel : Nat) (s : State) (p : Int) (n : String) (flag : Flag)
    (sn : Nat) (msg : String), ctl (processMessage g fuel s p n flag sn msg).1 = ctl s := by
  intro fuel
  induction fuel with
  | zero => intro s p n flag sn msg; rfl
  | succ fuel ih =>
    intro s p n flag sn msg
    unfold processMessage
    split
    · rfl
    · rename_i x tr _
      split
      · rfl
      · split
        · rfl
        · simp only
          have himp : ∀ (l : List String) (st : State),
              ctl (l.foldl (fun st m => (processMessage g fuel st p n .internal sn m).1) st) = ctl st := by
            intro l; induction l with
            | nil => intro st; rfl
            | cons a l ihl => intro st; simp only [List.foldl_cons]; rw [ihl, ih]
          generalize hS : (List.foldl (fun st m => (processMessage g fuel st p n Flag.internal sn m).1) _ _) = S
          have hSn : ctl S = ctl s := by rw [← hS, himp, ctl_store]
          split
          · exact hSn
          · repeat' split
            all_goals first
              | exact hSn
              | exact (ctl_store _ _ _).trans hSn
              | exact (ctl_spawnChildren _ _ _ _ _ _).trans ((ctl_store _ _ _).trans hSn)
              | exact (ctl_spawnChildren _ _ _ _ _ _).trans hSn


/-! ### The stop-point invariant -/

/-- a pooled proxy beyond the stop point `sp` is not queued, and is either still runahead-limited or
has never had a job and is not waiting — so it can never become ready -/
def Good (sp : Int) (x : Proxy) : Prop :=
  sp < x.pt → x.queued = false ∧ (x.runahead = true ∨ (x.timers = false ∧ x.status ≠ .waiting))

def PoolGood (sp : Int) (s : State) : Prop := ∀ x ∈ s.pool, Good sp x

/-- `y` is an update of `x` that cannot make it ready -/
def Upd (x y : Proxy) : Prop :=
  y.pt = x.pt ∧ (y.queued = true → x.queued = true) ∧ y.runahead = x.runahead ∧ y.timers = x.timers ∧
  (y.status = .waiting → x.status = .waiting ∨ x.timers = true)

theorem Upd.refl (x : Proxy) : Upd x x := ⟨rfl, id, rfl, rfl, fun h => Or.inl h⟩

theorem Upd.trans {x y z : Proxy} (h1 : Upd x y) (h2 : Upd y z) : Upd x z := by
  obtain ⟨a1, b1, c1, d1, e1⟩ := h1
  obtain ⟨a2, b2, c2, d2, e2⟩ := h2
  refine ⟨a2.trans a1, fun h => b1 (b2 h), c2.trans c1, d2.trans d1, ?_⟩
  intro h
  rcases e2 h with h' | h'
  · exact e1 h'
  · exact Or.inr (d1 ▸ h')

theorem Good.upd {sp : Int} {x y : Proxy} (hx : Good sp x) (h : Upd x y) : Good sp y := by
  obtain ⟨a, b, c, d, e⟩ := h
  intro hlt
  rw [a] at hlt
  obtain ⟨hq, hr⟩ := hx hlt
  refine ⟨?_, ?_⟩
  · cases hyq : y.queued with
    | false => rfl
    | true => rw [b hyq] at hq; exact absurd hq (by decide)
  · rcases hr with hr | ⟨ht, hs⟩
    · exact Or.inl (c.trans hr)
    · refine Or.inr ⟨d.trans ht, ?_⟩
      intro hw
      rcases e hw with h' | h'
      · exact hs h'
      · rw [ht] at h'; exact absurd h' (by decide)

theorem good_of_le {sp : Int} {x : Proxy} (h : x.pt ≤ sp) : Good sp x := by
  intro hlt; omega

theorem good_put {sp : Int} {s : State} {x : Proxy} (h : PoolGood sp s) (hx : Good sp x) : PoolGood sp (s.put x) := by
  intro y hy
  unfold State.put at hy
  simp only [List.mem_map] at hy
  obtain ⟨z, hz, rfl⟩ := hy
  split
  · exact hx
  · exact h z hz

theorem good_add {sp : Int} {s : State} {x : Proxy} (h : PoolGood sp s) (hx : Good sp x) : PoolGood sp (s.add x) := by
  unfold State.add
  split
  · exact h
  · intro y hy
    simp only [List.mem_append, List.mem_singleton] at hy
    rcases hy with hy | rfl
    · exact h y hy
    · exact hx

theorem good_get? {sp : Int} {s : State} {p : Int} {n : String} {x : Proxy} (h : PoolGood sp s)
    (hg : s.get? p n = some x) : Good sp x := h x (get?_mem hg)

/-- updates by `Proxy.reset` that do not touch the runahead flag and do not queue -/
theorem upd_reset (x : Proxy) (st : Option Status) (q : Option Bool) (hd : Option Bool)
    (hst : st = some .waiting → x.status = .waiting ∨ x.timers = true) (hq : q ≠ some true) :
    Upd x (x.reset (status := st) (queued := q) (held := hd)) := by
  unfold Proxy.reset
  simp only
  split
  · exact Upd.refl x
  · refine ⟨rfl, ?_, by simp, rfl, ?_⟩
    · intro h
      cases q with
      | none => simpa using h
      | some b => cases b with
        | false => simp at h
        | true => exact absurd rfl hq
    · intro h
      cases st with
      | none => exact Or.inl (by simpa using h)
      | some v =>
        simp at h
        subst h
        exact hst rfl

theorem upd_satisfyMe (x : Proxy) (a : Atom) : Upd x (x.satisfyMe a) := ⟨rfl, id, rfl, rfl, fun h => Or.inl h⟩


/-- a freshly spawned proxy: runahead-limited and not queued -/
def Fresh (y : Proxy) : Prop := y.runahead = true ∧ y.queued = false

theorem mkProxy_fresh {g : Graph} {n : String} {p : Int} {x : Proxy} (h : mkProxy g n p = some x) : Fresh x := by
  unfold mkProxy at h
  cases ht : g.task? n with
  | none => simp [ht] at h
  | some t =>
    simp only [ht, Option.bind_eq_bind, Option.bind_some] at h
    split at h
    · simp at h
    · cases hd : t.inst? p with
      | none => simp [hd] at h
      | some d =>
        simp [hd] at h
        subst h
        exact ⟨rfl, rfl⟩

theorem fresh_reset_held (y : Proxy) (b : Option Bool) (h : Fresh y) : Fresh (y.reset (held := b)) := by
  unfold Proxy.reset
  simp only
  split
  · exact h
  · exact h

theorem fresh_foldl_satisfyMe (l : List Atom) : ∀ (y : Proxy), Fresh y → Fresh (l.foldl (fun z a => z.satisfyMe a) y) := by
  induction l with
  | nil => intro y h; exact h
  | cons a l ih => intro y h; exact ih _ h

theorem spawnTask_fresh {g : Graph} {s s' : State} {n : String} {p : Int} {y : Proxy}
    (h : spawnTask g s n p = (s', some y)) : Fresh y := by
  unfold spawnTask at h
  simp only at h
  split at h
  · simp at h
  · split at h
    · simp at h
    · rename_i x hx
      have hfx := mkProxy_fresh hx
      split at h
      · simp at h
      · rename_i y0 hy0
        -- the revived proxy is fresh
        have hy0f : Fresh y0 := by
          split at hy0
          · simp at hy0; subst hy0; exact hfx
          · split at hy0
            · simp at hy0
            · split at hy0
              · split at hy0
                · split at hy0
                  · simp at hy0
                  · simp at hy0; subst hy0; exact hfx
                · simp at hy0
              · simp at hy0; subst hy0; exact hfx
        have hH : Fresh (if s.tasksToHold.contains (n, p) = true then (s, y0.reset (held := some true))
            else match s.holdPoint with
              | some hp => if p > hp then
                  ({ s with tasksToHold := s.tasksToHold ++ [(n, p)] }, y0.reset (held := some true))
                else (s, y0)
              | none => (s, y0)).2 := by
          split
          · exact fresh_reset_held _ _ hy0f
          · split
            · split
              · exact fresh_reset_held _ _ hy0f
              · exact hy0f
            · exact hy0f
        generalize (if s.tasksToHold.contains (n, p) = true then (s, y0.reset (held := some true))
            else match s.holdPoint with
              | some hp => if p > hp then
                  ({ s with tasksToHold := s.tasksToHold ++ [(n, p)] }, y0.reset (held := some true))
                else (s, y0)
              | none => (s, y0)) = H at h hH
        simp only [Prod.mk.injEq, Option.some.injEq] at h
        obtain ⟨_, rfl⟩ := h
        split
        · split
          · exact fresh_foldl_satisfyMe _ _ hH
          · exact hH
        · exact hH


theorem good_of_fresh {sp : Int} {y : Proxy} (h : Fresh y) : Good sp y := fun _ => ⟨h.2, Or.inl h.1⟩

theorem good_of_pool_eq {sp : Int} {s s' : State} (h : s'.pool = s.pool) (hs : PoolGood sp s) : PoolGood sp s' := by
  intro x hx; rw [h] at hx; exact hs x hx

theorem pool_spawnTask (g : Graph) (s : State) (n : String) (p : Int) : (spawnTask g s n p).1.pool = s.pool := by
  unfold spawnTask
  simp only
  split
  · rfl
  · split
    · rfl
    · split
      · rfl
      · split
        · rfl
        · split
          · split <;> rfl
          · rfl

theorem good_spawnAndAdd {sp : Int} (g : Graph) (s : State) (n : String) (p : Int) (h : PoolGood sp s) :
    PoolGood sp (spawnAndAdd g s n p) := by
  unfold spawnAndAdd
  split
  · exact h
  · have hp := pool_spawnTask g s n p
    split
    · rename_i s' x heq
      rw [heq] at hp
      exact good_add (good_of_pool_eq hp h) (good_of_fresh (spawnTask_fresh heq))
    · rename_i s' heq
      rw [heq] at hp
      exact good_of_pool_eq hp h

theorem good_spawnNextParentless {sp : Int} (g : Graph) (s : State) (x : Proxy) (h : PoolGood sp s) :
    PoolGood sp (spawnNextParentless g s x) := by
  unfold spawnNextParentless
  split
  · exact h
  · split
    · exact good_spawnAndAdd _ _ _ _ h
    · exact h

theorem reset_pt (x : Proxy) (a : Option Status) (b c d : Option Bool) : (x.reset a b c d).pt = x.pt := by
  unfold Proxy.reset; simp only; split <;> rfl

theorem good_releaseRunahead {sp : Int} (g : Graph) (s : State) (h : PoolGood sp s)
    (hl : ∀ l, s.rhLimit = some l → l ≤ sp) : PoolGood sp (releaseRunahead g s).1 := by
  unfold releaseRunahead
  split
  · exact h
  · rename_i lim hlim
    split
    · exact h
    · simp only
      apply foldl_inv_mem (PoolGood sp)
      · intro st x hx hst
        apply good_spawnNextParentless
        split
        · rename_i y hy
          apply good_put hst
          apply good_of_le
          rw [reset_pt, (get?_key hy).1]
          have := (List.mem_filter.mp hx).2
          simp only [Bool.and_eq_true, decide_eq_true_eq] at this
          have := hl lim hlim
          omega
        · exact hst
      · exact h

/-- a proxy that is ready to be queued lies at or before the stop point -/
theorem ready_le {sp : Int} {x : Proxy} (hx : Good sp x) (hr : x.runahead = false) (hw : x.status = .waiting) :
    x.pt ≤ sp := by
  by_cases hlt : sp < x.pt
  · obtain ⟨_, h⟩ := hx hlt
    rcases h with h | ⟨_, h⟩
    · rw [hr] at h; exact absurd h (by decide)
    · exact absurd hw h
  · omega

theorem isReady_waiting {x : Proxy} (h : x.isReadyToRun = true) : x.status = .waiting := by
  unfold Proxy.isReadyToRun at h
  simp only [Bool.and_eq_true, beq_iff_eq] at h
  exact h.1.1.2

theorem good_queueIfReady {sp : Int} (s : State) (x : Proxy) (h : PoolGood sp s) (hx : Good sp x) :
    PoolGood sp (queueIfReady s x) := by
  unfold queueIfReady
  split
  · rename_i hc
    simp only [Bool.and_eq_true, Bool.not_eq_eq_eq_not, Bool.not_true] at hc
    apply good_put h
    apply good_of_le
    rw [reset_pt]
    exact ready_le hx hc.1.2 (isReady_waiting hc.2)
  · exact h

theorem good_holdActive {sp : Int} (s : State) (x : Proxy) (h : PoolGood sp s) (hx : Good sp x) :
    PoolGood sp (holdActive s x) := by
  unfold holdActive
  simp only
  have : PoolGood sp (s.put (x.reset (held := some true))) :=
    good_put h (hx.upd (upd_reset x none none _ (by simp) (by simp)))
  split
  · exact this
  · exact this

theorem reset_held_runahead (x : Proxy) (b : Option Bool) : (x.reset (held := b)).runahead = x.runahead := by
  unfold Proxy.reset; simp only; split <;> rfl

theorem reset_held_pt (x : Proxy) (b : Option Bool) : (x.reset (held := b)).pt = x.pt := reset_pt _ _ _ _ _

theorem good_releaseHeldActive {sp : Int} (s : State) (x : Proxy) (h : PoolGood sp s) (hx : Good sp x) :
    PoolGood sp (releaseHeldActive s x) := by
  unfold releaseHeldActive
  simp only
  apply good_of_pool_eq (s := if x.held = true then _ else s) rfl
  split
  · have hy : Good sp (x.reset (held := some false)) := hx.upd (upd_reset x none none _ (by simp) (by simp))
    apply good_put h
    split
    · rename_i hc
      simp only [Bool.and_eq_true, Bool.not_eq_eq_eq_not, Bool.not_true] at hc
      apply good_of_le
      rw [reset_pt]
      exact ready_le hy hc.1 (isReady_waiting hc.2)
    · exact hy
  · exact h

end CylcModel.Sched2
