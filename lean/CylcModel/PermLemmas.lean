/-
Helper lemmas for property C44 (component `Perm`): effect of each file operation on one file
("frame" lemmas), then of the two start-up routines.  The routine lemmas are stated over the
generated `PermCfg` (recorded `os.umask` / `os.chmod` calls of the live code).
-/
import CylcModel.Perm
namespace CylcModel.Perm
open CylcModel.Generated

theorem set_files (s : St) (f : F) (m : Option Nat) (g : F) :
    (s.set f m).files g = if g = f then m else s.files g := rfl
theorem set_umask (s : St) (f : F) (m : Option Nat) : (s.set f m).umask = s.umask := rfl

theorem create_other (s : St) (f g : F) (req : Nat) (h : g ≠ f) : (s.create f req).files g = s.files g := by
  unfold St.create; split <;> simp [set_files, h]
theorem create_umask (s : St) (f : F) (req : Nat) : (s.create f req).umask = s.umask := by
  unfold St.create; split <;> rfl
theorem create_absent (s : St) (f : F) (req : Nat) (h : s.files f = none) :
    (s.create f req).files f = some (createMode req s.umask) := by
  unfold St.create; simp [h, set_files]
theorem create_exists (s : St) (f : F) (req : Nat) : ∃ m, (s.create f req).files f = some m := by
  unfold St.create
  split
  · next m h => exact ⟨m, h⟩
  · exact ⟨createMode req s.umask, by simp [set_files]⟩

theorem chmod_other (s : St) (f g : F) (m : Nat) (h : g ≠ f) : (s.chmod f m).files g = s.files g := by
  unfold St.chmod; split <;> simp [set_files, h]
theorem chmod_umask (s : St) (f : F) (m : Nat) : (s.chmod f m).umask = s.umask := by
  unfold St.chmod; split <;> rfl
theorem chmod_same (s : St) (f : F) (m m0 : Nat) (h : s.files f = some m0) :
    (s.chmod f m).files f = some (m &&& allModeBits) := by
  unfold St.chmod; simp [h, set_files]

theorem unlink_other (s : St) (f g : F) (h : g ≠ f) : (s.unlink f).files g = s.files g := by
  simp [St.unlink, set_files, h]
theorem unlink_same (s : St) (f : F) : (s.unlink f).files f = none := by
  simp [St.unlink, set_files]
theorem unlink_umask (s : St) (f : F) : (s.unlink f).umask = s.umask := rfl

theorem rename_other (s : St) (a b g : F) (ha : g ≠ a) (hb : g ≠ b) : (s.rename a b).files g = s.files g := by
  simp [St.rename, set_files, ha, hb]
theorem rename_umask (s : St) (a b : F) : (s.rename a b).umask = s.umask := rfl

theorem copy_other (s : St) (a b g : F) (h : g ≠ b) : (s.copyWithMode a b).files g = s.files g := by
  unfold St.copyWithMode
  simp only []
  split <;> simp [chmod_other, create_other, h]
theorem copy_umask (s : St) (a b : F) : (s.copyWithMode a b).umask = s.umask := by
  unfold St.copyWithMode
  simp only []
  split <;> simp [chmod_umask, create_umask]

/-- the databases' start-up leaves every file but the two databases and the temporary copy alone -/
theorem dbStart_other (s : St) (r : Bool) (g : F) (h1 : g ≠ .priDb) (h2 : g ≠ .tmpPub) (h3 : g ≠ .pubDb) :
    (dbStart r s).files g = s.files g := by
  unfold dbStart
  simp only []
  cases r <;> (repeat' split) <;>
    simp [chmod_other, rename_other, copy_other, create_other, unlink_other, h1, h2, h3]

theorem dbStart_umask (s : St) (r : Bool) : (dbStart r s).umask = s.umask := by
  unfold dbStart
  simp only []
  cases r <;> (repeat' split) <;>
    simp [chmod_umask, rename_umask, copy_umask, create_umask, unlink_umask]

theorem dbStart_priDb (s : St) (r : Bool) :
    ∃ m, (dbStart r s).files .priDb = some m ∧ ownerOnly m = true := by
  -- the mode the live code passes to chmod (whatever literal was recorded)
  obtain ⟨pm, hpm⟩ : ∃ pm, PermCfg.dbChmod = some pm := ⟨_, rfl⟩
  have hown : ownerOnly (pm &&& allModeBits) = true := by
    have : some pm = PermCfg.dbChmod := hpm.symm
    simp only [PermCfg.dbChmod, Option.some.injEq] at this
    subst this
    decide
  unfold dbStart
  simp only [hpm]
  -- state after the private DB exists
  generalize hs0 : (if r = true then s else s.unlink F.priDb) = s0
  obtain ⟨m0, hm0⟩ := create_exists s0 .priDb 0o644
  have hch := chmod_same (s0.create .priDb 0o644) .priDb pm m0 hm0
  generalize hs1 : (s0.create F.priDb 0o644).chmod F.priDb pm = s1 at hch
  refine ⟨pm &&& allModeBits, ?_, hown⟩
  split <;>
    simp [chmod_other, rename_other, copy_other, create_other, hch]

theorem keysStart_umask (s : St) : (keysStart s).umask = s.umask := by
  simp [keysStart, unlink_umask]

theorem keysStart_priv (s : St) (f : F) (hf : f = .srvPriv ∨ f = .cliPriv) :
    ∃ m, (keysStart s).files f = some m ∧ ownerOnly m = true := by
  -- the umask the live code sets while it writes the keys (whatever literal was recorded)
  obtain ⟨ku, hku⟩ : ∃ ku, PermCfg.keyUmask = some ku := ⟨_, rfl⟩
  have hown : ownerOnly (createMode 0o666 ku) = true := by
    have : some ku = PermCfg.keyUmask := hku.symm
    simp only [PermCfg.keyUmask, Option.some.injEq] at this
    subst this
    decide
  refine ⟨createMode 0o666 ku, ?_, hown⟩
  rcases hf with rfl | rfl <;>
    simp [keysStart, hku, create_other, create_absent, create_umask, unlink_other, unlink_same, unlink_umask]

end CylcModel.Perm
