/-
Helper lemmas for C05 at scheduler level (id C05S) over the `Sched3QT` model (scheduler core with limited queues
and manual triggers of pooled group-start tasks).

* generic lifting (`foldl_inv`, `run_inv`) stated for `Sched3Q`;
* the queue primitives: exact characterisation of the release loop (FIFO, held tasks skipped and left in place),
  its limit, the release of all queues under independent memberships;
* `Keep g L` = "no two proxies share (point, name)" ∧ "the queue manager still has the configured queues and every
  deque entry is a member of its queue" ∧ "the launch log is `L`": one lemma per primitive of the model, so that these
  facts are carried through every op (pattern of `SchedLemmasC19`);
* the release step of the main loop against the limits, the run-level invariants, the limit invariant along runs
  without out-of-band activation, the queue order relation (`QStep`) over every operation, and the manual trigger
  (`queue_or_trigger`) against the limits.
-/
import CylcModel.Sched3QT

namespace CylcModel.Sched3QT

/-! ### Generic lifting (copies of the `Sched` v1 lemmas, stated for `Sched3Q`) -/

theorem foldl_inv {α σ} (P : σ → Prop) (f : σ → α → σ) (h : ∀ s a, P s → P (f s a)) :
    ∀ (l : List α) (s : σ), P s → P (l.foldl f s) := by
  intro l; induction l with
  | nil => intro s hs; exact hs
  | cons a l ih => intro s hs; exact ih _ (h s a hs)

/-- every state of a run satisfies `P` when the start-up state does and every step preserves it -/
theorem run_inv (P : State → Prop) (g : Graph) (h0 : P (init g)) (hs : ∀ s op, P s → P (step g s op)) :
    ∀ ops, ∀ s ∈ run g ops, P s := by
  intro ops
  unfold run
  have key : ∀ (ops : List Op) (acc : List State) (cur : State),
      (∀ s ∈ acc, P s) → P cur →
      ∀ s ∈ (ops.foldl (fun (a : List State × State) op =>
          let s' := step g a.2 op; (a.1 ++ [s'], s')) (acc, cur)).1, P s := by
    intro ops
    induction ops with
    | nil => intro acc cur hacc _ s hm; exact hacc s hm
    | cons op ops ih =>
      intro acc cur hacc hcur
      simp only [List.foldl_cons]
      apply ih
      · intro s hm
        rcases List.mem_append.mp hm with h | h
        · exact hacc s h
        · simp at h; subst h; exact hs _ _ hcur
      · exact hs _ _ hcur
  exact key ops [init g] (init g) (by intro s hm; simp at hm; subst hm; exact h0) h0

abbrev Key := Int × String
abbrev Sig := String × Nat × List String
def LQ.sig (q : LQ) : Sig := (q.name, q.limit, q.members)

/-! ### The release loop of one queue -/

/-- number of deque entries the release loop pops -/
def popCount (limit : Nat) (isHeld : Key → Bool) : List Key → Nat → Nat
  | [], _ => 0
  | k :: ks, n =>
    if limit == 0 || n < limit then
      (if isHeld k then popCount limit isHeld ks n else popCount limit isHeld ks (n + 1)) + 1
    else 0

theorem releaseLoop_spec (limit : Nat) (isHeld : Key → Bool) :
    ∀ (d : List Key) (n : Nat),
      (releaseLoop limit isHeld d n).released = (d.take (popCount limit isHeld d n)).filter (fun x => !isHeld x) ∧
      (releaseLoop limit isHeld d n).held = (d.take (popCount limit isHeld d n)).filter isHeld ∧
      (releaseLoop limit isHeld d n).rest = d.drop (popCount limit isHeld d n) := by
  intro d
  induction d with
  | nil => intro n; simp [releaseLoop, popCount]
  | cons a d ih =>
    intro n
    simp only [releaseLoop, popCount]
    by_cases hc : (limit == 0 || decide (n < limit)) = true
    · simp only [hc, if_true]
      by_cases hh : isHeld a = true
      · simp only [hh, if_true]
        obtain ⟨h1, h2, h3⟩ := ih n
        simp [List.take_succ_cons, hh, h1, h2, h3]
      · have hh' : isHeld a = false := by simpa using hh
        simp only [hh', Bool.false_eq_true, if_false]
        obtain ⟨h1, h2, h3⟩ := ih (n + 1)
        simp [List.take_succ_cons, hh', h1, h2, h3]
    · simp [hc]

theorem releaseLoop_limit (limit : Nat) (isHeld : Key → Bool) (hl : 0 < limit) :
    ∀ (d : List Key) (n : Nat),
      ((releaseLoop limit isHeld d n).released = [] ∨
        n + (releaseLoop limit isHeld d n).released.length ≤ limit) := by
  intro d
  induction d with
  | nil => intro n; simp [releaseLoop]
  | cons a d ih =>
    intro n
    simp only [releaseLoop]
    have hl0 : (limit == 0) = false := by simp; omega
    by_cases hc : n < limit
    · simp only [hl0, hc, Bool.false_or, decide_true, if_true]
      by_cases hh : isHeld a = true
      · simp only [hh, if_true]
        exact ih n
      · have hh' : isHeld a = false := by simpa using hh
        simp only [hh', Bool.false_eq_true, if_false]
        right
        rcases ih (n + 1) with h | h
        · simp [h]; omega
        · simp; omega
    · simp [hl0, hc]

/-- an unlimited queue releases every task that is not held -/
theorem releaseLoop_unlimited (isHeld : Key → Bool) :
    ∀ (d : List Key) (n : Nat), (releaseLoop 0 isHeld d n).released = d.filter (fun x => !isHeld x) ∧
      (releaseLoop 0 isHeld d n).held = d.filter isHeld ∧ (releaseLoop 0 isHeld d n).rest = [] := by
  intro d
  induction d with
  | nil => intro n; simp [releaseLoop]
  | cons a d ih =>
    intro n
    simp only [releaseLoop]
    by_cases hh : isHeld a = true
    · obtain ⟨h1, h2, h3⟩ := ih n
      simp [hh, h1, h2, h3]
    · have hh' : isHeld a = false := by simpa using hh
      obtain ⟨h1, h2, h3⟩ := ih (n + 1)
      simp [hh', h1, h2, h3]

/-- a limited queue stops only when it is at its limit (or empty) -/
theorem releaseLoop_stops_at_limit (limit : Nat) (isHeld : Key → Bool) :
    ∀ (d : List Key) (n : Nat), (releaseLoop limit isHeld d n).rest ≠ [] →
      0 < limit ∧ limit ≤ n + (releaseLoop limit isHeld d n).released.length := by
  intro d
  induction d with
  | nil => intro n h; simp [releaseLoop] at h
  | cons a d ih =>
    intro n
    simp only [releaseLoop]
    by_cases hc : (limit == 0 || decide (n < limit)) = true
    · simp only [hc, if_true]
      by_cases hh : isHeld a = true
      · simp only [hh, if_true]; exact ih n
      · have hh' : isHeld a = false := by simpa using hh
        simp only [hh', Bool.false_eq_true, if_false]
        intro h
        have := ih (n + 1) h
        simp; omega
    · intro _
      simp only [hc]
      simp at hc
      simp; omega

theorem releaseLoop_released_mem (limit : Nat) (isHeld : Key → Bool) (d : List Key) (n : Nat) :
    ∀ k ∈ (releaseLoop limit isHeld d n).released, k ∈ d ∧ isHeld k = false := by
  intro k hk
  rw [(releaseLoop_spec limit isHeld d n).1] at hk
  have := List.mem_filter.mp hk
  exact ⟨List.mem_of_mem_take this.1, by simpa using this.2⟩

theorem releaseLoop_deque_sub (limit : Nat) (isHeld : Key → Bool) (d : List Key) (n : Nat) :
    ∀ k ∈ (releaseLoop limit isHeld d n).held ++ (releaseLoop limit isHeld d n).rest, k ∈ d := by
  intro k hk
  obtain ⟨_, h2, h3⟩ := releaseLoop_spec limit isHeld d n
  rw [h2, h3] at hk
  rcases List.mem_append.mp hk with h | h
  · exact List.mem_of_mem_take (List.mem_filter.mp h).1
  · exact List.mem_of_mem_drop h

/-! ### All queues -/

/-- what `release_tasks` does, queue by queue: each queue gives up the tasks that are not held among its first
`k` entries (in queue order) and keeps everything else in its order -/
inductive Fifo (isHeld : Key → Bool) : List LQ → List LQ → List Key → Prop
  | nil : Fifo isHeld [] [] []
  | cons (q : LQ) (k : Nat) {rest rest' : List LQ} {rel : List Key} : Fifo isHeld rest rest' rel →
      Fifo isHeld (q :: rest)
        ({ q with deque := (q.deque.take k).filter isHeld ++ q.deque.drop k } :: rest')
        ((q.deque.take k).filter (fun x => !isHeld x) ++ rel)

theorem releaseQueues_fifo (isHeld : Key → Bool) : ∀ (qs : List LQ) (active : List String),
    Fifo isHeld qs (releaseQueues isHeld qs active).1 (releaseQueues isHeld qs active).2 := by
  intro qs
  induction qs with
  | nil => intro active; exact Fifo.nil
  | cons q rest ih =>
    intro active
    unfold releaseQueues
    simp only
    obtain ⟨h1, h2, h3⟩ := releaseLoop_spec q.limit isHeld q.deque (nActive active q.members)
    rw [h1, h2, h3]
    exact Fifo.cons q _ (ih _)

theorem releaseQueues_sigs (isHeld : Key → Bool) : ∀ (qs : List LQ) (active : List String),
    (releaseQueues isHeld qs active).1.map LQ.sig = qs.map LQ.sig := by
  intro qs
  induction qs with
  | nil => intro active; rfl
  | cons q rest ih =>
    intro active
    unfold releaseQueues
    simp only [List.map_cons]
    rw [ih]; rfl

theorem releaseQueues_members (isHeld : Key → Bool) : ∀ (qs : List LQ) (active : List String),
    (∀ q ∈ qs, ∀ k ∈ q.deque, q.members.contains k.2 = true) →
    ∀ q ∈ (releaseQueues isHeld qs active).1, ∀ k ∈ q.deque, q.members.contains k.2 = true := by
  intro qs
  induction qs with
  | nil => intro active h; exact h
  | cons q rest ih =>
    intro active h q' hq' k hk
    unfold releaseQueues at hq'
    simp only at hq'
    rcases List.mem_cons.mp hq' with rfl | hq'
    · exact h q List.mem_cons_self k (releaseLoop_deque_sub _ _ _ _ k hk)
    · exact ih _ (fun q0 hq0 => h q0 (List.mem_cons_of_mem _ hq0)) q' hq' k hk

theorem releaseQueues_released_mem (isHeld : Key → Bool) : ∀ (qs : List LQ) (active : List String),
    ∀ k ∈ (releaseQueues isHeld qs active).2, (∃ q ∈ qs, k ∈ q.deque) ∧ isHeld k = false := by
  intro qs
  induction qs with
  | nil => intro active k hk; simp [releaseQueues] at hk
  | cons q rest ih =>
    intro active k hk
    unfold releaseQueues at hk
    simp only at hk
    rcases List.mem_append.mp hk with hk | hk
    · have := releaseLoop_released_mem _ _ _ _ k hk
      exact ⟨⟨q, List.mem_cons_self, this.1⟩, this.2⟩
    · obtain ⟨⟨q0, hq0, hk0⟩, hh⟩ := ih _ k hk
      exact ⟨⟨q0, List.mem_cons_of_mem _ hq0, hk0⟩, hh⟩

/-- independent queues: no task name is a member of two queues (`_make_indep`, component-level C05) -/
def IndepSig (l : List Sig) : Prop :=
  l.Pairwise fun a b => ∀ n, a.2.2.contains n = true → b.2.2.contains n = true → False

theorem nActive_cons_not_mem (active : List String) (members : List String) (n : String)
    (h : members.contains n = false) : nActive (n :: active) members = nActive active members := by
  unfold nActive
  rw [List.countP_cons, h]; simp

/-- the counter a queue sees is not changed by releases of queues with disjoint memberships -/
theorem nActive_foldl_disjoint (members : List String) : ∀ (rel : List Key) (active : List String),
    (∀ k ∈ rel, members.contains k.2 = false) →
    nActive (rel.foldl (fun a k => k.2 :: a) active) members = nActive active members := by
  intro rel
  induction rel with
  | nil => intro active _; rfl
  | cons k rel ih =>
    intro active h
    simp only [List.foldl_cons]
    rw [ih _ (fun k' hk' => h k' (List.mem_cons_of_mem _ hk'))]
    exact nActive_cons_not_mem _ _ _ (h k List.mem_cons_self)

theorem filter_eq_nil_of_forall {α} (p : α → Bool) (l : List α) (h : ∀ a ∈ l, p a = false) : l.filter p = [] := by
  apply List.filter_eq_nil_iff.mpr
  intro a ha; simp [h a ha]

theorem filter_eq_self_of_forall {α} (p : α → Bool) (l : List α) (h : ∀ a ∈ l, p a = true) : l.filter p = l :=
  List.filter_eq_self.mpr h

/-- **limit of every queue** when all queues release one after the other: the tasks of queue `q` that are released
(by whichever queue) together with the active instances counted for `q` stay within its limit, or none is released -/
theorem releaseQueues_limit (isHeld : Key → Bool) : ∀ (qs : List LQ) (active : List String),
    IndepSig (qs.map LQ.sig) →
    (∀ q ∈ qs, ∀ k ∈ q.deque, q.members.contains k.2 = true) →
    ∀ q ∈ qs, 0 < q.limit →
      ((releaseQueues isHeld qs active).2.filter (fun k => q.members.contains k.2) = [] ∨
       nActive active q.members + ((releaseQueues isHeld qs active).2.filter (fun k => q.members.contains k.2)).length
         ≤ q.limit) := by
  intro qs
  induction qs with
  | nil => intro active _ _ q hq; simp at hq
  | cons q0 rest ih =>
    intro active hind hmem q hq hl
    have hind' : (∀ b ∈ rest.map LQ.sig, ∀ n, q0.sig.2.2.contains n = true → b.2.2.contains n = true → False) ∧
        IndepSig (rest.map LQ.sig) := by
      unfold IndepSig at hind
      rw [List.map_cons] at hind
      exact List.pairwise_cons.mp hind
    have hmem' : ∀ q ∈ rest, ∀ k ∈ q.deque, q.members.contains k.2 = true :=
      fun q1 hq1 => hmem q1 (List.mem_cons_of_mem _ hq1)
    -- what the other queues release is not a member of q0, and vice versa
    have hdis : ∀ q1 ∈ rest, ∀ n, q0.members.contains n = true → q1.members.contains n = true → False := by
      intro q1 hq1 n h0 h1
      exact hind'.1 q1.sig (List.mem_map.mpr ⟨q1, hq1, rfl⟩) n h0 h1
    unfold releaseQueues
    simp only
    generalize hr : releaseLoop q0.limit isHeld q0.deque (nActive active q0.members) = r
    have hrel0 : ∀ k ∈ r.released, q0.members.contains k.2 = true := by
      intro k hk
      rw [← hr] at hk
      exact hmem q0 List.mem_cons_self k (releaseLoop_released_mem _ _ _ _ k hk).1
    have hrelrest : ∀ k ∈ (releaseQueues isHeld rest (r.released.foldl (fun a k => k.2 :: a) active)).2,
        ∃ q1 ∈ rest, q1.members.contains k.2 = true := by
      intro k hk
      obtain ⟨⟨q1, hq1, hk1⟩, _⟩ := releaseQueues_released_mem _ _ _ k hk
      exact ⟨q1, hq1, hmem' q1 hq1 k hk1⟩
    rw [List.filter_append]
    rcases List.mem_cons.mp hq with rfl | hq
    · -- q is the first queue: only its own releases count
      have h1 : r.released.filter (fun k => q.members.contains k.2) = r.released :=
        filter_eq_self_of_forall _ _ hrel0
      have h2 : (releaseQueues isHeld rest (r.released.foldl (fun a k => k.2 :: a) active)).2.filter
          (fun k => q.members.contains k.2) = [] := by
        apply filter_eq_nil_of_forall
        intro k hk
        obtain ⟨q1, hq1, hc⟩ := hrelrest k hk
        cases hcq : q.members.contains k.2 with
        | false => rfl
        | true => exact (hdis q1 hq1 k.2 hcq hc).elim
      rw [h1, h2, List.append_nil]
      rw [← hr]
      exact releaseLoop_limit _ _ hl _ _
    · -- q is a later queue: q0's releases are not members of q
      have hq0 : ∀ k ∈ r.released, q.members.contains k.2 = false := by
        intro k hk
        cases hcq : q.members.contains k.2 with
        | false => rfl
        | true => exact (hdis q hq k.2 (hrel0 k hk) hcq).elim
      rw [filter_eq_nil_of_forall _ _ hq0, List.nil_append]
      have := ih (r.released.foldl (fun a k => k.2 :: a) active) hind'.2 hmem' q hq hl
      rw [nActive_foldl_disjoint _ _ _ hq0] at this
      exact this

/-! ### Keys of the pool, the queue manager and the launch log -/

def keys (s : State) : List (Int × String) := s.pool.map fun x => (x.pt, x.name)

/-- no two proxies for the same (point, name) -/
def NoDup (s : State) : Prop := (keys s).Nodup

/-- the queue manager still has the configured queues (name, limit, members in dict order) and every entry
of a deque is a member of that queue -/
def QDef.sig (q : QDef) : Sig := (q.name, q.limit, q.members)

def QI (g : Graph) (qs : List LQ) : Prop :=
  qs.map LQ.sig = g.queues.map QDef.sig ∧
  ∀ q ∈ qs, ∀ k ∈ q.deque, q.members.contains k.2 = true

/-- `d'` is `d` after some tasks left the queue and others joined at the end: the tasks that stayed keep their
relative order, and every newcomer is behind them -/
def Tail (d d' : List Key) : Prop := ∃ sub app, d' = sub ++ app ∧ sub.Sublist d

theorem Tail.refl (d : List Key) : Tail d d := ⟨d, [], by simp, List.Sublist.refl d⟩

theorem Tail.of_sublist {d d' d'' : List Key} (h : Tail d d') (hs : d''.Sublist d') : Tail d d'' := by
  obtain ⟨sub, app, rfl, hsub⟩ := h
  obtain ⟨l1, l2, rfl, h1, _⟩ := List.sublist_append_iff.mp hs
  exact ⟨l1, l2, rfl, h1.trans hsub⟩

theorem Tail.append {d d' : List Key} (h : Tail d d') (l : List Key) : Tail d (d' ++ l) := by
  obtain ⟨sub, app, rfl, hsub⟩ := h
  exact ⟨sub, app ++ l, by simp, hsub⟩

theorem Tail.trans {a b c : List Key} (h1 : Tail a b) (h2 : Tail b c) : Tail a c := by
  obtain ⟨sub, app, rfl, hsub⟩ := h2
  have := h1.of_sublist hsub
  exact this.append app

/-- queue by queue: same queue (name, limit, members), deque related by `Tail` -/
inductive QStep : List LQ → List LQ → Prop
  | nil : QStep [] []
  | cons {q q' : LQ} {rest rest' : List LQ} : q'.sig = q.sig → Tail q.deque q'.deque → QStep rest rest' →
      QStep (q :: rest) (q' :: rest')

theorem QStep.refl : ∀ (qs : List LQ), QStep qs qs
  | [] => QStep.nil
  | _ :: rest => QStep.cons rfl (Tail.refl _) (QStep.refl rest)

theorem QStep.trans : ∀ {a b c : List LQ}, QStep a b → QStep b c → QStep a c := by
  intro a b c h1
  induction h1 generalizing c with
  | nil => intro h2; cases h2; exact QStep.nil
  | cons hs ht _ ih =>
    intro h2
    cases h2 with
    | cons hs' ht' h2' => exact QStep.cons (hs'.trans hs) (ht.trans ht') (ih h2')

/-- a queue-wise change of the deques only -/
theorem qstep_map (f : LQ → LQ) (hf : ∀ q, (f q).sig = q.sig ∧ Tail q.deque (f q).deque) :
    ∀ qs : List LQ, QStep qs (qs.map f)
  | [] => QStep.nil
  | q :: rest => QStep.cons (hf q).1 (hf q).2 (qstep_map f hf rest)

/-- the part of the state the queue lemmas follow through every primitive: queue manager and launch log -/
def sp (s : State) : List LQ × List (Int × String × Nat) := (s.qs, s.launched)

/-- `c` = (graph, launch log, a reference queue manager the current one descends from) -/
def QL (c : Graph × List (Int × String × Nat) × List LQ) (v : List LQ × List (Int × String × Nat)) : Prop :=
  QI c.1 v.1 ∧ v.2 = c.2.1 ∧ QStep c.2.2 v.1

def Keep (c : Graph × List (Int × String × Nat) × List LQ) (s : State) : Prop := NoDup s ∧ QL c (sp s)

/-- `Keep` without the launch log and the reference queues -/
def KeepQ (g : Graph) (s : State) : Prop := NoDup s ∧ QI g s.qs

theorem keepQ_of_keep {c} {s : State} (h : Keep c s) : KeepQ c.1 s := ⟨h.1, h.2.1⟩
theorem keep_of_keepQ {g} {s : State} (h : KeepQ g s) : Keep (g, s.launched, s.qs) s :=
  ⟨h.1, h.2, rfl, QStep.refl _⟩
theorem keep_launched {c} {s : State} (h : Keep c s) : s.launched = c.2.1 := h.2.2.1
theorem keep_qstep {c} {s : State} (h : Keep c s) : QStep c.2.2 s.qs := h.2.2.2

theorem keys_put (s : State) (x : Proxy) : keys (s.put x) = keys s := by
  unfold keys State.put
  simp only [List.map_map]
  apply List.map_congr_left
  intro y _
  simp only [Function.comp]
  split
  · rename_i h
    simp only [Bool.and_eq_true, beq_iff_eq] at h
    rw [h.1, h.2]
  · rfl

theorem get?_none_not_mem (s : State) (p : Int) (n : String) (h : s.get? p n = none) :
    (p, n) ∉ keys s := by
  unfold State.get? at h
  unfold keys
  intro hm
  obtain ⟨y, hy, hk⟩ := List.mem_map.mp hm
  have := List.find?_eq_none.mp h y hy
  simp only [Prod.mk.injEq] at hk
  simp [hk.1, hk.2] at this

/-- the bucket order only permutes: the new proxy is somewhere in the list -/
theorem insertBucket_perm (x : Proxy) : ∀ l : List Proxy, (insertBucket x l).Perm (x :: l) := by
  intro l
  induction l with
  | nil => exact List.Perm.refl _
  | cons y ys ih =>
    unfold insertBucket
    split
    · exact (List.Perm.cons y ih).trans (List.Perm.swap x y ys)
    · split
      · exact List.Perm.swap x y ys
      · exact (List.Perm.cons y ih).trans (List.Perm.swap x y ys)

theorem mem_insertBucket {x y : Proxy} {l : List Proxy} : y ∈ insertBucket x l ↔ y = x ∨ y ∈ l := by
  rw [(insertBucket_perm x l).mem_iff]; simp

theorem nodup_add (s : State) (x : Proxy) (h : NoDup s) : NoDup (s.add x) := by
  unfold State.add
  split
  · exact h
  · rename_i hn
    have hn' : s.get? x.pt x.name = none := by
      cases hg : s.get? x.pt x.name with
      | none => rfl
      | some v => simp [hg] at hn
    unfold NoDup keys
    have hp := (insertBucket_perm x s.pool).map (fun x => (x.pt, x.name))
    rw [hp.nodup_iff]
    simp only [List.map_cons]
    exact List.nodup_cons.mpr ⟨get?_none_not_mem s x.pt x.name hn', h⟩

theorem sp_add (s : State) (x : Proxy) : sp (s.add x) = sp s := by
  unfold State.add; split <;> rfl

theorem keep_add {c} (s : State) (x : Proxy) (h : Keep c s) : Keep c (s.add x) :=
  ⟨nodup_add s x h.1, by rw [sp_add]; exact h.2⟩

theorem keep_put {c} (s : State) (x : Proxy) (h : Keep c s) : Keep c (s.put x) :=
  ⟨by unfold NoDup; rw [keys_put]; exact h.1, h.2⟩

theorem nodup_filter (s : State) (f : Proxy → Bool) (h : NoDup s) :
    NoDup { s with pool := s.pool.filter f } := by
  unfold NoDup keys at *
  exact List.Nodup.sublist (List.Sublist.map _ List.filter_sublist) h

/-- a state that differs from `s` in neither the pool nor the queues / launch log -/
theorem keep_of_eq {c} {s t : State} (hp : t.pool = s.pool) (hs : sp t = sp s) (h : Keep c s) : Keep c t := by
  refine ⟨?_, by rw [hs]; exact h.2⟩
  have := h.1
  unfold NoDup keys at *
  rw [hp]; exact this

/-! ### Queue manager primitives -/

theorem qi_push {g : Graph} {qs : List LQ} (x : Proxy) (h : QI g qs) :
    QI g (qs.map fun q => if q.members.contains x.name then { q with deque := q.deque ++ [(x.pt, x.name)] } else q) := by
  obtain ⟨h1, h2⟩ := h
  refine ⟨?_, ?_⟩
  · rw [← h1, List.map_map]
    apply List.map_congr_left
    intro q _
    simp only [Function.comp]
    split <;> rfl
  · intro q' hq' k hk
    obtain ⟨q, hq, rfl⟩ := List.mem_map.mp hq'
    split at hk
    · rename_i hc
      simp only at hk ⊢
      rw [if_pos hc]
      rcases List.mem_append.mp hk with hk | hk
      · exact h2 q hq k hk
      · simp at hk; subst hk; exact hc
    · rename_i hc
      rw [if_neg hc]
      exact h2 q hq k hk

theorem qstep_push (qs : List LQ) (x : Proxy) :
    QStep qs (qs.map fun q => if q.members.contains x.name then { q with deque := q.deque ++ [(x.pt, x.name)] } else q) := by
  apply qstep_map
  intro q
  split
  · exact ⟨rfl, (Tail.refl _).append _⟩
  · exact ⟨rfl, Tail.refl _⟩

theorem keep_push {c} (s : State) (x : Proxy) (h : Keep c s) : Keep c (s.push x) :=
  ⟨h.1, qi_push x h.2.1, h.2.2.1, h.2.2.2.trans (qstep_push s.qs x)⟩

theorem eraseLast_subset (k : Int × String) (d : List (Int × String)) : ∀ a ∈ eraseLast k d, a ∈ d := by
  intro a ha
  unfold eraseLast at ha
  have := List.mem_of_mem_erase (List.mem_reverse.mp ha)
  exact List.mem_reverse.mp this

theorem qi_removeFromQueues (k : Int × String) : ∀ {qs : List LQ} {sigs : List (String × Nat × List String)},
    qs.map LQ.sig = sigs →
    (∀ q ∈ qs, ∀ a ∈ q.deque, q.members.contains a.2 = true) →
    (removeFromQueues k qs).map LQ.sig = sigs ∧
    (∀ q ∈ removeFromQueues k qs, ∀ a ∈ q.deque, q.members.contains a.2 = true) := by
  intro qs
  induction qs with
  | nil => intro sigs h1 h2; exact ⟨h1, h2⟩
  | cons q rest ih =>
    intro sigs h1 h2
    unfold removeFromQueues
    split
    · refine ⟨by rw [← h1]; rfl, ?_⟩
      intro q' hq' a ha
      rcases List.mem_cons.mp hq' with rfl | hq'
      · exact h2 q (List.mem_cons_self) a (eraseLast_subset k _ a ha)
      · exact h2 q' (List.mem_cons_of_mem _ hq') a ha
    · have := ih (sigs := rest.map LQ.sig) rfl
        (fun q' hq' => h2 q' (List.mem_cons_of_mem _ hq'))
      refine ⟨by rw [← h1]; simp only [List.map_cons]; rw [this.1], ?_⟩
      intro q' hq' a ha
      rcases List.mem_cons.mp hq' with rfl | hq'
      · exact h2 q' (List.mem_cons_self) a ha
      · exact this.2 q' hq' a ha

theorem eraseLast_sublist (k : Key) (d : List Key) : (eraseLast k d).Sublist d := by
  unfold eraseLast
  have : (d.reverse.erase k).Sublist d.reverse := List.erase_sublist
  have := this.reverse
  simpa using this

theorem qstep_removeFromQueues (k : Key) : ∀ qs : List LQ, QStep qs (removeFromQueues k qs)
  | [] => QStep.nil
  | q :: rest => by
    unfold removeFromQueues
    split
    · exact QStep.cons rfl ((Tail.refl _).of_sublist (eraseLast_sublist k _)) (QStep.refl rest)
    · exact QStep.cons rfl (Tail.refl _) (qstep_removeFromQueues k rest)

theorem keep_unqueue {c} (s : State) (x : Proxy) (h : Keep c s) : Keep c (s.unqueue x) := by
  obtain ⟨hn, ⟨h1, h2⟩, hl, hq⟩ := h
  have := qi_removeFromQueues (x.pt, x.name) h1 h2
  exact ⟨hn, ⟨this.1, this.2⟩, hl, hq.trans (qstep_removeFromQueues _ _)⟩

/-! ### `Keep c` is preserved by every primitive that touches neither the queues nor the launch log -/

theorem spawnTask_frame (g : Graph) (s : State) (n : String) (p : Int) :
    (spawnTask g s n p).1.pool = s.pool ∧ sp (spawnTask g s n p).1 = sp s := by
  unfold spawnTask
  simp only
  repeat' split
  all_goals first
    | exact ⟨rfl, rfl⟩
    | (rename_i h; simp only [Prod.mk.injEq] at h; obtain ⟨h1, _⟩ := h; subst h1; exact ⟨rfl, rfl⟩)

theorem keep_spawnTask {c} (g : Graph) (s : State) (n : String) (p : Int) (h : Keep c s) :
    Keep c (spawnTask g s n p).1 :=
  keep_of_eq (spawnTask_frame g s n p).1 (spawnTask_frame g s n p).2 h

theorem keep_spawnAndAdd {c} (g : Graph) (s : State) (n : String) (p : Int) (h : Keep c s) :
    Keep c (spawnAndAdd g s n p) := by
  unfold spawnAndAdd
  split
  · exact h
  · have hk := keep_spawnTask g s n p h
    split
    · rename_i heq; rw [heq] at hk; exact keep_add _ _ hk
    · rename_i heq; rw [heq] at hk; exact hk

theorem keep_spawnNextParentless {c} (g : Graph) (s : State) (x : Proxy) (h : Keep c s) :
    Keep c (spawnNextParentless g s x) := by
  unfold spawnNextParentless
  split
  · exact h
  · split
    · exact keep_spawnAndAdd _ _ _ _ h
    · exact h

theorem computeRunahead_frame (g : Graph) (s : State) (f : Bool) :
    (computeRunahead g s f).pool = s.pool ∧ sp (computeRunahead g s f) = sp s := by
  unfold computeRunahead
  simp only
  split
  · exact ⟨rfl, rfl⟩
  · split <;> exact ⟨rfl, rfl⟩

theorem keep_computeRunahead {c} (g : Graph) (s : State) (f : Bool) (h : Keep c s) :
    Keep c (computeRunahead g s f) :=
  keep_of_eq (computeRunahead_frame g s f).1 (computeRunahead_frame g s f).2 h

theorem keep_releaseRunahead {c} (g : Graph) (s : State) (h : Keep c s) : Keep c (releaseRunahead g s).1 := by
  unfold releaseRunahead
  split
  · exact h
  · split
    · exact h
    · simp only
      apply foldl_inv (Keep c) _ _ _ _ h
      intro st x hst
      apply keep_spawnNextParentless
      split
      · exact keep_put _ _ hst
      · exact hst

theorem keep_releaseRunaheadN {c} (g : Graph) : ∀ (n : Nat) (s : State), Keep c s → Keep c (releaseRunaheadN g n s) := by
  intro n; induction n with
  | zero => intro s h; exact h
  | succ n ih =>
    intro s h
    unfold releaseRunaheadN
    simp only
    split
    · exact ih _ (keep_releaseRunahead g s h)
    · exact keep_releaseRunahead g s h

theorem keep_queueIfReady {c} (s : State) (x : Proxy) (h : Keep c s) : Keep c (queueIfReady s x) := by
  unfold queueIfReady; split
  · exact keep_push _ _ (keep_put _ _ h)
  · exact h

theorem keep_holdActive {c} (s : State) (x : Proxy) (h : Keep c s) : Keep c (holdActive s x) := by
  unfold holdActive
  simp only
  split
  · exact keep_put _ _ h
  · exact keep_of_eq rfl rfl (keep_put _ _ h)

theorem keep_releaseHeldActive {c} (s : State) (x : Proxy) (h : Keep c s) : Keep c (releaseHeldActive s x) := by
  unfold releaseHeldActive
  simp only
  split
  · split
    · split
      · exact keep_of_eq rfl rfl (keep_put _ _ h)
      · exact keep_of_eq rfl rfl (keep_push _ _ (keep_put _ _ h))
    · exact keep_of_eq rfl rfl (keep_put _ _ h)
  · exact keep_of_eq rfl rfl h

theorem qi_fresh (g : Graph) :
    QI g (g.queues.map fun q => ({ name := q.name, limit := q.limit, members := q.members } : LQ)) := by
  refine ⟨by rw [List.map_map]; rfl, ?_⟩
  intro q hq k hk
  obtain ⟨q0, _, rfl⟩ := List.mem_map.mp hq
  simp at hk

/-- the queue manager as built at start-up / restart: the configured queues, all deques empty -/
def freshQs (g : Graph) : List LQ :=
  g.queues.map fun q => ({ name := q.name, limit := q.limit, members := q.members } : LQ)

/-- rebuilding the queue manager empties every deque -/
theorem qstep_fresh : ∀ {qs0 : List LQ} {l : List QDef}, qs0.map LQ.sig = l.map QDef.sig →
    QStep qs0 (l.map fun q => ({ name := q.name, limit := q.limit, members := q.members } : LQ)) := by
  intro qs0
  induction qs0 with
  | nil =>
    intro l h
    cases l with
    | nil => exact QStep.nil
    | cons a l => simp at h
  | cons q0 rest ih =>
    intro l h
    cases l with
    | nil => simp at h
    | cons a l =>
      simp only [List.map_cons, List.cons.injEq] at h
      exact QStep.cons h.1.symm ⟨[], [], rfl, List.nil_sublist _⟩ (ih h.2)

theorem nodup_empty (g : Graph) (sp0 : Option Int) :
    Keep (g, [], freshQs g) ({ stopPoint := sp0, qs := g.queues.map fun q =>
      { name := q.name, limit := q.limit, members := q.members } } : State) := by
  refine ⟨?_, qi_fresh g, rfl, QStep.refl _⟩
  unfold NoDup keys; simp

theorem keep_loadFromPoint (g : Graph) : Keep (g, [], freshQs g) (loadFromPoint g) := by
  unfold loadFromPoint
  simp only
  apply foldl_inv (Keep _)
  · intro st x hst
    split
    · exact keep_queueIfReady _ _ hst
    · exact hst
  · apply keep_releaseRunaheadN
    apply keep_computeRunahead
    apply foldl_inv (Keep _)
    · intro st t hst
      split
      · exact keep_spawnAndAdd _ _ _ _ hst
      · exact hst
    · exact nodup_empty _ _

theorem keep_remove {c} (g : Graph) (s : State) (x : Proxy) (h : Keep c s) : Keep c (remove g s x) := by
  unfold remove
  simp only
  have h0 := keep_releaseHeldActive s x h
  generalize releaseHeldActive s x = s0 at h0 ⊢
  generalize (s0.get? x.pt x.name).getD x = x0
  have h1 : Keep c (if (!x0.flows.isEmpty && x0.runahead) = true then spawnNextParentless g s0 x0 else s0) := by
    split
    · exact keep_spawnNextParentless _ _ _ h0
    · exact h0
  generalize (if (!x0.flows.isEmpty && x0.runahead) = true then spawnNextParentless g s0 x0 else s0) = s1 at h1 ⊢
  have h2 : Keep c (if (s1.get? x0.pt x0.name).isSome = true then s1.unqueue x0 else s1) := by
    split
    · exact keep_unqueue _ _ h1
    · exact h1
  generalize (if (s1.get? x0.pt x0.name).isSome = true then s1.unqueue x0 else s1) = s2 at h2 ⊢
  exact ⟨nodup_filter _ _ h2.1, h2.2⟩

theorem keep_removeIfComplete {c} (g : Graph) (s : State) (x : Proxy) (h : Keep c s) :
    Keep c (removeIfComplete g s x) := by
  unfold removeIfComplete
  split
  · exact h
  · simp only
    have h0 : Keep c (if s.stopTask == some (x.pt, x.name) then { s with stopTaskFinished := true } else s) := by
      split
      · exact keep_of_eq rfl rfl h
      · exact h
    generalize (if s.stopTask == some (x.pt, x.name) then { s with stopTaskFinished := true } else s) = s0 at h0 ⊢
    split
    · exact h0
    · split
      · exact keep_remove _ _ _ h0
      · exact h0

theorem keep_spawnChild {c} (g : Graph) (p : Int) (n out : String) (acc : State × List (Int × String)) (ch : Child)
    (h : Keep c acc.1) : Keep c (spawnChild g p n out acc ch).1 := by
  obtain ⟨st, sui⟩ := acc
  unfold spawnChild
  simp only
  have h0 : Keep c (if (ch.isAbs && !st.absDone.contains ⟨p, n, out⟩) = true then
      { st with absDone := st.absDone ++ [⟨p, n, out⟩] } else st) := by
    split
    · exact keep_of_eq rfl rfl h
    · exact h
  generalize (if (ch.isAbs && !st.absDone.contains ⟨p, n, out⟩) = true then
      { st with absDone := st.absDone ++ [⟨p, n, out⟩] } else st) = st0 at h0 ⊢
  have hfold : ∀ (ks : List (Int × String)) (a : State × List (Int × String)), Keep c a.1 →
      Keep c (ks.foldl (fun (a : State × List (Int × String)) k =>
        match a.1.get? k.1 k.2 with
        | none => a
        | some z =>
          let z := z.satisfyMe ⟨p, n, out⟩
          (a.1.put z, if (z.suicideNow && !a.2.contains k) = true then a.2 ++ [k] else a.2)) a).1 := by
    intro ks; induction ks with
    | nil => intro a ha; exact ha
    | cons k ks ih =>
      intro a ha
      apply ih
      simp only
      split
      · exact ha
      · exact keep_put _ _ ha
  -- the child: pooled, or spawned now (which may record a hold)
  cases hg : st0.get? ch.pt ch.name with
  | some y =>
    simp only
    apply hfold
    simp only [Option.isSome_some, if_true]
    exact h0
  | none =>
    have h1 := keep_spawnTask g st0 ch.name ch.pt h0
    generalize spawnTask g st0 ch.name ch.pt = r at h1 ⊢
    obtain ⟨st1, child⟩ := r
    simp only at h1 ⊢
    cases child with
    | none => exact h1
    | some y =>
      simp only
      apply hfold
      simp only [Option.isSome_none, Bool.false_eq_true, if_false]
      exact keep_add _ _ h1

theorem keep_spawnOnOutput {c} (g : Graph) (s : State) (p : Int) (n out : String) (h : Keep c s) :
    Keep c (spawnOnOutput g s p n out) := by
  unfold spawnOnOutput
  split
  · exact h
  · simp only
    have h1 : ∀ (cs : List Child) (acc : State × List (Int × String)), Keep c acc.1 →
        Keep c (cs.foldl (spawnChild g p n out) acc).1 := by
      intro cs; induction cs with
      | nil => intro acc ha; exact ha
      | cons ch cs ih => intro acc ha; exact ih _ (keep_spawnChild g p n out acc ch ha)
    have h2 : ∀ (ks : List (Int × String)) (st : State), Keep c st →
        Keep c (ks.foldl (fun (st : State) k => match st.get? k.1 k.2 with
          | some z => remove g st z
          | none => st) st) := by
      intro ks; induction ks with
      | nil => intro st hst; exact hst
      | cons k ks ih =>
        intro st hst
        apply ih
        simp only
        split
        · exact keep_remove _ _ _ hst
        · exact hst
    generalize hR : (List.foldl (spawnChild g p n out) (s, []) _) = R
    have hRn : Keep c R.1 := by rw [← hR]; exact h1 _ _ h
    have h3 := h2 R.2 R.1 hRn
    split
    · exact keep_removeIfComplete _ _ _ h3
    · exact h3

theorem keep_store {c} (s : State) (x : Proxy) (tr : Bool) (h : Keep c s) : Keep c (store s x tr) := by
  unfold store; split
  · exact keep_of_eq rfl rfl h
  · exact keep_put _ _ h

theorem keep_spawnChildren {c} (g : Graph) (s : State) (p : Int) (n out : String) (tr : Bool) (h : Keep c s) :
    Keep c (spawnChildren g s p n out tr) := by
  unfold spawnChildren; split
  · exact h
  · exact keep_spawnOnOutput _ _ _ _ _ h

theorem keep_processMessage {c} (g : Graph) : ∀ (fuel : Nat) (s : State) (p : Int) (n : String) (flag : Flag)
    (sn : Nat) (msg : String), Keep c s → Keep c (processMessage g fuel s p n flag sn msg).1 := by
  intro fuel
  induction fuel with
  | zero => intro s p n flag sn msg h; exact h
  | succ fuel ih =>
    intro s p n flag sn msg h
    unfold processMessage
    split
    · exact h
    · rename_i x tr _
      split
      · exact h
      · split
        · exact h
        · simp only
          have hstore : ∀ (y : Proxy), Keep c (store s y tr) := fun y => keep_store _ _ _ h
          have himp : ∀ (l : List String) (st : State), Keep c st →
              Keep c (l.foldl (fun st m => (processMessage g fuel st p n .internal sn m).1) st) := by
            intro l; induction l with
            | nil => intro st hst; exact hst
            | cons a l ihl => intro st hst; exact ihl _ (ih _ _ _ _ _ _ hst)
          generalize hS : (List.foldl (fun st m => (processMessage g fuel st p n Flag.internal sn m).1) _ _) = S
          have hSn : Keep c S := by rw [← hS]; exact himp _ _ (hstore _)
          split
          · exact hSn
          · repeat' split
            all_goals first
              | exact hSn
              | exact keep_store _ _ _ hSn
              | exact keep_spawnChildren _ _ _ _ _ _ (keep_store _ _ _ hSn)
              | exact keep_spawnChildren _ _ _ _ _ _ hSn

theorem keep_processQueue {c} (g : Graph) (s : State) (h : Keep c s) : Keep c (processQueue g s) := by
  unfold processQueue
  apply foldl_inv (Keep c)
  · intro st grp hst
    simp only
    split
    · exact hst
    · have : ∀ (l : List Msg) (acc : State × Bool), Keep c acc.1 →
          Keep c (l.foldl (fun (acc : State × Bool) m =>
            let (st', pl) := processMessage g 4 acc.1 grp.1.1 grp.1.2 .received m.submitNum m.text
            (st', acc.2 || pl)) acc).1 := by
        intro l; induction l with
        | nil => intro acc ha; exact ha
        | cons m l ihl =>
          intro acc ha
          apply ihl
          exact keep_processMessage g 4 _ _ _ _ _ _ ha
      have h2 := this grp.2 (st, false) hst
      split
      · exact keep_of_eq rfl rfl h2
      · exact h2
  · exact keep_of_eq rfl rfl h

theorem keep_checkStalled {c} (g : Graph) (s : State) (h : Keep c s) : Keep c (checkStalled g s) := by
  unfold checkStalled; split
  · exact h
  · split
    · exact h
    · split
      · exact keep_of_eq rfl rfl h
      · exact h

theorem keep_sweepQueue {c} (s : State) (h : Keep c s) : Keep c (sweepQueue s) := by
  unfold sweepQueue
  apply foldl_inv (Keep c)
  · intro st x hst
    split
    · split
      · exact keep_queueIfReady _ _ (keep_put _ _ hst)
      · exact hst
    · exact hst
  · exact h

theorem keep_mapUpd {c} (s : State) (h : Keep c s) (a b : Bool) :
    Keep c { s with stalled := a, schedUpd := b, pool := s.pool.map fun x => { x with upd := false } } := by
  refine ⟨?_, h.2⟩
  have := h.1
  unfold NoDup keys at *
  simp only [List.map_map]
  exact this

theorem keep_finishLoop {c} (g : Graph) (s : State) (h : Keep c s) : Keep c (finishLoop g s) := by
  unfold finishLoop
  simp only
  have h4 : Keep c (if s.pool.any (·.upd) = true then { s with restartWait := false } else s) := by
    split
    · exact keep_of_eq rfl rfl h
    · exact h
  generalize (if s.pool.any (·.upd) = true then { s with restartWait := false } else s) = s4 at h4 ⊢
  have h5 : Keep c (if (s.schedUpd || s.pool.any (·.upd)) = true then
      { s4 with stalled := false, schedUpd := false, pool := s4.pool.map fun x => { x with upd := false } }
    else s4) := by
    split
    · exact keep_mapUpd _ h4 _ _
    · exact h4
  generalize (if (s.schedUpd || s.pool.any (·.upd)) = true then
      { s4 with stalled := false, schedUpd := false, pool := s4.pool.map fun x => { x with upd := false } }
    else s4) = s5 at h5 ⊢
  have h6 : Keep c { s5 with db := some s5.pool } := keep_of_eq rfl rfl h5
  split
  · exact keep_checkStalled _ _ h6
  · exact h6

theorem keep_setHoldPoint {c} (s : State) (p : Int) (h : Keep c s) : Keep c (setHoldPoint s p) := by
  unfold setHoldPoint
  simp only
  apply foldl_inv (Keep c)
  · intro st x hst
    split
    · split
      · exact keep_holdActive _ _ hst
      · exact hst
    · exact hst
  · exact keep_of_eq rfl rfl h

theorem keep_holdTasks {c} (s : State) (ids : List (Int × String)) (h : Keep c s) : Keep c (holdTasks s ids) := by
  unfold holdTasks
  apply foldl_inv (Keep c) _ _ _ _ h
  intro st k hst
  split
  · exact keep_holdActive _ _ hst
  · split
    · exact hst
    · exact keep_of_eq rfl rfl hst

theorem keep_releaseTasks {c} (s : State) (ids : List (Int × String)) (h : Keep c s) : Keep c (releaseTasks s ids) := by
  unfold releaseTasks
  apply foldl_inv (Keep c) _ _ _ _ h
  intro st k hst
  split
  · exact hst
  · split
    · exact keep_releaseHeldActive _ _ hst
    · exact keep_of_eq rfl rfl hst

theorem keep_releaseHoldPoint {c} (s : State) (h : Keep c s) : Keep c (releaseHoldPoint s) := by
  unfold releaseHoldPoint
  simp only
  apply keep_of_eq (s := List.foldl _ _ _) rfl rfl
  apply foldl_inv (Keep c)
  · intro st x hst
    split
    · exact keep_releaseHeldActive _ _ hst
    · exact hst
  · exact keep_of_eq rfl rfl h

/-! ### Active members of a queue -/

/-- the pooled proxies that count against the limit of a queue with the given members
(preparing / submitted / running / waiting on job preparation) -/
def actList (s : State) (members : List String) : List Proxy :=
  s.pool.filter fun x => x.countsActive && members.contains x.name

def act (s : State) (members : List String) : Nat := (actList s members).length

theorem nActive_countActive (s : State) (members : List String) :
    nActive (countActive s) members = act s members := by
  unfold nActive countActive act actList
  rw [List.countP_map, List.countP_filter, List.countP_eq_length_filter]
  congr 1
  apply List.filter_congr
  intro x _
  simp [Bool.and_comm]

/-- counting lemma: if every active member of `t` has the key of an active member of `s` or a key in `extra`,
then (no duplicate keys in `t`) `t` has at most `|extra|` more active members than `s` -/
theorem act_le_of_keys {s t : State} {members : List String} {extra : List Key}
    (hnd : NoDup t)
    (h : ∀ y ∈ actList t members, (∃ x ∈ actList s members, (x.pt, x.name) = (y.pt, y.name)) ∨ (y.pt, y.name) ∈ extra) :
    act t members ≤ act s members + extra.length := by
  have hnd' : ((actList t members).map fun x => (x.pt, x.name)).Nodup := by
    unfold NoDup keys at hnd
    exact List.Nodup.sublist (List.Sublist.map _ List.filter_sublist) hnd
  have hsub : ((actList t members).map fun x => (x.pt, x.name)) ⊆
      ((actList s members).map fun x => (x.pt, x.name)) ++ extra := by
    intro k hk
    obtain ⟨y, hy, rfl⟩ := List.mem_map.mp hk
    rcases h y hy with ⟨x, hx, he⟩ | he
    · exact List.mem_append_left _ (List.mem_map.mpr ⟨x, hx, he⟩)
    · exact List.mem_append_right _ he
  have := List.Nodup.length_le_of_subset hnd' hsub
  simpa [act] using this

/-! ### Pool primitives -/

theorem get?_some_mem {s : State} {p : Int} {n : String} {x : Proxy} (h : s.get? p n = some x) :
    x ∈ s.pool ∧ x.pt = p ∧ x.name = n := by
  unfold State.get? at h
  have h1 := List.mem_of_find?_eq_some h
  have h2 := List.find?_some h
  simp only [Bool.and_eq_true, beq_iff_eq] at h2
  exact ⟨h1, h2.1, h2.2⟩

theorem get?_none_forall {s : State} {p : Int} {n : String} (h : s.get? p n = none) :
    ∀ x ∈ s.pool, ¬ (x.pt = p ∧ x.name = n) := by
  unfold State.get? at h
  intro x hx hk
  have := List.find?_eq_none.mp h x hx
  simp [hk.1, hk.2] at this

theorem get?_isSome_of_mem {s : State} {x : Proxy} (h : x ∈ s.pool) : (s.get? x.pt x.name).isSome = true := by
  cases hg : s.get? x.pt x.name with
  | some y => rfl
  | none => exact absurd ⟨rfl, rfl⟩ (get?_none_forall hg x h)

/-- members of the pool after `put x`: `x` in place of every proxy with its key, the others unchanged -/
theorem mem_put {s : State} {x y : Proxy} (h : y ∈ (s.put x).pool) :
    (y = x ∧ ∃ z ∈ s.pool, z.pt = x.pt ∧ z.name = x.name) ∨ (y ∈ s.pool ∧ ¬ (y.pt = x.pt ∧ y.name = x.name)) := by
  unfold State.put at h
  simp only [List.mem_map] at h
  obtain ⟨z, hz, hzy⟩ := h
  split at hzy
  · rename_i hk
    simp only [Bool.and_eq_true, beq_iff_eq] at hk
    left; exact ⟨hzy.symm, z, hz, hk.1, hk.2⟩
  · rename_i hk
    simp only [Bool.and_eq_true, beq_iff_eq] at hk
    right; subst hzy; exact ⟨hz, hk⟩

theorem mem_put_of_ne {s : State} {x y : Proxy} (h : y ∈ s.pool) (hk : ¬ (y.pt = x.pt ∧ y.name = x.name)) :
    y ∈ (s.put x).pool := by
  unfold State.put
  simp only [List.mem_map]
  refine ⟨y, h, ?_⟩
  split
  · rename_i hk'
    simp only [Bool.and_eq_true, beq_iff_eq] at hk'
    exact absurd hk' hk
  · rfl

theorem mem_add {s : State} {x y : Proxy} (h : y ∈ (s.add x).pool) : y ∈ s.pool ∨ y = x := by
  unfold State.add at h
  split at h
  · left; exact h
  · rcases mem_insertBucket.mp h with h | h
    · right; exact h
    · left; exact h

theorem mem_add_of_mem {s : State} {x y : Proxy} (h : y ∈ s.pool) : y ∈ (s.add x).pool := by
  unfold State.add
  split
  · exact h
  · exact mem_insertBucket.mpr (Or.inr h)

@[simp] theorem reset_pt (x : Proxy) (a : Option Status) (b c d : Option Bool) :
    (x.reset a b c d).pt = x.pt := by unfold Proxy.reset; simp only; split <;> rfl
@[simp] theorem reset_name (x : Proxy) (a : Option Status) (b c d : Option Bool) :
    (x.reset a b c d).name = x.name := by unfold Proxy.reset; simp only; split <;> rfl
@[simp] theorem reset_submitNum (x : Proxy) (a : Option Status) (b c d : Option Bool) :
    (x.reset a b c d).submitNum = x.submitNum := by unfold Proxy.reset; simp only; split <;> rfl
@[simp] theorem reset_wjp (x : Proxy) (a : Option Status) (b c d : Option Bool) :
    (x.reset a b c d).wjp = x.wjp := by unfold Proxy.reset; simp only; split <;> rfl
@[simp] theorem reset_status_none (x : Proxy) (b c d : Option Bool) :
    (x.reset none b c d).status = x.status := by unfold Proxy.reset; simp only; split <;> simp
theorem reset_status_some (x : Proxy) (v : Status) (b c d : Option Bool) :
    (x.reset (some v) b c d).status = v := by
  unfold Proxy.reset
  simp only [Option.getD_some]
  split
  · rename_i h
    simp only [Bool.and_eq_true, beq_iff_eq] at h
    exact h.1.1.1.symm
  · rfl

/-! ### `release_queued_tasks` -/

/-- what `release_queued_tasks` does to one released proxy -/
def markReleased (st : State) (k : Key) : State :=
  match st.get? k.1 k.2 with
  | some x => st.put { (x.reset (queued := some false)) with wjp := true }
  | none => st

theorem releaseQueued_eq (s : State) :
    releaseQueued s =
      ((releaseQueues s.isHeldKey s.qs (countActive s)).2.foldl markReleased
          { s with qs := (releaseQueues s.isHeldKey s.qs (countActive s)).1 },
        (releaseQueues s.isHeldKey s.qs (countActive s)).2) := rfl

theorem markReleased_frame (st : State) (k : Key) :
    keys (markReleased st k) = keys st ∧ sp (markReleased st k) = sp st := by
  unfold markReleased
  split
  · exact ⟨keys_put _ _, rfl⟩
  · exact ⟨rfl, rfl⟩

/-- a marked proxy either was in the pool unchanged, or carries a marked key and waits on job preparation -/
theorem markReleased_mem {st : State} {k : Key} {y : Proxy} (h : y ∈ (markReleased st k).pool) :
    (y ∈ st.pool ∧ (y.pt, y.name) ≠ k) ∨ ((y.pt, y.name) = k ∧ y.wjp = true) := by
  unfold markReleased at h
  split at h
  · rename_i x hx
    obtain ⟨_, hp, hn⟩ := get?_some_mem hx
    rcases mem_put h with ⟨rfl, _⟩ | ⟨hy, hne⟩
    · right; simp [hp, hn]
    · left
      refine ⟨hy, ?_⟩
      intro he
      apply hne
      simp only [reset_pt, reset_name]
      rw [hp, hn]
      exact ⟨congrArg Prod.fst he, congrArg Prod.snd he⟩
  · rename_i hx
    left
    refine ⟨h, ?_⟩
    intro he
    exact get?_none_forall hx y h ⟨congrArg Prod.fst he, congrArg Prod.snd he⟩

theorem markFold_frame : ∀ (rel : List Key) (st : State),
    keys (rel.foldl markReleased st) = keys st ∧ sp (rel.foldl markReleased st) = sp st := by
  intro rel
  induction rel with
  | nil => intro st; exact ⟨rfl, rfl⟩
  | cons k rel ih =>
    intro st
    simp only [List.foldl_cons]
    obtain ⟨h1, h2⟩ := ih (markReleased st k)
    obtain ⟨h3, h4⟩ := markReleased_frame st k
    exact ⟨h1.trans h3, h2.trans h4⟩

/-- after marking all released keys: a proxy is unchanged, or its key was released and it waits on job prep;
and every proxy whose key was released (or was in `W`, already waiting) waits on job preparation -/
theorem markFold_mem : ∀ (rel : List Key) (st : State) (W : List Key),
    (∀ y ∈ st.pool, (y.pt, y.name) ∈ W → y.wjp = true) →
    ∀ y ∈ (rel.foldl markReleased st).pool,
      (y ∈ st.pool ∨ (y.pt, y.name) ∈ rel) ∧ ((y.pt, y.name) ∈ W ∨ (y.pt, y.name) ∈ rel → y.wjp = true) := by
  intro rel
  induction rel with
  | nil =>
    intro st W hW y hy
    exact ⟨Or.inl hy, fun h => by rcases h with h | h; exact hW y hy h; simp at h⟩
  | cons k rel ih =>
    intro st W hW y hy
    simp only [List.foldl_cons] at hy
    have hW' : ∀ z ∈ (markReleased st k).pool, (z.pt, z.name) ∈ k :: W → z.wjp = true := by
      intro z hz hzk
      rcases markReleased_mem hz with ⟨hz0, hne⟩ | ⟨_, hw⟩
      · rcases List.mem_cons.mp hzk with he | he
        · exact absurd he hne
        · exact hW z hz0 he
      · exact hw
    obtain ⟨h1, h2⟩ := ih (markReleased st k) (k :: W) hW' y hy
    refine ⟨?_, ?_⟩
    · rcases h1 with h1 | h1
      · rcases markReleased_mem h1 with ⟨hz0, _⟩ | ⟨he, _⟩
        · exact Or.inl hz0
        · exact Or.inr (by rw [he]; exact List.mem_cons_self)
      · exact Or.inr (List.mem_cons_of_mem _ h1)
    · intro h
      apply h2
      rcases h with h | h
      · exact Or.inl (List.mem_cons_of_mem _ h)
      · rcases List.mem_cons.mp h with he | he
        · exact Or.inl (by rw [he]; exact List.mem_cons_self)
        · exact Or.inr he

theorem nodup_key_inj {s : State} (h : NoDup s) {x y : Proxy} (hx : x ∈ s.pool) (hy : y ∈ s.pool)
    (hk : (x.pt, x.name) = (y.pt, y.name)) : x = y := by
  unfold NoDup keys at h
  generalize s.pool = l at h hx hy
  induction l with
  | nil => simp at hx
  | cons a l ih =>
    simp only [List.map_cons] at h
    obtain ⟨hna, hnd⟩ := List.nodup_cons.mp h
    rcases List.mem_cons.mp hx with rfl | hx' <;> rcases List.mem_cons.mp hy with rfl | hy'
    · rfl
    · exact absurd (List.mem_map.mpr ⟨y, hy', hk.symm⟩) hna
    · exact absurd (List.mem_map.mpr ⟨x, hx', hk⟩) hna
    · exact ih hnd hx' hy'

theorem nodup_of_keys_eq {s t : State} (hk : keys t = keys s) (h : NoDup s) : NoDup t := by
  unfold NoDup; rw [hk]; exact h

/-- independence of the configured queues carries over to the queue manager of a state -/
theorem indep_of_qi {g : Graph} {qs : List LQ} (h : QI g qs) (hi : IndepSig (g.queues.map QDef.sig)) :
    IndepSig (qs.map LQ.sig) := by rw [h.1]; exact hi

theorem keepQ_releaseQueued {g : Graph} {s : State} (h : KeepQ g s) : KeepQ g (releaseQueued s).1 := by
  rw [releaseQueued_eq]
  simp only
  obtain ⟨hk, hs⟩ := markFold_frame (releaseQueues s.isHeldKey s.qs (countActive s)).2
    { s with qs := (releaseQueues s.isHeldKey s.qs (countActive s)).1 }
  refine ⟨nodup_of_keys_eq hk h.1, ?_⟩
  have hq : (List.foldl markReleased { s with qs := (releaseQueues s.isHeldKey s.qs (countActive s)).1 }
      (releaseQueues s.isHeldKey s.qs (countActive s)).2).qs = (releaseQueues s.isHeldKey s.qs (countActive s)).1 :=
    congrArg Prod.fst hs
  rw [hq]
  exact ⟨(releaseQueues_sigs _ _ _).trans h.2.1, releaseQueues_members _ _ _ h.2.2⟩

theorem launched_releaseQueued (s : State) : (releaseQueued s).1.launched = s.launched := by
  rw [releaseQueued_eq]
  exact congrArg Prod.snd (markFold_frame _ _).2

/-- **the release step respects every limit**: for a queue with limit `L > 0`, the released members together with
the members that were active stay within `L` (or nothing is released), and the active count grows by no more than
the number released -/
theorem releaseQueued_limit {g : Graph} {s : State} (h : KeepQ g s) (hi : IndepSig (g.queues.map QDef.sig))
    (q : LQ) (hq : q ∈ s.qs) (hl : 0 < q.limit) :
    (((releaseQueued s).2.filter fun k => q.members.contains k.2) = [] ∨
      act s q.members + ((releaseQueued s).2.filter fun k => q.members.contains k.2).length ≤ q.limit) ∧
    act (releaseQueued s).1 q.members ≤
      act s q.members + ((releaseQueued s).2.filter fun k => q.members.contains k.2).length := by
  refine ⟨?_, ?_⟩
  · have := releaseQueues_limit s.isHeldKey s.qs (countActive s) (indep_of_qi h.2 hi) h.2.2 q hq hl
    rw [nActive_countActive] at this
    exact this
  · apply act_le_of_keys (keepQ_releaseQueued h).1
    intro y hy
    have hy' := List.mem_filter.mp hy
    rw [releaseQueued_eq] at hy'
    obtain ⟨h1, _⟩ := markFold_mem _ _ [] (by intro z _ hz; simp at hz) y hy'.1
    rcases h1 with h1 | h1
    · left
      exact ⟨y, List.mem_filter.mpr ⟨h1, hy'.2⟩, rfl⟩
    · right
      apply List.mem_filter.mpr
      refine ⟨h1, ?_⟩
      have := hy'.2
      simp only [Bool.and_eq_true] at this
      exact this.2

/-! ### Job preparation -/

theorem prepSubmit_frame (st : State) (k : Key) :
    keys (prepSubmit st k) = keys st ∧ (prepSubmit st k).qs = st.qs := by
  unfold prepSubmit
  split
  · exact ⟨rfl, rfl⟩
  · exact ⟨keys_put _ _, rfl⟩

/-- a proxy after `prepSubmit k`: unchanged with another key, or the prepared one (counted active) -/
theorem prepSubmit_mem {st : State} {k : Key} {y : Proxy} (h : y ∈ (prepSubmit st k).pool) :
    (y ∈ st.pool ∧ (y.pt, y.name) ≠ k) ∨
      ((y.pt, y.name) = k ∧ y.countsActive = true ∧ y.wjp = false ∧ ∃ z ∈ st.pool, (z.pt, z.name) = k ∧ z.name = y.name) := by
  unfold prepSubmit at h
  split at h
  · rename_i hx
    left
    exact ⟨h, fun he => get?_none_forall hx y h ⟨congrArg Prod.fst he, congrArg Prod.snd he⟩⟩
  · rename_i x hx
    obtain ⟨hxm, hp, hn⟩ := get?_some_mem hx
    simp only at h
    rcases mem_put h with ⟨rfl, _⟩ | ⟨hy, hne⟩
    · right
      split
      · rename_i hs
        refine ⟨by simp [hp, hn], ?_, rfl, x, hxm, by simp [hp, hn], rfl⟩
        simp only [beq_iff_eq] at hs
        simp [Proxy.countsActive, hs]
      · refine ⟨by simp [hp, hn], ?_, rfl, x, hxm, by simp [hp, hn], by simp⟩
        simp [Proxy.countsActive, reset_status_some]
    · left
      refine ⟨hy, fun he => hne ?_⟩
      have e1 := congrArg Prod.fst he
      have e2 := congrArg Prod.snd he
      simp only at e1 e2
      split <;> simp [hp, hn, e1, e2]

theorem launched_prepSubmit {st : State} {k : Key} {l : Int × String × Nat} (h : l ∈ (prepSubmit st k).launched) :
    l ∈ st.launched ∨ ((l.1, l.2.1) = k ∧ (st.get? k.1 k.2).isSome = true) := by
  unfold prepSubmit at h
  split at h
  · exact Or.inl h
  · rename_i x hx
    obtain ⟨_, hp, hn⟩ := get?_some_mem hx
    simp only at h
    rcases List.mem_append.mp h with h | h
    · exact Or.inl h
    · right
      simp only [List.mem_singleton] at h
      subst h
      refine ⟨?_, by rw [hx]; rfl⟩
      split <;> simp [hp, hn]

/-- preparing the jobs of proxies that already count as active (they wait on job preparation) adds no active member -/
theorem prepFold {members : List String} (todo : List Key) : ∀ (l : List Key) (st : State),
    (∀ k ∈ l, k ∈ todo) → NoDup st → (∀ x ∈ st.pool, (x.pt, x.name) ∈ todo → x.countsActive = true) →
    act (l.foldl prepSubmit st) members ≤ act st members ∧ keys (l.foldl prepSubmit st) = keys st ∧
      (l.foldl prepSubmit st).qs = st.qs ∧
      (∀ e ∈ (l.foldl prepSubmit st).launched, e ∈ st.launched ∨ (e.1, e.2.1) ∈ l) ∧
      (∀ x ∈ (l.foldl prepSubmit st).pool, (x.pt, x.name) ∈ l → x.wjp = false) := by
  intro l
  induction l with
  | nil => intro st _ _ _; exact ⟨Nat.le_refl _, rfl, rfl, fun e he => Or.inl he, fun x _ hx => by simp at hx⟩
  | cons k l ih =>
    intro st hsub hnd hA
    simp only [List.foldl_cons]
    have hk : k ∈ todo := hsub k List.mem_cons_self
    have hnd1 : NoDup (prepSubmit st k) := nodup_of_keys_eq (prepSubmit_frame st k).1 hnd
    have hA1 : ∀ x ∈ (prepSubmit st k).pool, (x.pt, x.name) ∈ todo → x.countsActive = true := by
      intro x hx hxt
      rcases prepSubmit_mem hx with ⟨hx0, _⟩ | ⟨_, hc, _⟩
      · exact hA x hx0 hxt
      · exact hc
    have hstep : act (prepSubmit st k) members ≤ act st members := by
      have := act_le_of_keys (s := st) (t := prepSubmit st k) (members := members) (extra := []) hnd1 (by
        intro y hy
        left
        have hy' := List.mem_filter.mp hy
        rcases prepSubmit_mem hy'.1 with ⟨hy0, _⟩ | ⟨hke, _, _, z, hz, hzk, hzn⟩
        · exact ⟨y, List.mem_filter.mpr ⟨hy0, hy'.2⟩, rfl⟩
        · refine ⟨z, List.mem_filter.mpr ⟨hz, ?_⟩, hzk.trans hke.symm⟩
          have hm := hy'.2
          simp only [Bool.and_eq_true] at hm ⊢
          exact ⟨hA z hz (by rw [hzk]; exact hk), by rw [hzn]; exact hm.2⟩)
      simpa using this
    obtain ⟨h1, h2, h3, h4, h5⟩ := ih (prepSubmit st k) (fun k' hk' => hsub k' (List.mem_cons_of_mem _ hk')) hnd1 hA1
    refine ⟨Nat.le_trans h1 hstep, h2.trans (prepSubmit_frame st k).1, h3.trans (prepSubmit_frame st k).2, ?_, ?_⟩
    · intro e he
      rcases h4 e he with he | he
      · rcases launched_prepSubmit he with he | ⟨he, _⟩
        · exact Or.inl he
        · exact Or.inr (by rw [he]; exact List.mem_cons_self)
      · exact Or.inr (List.mem_cons_of_mem _ he)
    · intro x hx hxl
      by_cases hxl' : (x.pt, x.name) ∈ l
      · exact h5 x hx hxl'
      · -- the key is `k` and not prepared again afterwards: wjp was cleared by this step
        have hxk : (x.pt, x.name) = k := by
          rcases List.mem_cons.mp hxl with h | h
          · exact h
          · exact absurd h hxl'
        -- x is in the final pool; trace it back through the remaining steps: unchanged since its key is not in l
        have hback : ∀ (l' : List Key) (st' : State), (x.pt, x.name) ∉ l' → x ∈ (l'.foldl prepSubmit st').pool →
            x ∈ st'.pool := by
          intro l'
          induction l' with
          | nil => intro st' _ h; exact h
          | cons k' l' ih' =>
            intro st' hn hxm
            simp only [List.foldl_cons] at hxm
            have := ih' (prepSubmit st' k') (fun h => hn (List.mem_cons_of_mem _ h)) hxm
            rcases prepSubmit_mem this with ⟨h0, _⟩ | ⟨he, _⟩
            · exact h0
            · exact absurd (by rw [he]; exact List.mem_cons_self) hn
        have hx1 := hback l (prepSubmit st k) hxl' hx
        rcases prepSubmit_mem hx1 with ⟨_, hne⟩ | ⟨_, _, hw, _⟩
        · exact absurd hxk hne
        · exact hw

theorem mem_dedupKeys {k : Key} : ∀ {l : List Key}, k ∈ dedupKeys l ↔ k ∈ l := by
  intro l
  induction l with
  | nil => simp [dedupKeys]
  | cons a l ih =>
    unfold dedupKeys
    split
    · rename_i hc
      rw [ih]
      constructor
      · exact fun h => List.mem_cons_of_mem _ h
      · intro h
        rcases List.mem_cons.mp h with rfl | h
        · simpa using hc
        · exact h
    · simp only [List.mem_cons, ih]

/-- the keys handed to job preparation by `releaseAndSubmit` -/
def todoOf (s : State) : List Key :=
  dedupKeys ((releaseQueued s).2 ++ (s.pool.filter (·.wjp)).map (·.key))

theorem releaseAndSubmit_eq (s : State) :
    releaseAndSubmit s =
      if (todoOf s).isEmpty then (releaseQueued s).1
      else { ((todoOf s).foldl prepSubmit (releaseQueued s).1) with schedUpd := true } := rfl

/-- every proxy about to be prepared already counts as active (it waits on job preparation) -/
theorem todo_active {s : State} (hn : NoDup s) :
    ∀ x ∈ (releaseQueued s).1.pool, (x.pt, x.name) ∈ todoOf s → x.countsActive = true := by
  intro x hx hxt
  have hxt' := List.mem_append.mp (mem_dedupKeys.mp hxt)
  rw [releaseQueued_eq] at hx
  have hW : ∀ y ∈ ({ s with qs := (releaseQueues s.isHeldKey s.qs (countActive s)).1 } : State).pool,
      (y.pt, y.name) ∈ (s.pool.filter (·.wjp)).map (·.key) → y.wjp = true := by
    intro y hy hyk
    obtain ⟨z, hz, hzk⟩ := List.mem_map.mp hyk
    have hz' := List.mem_filter.mp hz
    have : z = y := nodup_key_inj hn hz'.1 hy hzk
    rw [← this]; exact hz'.2
  obtain ⟨_, h2⟩ := markFold_mem _ _ _ hW x hx
  have hw : x.wjp = true := h2 (by
    rcases hxt' with h | h
    · exact Or.inr (by rw [releaseQueued_eq] at h; exact h)
    · exact Or.inl h)
  simp [Proxy.countsActive, hw]

theorem keepQ_releaseAndSubmit {g : Graph} {s : State} (h : KeepQ g s) : KeepQ g (releaseAndSubmit s) := by
  have hk1 := keepQ_releaseQueued h
  rw [releaseAndSubmit_eq]
  split
  · exact hk1
  · obtain ⟨_, hkeys, hqs, _, _⟩ := prepFold (members := []) (todoOf s) (todoOf s) (releaseQueued s).1
      (fun k hk => hk) hk1.1 (todo_active h.1)
    refine ⟨nodup_of_keys_eq (s := (releaseQueued s).1) hkeys hk1.1, ?_⟩
    show QI g (List.foldl prepSubmit (releaseQueued s).1 (todoOf s)).qs
    rw [hqs]; exact hk1.2

/-- **release + job preparation against the limits** (any state with the pool / queue invariants) -/
theorem releaseAndSubmit_spec {g : Graph} {s : State} (h : KeepQ g s) (hi : IndepSig (g.queues.map QDef.sig)) :
    (∀ q ∈ s.qs, 0 < q.limit →
      (((releaseQueued s).2.filter fun k => q.members.contains k.2) = [] ∨
        act s q.members + ((releaseQueued s).2.filter fun k => q.members.contains k.2).length ≤ q.limit) ∧
      act (releaseAndSubmit s) q.members ≤
        act s q.members + ((releaseQueued s).2.filter fun k => q.members.contains k.2).length) ∧
    (∀ e ∈ (releaseAndSubmit s).launched, e ∈ s.launched ∨ (e.1, e.2.1) ∈ (releaseQueued s).2 ∨
      ∃ x ∈ s.pool, x.wjp = true ∧ (x.pt, x.name) = (e.1, e.2.1)) := by
  have hk1 := keepQ_releaseQueued h
  have hfold := fun members => prepFold (members := members) (todoOf s) (todoOf s) (releaseQueued s).1
    (fun k hk => hk) hk1.1 (todo_active h.1)
  rw [releaseAndSubmit_eq]
  split
  · -- nothing to prepare
    refine ⟨?_, ?_⟩
    · intro q hq hl
      exact releaseQueued_limit h hi q hq hl
    · intro e he
      rw [launched_releaseQueued] at he
      exact Or.inl he
  · refine ⟨?_, ?_⟩
    · intro q hq hl
      obtain ⟨h1, h2⟩ := releaseQueued_limit h hi q hq hl
      refine ⟨h1, ?_⟩
      obtain ⟨hle, _⟩ := hfold q.members
      exact Nat.le_trans hle h2
    · intro e he
      obtain ⟨_, _, _, h4, _⟩ := hfold []
      rcases h4 e he with he | he
      · rw [launched_releaseQueued] at he
        exact Or.inl he
      · rcases List.mem_append.mp (mem_dedupKeys.mp he) with he | he
        · exact Or.inr (Or.inl he)
        · obtain ⟨z, hz, hzk⟩ := List.mem_map.mp he
          have hz' := List.mem_filter.mp hz
          exact Or.inr (Or.inr ⟨z, hz'.1, hz'.2, hzk⟩)

/-! ### The main loop, piece by piece -/

/-- `workflow_shutdown`: the stop-task / auto-shutdown decision -/
def shutdownBlock (g : Graph) (s : State) : State :=
  if s.stopMode.isNone then
    if (stopTaskDone s).2 then { (stopTaskDone s).1 with stopMode := some "AUTOMATIC" }
    else
      if (checkAutoShutdown g (stopTaskDone s).1).2 then
        { (checkAutoShutdown g (stopTaskDone s).1).1 with stopMode := some "AUTOMATIC" }
      else (checkAutoShutdown g (stopTaskDone s).1).1
  else s

/-- the main loop up to the shutdown decision -/
def preLoop (g : Graph) (s : State) : State :=
  shutdownBlock g (releaseRunahead g (computeRunahead g s)).1

/-- `release_tasks_to_run` -/
def relStep (s : State) : State :=
  if s.stopMode.isNone then (if s.paused then submitWjp s else releaseAndSubmit s) else s

theorem mainLoop_eq (g : Graph) (s : State) :
    mainLoop g s =
      if s.stop.isSome then s
      else if canStop (preLoop g s) then { preLoop g s with stop := (preLoop g s).stopMode }
      else finishLoop g (processQueue g (relStep (sweepQueue (preLoop g s)))) := by
  unfold mainLoop preLoop shutdownBlock relStep
  rfl

theorem checkStalled_frame (g : Graph) (s : State) :
    (checkStalled g s).pool = s.pool ∧ sp (checkStalled g s) = sp s := by
  unfold checkStalled
  split
  · exact ⟨rfl, rfl⟩
  · split
    · exact ⟨rfl, rfl⟩
    · split <;> exact ⟨rfl, rfl⟩

theorem checkAutoShutdown_frame (g : Graph) (s : State) :
    (checkAutoShutdown g s).1.pool = s.pool ∧ sp (checkAutoShutdown g s).1 = sp s := by
  unfold checkAutoShutdown
  split
  · exact ⟨rfl, rfl⟩
  · simp only
    split
    · exact checkStalled_frame g s
    · split
      · exact checkStalled_frame g s
      · exact checkStalled_frame g s

theorem stopTaskDone_frame (s : State) : (stopTaskDone s).1.pool = s.pool ∧ sp (stopTaskDone s).1 = sp s := by
  unfold stopTaskDone
  split <;> exact ⟨rfl, rfl⟩

theorem shutdownBlock_frame (g : Graph) (s : State) :
    (shutdownBlock g s).pool = s.pool ∧ sp (shutdownBlock g s) = sp s := by
  unfold shutdownBlock
  obtain ⟨a1, a2⟩ := stopTaskDone_frame s
  obtain ⟨b1, b2⟩ := checkAutoShutdown_frame g (stopTaskDone s).1
  split
  · split
    · exact ⟨a1, a2⟩
    · split
      · exact ⟨b1.trans a1, b2.trans a2⟩
      · exact ⟨b1.trans a1, b2.trans a2⟩
  · exact ⟨rfl, rfl⟩

theorem keep_preLoop {c} (g : Graph) (s : State) (h : Keep c s) : Keep c (preLoop g s) := by
  unfold preLoop
  have h2 := keep_releaseRunahead g _ (keep_computeRunahead g s false h)
  exact keep_of_eq (shutdownBlock_frame g _).1 (shutdownBlock_frame g _).2 h2

/-! ### Job submission while paused, and the whole `release_tasks_to_run` step -/

theorem submitWjp_eq (s : State) :
    submitWjp s =
      if ((s.pool.filter (·.wjp)).map (·.key)).isEmpty then s
      else { (((s.pool.filter (·.wjp)).map (·.key)).foldl prepSubmit s) with schedUpd := true } := rfl

/-- every proxy whose key is the key of a proxy waiting on job preparation counts as active (no duplicate keys) -/
theorem wjpKeys_active {s : State} (hn : NoDup s) :
    ∀ x ∈ s.pool, (x.pt, x.name) ∈ (s.pool.filter (·.wjp)).map (·.key) → x.countsActive = true := by
  intro x hx hk
  obtain ⟨z, hz, hzk⟩ := List.mem_map.mp hk
  have hz' := List.mem_filter.mp hz
  have : z = x := nodup_key_inj hn hz'.1 hx hzk
  subst this
  have hw : z.wjp = true := hz'.2
  simp [Proxy.countsActive, hw]

/-- while paused: the proxies waiting on job preparation are prepared; nobody becomes active, the queues are
not touched, and what is launched was waiting on job preparation -/
theorem submitWjp_spec {g : Graph} {s : State} (h : KeepQ g s) :
    KeepQ g (submitWjp s) ∧ (submitWjp s).qs = s.qs ∧
    (∀ members, act (submitWjp s) members ≤ act s members) ∧
    (∀ e ∈ (submitWjp s).launched, e ∈ s.launched ∨
      ∃ x ∈ s.pool, x.wjp = true ∧ (x.pt, x.name) = (e.1, e.2.1)) := by
  have hfold := fun members => prepFold (members := members) ((s.pool.filter (·.wjp)).map (·.key))
    ((s.pool.filter (·.wjp)).map (·.key)) s (fun k hk => hk) h.1 (wjpKeys_active h.1)
  rw [submitWjp_eq]
  split
  · exact ⟨h, rfl, fun _ => Nat.le_refl _, fun e he => Or.inl he⟩
  · obtain ⟨_, hkeys, hqs, h4, _⟩ := hfold []
    refine ⟨⟨nodup_of_keys_eq (s := s) hkeys h.1, ?_⟩, hqs, fun members => (hfold members).1, ?_⟩
    · show QI g (List.foldl prepSubmit s _).qs
      rw [hqs]; exact h.2
    · intro e he
      rcases h4 e he with he | he
      · exact Or.inl he
      · obtain ⟨z, hz, hzk⟩ := List.mem_map.mp he
        have hz' := List.mem_filter.mp hz
        exact Or.inr ⟨z, hz'.1, hz'.2, hzk⟩

theorem keepQ_relStep {g : Graph} {s : State} (h : KeepQ g s) : KeepQ g (relStep s) := by
  unfold relStep
  split
  · split
    · exact (submitWjp_spec h).1
    · exact keepQ_releaseAndSubmit h
  · exact h

/-- **the release step against the limits**, whatever the scheduler is doing (running, paused, stopping): for
every limited queue there is a list `relq` of released members such that `relq` is empty or fits under the limit
together with the active members, and every launch is an old one, a member of `relq` (if it is a member of the
queue at all), or a proxy that was waiting on job preparation already -/
theorem relStep_spec {g : Graph} {s : State} (h : KeepQ g s) (hi : IndepSig (g.queues.map QDef.sig))
    (q : LQ) (hq : q ∈ s.qs) (hl : 0 < q.limit) :
    ∃ relq : List Key, (relq = [] ∨ act s q.members + relq.length ≤ q.limit) ∧
      ∀ e ∈ (relStep s).launched, e ∈ s.launched ∨
        (q.members.contains e.2.1 = true → (e.1, e.2.1) ∈ relq) ∨
        ∃ x ∈ s.pool, x.wjp = true ∧ (x.pt, x.name) = (e.1, e.2.1) := by
  unfold relStep
  split
  · split
    · refine ⟨[], Or.inl rfl, ?_⟩
      intro e he
      rcases (submitWjp_spec h).2.2.2 e he with he | he
      · exact Or.inl he
      · exact Or.inr (Or.inr he)
    · obtain ⟨hspec, hlog⟩ := releaseAndSubmit_spec h hi
      refine ⟨(releaseQueued s).2.filter (fun k => q.members.contains k.2), (hspec q hq hl).1, ?_⟩
      intro e he
      rcases hlog e he with he | he | he
      · exact Or.inl he
      · exact Or.inr (Or.inl fun hm => List.mem_filter.mpr ⟨he, hm⟩)
      · exact Or.inr (Or.inr he)
  · exact ⟨[], Or.inl rfl, fun e he => Or.inl he⟩

/-- the pool / queue invariants survive a main loop -/
theorem keepQ_mainLoop {g : Graph} (s : State) (h : KeepQ g s) :
    KeepQ g (mainLoop g s) := by
  rw [mainLoop_eq]
  split
  · exact h
  · have h3 := keep_preLoop g s (keep_of_keepQ h)
    split
    · exact keepQ_of_keep (keep_of_eq (s := preLoop g s) rfl rfl h3)
    · have h4 := keep_sweepQueue _ h3
      have h5 : KeepQ g (relStep (sweepQueue (preLoop g s))) := keepQ_relStep (keepQ_of_keep h4)
      exact keepQ_of_keep (keep_finishLoop g _ (keep_processQueue g _ (keep_of_keepQ h5)))

/-! ### Manual trigger -/

theorem pushIfLimited_spec (k : Key) (active : List String) : ∀ (qs : List LQ),
    (pushIfLimited k active qs).1.map LQ.sig = qs.map LQ.sig ∧
    ((∀ q ∈ qs, ∀ a ∈ q.deque, q.members.contains a.2 = true) →
      ∀ q ∈ (pushIfLimited k active qs).1, ∀ a ∈ q.deque, q.members.contains a.2 = true) ∧
    QStep qs (pushIfLimited k active qs).1 := by
  intro qs
  induction qs with
  | nil => exact ⟨rfl, fun h => h, QStep.nil⟩
  | cons q rest ih =>
    unfold pushIfLimited
    split
    · rename_i hc
      simp only [Bool.and_eq_true] at hc
      refine ⟨rfl, ?_, QStep.cons rfl ((Tail.refl _).append _) (QStep.refl rest)⟩
      intro h q' hq' a ha
      rcases List.mem_cons.mp hq' with rfl | hq'
      · rcases List.mem_append.mp ha with ha | ha
        · exact h q List.mem_cons_self a ha
        · simp at ha; subst ha; exact hc.2
      · exact h q' (List.mem_cons_of_mem _ hq') a ha
    · obtain ⟨h1, h2, h3⟩ := ih
      refine ⟨by simp only [List.map_cons]; rw [h1], ?_, QStep.cons rfl (Tail.refl _) h3⟩
      intro h q' hq' a ha
      rcases List.mem_cons.mp hq' with rfl | hq'
      · exact h q' List.mem_cons_self a ha
      · exact h2 (fun q0 hq0 => h q0 (List.mem_cons_of_mem _ hq0)) q' hq' a ha

theorem keep_pushIfLimited {c} (s : State) (k : Key) (active : List String) (h : Keep c s) :
    Keep c { s with qs := (pushIfLimited k active s.qs).1 } := by
  obtain ⟨hn, ⟨h1, h2⟩, hl, hq⟩ := h
  obtain ⟨p1, p2, p3⟩ := pushIfLimited_spec k active s.qs
  exact ⟨hn, ⟨p1.trans h1, p2 h2⟩, hl, hq.trans p3⟩

theorem keep_queueOrTrigger {c} (s : State) (x : Proxy) (h : Keep c s) : Keep c (queueOrTrigger s x) := by
  unfold queueOrTrigger
  split
  · exact keep_put _ _ h
  · simp only
    split
    · split
      · exact keep_put _ _ (keep_pushIfLimited _ _ _ (keep_put _ _ h))
      · exact keep_put _ _ (keep_put _ _ h)
    · split
      · exact keep_put _ _ (keep_unqueue _ _ (keep_put _ _ h))
      · exact keep_put _ _ h

theorem keep_triggerOne {c} (g : Graph) (s : State) (k : Key) (h : Keep c s) : Keep c (triggerOne g s k) := by
  unfold triggerOne
  simp only
  apply keep_releaseRunahead
  split
  · exact h
  · split
    · exact h
    · exact keep_queueOrTrigger _ _ (keep_put _ _ h)

theorem keep_triggerTasks {c} (g : Graph) (s : State) (ids : List Key) (h : Keep c s) :
    Keep c (triggerTasks g s ids) := by
  unfold triggerTasks
  exact foldl_inv (Keep c) _ (fun st k hst => keep_triggerOne g st k hst) _ _ h

/-! ### Commands, restart, `step` -/

theorem setStopPoint_frame (s : State) (p : Int) :
    keys (setStopPoint s p) = keys s ∧ sp (setStopPoint s p) = sp s := by
  unfold setStopPoint
  split
  · exact ⟨rfl, rfl⟩
  · simp only
    split
    · split
      · refine ⟨?_, rfl⟩
        unfold keys
        simp only [List.map_map]
        apply List.map_congr_left
        intro x _
        simp only [Function.comp]
        split
        · unfold Proxy.reset; simp only; split <;> rfl
        · rfl
      · exact ⟨rfl, rfl⟩
    · exact ⟨rfl, rfl⟩

theorem keep_setStopPoint {c} (s : State) (p : Int) (h : Keep c s) : Keep c (setStopPoint s p) := by
  obtain ⟨h1, h2⟩ := setStopPoint_frame s p
  exact ⟨nodup_of_keys_eq h1 h.1, by rw [h2]; exact h.2⟩

/-- what a restart does to one proxy -/
def restoreProxy (x : Proxy) : Proxy :=
  let st := if x.status == .preparing then (Status.waiting, x.submitNum - 1) else (x.status, x.submitNum)
  let keepOut := st.1 == .running || st.1 == .failed || st.1 == .succeeded
  let final := st.1 == .failed || st.1 == .succeeded || st.1 == .expired
  { x with status := st.1, submitNum := st.2, done := if keepOut then x.done else [],
           queued := false, runahead := !final && !x.manual, retryWait := false, live := false, wjp := false,
           upd := (x.status == .preparing) || final || x.manual }

/-- the restarted state before `configure` re-applies the hold point -/
def restartBase (g : Graph) (s : State) : State :=
  let cfgStop : Option Int := match s.dbStopCp with | some p => some p | none => g.cfgStop
  let pool := s.pool.map restoreProxy
  { pool := pool, hist := s.hist, absDone := s.absDone,
    qs := g.queues.map (fun q => { name := q.name, limit := q.limit, members := q.members }),
    tasksToHold := s.tasksToHold, holdPoint := s.holdPoint, stopPoint := some (cfgStop.getD g.fcp),
    dbStopCp := s.dbStopCp,
    restartWait := pool.isEmpty || (match cfgStop with
      | some sp => pool.all (fun x => x.pt > sp)
      | none => false),
    stopTask := s.stopTask, stopTaskFinished := false, schedUpd := true }

theorem restart_eq (g : Graph) (s : State) :
    restart g s = match (restartBase g s).holdPoint with
      | some hp => setHoldPoint (restartBase g s) hp
      | none => restartBase g s := by
  unfold restart restartBase restoreProxy
  rfl

theorem keep_restartBase (g : Graph) (s : State) (h : KeepQ g s) : Keep (g, [], s.qs) (restartBase g s) := by
  refine ⟨?_, qi_fresh g, rfl, qstep_fresh h.2.1⟩
  have := h.1
  unfold NoDup keys restartBase at *
  simp only [List.map_map]
  exact this

theorem keep_restart (g : Graph) (s : State) (h : KeepQ g s) : Keep (g, [], s.qs) (restart g s) := by
  rw [restart_eq]
  split
  · exact keep_setHoldPoint _ _ (keep_restartBase g s h)
  · exact keep_restartBase g s h

theorem keep_clearOp {c} (s : State) (h : Keep c s) : Keep (c.1, [], c.2.2) (clearOp s) :=
  ⟨h.1, h.2.1, rfl, h.2.2.2⟩

/-- the pool / queue invariants are kept by every operation -/
theorem keepQ_step {g : Graph} (s : State) (op : Op) (h : KeepQ g s) :
    KeepQ g (step g s op) := by
  have h0 : Keep (g, [], s.qs) (clearOp s) := keep_clearOp s (keep_of_keepQ h)
  unfold step
  cases op with
  | loop => exact keepQ_mainLoop _ (keepQ_of_keep h0)
  | subres p n ok sn => exact keepQ_of_keep (keep_processMessage g _ _ _ _ _ _ _ h0)
  | msg p n sn text => exact keepQ_of_keep (keep_of_eq (s := clearOp s) rfl rfl h0)
  | hold ids => exact keepQ_of_keep (keep_holdTasks _ _ h0)
  | release ids => exact keepQ_of_keep (keep_releaseTasks _ _ h0)
  | setHoldPoint p => exact keepQ_of_keep (keep_setHoldPoint _ _ h0)
  | releaseHoldPoint => exact keepQ_of_keep (keep_releaseHoldPoint _ h0)
  | stop mode => exact keepQ_of_keep (keep_of_eq (s := clearOp s) rfl rfl h0)
  | stopPoint p => exact keepQ_of_keep (keep_setStopPoint _ _ h0)
  | stopTask p n => exact keepQ_of_keep (keep_of_eq (s := clearOp s) rfl rfl h0)
  | pause => exact keepQ_of_keep (keep_of_eq (s := clearOp s) rfl rfl h0)
  | resume => exact keepQ_of_keep (keep_of_eq (s := clearOp s) rfl rfl h0)
  | restart => exact keepQ_of_keep (keep_restart g _ (keepQ_of_keep h0))
  | trigger ids => exact keepQ_of_keep (keep_triggerTasks g _ ids h0)

theorem keepQ_init (g : Graph) : KeepQ g (init g) := keepQ_of_keep (keep_loadFromPoint g)

theorem keepQ_run (g : Graph) (ops : List Op) : ∀ s ∈ run g ops, KeepQ g s :=
  run_inv (KeepQ g) g (keepQ_init g) (fun s op h => keepQ_step s op h) ops

/-! ### What the main loop does before the release step: nobody becomes active, nobody is lost -/

theorem mkProxy_fresh {g : Graph} {n : String} {p : Int} {x : Proxy} (h : mkProxy g n p = some x) :
    x.status = .waiting ∧ x.wjp = false := by
  unfold mkProxy at h
  simp only [Option.bind_eq_bind, Option.pure_def] at h
  cases ht : g.task? n with
  | none => simp [ht] at h
  | some t =>
    simp only [ht, Option.bind_some] at h
    split at h
    · simp at h
    · cases hd : t.inst? p with
      | none => simp [hd] at h
      | some d =>
        simp only [hd, Option.bind_some, Option.some.injEq] at h
        subst h
        exact ⟨rfl, rfl⟩

theorem foldl_satisfyMe_sw (l : List Atom) (x : Proxy) :
    (l.foldl (fun z a => z.satisfyMe a) x).status = x.status ∧ (l.foldl (fun z a => z.satisfyMe a) x).wjp = x.wjp := by
  induction l generalizing x with
  | nil => exact ⟨rfl, rfl⟩
  | cons a l ih => simp only [List.foldl_cons]; exact ih _

/-- the DB-history part of `spawnTask`, on its own -/
def reviveAtSpawn (g : Graph) (s : State) (name : String) (p : Int) (x : Proxy) : Option Proxy :=
  match (s.hist.filter fun h => h.pt == p && h.name == name).getLast? with
  | none => some x
  | some h =>
    if h.done.isEmpty then none
    else
      let y := { x with status := h.status, submitNum := h.submitNum, done := h.done }
      if h.status.isFinal then
        match g.task? name with
        | some t => if isComplete t h.done then none else some y
        | none => none
      else some y

/-- the hold decision of `spawnTask`, on its own -/
def holdAtSpawn (s : State) (name : String) (p : Int) (y : Proxy) : State × Proxy :=
  if s.tasksToHold.contains (name, p) then (s, y.reset (held := some true))
  else match s.holdPoint with
    | some hp => if p > hp then
        ({ s with tasksToHold := s.tasksToHold ++ [(name, p)] }, y.reset (held := some true))
      else (s, y)
    | none => (s, y)

/-- the absolute-trigger part of `spawnTask`, on its own -/
def absAtSpawn (g : Graph) (s : State) (name : String) (y : Proxy) : Proxy :=
  match g.task? name with
  | some t => if t.hasAbs && !y.prereqsSatisfied then s.absDone.foldl (fun z a => z.satisfyMe a) y else y
  | none => y

/-- `spawnTask` in named parts -/
theorem spawnTask_eq (g : Graph) (s : State) (name : String) (p : Int) :
    spawnTask g s name p =
      (if (s.hist.filter fun h => h.pt == p && h.name == name).getLast?.isNone && p < g.start then (s, none)
       else match mkProxy g name p with
        | none => (s, none)
        | some x =>
          match reviveAtSpawn g s name p x with
          | none => (s, none)
          | some y => ((holdAtSpawn s name p y).1, some (absAtSpawn g (holdAtSpawn s name p y).1 name (holdAtSpawn s name p y).2))) := by
  unfold spawnTask reviveAtSpawn holdAtSpawn absAtSpawn
  rfl

theorem reviveAtSpawn_sw {g : Graph} {s : State} {n : String} {p : Int} {x y : Proxy}
    (h : reviveAtSpawn g s n p x = some y) : y.wjp = x.wjp ∧ (s.hist = [] → y.status = x.status) := by
  unfold reviveAtSpawn at h
  split at h
  · simp only [Option.some.injEq] at h; subst h; exact ⟨rfl, fun _ => rfl⟩
  · rename_i hh hhist
    have hne : s.hist = [] → False := by
      intro he
      rw [he] at hhist
      simp at hhist
    split at h
    · simp at h
    · simp only at h
      split at h
      · split at h
        · split at h
          · simp at h
          · simp only [Option.some.injEq] at h; subst h; exact ⟨rfl, fun he => (hne he).elim⟩
        · simp at h
      · simp only [Option.some.injEq] at h; subst h; exact ⟨rfl, fun he => (hne he).elim⟩

theorem absAtSpawn_sw (g : Graph) (s : State) (n : String) (y : Proxy) :
    (absAtSpawn g s n y).status = y.status ∧ (absAtSpawn g s n y).wjp = y.wjp := by
  unfold absAtSpawn
  split
  · split
    · exact foldl_satisfyMe_sw _ _
    · exact ⟨rfl, rfl⟩
  · exact ⟨rfl, rfl⟩

theorem holdAtSpawn_sw (s : State) (n : String) (p : Int) (y : Proxy) :
    (holdAtSpawn s n p y).2.status = y.status ∧ (holdAtSpawn s n p y).2.wjp = y.wjp := by
  unfold holdAtSpawn
  split
  · exact ⟨reset_status_none _ _ _ _, reset_wjp _ _ _ _ _⟩
  · split
    · split
      · exact ⟨reset_status_none _ _ _ _, reset_wjp _ _ _ _ _⟩
      · exact ⟨rfl, rfl⟩
    · exact ⟨rfl, rfl⟩

/-- a newly spawned proxy does not wait on job preparation; with an empty DB history it is `waiting` -/
theorem spawnTask_fresh {g : Graph} {s : State} {n : String} {p : Int} {y : Proxy}
    (h : (spawnTask g s n p).2 = some y) : y.wjp = false ∧ (s.hist = [] → y.status = .waiting) := by
  rw [spawnTask_eq] at h
  split at h
  · simp at h
  · split at h
    · simp at h
    · rename_i x hx
      obtain ⟨hx1, hx2⟩ := mkProxy_fresh hx
      split at h
      · simp at h
      · rename_i y1 hy1
        obtain ⟨hr1, hr2⟩ := reviveAtSpawn_sw hy1
        obtain ⟨hh1, hh2⟩ := holdAtSpawn_sw s n p y1
        obtain ⟨ha1, ha2⟩ := absAtSpawn_sw g (holdAtSpawn s n p y1).1 n (holdAtSpawn s n p y1).2
        simp only [Option.some.injEq] at h
        subst h
        exact ⟨ha2.trans (hh2.trans (hr1.trans hx2)), fun he => ha1.trans (hh1.trans ((hr2 he).trans hx1))⟩

theorem spawnTask_hist (g : Graph) (s : State) (n : String) (p : Int) : (spawnTask g s n p).1.hist = s.hist := by
  rw [spawnTask_eq]
  split
  · rfl
  · split
    · rfl
    · split
      · rfl
      · simp only
        unfold holdAtSpawn
        split
        · rfl
        · split
          · split <;> rfl
          · rfl

/-- same instance, same status, same job-preparation flag -/
def SameKSW (x y : Proxy) : Prop := (y.pt, y.name) = (x.pt, x.name) ∧ y.status = x.status ∧ y.wjp = x.wjp

theorem SameKSW.refl (x : Proxy) : SameKSW x x := ⟨rfl, rfl, rfl⟩
theorem SameKSW.trans {x y z : Proxy} (h1 : SameKSW x y) (h2 : SameKSW y z) : SameKSW x z :=
  ⟨h2.1.trans h1.1, h2.2.1.trans h1.2.1, h2.2.2.trans h1.2.2⟩

theorem countsActive_of_same {x y : Proxy} (h : SameKSW x y) : y.countsActive = x.countsActive := by
  unfold Proxy.countsActive; rw [h.2.1, h.2.2]

/-- `t` keeps every proxy of `s` with its status and job-preparation flag; what is new in `t` is not
waiting on job preparation -/
def PreRel (s t : State) : Prop :=
  (∀ x ∈ s.pool, ∃ y ∈ t.pool, SameKSW x y) ∧
  (∀ y ∈ t.pool, (∃ x ∈ s.pool, SameKSW x y) ∨ (y.wjp = false ∧ (s.hist = [] → y.status = .waiting))) ∧
  t.hist = s.hist

theorem PreRel.refl (s : State) : PreRel s s :=
  ⟨fun x hx => ⟨x, hx, SameKSW.refl x⟩, fun y hy => Or.inl ⟨y, hy, SameKSW.refl y⟩, rfl⟩

theorem PreRel.trans {a b c : State} (h1 : PreRel a b) (h2 : PreRel b c) : PreRel a c := by
  refine ⟨?_, ?_, h2.2.2.trans h1.2.2⟩
  · intro x hx
    obtain ⟨y, hy, hxy⟩ := h1.1 x hx
    obtain ⟨z, hz, hyz⟩ := h2.1 y hy
    exact ⟨z, hz, hxy.trans hyz⟩
  · intro z hz
    rcases h2.2.1 z hz with ⟨y, hy, hyz⟩ | ⟨hw, hs⟩
    · rcases h1.2.1 y hy with ⟨x, hx, hxy⟩ | ⟨hw, hs⟩
      · exact Or.inl ⟨x, hx, hxy.trans hyz⟩
      · exact Or.inr ⟨hyz.2.2.trans hw, fun he => hyz.2.1.trans (hs he)⟩
    · exact Or.inr ⟨hw, fun he => hs (by rw [h1.2.2]; exact he)⟩

theorem prerel_of_pool {s t : State} (hp : t.pool = s.pool) (hh : t.hist = s.hist) : PreRel s t := by
  refine ⟨?_, ?_, hh⟩
  · intro x hx; exact ⟨x, by rw [hp]; exact hx, SameKSW.refl x⟩
  · intro y hy; exact Or.inl ⟨y, by rw [← hp]; exact hy, SameKSW.refl y⟩

theorem mem_put_self {s : State} {x z : Proxy} (h : z ∈ s.pool) (hk : z.pt = x.pt ∧ z.name = x.name) :
    x ∈ (s.put x).pool := by
  unfold State.put
  simp only [List.mem_map]
  refine ⟨z, h, ?_⟩
  simp [hk.1, hk.2]

/-- replacing a pooled proxy by one with the same key, status and job-preparation flag -/
theorem prerel_put {s : State} {x x' : Proxy} (hn : NoDup s) (hx : x ∈ s.pool) (hk : SameKSW x x') :
    PreRel s (s.put x') := by
  refine ⟨?_, ?_, rfl⟩
  · intro z hz
    by_cases hzk : z.pt = x'.pt ∧ z.name = x'.name
    · -- z is the replaced proxy: by NoDup z = x
      have : z = x := by
        apply nodup_key_inj hn hz hx
        have := hk.1
        simp only [Prod.mk.injEq] at this ⊢
        exact ⟨hzk.1.trans this.1, hzk.2.trans this.2⟩
      subst this
      exact ⟨x', mem_put_self hz hzk, hk⟩
    · exact ⟨z, mem_put_of_ne hz hzk, SameKSW.refl z⟩
  · intro y hy
    rcases mem_put hy with ⟨rfl, _⟩ | ⟨hy0, _⟩
    · exact Or.inl ⟨x, hx, hk⟩
    · exact Or.inl ⟨y, hy0, SameKSW.refl y⟩

theorem prerel_add {s : State} {y : Proxy} (hw : y.wjp = false) (hs : s.hist = [] → y.status = .waiting) :
    PreRel s (s.add y) := by
  refine ⟨?_, ?_, ?_⟩
  · intro x hx; exact ⟨x, mem_add_of_mem hx, SameKSW.refl x⟩
  · intro z hz
    rcases mem_add hz with hz | rfl
    · exact Or.inl ⟨z, hz, SameKSW.refl z⟩
    · exact Or.inr ⟨hw, hs⟩
  · unfold State.add; split <;> rfl

/-- `Keep` together with `PreRel` from a fixed earlier state -/
def PK (c : Graph × List (Int × String × Nat) × List LQ) (s0 st : State) : Prop := Keep c st ∧ PreRel s0 st

theorem pk_of_eq {c} {s0 st t : State} (hp : t.pool = st.pool) (hs : sp t = sp st) (hh : t.hist = st.hist)
    (h : PK c s0 st) : PK c s0 t :=
  ⟨keep_of_eq hp hs h.1, h.2.trans (prerel_of_pool hp hh)⟩

theorem pk_put {c} {s0 st : State} {x x' : Proxy} (h : PK c s0 st) (hx : x ∈ st.pool) (hk : SameKSW x x') :
    PK c s0 (st.put x') :=
  ⟨keep_put _ _ h.1, h.2.trans (prerel_put h.1.1 hx hk)⟩

theorem pk_spawnAndAdd {c} {s0 st : State} (g : Graph) (n : String) (p : Int) (h : PK c s0 st) :
    PK c s0 (spawnAndAdd g st n p) := by
  unfold spawnAndAdd
  split
  · exact h
  · have hk := keep_spawnTask g st n p h.1
    have hf := spawnTask_frame g st n p
    have hh := spawnTask_hist g st n p
    have hfresh := @spawnTask_fresh g st n p
    generalize spawnTask g st n p = r at hk hf hh hfresh
    obtain ⟨st1, child⟩ := r
    simp only at hk hf hh hfresh ⊢
    have hpk1 : PK c s0 st1 := ⟨hk, h.2.trans (prerel_of_pool hf.1 hh)⟩
    cases child with
    | none => exact hpk1
    | some x =>
      obtain ⟨hw, hs⟩ := hfresh rfl
      refine ⟨keep_add _ _ hk, hpk1.2.trans (prerel_add hw ?_)⟩
      intro he
      exact hs (by rw [← hh]; exact he)

theorem pk_spawnNextParentless {c} {s0 st : State} (g : Graph) (x : Proxy) (h : PK c s0 st) :
    PK c s0 (spawnNextParentless g st x) := by
  unfold spawnNextParentless
  split
  · exact h
  · split
    · exact pk_spawnAndAdd g _ _ h
    · exact h

theorem hist_computeRunahead (g : Graph) (s : State) (f : Bool) : (computeRunahead g s f).hist = s.hist := by
  unfold computeRunahead
  simp only
  split
  · rfl
  · split <;> rfl

theorem same_reset_flags (y : Proxy) (b c d : Option Bool) : SameKSW y (y.reset none b c d) :=
  ⟨by simp, reset_status_none _ _ _ _, reset_wjp _ _ _ _ _⟩

theorem pk_releaseRunahead {c} {s0 st : State} (g : Graph) (h : PK c s0 st) : PK c s0 (releaseRunahead g st).1 := by
  unfold releaseRunahead
  split
  · exact h
  · split
    · exact h
    · simp only
      apply foldl_inv (PK c s0) _ _ _ _ h
      intro st1 x hst
      apply pk_spawnNextParentless
      split
      · rename_i y hy
        exact pk_put hst (get?_some_mem hy).1 (same_reset_flags y _ _ _)
      · exact hst

theorem hist_checkStalled (g : Graph) (s : State) : (checkStalled g s).hist = s.hist := by
  unfold checkStalled
  split
  · rfl
  · split
    · rfl
    · split <;> rfl

theorem hist_shutdownBlock (g : Graph) (s : State) : (shutdownBlock g s).hist = s.hist := by
  have h1 : (stopTaskDone s).1.hist = s.hist := by unfold stopTaskDone; split <;> rfl
  have h2 : ∀ t : State, (checkAutoShutdown g t).1.hist = t.hist := by
    intro t
    unfold checkAutoShutdown
    split
    · rfl
    · simp only
      split
      · exact hist_checkStalled g t
      · split
        · exact hist_checkStalled g t
        · exact hist_checkStalled g t
  unfold shutdownBlock
  split
  · split
    · exact h1
    · split
      · exact (h2 _).trans h1
      · exact (h2 _).trans h1
  · rfl

theorem pk_preLoop {c} {s0 st : State} (g : Graph) (h : PK c s0 st) : PK c s0 (preLoop g st) := by
  unfold preLoop
  have h1 : PK c s0 (computeRunahead g st) :=
    pk_of_eq (computeRunahead_frame g st false).1 (computeRunahead_frame g st false).2 (hist_computeRunahead g st false) h
  have h2 := pk_releaseRunahead g h1
  exact pk_of_eq (shutdownBlock_frame g _).1 (shutdownBlock_frame g _).2 (hist_shutdownBlock g _) h2

theorem pk_queueIfReady {c} {s0 st : State} {y : Proxy} (h : PK c s0 st) (hy : y ∈ st.pool) :
    PK c s0 (queueIfReady st y) := by
  unfold queueIfReady
  split
  · have h1 := pk_put h hy (same_reset_flags y (some true) none none)
    exact ⟨keep_push _ _ h1.1, h1.2.trans (prerel_of_pool rfl rfl)⟩
  · exact h

theorem pk_sweepQueue {c} {s0 st : State} (h : PK c s0 st) : PK c s0 (sweepQueue st) := by
  unfold sweepQueue
  apply foldl_inv (PK c s0) _ _ _ _ h
  intro st1 x hst
  split
  · rename_i y hy
    split
    · have hym := (get?_some_mem hy).1
      have hk : SameKSW y { y with retryWait := false } := ⟨rfl, rfl, rfl⟩
      have h1 := pk_put hst hym hk
      apply pk_queueIfReady h1
      exact mem_put_self hym ⟨rfl, rfl⟩
    · exact hst
  · exact hst

/-- before the release step of a main loop: every proxy is still there with its status and job-preparation
flag, and what was spawned meanwhile does not wait on job preparation -/
theorem prerel_beforeRelease {c} (g : Graph) (s : State) (h : Keep c s) :
    PK c s (sweepQueue (preLoop g s)) :=
  pk_sweepQueue (pk_preLoop g ⟨h, PreRel.refl s⟩)

theorem pk_releaseRunaheadN {c} {s0 : State} (g : Graph) : ∀ (n : Nat) (st : State), PK c s0 st →
    PK c s0 (releaseRunaheadN g n st) := by
  intro n; induction n with
  | zero => intro st h; exact h
  | succ n ih =>
    intro st h
    unfold releaseRunaheadN
    simp only
    split
    · exact ih _ (pk_releaseRunahead g h)
    · exact pk_releaseRunahead g h

/-- the empty state `load_from_point` starts from -/
def emptyState (g : Graph) : State :=
  { stopPoint := g.stopPoint, qs := g.queues.map fun q => { name := q.name, limit := q.limit, members := q.members } }

theorem pk_loadFromPoint (g : Graph) : PK (g, [], freshQs g) (emptyState g) (loadFromPoint g) := by
  unfold loadFromPoint
  simp only
  have h0 : PK (g, [], freshQs g) (emptyState g) (emptyState g) := ⟨nodup_empty g _, PreRel.refl _⟩
  have h1 : PK (g, [], freshQs g) (emptyState g) (g.tasks.foldl (fun st t =>
      match t.firstParentless with
      | some p => spawnAndAdd g st t.name p
      | none => st) (emptyState g)) := by
    apply foldl_inv (PK _ _) _ _ _ _ h0
    intro st t hst
    split
    · exact pk_spawnAndAdd g _ _ hst
    · exact hst
  have h2 := pk_releaseRunaheadN g 10 _
    (pk_of_eq (computeRunahead_frame g _ false).1 (computeRunahead_frame g _ false).2 (hist_computeRunahead g _ false) h1)
  apply foldl_inv (PK _ _) _ _ _ _ h2
  intro st x hst
  split
  · rename_i y hy
    exact pk_queueIfReady hst (get?_some_mem hy).1
  · exact hst

/-- at start-up nothing is active -/
theorem init_no_active (g : Graph) : ∀ x ∈ (init g).pool, x.countsActive = false := by
  intro x hx
  have h := (pk_loadFromPoint g).2
  rcases h.2.1 x hx with ⟨z, hz, _⟩ | ⟨hw, hs⟩
  · simp [emptyState] at hz
  · have hst := hs rfl
    simp [Proxy.countsActive, hw, hst]

theorem act_init (g : Graph) (members : List String) : act (init g) members = 0 := by
  unfold act actList
  rw [List.length_eq_zero_iff]
  apply List.filter_eq_nil_iff.mpr
  intro x hx
  simp [init_no_active g x hx]

/-! ### `Inv_queue`: limits along runs -/

/-- no out-of-band activation in the step from `s` to `s'`: every proxy that counts as active afterwards
counted as active before, or was launched (released by its queue and prepared) in this step -/
def NoOobStep (s s' : State) : Prop :=
  ∀ y ∈ s'.pool, y.countsActive = true →
    (∃ x ∈ s.pool, (x.pt, x.name) = (y.pt, y.name) ∧ x.countsActive = true) ∨
    (∃ e ∈ s'.launched, (e.1, e.2.1) = (y.pt, y.name))

/-- every limited queue is within its limit -/
def LimitOK (g : Graph) (s : State) : Prop := ∀ q ∈ g.queues, 0 < q.limit → act s q.members ≤ q.limit

theorem lq_of_qdef {g : Graph} {qs : List LQ} (h : QI g qs) {q : QDef} (hq : q ∈ g.queues) :
    ∃ q' ∈ qs, q'.limit = q.limit ∧ q'.members = q.members := by
  have : q.sig ∈ qs.map LQ.sig := by rw [h.1]; exact List.mem_map.mpr ⟨q, hq, rfl⟩
  obtain ⟨q', hq', he⟩ := List.mem_map.mp this
  unfold LQ.sig QDef.sig at he
  simp only [Prod.mk.injEq] at he
  exact ⟨q', hq', he.2.1, he.2.2⟩

theorem name_of_key {x y : Proxy} (h : (x.pt, x.name) = (y.pt, y.name)) : x.name = y.name :=
  congrArg Prod.snd h

/-- without launches, a step without out-of-band activation cannot raise any active count -/
theorem act_le_of_no_launch {s s' : State} (members : List String) (hnd : NoDup s')
    (hl : s'.launched = []) (hno : NoOobStep s s') : act s' members ≤ act s members := by
  have := act_le_of_keys (s := s) (t := s') (members := members) (extra := []) hnd (by
    intro y hy
    left
    have hy' := List.mem_filter.mp hy
    have hm := hy'.2
    simp only [Bool.and_eq_true] at hm
    rcases hno y hy'.1 hm.1 with ⟨x, hx, hk, hc⟩ | ⟨e, he, _⟩
    · refine ⟨x, List.mem_filter.mpr ⟨hx, ?_⟩, hk⟩
      simp only [Bool.and_eq_true]
      exact ⟨hc, by rw [name_of_key hk]; exact hm.2⟩
    · rw [hl] at he; simp at he)
  simpa using this

theorem act_of_pool_eq {s t : State} (h : t.pool = s.pool) (members : List String) : act t members = act s members := by
  unfold act actList; rw [h]

/-- **one step keeps every queue within its limit**, provided nothing is activated out of band -/
theorem limit_step {g : Graph} (hi : IndepSig (g.queues.map QDef.sig)) {s : State} (hk : KeepQ g s) (op : Op)
    (hno : NoOobStep s (step g s op)) (hl : LimitOK g s) : LimitOK g (step g s op) := by
  intro q hq hlim
  have hk' := keepQ_step s op hk
  have h0 : Keep (g, [], s.qs) (clearOp s) := keep_clearOp s (keep_of_keepQ hk)
  by_cases hop : op = .loop
  · subst hop
    have hstep : step g s .loop = mainLoop g (clearOp s) := rfl
    rw [hstep] at hno hk' ⊢
    rw [mainLoop_eq] at hno hk' ⊢
    split at hno
    · -- already stopped: nothing changes
      rename_i hs
      rw [if_pos hs]
      exact Nat.le_trans (Nat.le_of_eq (act_of_pool_eq (s := s) rfl _)) (hl q hq hlim)
    · rename_i hs
      rw [if_neg hs] at hk' ⊢
      have h3 := keep_preLoop g _ h0
      split at hno
      · -- shutdown: no launch
        rename_i hcs
        rw [if_pos hcs] at hk' ⊢
        exact Nat.le_trans (act_le_of_no_launch q.members hk'.1 (keep_launched h3) hno) (hl q hq hlim)
      · rename_i hcs
        rw [if_neg hcs] at hk' ⊢
        have hpk := prerel_beforeRelease g _ h0
        generalize hs2 : sweepQueue (preLoop g (clearOp s)) = s2 at hpk hno hk' ⊢
        have hk2 : KeepQ g s2 := keepQ_of_keep hpk.1
        have hl2 : s2.launched = [] := keep_launched hpk.1
        -- the launch log after the loop is the one after the release step
        have hlaunch : (finishLoop g (processQueue g (relStep s2))).launched = (relStep s2).launched := by
          have := keep_finishLoop g _ (keep_processQueue g _ (keep_of_keepQ (g := g) (s := relStep s2)
            (keepQ_relStep hk2)))
          exact keep_launched this
        -- active members of `s` are still active members before the release step
        have hle2 : act s q.members ≤ act s2 q.members := by
          have := act_le_of_keys (s := s2) (t := s) (members := q.members) (extra := []) hk.1 (by
            intro y hy
            left
            have hy' := List.mem_filter.mp hy
            obtain ⟨z, hz, hyz⟩ := hpk.2.1 y hy'.1
            refine ⟨z, List.mem_filter.mpr ⟨hz, ?_⟩, hyz.1⟩
            rw [countsActive_of_same hyz, name_of_key hyz.1]
            exact hy'.2)
          simpa using this
        obtain ⟨q', hq', hql, hqm⟩ := lq_of_qdef hk2.2 hq
        obtain ⟨relq, hlimit, hlog⟩ := relStep_spec hk2 hi q' hq' (by rw [hql]; exact hlim)
        rw [hqm, hql] at hlimit
        rw [hqm] at hlog
        -- every active member after the loop was active before it, or was released by this queue
        have hcount : act (finishLoop g (processQueue g (relStep s2))) q.members ≤
            act s q.members + relq.length := by
          apply act_le_of_keys hk'.1
          intro y hy
          have hy' := List.mem_filter.mp hy
          have hm := hy'.2
          simp only [Bool.and_eq_true] at hm
          rcases hno y hy'.1 hm.1 with ⟨x, hx, hxk, hc⟩ | ⟨e, he, hek⟩
          · left
            refine ⟨x, List.mem_filter.mpr ⟨hx, ?_⟩, hxk⟩
            simp only [Bool.and_eq_true]
            exact ⟨hc, by rw [name_of_key hxk]; exact hm.2⟩
          · rw [hlaunch] at he
            rcases hlog e he with he | he | ⟨x2, hx2, hw2, hk2e⟩
            · rw [hl2] at he; simp at he
            · right
              rw [← hek]
              apply he
              have : e.2.1 = y.name := congrArg Prod.snd hek
              rw [this]; exact hm.2
            · -- a proxy that was waiting on job preparation before the release step: it was so before the loop
              left
              rcases hpk.2.2.1 x2 hx2 with ⟨x, hx, hxs⟩ | ⟨hwf, _⟩
              · have hxw : x.wjp = true := by rw [← hxs.2.2]; exact hw2
                refine ⟨x, List.mem_filter.mpr ⟨hx, ?_⟩, ?_⟩
                · simp only [Bool.and_eq_true]
                  refine ⟨by simp [Proxy.countsActive, hxw], ?_⟩
                  have : x.name = y.name := by
                    have e1 := name_of_key hxs.1
                    have e2 := name_of_key (hk2e.trans hek)
                    rw [← e2, e1]
                  rw [this]; exact hm.2
                · exact hxs.1.symm.trans (hk2e.trans hek)
              · rw [hw2] at hwf; cases hwf
        rcases hlimit with hnil | hle
        · rw [hnil] at hcount
          exact Nat.le_trans hcount (hl q hq hlim)
        · exact Nat.le_trans hcount (Nat.le_trans (Nat.add_le_add_right hle2 _) hle)
  · -- any other operation launches nothing
    have hlaunched : (step g s op).launched = [] := by
      unfold step
      cases op with
      | loop => exact absurd rfl hop
      | subres p n ok sn => exact keep_launched (keep_processMessage g _ _ _ _ _ _ _ h0)
      | msg p n sn text => rfl
      | hold ids => exact keep_launched (keep_holdTasks _ _ h0)
      | release ids => exact keep_launched (keep_releaseTasks _ _ h0)
      | setHoldPoint p => exact keep_launched (keep_setHoldPoint _ _ h0)
      | releaseHoldPoint => exact keep_launched (keep_releaseHoldPoint _ h0)
      | stop mode => rfl
      | stopPoint p => exact keep_launched (keep_setStopPoint _ _ h0)
      | stopTask p n => rfl
      | pause => rfl
      | resume => rfl
      | restart => exact keep_launched (keep_restart g _ (keepQ_of_keep h0))
      | trigger ids => exact keep_launched (keep_triggerTasks g _ ids h0)
    exact Nat.le_trans (act_le_of_no_launch q.members hk'.1 hlaunched hno) (hl q hq hlim)

/-- no out-of-band activation along a whole op list, starting from `s` -/
def NoOobFrom (g : Graph) : State → List Op → Prop
  | _, [] => True
  | s, op :: ops => NoOobStep s (step g s op) ∧ NoOobFrom g (step g s op) ops

/-- all limits hold in every state of a run without out-of-band activation -/
theorem limit_run {g : Graph} (hi : IndepSig (g.queues.map QDef.sig)) (ops : List Op)
    (hno : NoOobFrom g (init g) ops) : ∀ s ∈ run g ops, LimitOK g s := by
  unfold run
  have key : ∀ (ops : List Op) (acc : List State) (cur : State),
      (∀ t ∈ acc, LimitOK g t) → KeepQ g cur → LimitOK g cur → NoOobFrom g cur ops →
      ∀ t ∈ (ops.foldl (fun (a : List State × State) op =>
          let s' := step g a.2 op; (a.1 ++ [s'], s')) (acc, cur)).1, LimitOK g t := by
    intro ops
    induction ops with
    | nil => intro acc cur hacc _ _ _ t ht; exact hacc t ht
    | cons op ops ih =>
      intro acc cur hacc hk hl hno
      simp only [List.foldl_cons]
      obtain ⟨hno1, hno2⟩ := hno
      have hl' := limit_step hi hk op hno1 hl
      apply ih _ _ _ (keepQ_step cur op hk) hl' hno2
      intro t ht
      rcases List.mem_append.mp ht with h | h
      · exact hacc t h
      · simp at h; subst h; exact hl'
  have h0 : LimitOK g (init g) := by
    intro q _ _
    rw [act_init]; exact Nat.zero_le _
  exact key ops [init g] (init g) (by intro t ht; simp at ht; subst ht; exact h0) (keepQ_init g) h0 hno

/-- the state reached after an op list -/
def final (g : Graph) (ops : List Op) : State := ops.foldl (step g) (init g)

/-- the final state is a state of the run -/
theorem final_mem_run (g : Graph) (ops : List Op) : final g ops ∈ run g ops := by
  unfold run final
  have key : ∀ (ops : List Op) (acc : List State) (cur : State), cur ∈ acc →
      ops.foldl (step g) cur ∈ (ops.foldl (fun (a : List State × State) op =>
          let s' := step g a.2 op; (a.1 ++ [s'], s')) (acc, cur)).1 := by
    intro ops
    induction ops with
    | nil => intro acc cur h; exact h
    | cons op ops ih =>
      intro acc cur _
      simp only [List.foldl_cons]
      apply ih
      simp
  exact key ops [init g] (init g) (by simp)

/-- executable form of `NoOobStep` -/
def noOobStepB (s s' : State) : Bool :=
  s'.pool.all fun y => !y.countsActive ||
    (s.pool.any fun x => x.pt == y.pt && x.name == y.name && x.countsActive) ||
    (s'.launched.any fun e => e.1 == y.pt && e.2.1 == y.name)

def noOobFromB (g : Graph) : State → List Op → Bool
  | _, [] => true
  | s, op :: ops => noOobStepB s (step g s op) && noOobFromB g (step g s op) ops

theorem noOobStep_of_B {s s' : State} (h : noOobStepB s s' = true) : NoOobStep s s' := by
  intro y hy hc
  unfold noOobStepB at h
  have := List.all_eq_true.mp h y hy
  simp only [hc, Bool.not_true, Bool.false_or, Bool.or_eq_true, List.any_eq_true, Bool.and_eq_true, beq_iff_eq] at this
  rcases this with ⟨x, hx, ⟨h1, h2⟩, h3⟩ | ⟨e, he, h1, h2⟩
  · exact Or.inl ⟨x, hx, by rw [h1, h2], h3⟩
  · exact Or.inr ⟨e, he, by rw [h1, h2]⟩

theorem noOobFrom_of_B (g : Graph) : ∀ (ops : List Op) (s : State), noOobFromB g s ops = true → NoOobFrom g s ops := by
  intro ops
  induction ops with
  | nil => intro s _; trivial
  | cons op ops ih =>
    intro s h
    unfold noOobFromB at h
    simp only [Bool.and_eq_true] at h
    exact ⟨noOobStep_of_B h.1, ih _ h.2⟩

/-! ### Queue order along runs: who stays keeps his place, who joins lines up at the end -/

theorem qstep_releaseQueues (isHeld : Key → Bool) : ∀ (qs : List LQ) (active : List String),
    QStep qs (releaseQueues isHeld qs active).1 := by
  intro qs
  induction qs with
  | nil => intro active; exact QStep.nil
  | cons q rest ih =>
    intro active
    unfold releaseQueues
    simp only
    refine QStep.cons rfl ?_ (ih _)
    apply (Tail.refl _).of_sublist
    obtain ⟨_, h2, h3⟩ := releaseLoop_spec q.limit isHeld q.deque (nActive active q.members)
    rw [h2, h3]
    have : ((q.deque.take (popCount q.limit isHeld q.deque (nActive active q.members))).filter isHeld ++
        q.deque.drop (popCount q.limit isHeld q.deque (nActive active q.members))).Sublist
        (q.deque.take (popCount q.limit isHeld q.deque (nActive active q.members)) ++
          q.deque.drop (popCount q.limit isHeld q.deque (nActive active q.members))) :=
      List.Sublist.append List.filter_sublist (List.Sublist.refl _)
    rw [List.take_append_drop] at this
    exact this

theorem qs_releaseQueued (s : State) :
    (releaseQueued s).1.qs = (releaseQueues s.isHeldKey s.qs (countActive s)).1 := by
  rw [releaseQueued_eq]
  exact congrArg Prod.fst (markFold_frame _ _).2

theorem qs_prepFold : ∀ (l : List Key) (st : State), (l.foldl prepSubmit st).qs = st.qs := by
  intro l
  induction l with
  | nil => intro st; rfl
  | cons k l ih => intro st; simp only [List.foldl_cons]; rw [ih]; exact (prepSubmit_frame st k).2

theorem qstep_releaseAndSubmit (s : State) : QStep s.qs (releaseAndSubmit s).qs := by
  have h1 : QStep s.qs (releaseQueued s).1.qs := by rw [qs_releaseQueued]; exact qstep_releaseQueues _ _ _
  rw [releaseAndSubmit_eq]
  split
  · exact h1
  · show QStep s.qs (List.foldl prepSubmit (releaseQueued s).1 (todoOf s)).qs
    rw [qs_prepFold]; exact h1

theorem qstep_relStep (s : State) : QStep s.qs (relStep s).qs := by
  unfold relStep
  split
  · split
    · rw [submitWjp_eq]
      split
      · exact QStep.refl _
      · show QStep s.qs (List.foldl prepSubmit s _).qs
        rw [qs_prepFold]; exact QStep.refl _
    · exact qstep_releaseAndSubmit s
  · exact QStep.refl _

theorem qstep_mainLoop {g : Graph} (s : State) (h : KeepQ g s) : QStep s.qs (mainLoop g s).qs := by
  rw [mainLoop_eq]
  split
  · exact QStep.refl _
  · have h3 := keep_preLoop g s (keep_of_keepQ h)
    split
    · exact keep_qstep (keep_of_eq (s := preLoop g s) rfl rfl h3)
    · have h4 := keep_sweepQueue _ h3
      have h5 : Keep (g, (relStep (sweepQueue (preLoop g s))).launched, s.qs) (relStep (sweepQueue (preLoop g s))) := by
        have hk := keepQ_relStep (keepQ_of_keep h4)
        exact ⟨hk.1, hk.2, rfl, (keep_qstep h4).trans (qstep_relStep _)⟩
      exact keep_qstep (keep_finishLoop g _ (keep_processQueue g _ h5))

/-- **queue order over one operation**: every queue keeps its name, limit and members; the tasks that are still
queued afterwards are in the order they had before, and every task queued by the operation is behind them -/
theorem qstep_step {g : Graph} (s : State) (op : Op) (h : KeepQ g s) : QStep s.qs (step g s op).qs := by
  have h0 : Keep (g, [], s.qs) (clearOp s) := keep_clearOp s (keep_of_keepQ h)
  unfold step
  cases op with
  | loop => exact qstep_mainLoop _ (keepQ_of_keep h0)
  | subres p n ok sn => exact keep_qstep (keep_processMessage g _ _ _ _ _ _ _ h0)
  | msg p n sn text => exact QStep.refl _
  | hold ids => exact keep_qstep (keep_holdTasks _ _ h0)
  | release ids => exact keep_qstep (keep_releaseTasks _ _ h0)
  | setHoldPoint p => exact keep_qstep (keep_setHoldPoint _ _ h0)
  | releaseHoldPoint => exact keep_qstep (keep_releaseHoldPoint _ h0)
  | stop mode => exact QStep.refl _
  | stopPoint p => exact keep_qstep (keep_setStopPoint _ _ h0)
  | stopTask p n => exact QStep.refl _
  | pause => exact QStep.refl _
  | resume => exact QStep.refl _
  | restart => exact keep_qstep (keep_restart g _ (keepQ_of_keep h0))
  | trigger ids => exact keep_qstep (keep_triggerTasks g _ ids h0)

/-- only a main loop launches jobs -/
theorem launched_step_of_ne_loop {g : Graph} {s : State} (h : KeepQ g s) (op : Op) (hne : op ≠ .loop) :
    (step g s op).launched = [] := by
  have h0 : Keep (g, [], s.qs) (clearOp s) := keep_clearOp s (keep_of_keepQ h)
  unfold step
  cases op with
  | loop => exact absurd rfl hne
  | subres p n ok sn => exact keep_launched (keep_processMessage g _ _ _ _ _ _ _ h0)
  | msg p n sn text => rfl
  | hold ids => exact keep_launched (keep_holdTasks _ _ h0)
  | release ids => exact keep_launched (keep_releaseTasks _ _ h0)
  | setHoldPoint p => exact keep_launched (keep_setHoldPoint _ _ h0)
  | releaseHoldPoint => exact keep_launched (keep_releaseHoldPoint _ h0)
  | stop mode => rfl
  | stopPoint p => exact keep_launched (keep_setStopPoint _ _ h0)
  | stopTask p n => rfl
  | pause => rfl
  | resume => rfl
  | restart => exact keep_launched (keep_restart g _ (keepQ_of_keep h0))
  | trigger ids => exact keep_launched (keep_triggerTasks g _ ids h0)

/-! ### Manual trigger against the limits -/

theorem pushIfLimited_false (k : Key) (active : List String) : ∀ (qs : List LQ),
    (pushIfLimited k active qs).2 = false →
    ∀ q ∈ qs, ¬ ((q.limit != 0 && decide (nActive active q.members ≥ q.limit) && q.members.contains k.2) = true) := by
  intro qs
  induction qs with
  | nil => intro _ q hq; simp at hq
  | cons q0 rest ih =>
    intro h q hq
    unfold pushIfLimited at h
    split at h
    · simp at h
    · rename_i hc
      rcases List.mem_cons.mp hq with rfl | hq
      · exact hc
      · exact ih h q hq

/-- replacing a pooled proxy by one with the same key that counts as active only if the old one did: no queue
gains an active member -/
theorem act_put_le {s : State} {x y : Proxy} (hn : NoDup s) (hx : x ∈ s.pool)
    (hk : (y.pt, y.name) = (x.pt, x.name)) (hc : y.countsActive = true → x.countsActive = true)
    (members : List String) : act (s.put y) members ≤ act s members := by
  have := act_le_of_keys (s := s) (t := s.put y) (members := members) (extra := [])
    (by unfold NoDup; rw [keys_put]; exact hn) (by
      intro z hz
      left
      have hz' := List.mem_filter.mp hz
      have hm := hz'.2
      simp only [Bool.and_eq_true] at hm
      rcases mem_put hz'.1 with ⟨rfl, _⟩ | ⟨hz0, _⟩
      · refine ⟨x, List.mem_filter.mpr ⟨hx, ?_⟩, hk.symm⟩
        simp only [Bool.and_eq_true]
        have hn' : z.name = x.name := congrArg Prod.snd hk
        exact ⟨hc hm.1, by rw [← hn']; exact hm.2⟩
      · exact ⟨z, List.mem_filter.mpr ⟨hz0, hz'.2⟩, rfl⟩)
  simpa using this

/-- replacing a pooled proxy by one with the same key: at most one more active member -/
theorem act_put_le_succ {s : State} {x y : Proxy} (hn : NoDup s)
    (hk : (y.pt, y.name) = (x.pt, x.name)) (members : List String) :
    act (s.put y) members ≤ act s members + 1 := by
  have := act_le_of_keys (s := s) (t := s.put y) (members := members) (extra := [(x.pt, x.name)])
    (by unfold NoDup; rw [keys_put]; exact hn) (by
      intro z hz
      have hz' := List.mem_filter.mp hz
      rcases mem_put hz'.1 with ⟨rfl, _⟩ | ⟨hz0, _⟩
      · right; rw [hk]; exact List.mem_singleton.mpr rfl
      · left; exact ⟨z, List.mem_filter.mpr ⟨hz0, hz'.2⟩, rfl⟩)
  simpa using this

/-- a proxy that is not a member of the queue does not change its count -/
theorem act_put_not_member {s : State} {y : Proxy} (hn : NoDup s) (members : List String) (hm : members.contains y.name = false) :
    act (s.put y) members ≤ act s members := by
  have := act_le_of_keys (s := s) (t := s.put y) (members := members) (extra := [])
    (by unfold NoDup; rw [keys_put]; exact hn) (by
      intro z hz
      left
      have hz' := List.mem_filter.mp hz
      have hmz := hz'.2
      simp only [Bool.and_eq_true] at hmz
      rcases mem_put hz'.1 with ⟨rfl, _⟩ | ⟨hz0, _⟩
      · rw [hm] at hmz; exact absurd hmz.2 (by simp)
      · exact ⟨z, List.mem_filter.mpr ⟨hz0, hz'.2⟩, rfl⟩)
  simpa using this

theorem countActive_nActive (s : State) (members : List String) : nActive (countActive s) members = act s members :=
  nActive_countActive s members

/-- **a manual trigger of a task that is not queued respects the limit of its queue**: in any state with the run
invariants, for every queue with limit `L > 0`, after `queue_or_trigger` on a pooled, not queued proxy the queue
has at most `max L (what it had)` active members - the proxy is started only if there is room, else it is queued.
(A proxy that IS queued is taken out of its queue and runs regardless: the one legitimate way over a limit.) -/
theorem queueOrTrigger_limit {g : Graph} {s : State} (h : KeepQ g s) {x : Proxy} (hx : x ∈ s.pool)
    (hq : x.queued = false) (q : LQ) (hqm : q ∈ s.qs) (hl : 0 < q.limit) :
    act (queueOrTrigger s x) q.members ≤ max q.limit (act s q.members) := by
  have hmax := Nat.le_max_right q.limit (act s q.members)
  unfold queueOrTrigger
  split
  · -- left alone (it waits on job preparation already)
    exact Nat.le_trans (act_put_le (y := { x with manual := true }) h.1 hx rfl (fun hc => hc) q.members) hmax
  · simp only
    -- the proxy after the manual-submit flag and the reset to `waiting`
    generalize hy : ({ x with manual := true } : Proxy).reset (status := some .waiting) = y
    have hyk : (y.pt, y.name) = (x.pt, x.name) := by rw [← hy]; simp
    have hyq : y.queued = false := by
      rw [← hy]; unfold Proxy.reset; simp only; split <;> simp [hq]
    have hyw : y.wjp = x.wjp := by rw [← hy]; simp
    have hys : y.status = .waiting := by rw [← hy]; exact reset_status_some _ _ _ _ _
    have hyc : y.countsActive = true → x.countsActive = true := by
      intro hc
      simp [Proxy.countsActive, hys, hyw] at hc
      simp [Proxy.countsActive, hc]
    have h1 : act (s.put y) q.members ≤ act s q.members := act_put_le h.1 hx hyk hyc q.members
    have hn1 : NoDup (s.put y) := by unfold NoDup; rw [keys_put]; exact h.1
    have hy1 : y ∈ (s.put y).pool := mem_put_self hx ⟨(congrArg Prod.fst hyk).symm, (congrArg Prod.snd hyk).symm⟩
    have hcond : (!y.queued) = true := by simp [hyq]
    rw [if_pos hcond]
    split
    · -- its queue is full: queued, not started
      refine Nat.le_trans ?_ (Nat.le_trans h1 hmax)
      apply act_put_le (s := { s.put y with qs := (pushIfLimited (y.pt, y.name) (countActive (s.put y)) (s.put y).qs).1 })
        (x := y) (y := y.reset (queued := some true)) hn1 hy1 (by simp)
      intro hc
      simp [Proxy.countsActive] at hc ⊢
      exact hc
    · -- not pushed: there is room in every limited queue the task is a member of
      rename_i hpush
      have hpush' : (pushIfLimited (y.pt, y.name) (countActive (s.put y)) (s.put y).qs).2 = false := by
        simpa using hpush
      cases hmem : q.members.contains y.name with
      | false =>
        refine Nat.le_trans ?_ (Nat.le_trans h1 hmax)
        exact act_put_not_member (y := { y with wjp := true }) hn1 q.members hmem
      | true =>
        have hroom := pushIfLimited_false _ _ _ hpush' q hqm
        rw [countActive_nActive] at hroom
        have hlt : act (s.put y) q.members < q.limit := by
          have hl0 : (q.limit != 0) = true := by simp; omega
          simp only [hl0, hmem, Bool.true_and, Bool.and_true, decide_eq_true_eq] at hroom
          omega
        refine Nat.le_trans (act_put_le_succ (x := y) (y := { y with wjp := true }) hn1 rfl q.members) ?_
        exact Nat.le_trans hlt (Nat.le_max_left _ _)

end CylcModel.Sched3QT
