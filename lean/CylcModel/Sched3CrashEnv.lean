/-
A deterministic job environment closing the `Sched3Crash` model into runs that need no op list (used by the C20
statements that compare a killed-and-restarted run with the uninterrupted one): every job that is launched is
submitted, starts and succeeds, and its reports arrive before the next main loop; a restart is followed by the
restart poll of every pooled task that is not waiting.  Core Lean only.
-/
import CylcModel.Sched3Crash

namespace CylcModel.Sched3Crash

/-- what happens to the scheduler in one round -/
inductive Kill where
  | none                      -- an ordinary main loop
  | before                    -- the process dies right before the main loop (between ops); restart; then the loop
  | inLoop (k : Nat)          -- the main loop dies at its k-th commit boundary (if it gets that far); restart
  deriving Repr, DecidableEq, Inhabited

abbrev Job := Int × String × Nat

structure Closed where
  s : State
  launches : List Job := []                  -- every launch so far, in order
  finished : List (Int × String) := []       -- instances the committed database has recorded with a final status
  reruns : List Job := []                    -- launches of instances that were in `finished` when launched
  deriving Inhabited

def applyOps (g : Graph) (s : State) (ops : List Op) : State := ops.foldl (step g) s

/-- the reports of a job whose submission callback is alive: submitted, started, succeeded -/
def reports (j : Job) : List Op :=
  [.subres j.1 j.2.1 true j.2.2, .msg j.1 j.2.1 j.2.2 "started", .msg j.1 j.2.1 j.2.2 "succeeded"]

/-- the reports of a job whose submission callback died with the scheduler: the job itself lives on -/
def orphanReports (j : Job) : List Op :=
  [.msg j.1 j.2.1 j.2.2 "started", .msg j.1 j.2.1 j.2.2 "succeeded"]

/-- the restart poll: every pooled task that is not waiting and whose current job was launched reports its status
(all jobs have succeeded by then) -/
def pollOps (s : State) (jobs : List Job) : List Op :=
  s.pool.filterMap fun x =>
    if x.status != .waiting && jobs.contains (x.pt, x.name, x.submitNum) then
      some (.pollres x.pt x.name x.submitNum "succeeded")
    else none

/-- instances with a final status in the committed `task_states` table -/
def recordedFinished (s : State) : List (Int × String) :=
  (s.cdb.rows.filter fun r => r.status.isFinal).map fun r => (r.pt, r.name)

/-- book-keeping at the end of a round: `s1` the state right after the main loop of the round (its launches), `s2`
the state at the end of the round -/
def closeRound (c : Closed) (s1 s2 : State) : Closed :=
  { s := s2, launches := c.launches ++ s1.launched,
    reruns := c.reruns ++ s1.launched.filter (fun j => c.finished.contains (j.1, j.2.1)),
    finished := (c.finished ++ recordedFinished s2).eraseDups }

/-- one round: the main loop (with its kill point), the restart poll after a death, the reports of the jobs
launched in the round -/
def round (g : Graph) (c : Closed) (k : Kill) : Closed :=
  match k with
  | .none =>
    let s1 := step g c.s .loop
    closeRound c s1 (applyOps g s1 (s1.launched.flatMap reports))
  | .before =>
    let s0 := step g c.s .crash
    let s0 := applyOps g s0 (pollOps s0 c.launches)
    let s1 := step g s0 .loop
    closeRound c s1 (applyOps g s1 (s1.launched.flatMap reports))
  | .inLoop n =>
    let s1 := step g c.s (.loopCrash n)
    if s1.crashed then
      let s2 := applyOps g s1 (pollOps s1 (c.launches ++ s1.launched))
      closeRound c s1 (applyOps g s2 (s1.launched.flatMap orphanReports))
    else
      closeRound c s1 (applyOps g s1 (s1.launched.flatMap reports))

/-- the closed run: one round per entry of `kills` -/
def closedRun (g : Graph) (kills : List Kill) : Closed := kills.foldl (round g) { s := init g }

/-- the task instances launched by a closed run -/
def launchedKeys (c : Closed) : List (Int × String) := (c.launches.map fun j => (j.1, j.2.1)).eraseDups

def sameSet (a b : List (Int × String)) : Bool := a.all b.contains && b.all a.contains

/-- `n` uninterrupted rounds -/
def quiet (n : Nat) : List Kill := List.replicate n Kill.none

end CylcModel.Sched3Crash
