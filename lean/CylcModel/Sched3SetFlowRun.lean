/-
The flow invariant over whole runs of the `Sched3Set` model, and the freshness of `--flow=new` numbers.
-/
import CylcModel.Sched3SetFM

namespace CylcModel.Sched3Set

/-! ### the flow manager part is untouched by the main loop and the hold / stop commands -/

@[simp] theorem fm_computeRunahead (g : Graph) (s : State) (f : Bool) : fm (computeRunahead g s f) = fm s := by
  unfold computeRunahead
  simp only
  split
  · rfl
  · split <;> rfl

theorem fm_releaseRunahead (g : Graph) (s : State) : fm (releaseRunahead g s).1 = fm s := by
  unfold releaseRunahead
  split
  · rfl
  · split
    · rfl
    · simp only
      apply foldl_inv (fun st => fm st = fm s)
      · intro st x hst
        split
        · rw [fm_spawnNextParentless, fm_put]; exact hst
        · exact hst
      · rfl

theorem fm_releaseRunaheadN (g : Graph) : ∀ (k : Nat) (s : State), fm (releaseRunaheadN g k s) = fm s := by
  intro k; induction k with
  | zero => intro s; rfl
  | succ k ih =>
    intro s
    unfold releaseRunaheadN
    simp only
    split
    · rw [ih, fm_releaseRunahead]
    · exact fm_releaseRunahead g s

theorem fm_queueIfReady (s : State) (x : Proxy) : fm (queueIfReady s x) = fm s := by
  unfold queueIfReady; split <;> rfl

theorem fm_sweepQueue (s : State) : fm (sweepQueue s) = fm s := by
  unfold sweepQueue
  apply foldl_inv (fun st => fm st = fm s)
  · intro st x hst
    split
    · split
      · rw [fm_queueIfReady, fm_put]; exact hst
      · exact hst
    · exact hst
  · rfl

theorem fm_releaseAndSubmit (s : State) : fm (releaseAndSubmit s) = fm s := by
  unfold releaseAndSubmit
  simp only
  split
  · rfl
  · show fm _ = fm s
    have : ∀ (l : List Proxy) (st : State),
        fm (l.foldl (fun (st : State) x =>
          { (st.put { ((x.reset (queued := some false)).reset (status := some .preparing)) with
              submitNum := x.submitNum + 1, live := true, timers := true }) with
            launched := st.launched ++ [(x.pt, x.name, x.submitNum + 1)] }) st) = fm st := by
      intro l; induction l with
      | nil => intro st; rfl
      | cons a l ih => intro st; simp only [List.foldl_cons]; rw [ih]; rfl
    exact this _ s

theorem fm_processOne (g : Graph) (p : Int) (n : String) (acc : State × Bool) (m : Msg) :
    fm (processOne g p n acc m).1 = fm acc.1 := by
  unfold processOne
  exact fm_processMessage g 4 acc.1 p n _ _ _ false

theorem fm_processGroup (g : Graph) (st : State) (grp : (Int × String) × List Msg) : fm (processGroup g st grp) = fm st := by
  unfold processGroup
  split
  · rfl
  · dsimp only
    have hR : fm (grp.2.foldl (processOne g grp.1.1 grp.1.2) (st, false)).1 = fm st := by
      apply foldl_inv (fun (a : State × Bool) => fm a.1 = fm st)
      · intro a m ha; rw [fm_processOne]; exact ha
      · rfl
    generalize grp.2.foldl (processOne g grp.1.1 grp.1.2) (st, false) = R at hR
    split
    · exact hR
    · exact hR

theorem fm_processQueue (g : Graph) (s : State) : fm (processQueue g s) = fm s := by
  unfold processQueue
  apply foldl_inv (fun st => fm st = fm s)
  · intro st grp hst; rw [fm_processGroup]; exact hst
  · rfl

theorem fm_checkStalled (g : Graph) (s : State) : fm (checkStalled g s) = fm s := by
  unfold checkStalled
  split
  · rfl
  · split
    · rfl
    · split <;> rfl

theorem fm_checkAutoShutdown (g : Graph) (s : State) : fm (checkAutoShutdown g s).1 = fm s := by
  unfold checkAutoShutdown
  split
  · rfl
  · simp only
    split
    · exact fm_checkStalled g s
    · split
      · exact fm_checkStalled g s
      · exact fm_checkStalled g s

theorem fm_putTaskPool (s : State) : fm (putTaskPool s) = fm s := by
  unfold putTaskPool
  apply foldl_inv (fun st => fm st = fm s)
  · intro st x hst
    split
    · exact hst
    · exact hst
  · rfl

theorem fm_finishLoop (g : Graph) (s : State) : fm (finishLoop g s) = fm s := by
  unfold finishLoop
  dsimp only
  have h1 : fm (if s.pool.any (·.upd) = true then { s with restartWait := false } else s) = fm s := by
    split <;> rfl
  generalize (if s.pool.any (·.upd) = true then { s with restartWait := false } else s) = s1 at h1
  have h2 : fm (if (s.schedUpd || s.pool.any (·.upd)) = true then
      { putTaskPool s1 with stalled := false, schedUpd := false,
                            pool := (putTaskPool s1).pool.map fun x => { x with upd := false } }
    else s1) = fm s := by
    split
    · have := fm_putTaskPool s1
      rw [← h1, ← this]; rfl
    · exact h1
  generalize (if (s.schedUpd || s.pool.any (·.upd)) = true then
      { putTaskPool s1 with stalled := false, schedUpd := false,
                            pool := (putTaskPool s1).pool.map fun x => { x with upd := false } }
    else s1) = s2 at h2
  have h3 : fm (flushDb { s2 with db := some s2.pool }) = fm s := h2
  split
  · rw [fm_checkStalled]; exact h3
  · exact h3

theorem fm_stopTaskDone (s : State) : fm (stopTaskDone s).1 = fm s := by
  unfold stopTaskDone; split <;> rfl

theorem fm_mainLoop (g : Graph) (s : State) : fm (mainLoop g s) = fm s := by
  unfold mainLoop
  split
  · rfl
  · dsimp only
    have h1 : fm (releaseRunahead g (computeRunahead g s)).1 = fm s := by
      rw [fm_releaseRunahead, fm_computeRunahead]
    generalize (releaseRunahead g (computeRunahead g s)).1 = s1 at h1
    have h2 : fm (if s1.stopMode.isNone = true then
        (if (stopTaskDone s1).2 = true then { (stopTaskDone s1).1 with stopMode := some "AUTOMATIC" }
         else if (checkAutoShutdown g (stopTaskDone s1).1).2 = true then
           { (checkAutoShutdown g (stopTaskDone s1).1).1 with stopMode := some "AUTOMATIC" }
         else (checkAutoShutdown g (stopTaskDone s1).1).1)
      else s1) = fm s := by
      split
      · split
        · rw [← h1, ← fm_stopTaskDone s1]; rfl
        · split
          · rw [← h1, ← fm_stopTaskDone s1, ← fm_checkAutoShutdown g (stopTaskDone s1).1]; rfl
          · rw [fm_checkAutoShutdown, fm_stopTaskDone]; exact h1
      · exact h1
    generalize (if s1.stopMode.isNone = true then
        (if (stopTaskDone s1).2 = true then { (stopTaskDone s1).1 with stopMode := some "AUTOMATIC" }
         else if (checkAutoShutdown g (stopTaskDone s1).1).2 = true then
           { (checkAutoShutdown g (stopTaskDone s1).1).1 with stopMode := some "AUTOMATIC" }
         else (checkAutoShutdown g (stopTaskDone s1).1).1)
      else s1) = s2 at h2
    split
    · exact h2
    · rw [fm_finishLoop, fm_processQueue]
      split
      · rw [fm_releaseAndSubmit, fm_sweepQueue]; exact h2
      · rw [fm_sweepQueue]; exact h2

theorem fm_holdActive (s : State) (x : Proxy) : fm (holdActive s x) = fm s := by
  unfold holdActive
  dsimp only
  split <;> rfl

theorem fm_setStopPoint (s : State) (p : Int) : fm (setStopPoint s p) = fm s := by
  unfold setStopPoint
  split
  · rfl
  · dsimp only
    split
    · split <;> rfl
    · rfl

theorem fm_setHoldPoint (s : State) (p : Int) : fm (setHoldPoint s p) = fm s := by
  unfold setHoldPoint
  dsimp only
  apply foldl_inv (fun st => fm st = fm s)
  · intro st x hst
    split
    · split
      · rw [fm_holdActive]; exact hst
      · exact hst
    · exact hst
  · rfl

theorem fm_holdTasks (s : State) (ids : List (Int × String)) : fm (holdTasks s ids) = fm s := by
  unfold holdTasks
  apply foldl_inv (fun st => fm st = fm s)
  · intro st k hst
    split
    · rw [fm_holdActive]; exact hst
    · split
      · exact hst
      · exact hst
  · rfl

theorem fm_releaseTasks (s : State) (ids : List (Int × String)) : fm (releaseTasks s ids) = fm s := by
  unfold releaseTasks
  apply foldl_inv (fun st => fm st = fm s)
  · intro st k hst
    split
    · exact hst
    · split
      · rw [fm_releaseHeldActive]; exact hst
      · exact hst
  · rfl

theorem fm_releaseHoldPoint (s : State) : fm (releaseHoldPoint s) = fm s := by
  unfold releaseHoldPoint
  dsimp only
  show fm (s.pool.foldl (fun st x => match st.get? x.pt x.name with
    | some y => releaseHeldActive st y | none => st) { s with holdPoint := none }) = fm s
  apply foldl_inv (fun st => fm st = fm s)
  · intro st x hst
    split
    · rw [fm_releaseHeldActive]; exact hst
    · exact hst
  · rfl

/-! ### the invariant -/

/-- every flow number carried by a pooled proxy or a transient object is in the `workflow_flows` table, the flows
the manager knows are in the table, every number of the table is at most the counter or a known flow, and the
original flow 1 is in the table -/
def FlowInv (s : State) : Prop :=
  POK s.flowsDb s ∧ (∀ f ∈ s.flowsKnown, f ∈ s.flowsDb) ∧
  (∀ f ∈ s.flowsDb, f ≤ s.flowCounter ∨ f ∈ s.flowsKnown) ∧ 1 ∈ s.flowsDb

theorem flowInv_of_fm {s s' : State} (hfm : fm s' = fm s) (hp : POK s.flowsDb s') (h : FlowInv s) : FlowInv s' := by
  have e : s'.flowCounter = s.flowCounter ∧ s'.flowsKnown = s.flowsKnown ∧ s'.flowsDb = s.flowsDb := by
    have h1 : (fm s').counter = (fm s).counter := by rw [hfm]
    have h2 : (fm s').known = (fm s).known := by rw [hfm]
    have h3 : (fm s').db = (fm s).db := by rw [hfm]
    exact ⟨h1, h2, h3⟩
  unfold FlowInv
  rw [e.1, e.2.1, e.2.2]
  exact ⟨hp, h.2.1, h.2.2.1, h.2.2.2⟩

/-! ### the flow manager -/

theorem skipKnown_ge (known : Flows) : ∀ (fuel c : Nat), c ≤ skipKnown known fuel c := by
  intro fuel
  induction fuel with
  | zero => intro c; exact Nat.le_refl c
  | succ fuel ih =>
    intro c
    unfold skipKnown
    split
    · exact Nat.le_trans (Nat.le_succ c) (ih (c + 1))
    · exact Nat.le_refl c

theorem filter_ge_mono (l : Flows) (c : Nat) :
    (l.filter fun a => decide (c + 1 ≤ a)).length ≤ (l.filter fun a => decide (c ≤ a)).length := by
  induction l with
  | nil => exact Nat.le_refl _
  | cons a l ih =>
    simp only [List.filter_cons]
    by_cases h1 : c + 1 ≤ a
    · have h2 : c ≤ a := by omega
      simp only [h1, h2, decide_true, if_true, List.length_cons]
      omega
    · by_cases h2 : c ≤ a
      · simp only [h1, h2, decide_true, decide_false, if_true, List.length_cons, Bool.false_eq_true, if_false]
        omega
      · simp only [h1, h2, decide_false, Bool.false_eq_true, if_false]
        exact ih

theorem filter_ge_strict (l : Flows) (c : Nat) (hc : c ∈ l) :
    (l.filter fun a => decide (c + 1 ≤ a)).length < (l.filter fun a => decide (c ≤ a)).length := by
  induction l with
  | nil => cases hc
  | cons a l ih =>
    simp only [List.filter_cons]
    by_cases hac : a = c
    · subst hac
      have h1 : ¬ (a + 1 ≤ a) := by omega
      simp only [h1, decide_false, Bool.false_eq_true, if_false, Nat.le_refl, decide_true, if_true, List.length_cons]
      have := filter_ge_mono l a
      omega
    · have hcl : c ∈ l := by
        rcases List.mem_cons.mp hc with h | h
        · exact absurd h.symm hac
        · exact h
      have ihl := ih hcl
      by_cases h1 : c + 1 ≤ a
      · have h2 : c ≤ a := by omega
        simp only [h1, h2, decide_true, if_true, List.length_cons]
        omega
      · have h2 : ¬ c ≤ a := by omega
        simp only [h1, h2, decide_false, Bool.false_eq_true, if_false]
        exact ihl

/-- with enough fuel the search for an unused number ends on a number that is not a known flow -/
theorem skipKnown_not_mem (known : Flows) : ∀ (fuel c : Nat),
    (known.filter fun a => decide (c ≤ a)).length < fuel → skipKnown known fuel c ∉ known := by
  intro fuel
  induction fuel with
  | zero => intro c h; exact absurd h (Nat.not_lt_zero _)
  | succ fuel ih =>
    intro c h
    unfold skipKnown
    split
    · rename_i hc
      have hm : c ∈ known := by simpa using hc
      apply ih
      have := filter_ge_strict known c hm
      omega
    · rename_i hc
      simpa using hc

theorem newFlow_spec (s : State) :
    s.flowCounter < (newFlow s).2 ∧ (newFlow s).2 ∉ s.flowsKnown := by
  unfold newFlow
  simp only
  constructor
  · have := skipKnown_ge s.flowsKnown (s.flowsKnown.length + 1) (s.flowCounter + 1)
    omega
  · apply skipKnown_not_mem
    have := List.length_filter_le (fun a => decide (s.flowCounter + 1 ≤ a)) s.flowsKnown
    omega

/-- **fresh flow** (state level): in a state that satisfies the invariant, the number `--flow=new` would get is
carried by no pooled proxy, no transient object, and is not in the `workflow_flows` table -/
theorem newFlow_fresh (s : State) (h : FlowInv s) :
    (newFlow s).2 ∉ s.flowsDb ∧ (∀ y ∈ s.pool, (newFlow s).2 ∉ y.flows) ∧ (∀ y ∈ s.ghosts, (newFlow s).2 ∉ y.flows) := by
  obtain ⟨hgt, hnk⟩ := newFlow_spec s
  have hdb : (newFlow s).2 ∉ s.flowsDb := by
    intro hm
    rcases h.2.2.1 _ hm with h1 | h1
    · omega
    · exact hnk h1
  exact ⟨hdb, fun y hy hf => hdb (h.1.1 y hy _ hf), fun y hy hf => hdb (h.1.2 y hy _ hf)⟩

end CylcModel.Sched3Set
