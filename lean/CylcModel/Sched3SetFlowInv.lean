/-
Run invariant of the `Sched3Set` model for C08S: every flow number carried by a pooled proxy or a transient object is
registered in the `workflow_flows` table (`flowsDb`), and every registered number is at most the flow counter or a
flow the flow manager knows.  Consequence: `--flow=new` (`newFlow`) returns a number that no proxy carries —
in every state of every run (any graph, any list of main loops, messages, commands incl. `cylc set`, restarts).
One lemma per primitive, lifted with `run_inv`.
-/
import CylcModel.Sched3SetFrame

namespace CylcModel.Sched3Set

/-- all flow numbers of the proxy are in `D` -/
def FOK (D : Flows) (x : Proxy) : Prop := ∀ f ∈ x.flows, f ∈ D

/-- all flow numbers of pooled proxies and transient objects are in `D` -/
def POK (D : Flows) (s : State) : Prop := (∀ y ∈ s.pool, FOK D y) ∧ (∀ y ∈ s.ghosts, FOK D y)

theorem pok_of_eq {D : Flows} {s s' : State} (hp : s'.pool = s.pool) (hg : s'.ghosts = s.ghosts) (h : POK D s) :
    POK D s' := by
  unfold POK; rw [hp, hg]; exact h

theorem fok_of_flows_eq {D : Flows} {x y : Proxy} (h : y.flows = x.flows) (hx : FOK D x) : FOK D y := by
  unfold FOK; rw [h]; exact hx

theorem pok_put {D : Flows} {s : State} {x : Proxy} (h : POK D s) (hx : FOK D x) : POK D (s.put x) := by
  refine ⟨?_, h.2⟩
  intro y hy
  unfold State.put at hy
  simp only [List.mem_map] at hy
  obtain ⟨z, hz, rfl⟩ := hy
  split
  · exact hx
  · exact h.1 z hz

theorem pok_add {D : Flows} {s : State} {x : Proxy} (h : POK D s) (hx : FOK D x) : POK D (s.add x) := by
  unfold State.add
  split
  · exact h
  · refine ⟨?_, h.2⟩
    intro y hy
    simp only at hy
    rcases (mem_addBucket x s.pool y).mp hy with rfl | hm
    · exact hx
    · exact h.1 y hm

theorem pok_store {D : Flows} {s : State} {x : Proxy} {tr : Bool} (h : POK D s) (hx : FOK D x) :
    POK D (store s x tr) := by
  unfold store
  split
  · refine ⟨h.1, ?_⟩
    intro y hy
    simp only [List.mem_map] at hy
    obtain ⟨z, hz, rfl⟩ := hy
    split
    · exact hx
    · exact h.2 z hz
  · exact pok_put h hx

theorem fok_of_get? {D : Flows} {s : State} {p : Int} {n : String} {y : Proxy} (h : POK D s)
    (hy : s.get? p n = some y) : FOK D y := by
  unfold State.get? at hy
  exact h.1 y (List.mem_of_find?_eq_some hy)

theorem fok_of_lookup {D : Flows} {s : State} {p : Int} {n : String} {x : Proxy} {tr : Bool} (h : POK D s)
    (hl : lookup s p n = some (x, tr)) : FOK D x := by
  unfold lookup at hl
  split at hl
  · rename_i y hy
    simp only [Option.some.injEq, Prod.mk.injEq] at hl
    rw [← hl.1]; exact fok_of_get? h hy
  · cases hf : s.ghosts.find? fun y => y.pt == p && y.name == n with
    | none => simp [hf] at hl
    | some v =>
      simp only [hf, Option.map_some, Option.some.injEq, Prod.mk.injEq] at hl
      rw [← hl.1]; exact h.2 v (List.mem_of_find?_eq_some hf)

@[simp] theorem ghosts_put (s : State) (x : Proxy) : (s.put x).ghosts = s.ghosts := rfl
@[simp] theorem ghosts_dbInsert (s : State) (x : Proxy) : (dbInsert s x).ghosts = s.ghosts := rfl
@[simp] theorem ghosts_flushDb (s : State) : (flushDb s).ghosts = s.ghosts := rfl

theorem pok_dbInsert {D : Flows} {s : State} (x : Proxy) (h : POK D s) : POK D (dbInsert s x) := pok_of_eq rfl rfl h
theorem pok_dbQueue {D : Flows} {s : State} (k : UpdKind) (x : Proxy) (o : List (String × Bool)) (h : POK D s) :
    POK D (dbQueue s k x o) := pok_of_eq rfl rfl h
theorem pok_flushDb {D : Flows} {s : State} (h : POK D s) : POK D (flushDb s) := pok_of_eq rfl rfl h

theorem pok_loadHistoricalOutputs {D : Flows} (g : Graph) (s : State) (x : Proxy) (h : POK D s) :
    POK D (loadHistoricalOutputs g s x).1 := by
  unfold loadHistoricalOutputs
  simp only
  split
  · exact pok_dbInsert _ h
  · split
    · exact h
    · exact pok_dbInsert _ h

theorem fok_reset {D : Flows} {x : Proxy} (a : Option Status) (b c d : Option Bool) (hx : FOK D x) :
    FOK D (x.reset a b c d) := fok_of_flows_eq (by simp) hx

theorem pok_holdNew {D : Flows} (s : State) (x : Proxy) (h : POK D s) (hx : FOK D x) :
    POK D (holdNew s x).1 ∧ FOK D (holdNew s x).2 := by
  unfold holdNew
  split
  · exact ⟨h, fok_reset _ _ _ _ hx⟩
  · split
    · split
      · exact ⟨pok_of_eq rfl rfl h, fok_reset _ _ _ _ hx⟩
      · exact ⟨h, hx⟩
    · exact ⟨h, hx⟩

theorem pok_finishSpawn {D : Flows} (t : TaskDefn) (s : State) (x : Proxy) (b : Bool) (h : POK D s) (hx : FOK D x) :
    POK D (finishSpawn t s x b).1 ∧ FOK D (finishSpawn t s x b).2 := by
  unfold finishSpawn
  dsimp only
  obtain ⟨h1, h2⟩ := pok_holdNew s x h hx
  generalize holdNew s x = H at h1 h2
  have hy : FOK D (if (t.hasAbs && !H.2.prereqsSatisfied) = true then
      H.1.absDone.foldl (fun z a => z.satisfyMe a) H.2 else H.2) := by
    split
    · exact fok_of_flows_eq (foldl_satisfyMe_fields H.1.absDone H.2).2.2 h2
    · exact h2
  refine ⟨?_, hy⟩
  split
  · exact pok_dbInsert _ h1
  · exact h1

/-- a spawner keeps `POK D` and returns proxies whose flows are in `D`, when given flows in `D` -/
def SpawnPok (D : Flows) (spawn : State → String → Int → Flows → State × Option Proxy) : Prop :=
  ∀ st n q f, POK D st → (∀ x ∈ f, x ∈ D) → POK D (spawn st n q f).1 ∧ ∀ y, (spawn st n q f).2 = some y → FOK D y

theorem pok_spawnOnAllOutputsWith {D : Flows} (spawn : State → String → Int → Flows → State × Option Proxy)
    (hspawn : SpawnPok D spawn) (g : Graph) (s : State) (x : Proxy) (h : POK D s) (hx : FOK D x) :
    POK D (spawnOnAllOutputsWith spawn g s x) := by
  unfold spawnOnAllOutputsWith
  split
  · exact h
  · split
    · exact h
    · apply foldl_inv (POK D)
      · intro st o hst
        apply foldl_inv (POK D)
        · intro st c hst
          split
          · exact hst
          · have hs := hspawn st c.name c.pt x.flows hst hx
            split
            · rename_i st' y heq
              rw [heq] at hs
              exact pok_add hs.1 (fok_of_flows_eq (by simp) (hs.2 y rfl))
            · rename_i st' heq
              rw [heq] at hs
              exact hs.1
        · exact hst
      · exact h

theorem pok_spawnTask {D : Flows} (g : Graph) : ∀ (fuel : Nat), SpawnPok D (fun st n q f => spawnTask g fuel st n q f false) ∧
    ∀ (fw : Bool) (s : State) (name : String) (p : Int) (F : Flows), POK D s → (∀ x ∈ F, x ∈ D) →
      POK D (spawnTask g fuel s name p F fw).1 ∧ ∀ y, (spawnTask g fuel s name p F fw).2 = some y → FOK D y := by
  intro fuel
  induction fuel with
  | zero =>
    have : ∀ (fw : Bool) (s : State) (name : String) (p : Int) (F : Flows), POK D s → (∀ x ∈ F, x ∈ D) →
        POK D (spawnTask g 0 s name p F fw).1 ∧ ∀ y, (spawnTask g 0 s name p F fw).2 = some y → FOK D y := by
      intro fw s name p F h _
      unfold spawnTask
      exact ⟨h, by intro y hy; cases hy⟩
    exact ⟨fun st n q f h hf => this false st n q f h hf, this⟩
  | succ fuel ih =>
    have main : ∀ (fw : Bool) (s : State) (name : String) (p : Int) (F : Flows), POK D s → (∀ x ∈ F, x ∈ D) →
        POK D (spawnTask g (fuel + 1) s name p F fw).1 ∧
        ∀ y, (spawnTask g (fuel + 1) s name p F fw).2 = some y → FOK D y := by
      intro fw s name p F h hF
      unfold spawnTask
      dsimp only
      split
      · exact ⟨h, by intro y hy; cases hy⟩
      · split
        · rename_i x0 t _ _
          have hLf := loadHistoricalOutputs_fields g s
            { x0 with flows := F, status := (taskHistory s name p F).2.1.getD Status.waiting,
                      submitNum := (taskHistory s name p F).1, flowWait := fw }
          have hLp := pok_loadHistoricalOutputs (D := D) g s
            { x0 with flows := F, status := (taskHistory s name p F).2.1.getD Status.waiting,
                      submitNum := (taskHistory s name p F).1, flowWait := fw } h
          generalize loadHistoricalOutputs g s
            { x0 with flows := F, status := (taskHistory s name p F).2.1.getD Status.waiting,
                      submitNum := (taskHistory s name p F).1, flowWait := fw } = L at hLf hLp
          dsimp only at hLf
          have hL2 : FOK D L.2 := by unfold FOK; rw [hLf.2.2]; exact hF
          split
          · exact ⟨hLp, by intro y hy; cases hy⟩
          · have hW : POK D (if (histFinal (taskHistory s name p F).2.1 && (taskHistory s name p F).2.2) = true then
                afterFlowWait (spawnOnAllOutputsWith (fun st n q f => spawnTask g fuel st n q f false) g L.1 L.2) L.2
              else L).1 ∧ FOK D (if (histFinal (taskHistory s name p F).2.1 && (taskHistory s name p F).2.2) = true then
                afterFlowWait (spawnOnAllOutputsWith (fun st n q f => spawnTask g fuel st n q f false) g L.1 L.2) L.2
              else L).2 := by
              split
              · unfold afterFlowWait
                exact ⟨pok_of_eq rfl rfl (pok_spawnOnAllOutputsWith _ ih.1 g L.1 L.2 hLp hL2), hL2⟩
              · exact ⟨hLp, hL2⟩
            generalize (if (histFinal (taskHistory s name p F).2.1 && (taskHistory s name p F).2.2) = true then
                afterFlowWait (spawnOnAllOutputsWith (fun st n q f => spawnTask g fuel st n q f false) g L.1 L.2) L.2
              else L) = W at hW
            split
            · exact ⟨hW.1, by intro y hy; cases hy⟩
            · have hF2 := pok_finishSpawn t W.1 W.2 (taskHistory s name p F).2.1.isNone hW.1 hW.2
              refine ⟨hF2.1, ?_⟩
              intro y hy
              simp only [Option.some.injEq] at hy
              rw [← hy]; exact hF2.2
        · exact ⟨h, by intro y hy; cases hy⟩
    exact ⟨fun st n q f h hf => main false st n q f h hf, main⟩

theorem spawnPok_spawnTask {D : Flows} (g : Graph) (fuel : Nat) :
    SpawnPok D (fun st n q f => spawnTask g fuel st n q f false) := (pok_spawnTask g fuel).1

theorem pok_spawnOnAllOutputs {D : Flows} (g : Graph) (s : State) (x : Proxy) (h : POK D s) (hx : FOK D x) :
    POK D (spawnOnAllOutputs g s x) := by
  unfold spawnOnAllOutputs
  exact pok_spawnOnAllOutputsWith _ (spawnPok_spawnTask g spawnFuel) g s x h hx

theorem fok_merged {D : Flows} {x : Proxy} {f : Flows} (hx : FOK D x) (hf : ∀ a ∈ f, a ∈ D) : FOK D (x.merged f) := by
  intro a ha
  rcases (mem_fUnion _ _ _).mp ha with h | h
  · exact hx a h
  · exact hf a h

theorem pok_mergeFlows {D : Flows} (g : Graph) (s : State) (x : Proxy) (f : Flows) (h : POK D s) (hx : FOK D x)
    (hf : ∀ a ∈ f, a ∈ D) : POK D (mergeFlows g s x f) := by
  unfold mergeFlows
  split
  · exact h
  · dsimp only
    have hy := fok_merged hx hf
    have h1 : POK D (dbInsert (s.put (x.merged f)) (x.merged f)) := pok_dbInsert _ (pok_put h hy)
    generalize dbInsert (s.put (x.merged f)) (x.merged f) = s1 at h1
    split
    · exact pok_put h1 (fok_of_flows_eq (by simp) hy)
    · split
      · exact pok_spawnOnAllOutputs g _ _ (pok_put h1 (fok_of_flows_eq rfl hy)) (fok_of_flows_eq rfl hy)
      · exact h1

theorem pok_spawnAndAdd {D : Flows} (g : Graph) (s : State) (name : String) (p : Int) (F : Flows) (h : POK D s)
    (hF : ∀ a ∈ F, a ∈ D) : POK D (spawnAndAdd g s name p F) := by
  unfold spawnAndAdd
  split
  · rename_i y hy
    exact pok_mergeFlows g s y F h (fok_of_get? h hy) hF
  · have hs := (pok_spawnTask (D := D) g spawnFuel).2 false s name p F h hF
    split
    · rename_i heq; rw [heq] at hs; exact pok_add hs.1 (hs.2 _ rfl)
    · rename_i heq; rw [heq] at hs; exact hs.1

theorem pok_spawnNextParentless {D : Flows} (g : Graph) (s : State) (x : Proxy) (h : POK D s) (hx : FOK D x) :
    POK D (spawnNextParentless g s x) := by
  unfold spawnNextParentless
  split
  · exact h
  · split
    · exact pok_spawnAndAdd g s _ _ _ h hx
    · exact h

theorem pok_releaseHeldActive {D : Flows} (s : State) (x : Proxy) (h : POK D s) (hx : FOK D x) :
    POK D (releaseHeldActive s x) := by
  unfold releaseHeldActive
  dsimp only
  split
  · apply pok_of_eq (s := s.put _) rfl rfl
    apply pok_put h
    split
    · exact fok_reset _ _ _ _ (fok_reset _ _ _ _ hx)
    · exact fok_reset _ _ _ _ hx
  · exact pok_of_eq rfl rfl h

theorem pok_remove {D : Flows} (g : Graph) (s : State) (x : Proxy) (h : POK D s) (hx : FOK D x) :
    POK D (remove g s x) := by
  unfold remove
  dsimp only
  have h1 := pok_releaseHeldActive s x h hx
  generalize releaseHeldActive s x = s1 at h1
  have hx1 : FOK D ((s1.get? x.pt x.name).getD x) := by
    cases hg : s1.get? x.pt x.name with
    | none => exact hx
    | some v => exact fok_of_get? h1 hg
  generalize (s1.get? x.pt x.name).getD x = x1 at hx1
  have h2 : POK D (if (!x1.flows.isEmpty && x1.runahead) = true then spawnNextParentless g s1 x1 else s1) := by
    split
    · exact pok_spawnNextParentless g s1 x1 h1 hx1
    · exact h1
  generalize (if (!x1.flows.isEmpty && x1.runahead) = true then spawnNextParentless g s1 x1 else s1) = s2 at h2
  split
  · apply pok_flushDb
    apply pok_dbQueue
    refine ⟨?_, ?_⟩
    · intro y hy
      exact h2.1 y (List.mem_filter.mp hy).1
    · intro y hy
      rcases List.mem_append.mp hy with hm | hm
      · exact h2.2 y hm
      · simp at hm; rw [hm]; exact hx1
  · exact h2

theorem pok_removeIfComplete {D : Flows} (g : Graph) (s : State) (x : Proxy) (h : POK D s) (hx : FOK D x) :
    POK D (removeIfComplete g s x) := by
  unfold removeIfComplete
  split
  · exact h
  · dsimp only
    have h1 : POK D (if (s.stopTask == some (x.pt, x.name)) = true then { s with stopTaskFinished := true } else s) := by
      split
      · exact pok_of_eq rfl rfl h
      · exact h
    generalize (if (s.stopTask == some (x.pt, x.name)) = true then { s with stopTaskFinished := true } else s) = s1 at h1
    split
    · exact h1
    · split
      · exact pok_remove g s1 x h1 hx
      · exact h1

theorem pok_recordAbs {D : Flows} (st : State) (atom : Atom) (b : Bool) (h : POK D st) : POK D (recordAbs st atom b) := by
  unfold recordAbs
  dsimp only
  split
  · split
    · exact pok_of_eq rfl rfl h
    · exact pok_of_eq rfl rfl h
  · split
    · exact pok_of_eq rfl rfl h
    · exact h

theorem pok_findOrSpawnChild {D : Flows} (g : Graph) (st : State) (p : Int) (n : String) (pf : Flows) (c : Child)
    (h : POK D st) (hpf : ∀ a ∈ pf, a ∈ D) :
    POK D (findOrSpawnChild g st p n pf c).1 ∧ ∀ y, (findOrSpawnChild g st p n pf c).2 = some y → FOK D y := by
  unfold findOrSpawnChild
  split
  · rename_i y0 hy0
    dsimp only
    have h1 : POK D (if (c.pt == p && c.name == n) = true then st else mergeFlows g st y0 pf) := by
      split
      · exact h
      · exact pok_mergeFlows g st y0 pf h (fok_of_get? h hy0) hpf
    exact ⟨h1, fun y hy => fok_of_get? h1 hy⟩
  · split
    · exact ⟨h, by intro y hy; cases hy⟩
    · exact (pok_spawnTask (D := D) g spawnFuel).2 false st c.name c.pt pf h hpf

theorem pok_satisfyTargets {D : Flows} (atom : Atom) (targets : List (Int × String)) (acc : State × List (Int × String))
    (h : POK D acc.1) : POK D (satisfyTargets atom targets acc).1 := by
  unfold satisfyTargets
  apply foldl_inv (fun (a : State × List (Int × String)) => POK D a.1)
  · intro a k ha
    split
    · exact ha
    · rename_i z hz
      exact pok_put ha (fok_of_flows_eq (x := z) rfl (fok_of_get? ha hz))
  · exact h

theorem parentFlows_ok {D : Flows} {st : State} (h : POK D st) (p : Int) (n : String) :
    ∀ a ∈ parentFlows st p n, a ∈ D := by
  unfold parentFlows
  split
  · rename_i x _ hl
    exact fok_of_lookup h hl
  · intro a ha; cases ha

theorem pok_spawnChild {D : Flows} (g : Graph) (p : Int) (n out : String) (acc : State × List (Int × String)) (c : Child)
    (h : POK D acc.1) : POK D (spawnChild g p n out acc c).1 := by
  unfold spawnChild
  dsimp only
  have hpf := parentFlows_ok h p n
  generalize parentFlows acc.1 p n = pf at hpf
  have h0 := pok_recordAbs acc.1 ⟨p, n, out⟩ c.isAbs h
  generalize recordAbs acc.1 ⟨p, n, out⟩ c.isAbs = st0 at h0
  have hR := pok_findOrSpawnChild g st0 p n pf c h0 hpf
  generalize findOrSpawnChild g st0 p n pf c = R at hR
  split
  · exact hR.1
  · rename_i y hy
    apply pok_satisfyTargets
    dsimp only
    split
    · exact hR.1
    · exact pok_add hR.1 (fok_of_flows_eq rfl (hR.2 y hy))

theorem pok_removeSuicides {D : Flows} (g : Graph) (s : State) (ks : List (Int × String)) (h : POK D s) :
    POK D (removeSuicides g s ks) := by
  unfold removeSuicides
  apply foldl_inv (POK D)
  · intro st k hst
    split
    · rename_i z hz
      exact pok_remove g st z hst (fok_of_get? hst hz)
    · exact hst
  · exact h

theorem pok_spawnOnOutput {D : Flows} (g : Graph) (s : State) (p : Int) (n out : String) (h : POK D s) :
    POK D (spawnOnOutput g s p n out) := by
  unfold spawnOnOutput
  split
  · exact h
  · rename_i x _ hl
    split
    · exact pok_removeIfComplete g s x h (fok_of_lookup h hl)
    · dsimp only
      have hR : POK D (List.foldl (spawnChild g p n out) (s, []) (childrenIfFlows g x out)).1 := by
        apply foldl_inv (fun (a : State × List (Int × String)) => POK D a.1)
        · intro a c ha; exact pok_spawnChild g p n out a c ha
        · exact h
      generalize (List.foldl (spawnChild g p n out) (s, []) (childrenIfFlows g x out)) = R at hR
      have h3 := pok_removeSuicides g R.1 R.2 hR
      generalize removeSuicides g R.1 R.2 = s3 at h3
      have h4 : POK D (if R.2.isEmpty = true then s3 else flushDb s3) := by
        split
        · exact h3
        · exact pok_flushDb h3
      generalize (if R.2.isEmpty = true then s3 else flushDb s3) = s4 at h4
      split
      · rename_i x' _ hl'
        exact pok_removeIfComplete g s4 x' h4 (fok_of_lookup h4 hl')
      · exact h4

theorem pok_spawnChildren {D : Flows} (g : Graph) (s : State) (p : Int) (n out : String) (tr forced : Bool)
    (h : POK D s) : POK D (spawnChildren g s p n out tr forced) := by
  unfold spawnChildren
  dsimp only
  have h1 : ∀ s1, (s1 = (match lookup s p n with | some (x, _) => dbUpdateOutputs g s x | none => s)) → POK D s1 := by
    intro s1 he; rw [he]
    split
    · exact pok_of_eq rfl rfl h
    · exact h
  split
  · exact h1 _ rfl
  · exact pok_spawnOnOutput g _ p n out (h1 _ rfl)

end CylcModel.Sched3Set
