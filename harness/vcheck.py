"""Entry point:  ./check <Cxx> [--tier quick|thorough] [--replay file]  |  ./check --setup [ids...]

build -> translate -> proofs -> audit -> correspondence -> (search) -> evidence.
"""
from __future__ import annotations

import argparse
import json
import os
import random
import sys
import time
import traceback
from pathlib import Path

sys.path.insert(0, str(Path(__file__).resolve().parent))
import core  # noqa: E402
from core import Infra, VERIF, LEAN  # noqa: E402


def log(*a):
    print(*a, file=sys.stderr, flush=True)


def do_translate(props):
    gen_dir = LEAN / 'CylcModel' / 'Generated'
    gen_dir.mkdir(parents=True, exist_ok=True)
    for p in props:
        for name, content in p.translate().items():
            core.write_if_changed(gen_dir / name, content)


def build_phase(prop, result):
    """Translate, build driver + proofs, audit.  Fills result['build']."""
    b = result['build'] = {
        'driver_ok': False, 'proofs_ok': False, 'audit_ok': False,
        'broken': [], 'axioms': {}, 'forbidden': [],
    }
    with core.build_lock():
        try:
            do_translate([prop])
            b['translate_ok'] = True
        except Infra:
            raise
        except Exception as exc:  # the translator could not read the source as expected
            b['translate_ok'] = False
            b['broken'].append(f'translator: {type(exc).__name__}: {exc}')
            log(traceback.format_exc())
        core.gen_lakefile()
        drv = prop.drv or prop.id
        ok, out = core.lake_build([f'drv_{drv}'])
        b['driver_ok'] = ok
        if ok:
            core.privatise_driver(drv)
        if not ok:
            b['broken'] += [f'model/driver build: {n}' for n in core.failing_decls(out)] or ['model/driver build']
            log(out[-3000:])
        ok, out = core.lake_build(prop.props_modules)
        b['proofs_ok'] = ok
        if not ok:
            b['broken'] += [f'theorem: {n}' for n in core.failing_decls(out)] or ['proof build']
            log(out[-3000:])
        b['forbidden'] = core.forbidden_hits(list(prop.props_modules) + [f'CylcModel.Drv.{prop.drv or prop.id}'])
        if b['proofs_ok']:
            ax = core.audit_axioms(prop.id, prop.props_modules, prop.theorems)
            b['axioms'] = ax
            bad = {t: a for t, a in ax.items()
                   if isinstance(a, str) or not set(a) <= core.ALLOWED_AXIOMS}
            b['audit_ok'] = not bad and not b['forbidden']
            if bad:
                raise Infra(f'axiom audit failed: {bad}')
        if b['forbidden']:
            raise Infra(f'forbidden tokens in Lean sources: {b["forbidden"]}')
    return b


def run_cases(prop, inputs):
    """-> list of dict(input, obs, model, holds, why)"""
    raw = prop.impl_batch(inputs)
    # a property may derive the driver's case / observation from what the implementation run produced
    # (e.g. scheduler runs: the op list is generated adaptively while the real scheduler runs)
    triples = [(i, prop.driver_input(i, r), prop.driver_obs(i, r)) for i, r in zip(inputs, raw)
               if not prop.skip_case(i, r)]
    drv = core.Driver(prop.drv or prop.id)
    replies = drv.batch([(di, o) for _i, di, o in triples])
    out = []
    for (i, di, o), r in zip(triples, replies):
        if 'err' in r:
            raise Infra(f'driver could not decode a case: {r["err"]}: {json.dumps(i)[:300]}')
        out.append({'input': prop.replay_input(i, di), 'obs': o, 'model': r['m'], 'holds': r['h'], 'why': r.get('why', '')})
    return out


def judge_only(prop, inputs):
    """Run implementation + judge when only the judge is needed (search)."""
    return run_cases(prop, inputs)


def write_replay(prop, tag, payload):
    d = VERIF / 'replays'
    d.mkdir(exist_ok=True)
    f = d / f'{prop.id}-{tag}.json'
    f.write_text(json.dumps(payload, indent=1, sort_keys=True))
    return f.relative_to(VERIF)


def main(argv=None):
    ap = argparse.ArgumentParser()
    ap.add_argument('prop', nargs='*')
    ap.add_argument('--tier', default=os.environ.get('VERIF_TIER', 'quick'), choices=['quick', 'thorough'])
    ap.add_argument('--replay')
    ap.add_argument('--setup', action='store_true')
    args = ap.parse_args(argv)
    try:
        if args.setup:
            return setup(args.prop)
        if len(args.prop) != 1:
            ap.error('exactly one property id')
        pid = args.prop[0].upper()
        if args.replay:
            # a replay file written by a sub-check (replays/C26S-....json) is replayed by that sub-check, whichever
            # of the property's ids was given on the command line
            owner = Path(args.replay).name.split('-')[0].upper()
            if owner != pid and (VERIF / 'harness' / 'props' / f'{owner.lower()}.py').exists():
                pid = owner
        return check(pid, args.tier, args.replay)
    except Infra as exc:
        log(f'INFRASTRUCTURE FAILURE: {exc}')
        return 2
    except Exception:
        log('INFRASTRUCTURE FAILURE (unexpected exception)')
        log(traceback.format_exc())
        return 2


def setup(ids):
    """Build everything once (MANIFEST.setup_cmd): the drivers and theorem modules of the claimed properties."""
    t0 = time.time()
    core.use_repo()
    ready = json.loads((VERIF / 'ready.json').read_text()) if (VERIF / 'ready.json').exists() else core.all_prop_ids()
    ids = [i.upper() for i in ids] or ready
    props = [core.load_prop(i) for i in ids]
    props += [core.load_prop(x) for p in list(props) for x in getattr(p, 'also', [])]
    ok_all = True
    with core.build_lock():
        for p in props:
            try:
                do_translate([p])
            except Exception:
                log(f'translate failed for {p.id}')
                log(traceback.format_exc())
        core.gen_lakefile()
        targets = []
        for p in props:
            targets += [f'drv_{p.drv or p.id}'] + list(p.props_modules)
        ok, out = core.lake_build(sorted(set(targets)))
        if not ok:
            # fall back to one property at a time so that one broken module does not block the others
            for p in props:
                ok1, out1 = core.lake_build([f'drv_{p.drv or p.id}'] + list(p.props_modules))
                if not ok1:
                    ok_all = False
                    log(f'setup: build FAILED for {p.id}')
                    log(out1[-2500:])
    log(f'setup: build {"ok" if ok_all else "FAILED"} in {time.time() - t0:.0f}s')
    return 0 if ok_all else 2


def _clip(v, limit=12000):
    """Evidence samples stay small: a value whose JSON text is longer than `limit` is cut
    (the complete inputs are reproducible from tier + seed)."""
    t = json.dumps(v, sort_keys=True)
    if len(t) <= limit:
        return v
    return {'truncated_json': t[:limit], 'full_length': len(t)}


def check(pid, tier, replay_file):
    t0 = time.time()
    seed = int(os.environ.get('VERIF_SEED', '0'))
    core.use_repo()
    prop = core.load_prop(pid)
    prop.setup()
    rid = getattr(prop, 'report_id', None) or pid     # id printed in VIOLATION / KNOWN-FINDING lines
    result = {'property': pid, 'tier': tier, 'seed': seed}
    b = build_phase(prop, result)
    tie_broken = list(b['broken'])
    if tier == 'thorough' and b['proofs_ok'] and not replay_file:
        # independent re-check of the compiled theorem modules (and everything they import)
        ok, out = core.leanchecker(prop.props_modules)
        b['leanchecker'] = 'ok' if ok else out[-800:]
        if not ok:
            tie_broken.append('leanchecker rejected the compiled theorem modules: ' + out[-300:])

    findings = [e for e in core.known_findings(pid) if e.get('kind') == 'finding']
    finding_keys = {e['key']: e for e in findings}

    if replay_file:
        payload = json.loads(Path(replay_file).read_text())
        inputs = payload.get('inputs') or [payload['input']]
        res = run_cases(prop, inputs) if b['driver_ok'] else []
        bad = [r for r in res if not r['holds'] and prop.finding_key(r['input'], r['why']) not in finding_keys]
        for r in res:
            if not r['holds'] and prop.finding_key(r['input'], r['why']) in finding_keys:
                print(f'KNOWN-FINDING: property={rid} {finding_keys[prop.finding_key(r["input"], r["why"])]["what"]}')
            print(json.dumps({'input': r['input'], 'impl': r['obs'], 'model': r['model'],
                              'holds': r['holds'], 'why': r['why']})[:4000])
        if bad:
            print(f'VIOLATION property={rid} replay={replay_file}')
            return 1
        if tie_broken or any(not prop.equal(r['model'], r['obs']) for r in res):
            print(f'VIOLATION property={rid} replay={replay_file} no-failing-input-found')
            return 1
        return 0

    rng = random.Random(seed * 1000003 + 17)
    inputs = list(prop.corpus())
    for e in findings:
        if 'witness' in e and e['witness'] not in inputs:
            inputs.append(e['witness'])
    inputs += list(prop.gen(tier, rng))
    log(f'[{pid}] {len(inputs)} cases; build: driver={b["driver_ok"]} proofs={b["proofs_ok"]}')

    cases = []
    if b['driver_ok']:
        cases = run_cases(prop, inputs)
    disagreements = [c for c in cases if not prop.equal(c['model'], c['obs'])]
    failing = [c for c in cases if not c['holds']]
    if disagreements:
        tie_broken.append(f'correspondence: model and implementation differ on {len(disagreements)} of {len(cases)} cases')

    searched = 0
    if tie_broken and b['driver_ok'] and not [c for c in failing if prop.finding_key(c['input'], c['why']) not in finding_keys]:
        # failing-input search: neighbourhood of the disagreements + a larger seeded batch
        extra = []
        for c in disagreements[:20]:
            extra += prop.neighbours(c['input'], rng)
        extra += list(prop.gen('thorough' if tier == 'quick' else 'search', random.Random(seed + 991)))
        log(f'[{pid}] tie broken ({tie_broken[:3]}); searching {len(extra)} more inputs')
        more = judge_only(prop, extra)
        searched = len(more)
        failing += [c for c in more if not c['holds']]

    known, new = [], []
    for c in failing:
        k = prop.finding_key(c['input'], c['why'])
        (known if k in finding_keys else new).append((k, c))

    # ---- evidence -----------------------------------------------------
    classes = {}
    for c in cases:
        k = prop.classify(c['input'], c['obs'])
        if k is not None:
            classes.setdefault(k, set()).add(core.sha(c['input']))
    distinct = len({h for s in classes.values() for h in s})
    obligations = len(prop.theorems)
    discharged = sum(1 for t in prop.theorems
                     if b['proofs_ok'] and isinstance(b['axioms'].get(t), list)
                     and set(b['axioms'][t]) <= core.ALLOWED_AXIOMS)
    violations = 0
    out_lines = []
    exit_code = 0
    if new:
        seen = set()
        for k, c in new:
            tag = core.sha(c['input'])
            cls = k or c['why'][:40]
            if cls in seen or len(seen) >= 5:
                continue
            seen.add(cls)
            f = write_replay(prop, tag, {
                'property': pid, 'seed': seed, 'input': c['input'], 'impl_output': c['obs'],
                'model_output': c['model'], 'judge': {'holds': False, 'why': c['why']},
                'broken': tie_broken})
            out_lines.append(f'VIOLATION property={rid} replay={f}')
            log(f'[{pid}] violation: {c["why"]} on {json.dumps(c["input"])[:400]}')
        violations = len(new)
        exit_code = 1
    elif tie_broken:
        f = write_replay(prop, 'tie-' + core.sha(tie_broken), {
            'property': pid, 'seed': seed, 'broken': tie_broken,
            'inputs': [c['input'] for c in disagreements[:5]],
            'first_disagreement': ({'input': disagreements[0]['input'], 'impl_output': disagreements[0]['obs'],
                                    'model_output': disagreements[0]['model']} if disagreements else None),
            'searched_inputs': searched + len(cases),
            'note': 'the theorem / correspondence named in "broken" no longer checks; no input was found on which the property itself fails'})
        out_lines.append(f'VIOLATION property={rid} replay={f} no-failing-input-found')
        violations = 1
        exit_code = 1
    for key, e in finding_keys.items():
        hit = [c for k, c in known if k == key]
        if hit:
            out_lines.append(f'KNOWN-FINDING: property={rid} {e["what"]}')

    samples = []
    for k, hs in list(classes.items())[:6]:
        for c in cases:
            if prop.classify(c['input'], c['obs']) == k:
                samples.append({'class': k, 'input': _clip(c['input']), 'impl': _clip(c['obs'])})
                break
    dist = {k: len(v) for k, v in sorted(classes.items())}
    evidence = {
        'property_id': pid, 'tier': tier, 'seed': seed, 'level': 'proof',
        'coverage': {
            'obligations': obligations, 'discharged': discharged,
            'checker_cmd': f'cd lean && lake build {" ".join(prop.props_modules)} && lake env lean Audit/{pid}.lean   (run by ./check {pid})',
            'trusted_base': core.BASE_TRUSTED + list(prop.trusted),
            'theorems': [{'name': t, 'axioms': b['axioms'].get(t)} for t in prop.theorems],
            'leanchecker': b.get('leanchecker', 'not run in this tier'),
            'statement': prop.statement_note,
            'modelled_not_verified': prop.unmodelled,
            'correspondence': {
                'cases': len(cases), 'disagreements': len(disagreements),
                'judge_failures_known': len(known), 'judge_failures_new': len(new),
                'exhaustive': bool(prop.exhaustive), 'distribution': dist,
                'extra_searched': searched,
            },
            'evaluations': len(cases), 'distinct_nontrivial': distinct,
            'rule': prop.rule, 'samples': samples[:6],
            'disagreements_checked': len(disagreements),
            'exhaustive': bool(prop.exhaustive),
            'repo': str(core.REPO),
        },
        'assumptions': list(prop.trusted) + [f'not modelled: {u}' for u in prop.unmodelled],
        'wall_s': round(time.time() - t0, 2),
        'violations': violations,
    }
    # evidence/ describes runs against /repo itself; a run against another source tree (VERIF_REPO, used to try
    # seeded changes) writes its record next to the replays instead
    ev_dir = VERIF / 'evidence' if str(core.REPO) == '/repo' else VERIF / 'replays' / 'evidence-other-tree'
    ev = ev_dir / f'{pid}.json'
    ev.parent.mkdir(parents=True, exist_ok=True)
    ev.write_text(json.dumps(evidence, indent=None, sort_keys=True) + '\n')
    for ln in out_lines:
        print(ln)
    log(f'[{pid}] {tier}: {len(cases)} cases, {distinct} distinct non-trivial, '
        f'{discharged}/{obligations} theorems, {len(disagreements)} disagreements, '
        f'{len(known)} known, {len(new)} new failures, {time.time() - t0:.1f}s -> exit {exit_code}')
    return exit_code


if __name__ == '__main__':
    sys.exit(main())
