"""C17  Datetime recurrences are consistent with brute-force enumeration; caches are transparent.

A case is a recurrence text (structure -> text), a context, a calendar mode / time zone /
expanded-year setting, a cache size and a list of queries.  The adapter builds the real
`ISO8601Sequence`, enumerates the underlying isodatetime `TimeRecurrence` (and the exclusion
recurrences) inside a window that covers every query with a margin, runs the queries in order on
ONE long-lived sequence object and again each on a FRESH object, and hands the enumerated
instants (minutes since the Unix epoch) to the Lean model, which re-runs the wrapper + cache
logic over that abstract recurrence.  The Lean judge compares every answer of the
implementation with brute force over `pts \\ excluded`.
"""
from __future__ import annotations

import datetime
import signal

from core import Prop

MODES = ['gregorian', '360day', '365day', '366day']
TZS = ['Z', 'Z', '+0100', '-0530', '+1300', '-0800']
INTVS_EXACT = ['PT1H', 'PT3H', 'PT6H', 'PT12H', 'P1D', 'P2D', 'P3D', 'P1W', 'P10D', 'PT90M', 'P1DT12H', 'PT30M']
INTVS_INEXACT = ['P1M', 'P2M', 'P3M', 'P1Y', 'P1M1D', 'P6M']
TRUNC = ['T00', 'T06', 'T12', 'T18', 'T0030', 'T03', '01T00', '15T12', '31T00', '29T06', '30T18']
RELS = ['+P1D', '-P1D', '+PT6H', '-PT6H', '+P1M', '-P1M', '+P2D', '+PT18H', 'T00+P1D', 'T12-P1D', '+P1W', '-P3D',
        '+PT1H', '-PT30M']
EXCL_SEQS = ['T00', 'T06', 'T12', 'T18', 'PT12H', 'P2D', 'P1D', 'PT6H', 'P3D', 'P1W', 'R3/P1D', 'R2/PT12H', '01T00',
             'P1M', 'T00/P2D', 'R4//PT6H', '+P1D/P2D', 'R1', 'R2/P1D', 'PT3H', 'P2M', '15T12']
OPS = ['v', 'on', 'n', 'p', 'np', 'f', 's', 'e']
# query offsets [a, b, c]: instant = pool point + (step * a) // b + c minutes (step = distance of the first two points)
OFFS = [[0, 1, 0]] * 9 + [[0, 1, 1], [0, 1, -1], [1, 2, 0], [-1, 2, 0], [1, 1, 0], [-1, 1, 0], [1, 3, 0], [2, 1, 0],
                          [-2, 1, 0], [3, 1, 1], [-7, 1, 0], [-30, 1, 0], [9, 1, 0], [14, 1, 30], [1, 1, -1], [-1, 1, 1],
                          [0, 1, 60], [0, 1, -60], [0, 1, 1440], [0, 1, -1440]]
# rough length in minutes: keeps windows small and exclusion recurrences from being much finer than what they cut
LEN = {'PT1H': 60, 'PT3H': 180, 'PT6H': 360, 'PT12H': 720, 'P1D': 1440, 'P2D': 2880, 'P3D': 4320, 'P1W': 10080,
       'P10D': 14400, 'PT90M': 90, 'P1DT12H': 2160, 'PT30M': 30, 'P1M': 43200, 'P2M': 86400, 'P3M': 129600,
       'P1Y': 525600, 'P1M1D': 44640, 'P6M': 259200}
XLEN = {'T00': 1440, 'T06': 1440, 'T12': 1440, 'T18': 1440, 'PT12H': 720, 'P2D': 2880, 'P1D': 1440, 'PT6H': 360,
        'P3D': 4320, 'P1W': 10080, 'R3/P1D': 10 ** 9, 'R2/PT12H': 10 ** 9, '01T00': 43200, 'P1M': 43200,
        'T00/P2D': 2880, 'R4//PT6H': 10 ** 9, '+P1D/P2D': 2880, 'R1': 10 ** 9, 'R2/P1D': 10 ** 9, 'PT3H': 180,
        'P2M': 86400, '15T12': 43200}
SPELL = [None, 'CCYY-MM-DDThh:mmZ', 'CCYYMMDDThhmm+0100', 'CCYYMMDDThhmm-0330', 'CCYY-MM-DDThh:mm+05:30']
ICPS = [(2000, 1, 1, 0, 0), (2000, 1, 31, 0, 0), (2000, 2, 28, 6, 0), (1999, 12, 31, 18, 0), (2010, 8, 15, 12, 0),
        (2023, 10, 29, 0, 0), (2000, 1, 30, 0, 0), (1900, 2, 28, 0, 0), (2024, 2, 29, 12, 30), (2000, 12, 31, 23, 30),
        (2000, 3, 31, 6, 0), (2001, 5, 31, 0, 0), (1999, 11, 30, 12, 0)]
CAPS = [None, None, None, 0, 1, 2, 3, 5]      # None: the live _LARGE_LRU_CACHE_SIZE
POOL = 10            # queries are placed around the first POOL points of the recurrence
MARGIN = 3           # non-excluded points required beyond the largest query in an open window
LIMIT = 600          # hard limit on enumerated points (beyond: case skipped)
CASE_BUDGET = 4.0    # seconds of CPU time for one case (window enumeration + all queries, twice)
SMALL = 40           # a timeout is judged (answer 'TIMEOUT') only on windows of at most this many points
COST = 12000         # bound on points x enumerated exclusion instants (the real code re-iterates exclusions per check)
ZONES = [('Z', 0), ('Z', 0), ('Z', 0), ('+01', 60), ('-0530', -330)]


class _Timeout(BaseException):
    pass


def _on_alarm(signum, frame):
    raise _Timeout()


def fmt_fix(fmt, xy):
    return ('+X' + fmt) if xy else fmt


def render(dt, zone, style, xy):
    """text of the UTC datetime `dt` in the zone (text, minutes east), one of three spellings"""
    ztxt, zmin = zone
    loc = dt + datetime.timedelta(minutes=zmin)
    yr = ('+%06d' if xy else '%04d') % loc.year
    if style == 2:
        z = ztxt if len(ztxt) <= 3 else ztxt[:3] + ':' + ztxt[3:]
        return '%s-%02d-%02dT%02d:%02d%s' % (yr, loc.month, loc.day, loc.hour, loc.minute, z)
    if style == 1 and loc.minute == 0:
        return '%s%02d%02dT%02d%s' % (yr, loc.month, loc.day, loc.hour, ztxt)
    return '%s%02d%02dT%02d%02d%s' % (yr, loc.month, loc.day, loc.hour, loc.minute, ztxt)


class C17(Prop):
    id = 'C17'
    props_modules = ['CylcModel.Props.C17']
    theorems = [
        'CylcModel.C17.iso_query_spec_partial',
        'CylcModel.C17.cache_transparent_partial',
        'CylcModel.C17.answers_history_free_partial',
        'CylcModel.C17.cache_invariant_partial',
        'CylcModel.C17.stop_spec_of_fix',
        'CylcModel.C17.stop_counterexample',
        'CylcModel.C17.prev_counterexample',
        'CylcModel.C17.cache_transparent_counterexample',
    ]
    technique = ('inductive cache invariant over all query histories of an executable port of the ISO8601Sequence '
                 'wrapper over an abstract increasing instant list + correspondence on enumerated real recurrences')
    statement_note = (
        'partial proof, for the wrapper + caches of ISO8601Sequence over an ABSTRACT recurrence (any strictly increasing '
        'instant list of any length, any exclusion predicate, any point-string parser, any cache size incl. 0, any query '
        'history): cache_transparent_partial / answers_history_free_partial: the answer to every one of the 8 query kinds '
        'after any history equals the answer of a fresh object; cache_invariant_partial: every entry of the four caches and '
        'of the lru_cache agrees with brute force, every recent valid point is a non-excluded member; '
        'iso_query_spec_partial: membership, next, first, start = brute force over the iterated list minus exclusions; '
        'previous (for points of the recurrence), nearest-previous and stop = brute force under the stated side conditions. '
        'Hypotheses that are NOT met by every real recurrence (each with a counterexample theorem and a finding): NextOK '
        '(stepping a re-parsed member forward = iteration successor; fails for month/year durations when the recurrence '
        'start is in another time zone than the cycle point time zone: cache_transparent_counterexample, finding '
        'step-off-iteration), PrevOK (stepping back inverts stepping forward; fails at month ends: prev_counterexample, '
        'finding prev-inexact-duration), get_stop_point behind two or more trailing exclusions on the unpatched code '
        '(stop_counterexample, finding stop-trailing-exclusions with findings/C17-fix-1.diff; stop_spec_of_fix is the full '
        'statement for a patched tree, flag probed from the live code), get_prev_point of a point that is not on the '
        'recurrence (finding prev-off-sequence, judged only). NOT modelled: recurrence parsing (CylcTimeParser, all 13 '
        'formats), calendar arithmetic, point formatting - they enter as the enumerated recurrence (correspondence only)')
    trusted = [
        'metomi.isodatetime: iteration of TimeRecurrence, get_next/get_prev/get_is_valid, TimePoint comparison and '
        'seconds_since_unix_epoch (the adapter enumerates the real recurrence and the exclusion recurrences inside a window '
        'and converts to minutes since the epoch); get_next on a member equals the iteration successor (asserted per case)',
        'window: for an unbounded recurrence the model sees a finite prefix that reaches 3 non-excluded points beyond the '
        'largest query; answers inside the window do not depend on the cut',
        'the adapter-supplied tables of where stepping from a re-parsed point deviates from the iteration (nxo, pvo, kprev) '
        '- they are what NextOK/PrevOK are about and are computed with the real TimeRecurrence',
    ]
    unmodelled = [
        'CylcTimeParser.parse_recurrence (13 recurrence formats, truncated and relative points, min(), exclusion parsing), '
        'ISO8601Exclusions construction: exercised by the generator, observed only through the resulting recurrence',
        'SequenceDegenerateError paths (sub-minute durations under the minute-resolution dump format), recurrences iterated '
        'in reverse (no context start point), custom cycle point formats, Python recursion limit',
        'get_next_point_on_sequence as a public query with arbitrary arguments; __eq__/__hash__/__lt__ of sequences',
    ]
    rule = ('random recurrence texts from structure: 16 form kinds over the 13 regexes of RECURRENCE_FORMAT_REGEXES x start/end '
            'points (absolute in 3 spellings and 3 time zones, truncated T-hh / DD-T-hh, relative +-P.., chained) x 18 '
            'intervals (12 exact, 6 calendar) x repetitions x 0-4 exclusions (points aimed at members incl. the last ones, '
            'absolute points, 22 exclusion recurrences), 4 calendar modes, 6 cycle point time zones, expanded years, '
            'cache sizes {live default, 0, 1, 2, 3, 5}; 4-24 (thorough: 4-40) queries of the 8 kinds in random order around '
            'the first 10 points (on-sequence, off-sequence by minutes / fractions / multiples of the step, far before and '
            'after), each in one of 5 spellings, asked on ONE long-lived object and again on a fresh object per query; '
            'the judge compares every answer with brute force over the enumerated list and long-lived with fresh answers. '
            'class = form kind / open|closed / exclusion kinds and hit / trailing exclusions / stepping deviations; '
            'every generated case is distinct and non-trivial (a real sequence object answering >= 4 queries)')
    workers = 16

    # ------------------------------------------------------------------
    def setup(self):
        import logging
        from cylc.flow import LOG
        LOG.setLevel(logging.CRITICAL)
        from cylc.flow.cycling import iso8601
        from metomi.isodatetime.dumpers import TimePointDumper
        from metomi.isodatetime.data import Duration
        self.I = iso8601
        self.dumper = TimePointDumper()
        self.Duration = Duration
        self._cfg = None
        self._partial = None
        self.live_cap = iso8601._LARGE_LRU_CACHE_SIZE

    # ------------------------------------------------------------------
    # K-T: constants / behaviour flags of the live source
    def translate(self):
        I = self.I
        cap = self.live_cap
        if not isinstance(cap, int) or isinstance(cap, bool) or cap < 0:
            raise ValueError('_LARGE_LRU_CACHE_SIZE is not a natural number')
        I.init(time_zone='Z', cycling_mode='gregorian')
        self._cfg = None
        a = I.ISO8601Sequence('R5/20000101T00Z/P1D!(20000105T00Z,20000104T00Z)', '20000101T00Z').get_stop_point()
        b = I.ISO8601Sequence('R1/20000101T00Z!20000101T00Z', '20000101T00Z').get_stop_point()
        if a is not None and str(a) == '20000103T0000Z' and b is None:
            skips = 'true'
        elif a is not None and str(a) == '20000104T0000Z' and b is not None and str(b) == 'None':
            skips = 'false'
        else:
            raise ValueError(f'get_stop_point: unrecognised behaviour on the probes ({a}, {b})')
        return {'IsoSeqCfg.lean': (
            '/- GENERATED by harness/props/c17.py translate() from the live source. Do not edit. -/\n'
            'namespace CylcModel.IsoSeq\n'
            '/-- `cylc.flow.cycling.iso8601._LARGE_LRU_CACHE_SIZE` -/\n'
            f'def defaultCap : Nat := {cap}\n'
            '/-- does `ISO8601Sequence.get_stop_point` return the last point that is NOT excluded '
            '(probed: two trailing exclusions, and everything excluded) -/\n'
            f'def stopSkipsExcluded : Bool := {skips}\n'
            'end CylcModel.IsoSeq\n')}

    def _init(self, inp):
        cfg = (inp['mode'], inp['tz'], inp['xy'])
        if cfg != self._cfg:
            self.I.init(num_expanded_year_digits=inp['xy'], time_zone=inp['tz'], cycling_mode=inp['mode'])
            self._cfg = cfg

    # ------------------------------------------------------------------
    # generation
    def corpus(self):
        Z = [0, 1, 0]
        q_all = lambda n: [[op, i, Z, 0] for i in range(n) for op in OPS]  # noqa: E731
        mk = self.mk
        return [
            # DESIGN section 8: two trailing exclusions
            mk('R5/20000101T00Z/P1D', [{'abs': '20000105T00Z'}, {'abs': '20000104T00Z'}], qs=q_all(5)),
            mk('R5/20000101T00Z/P1D', [{'at': -1}, {'at': -2}, {'at': -3}], qs=q_all(5)),
            mk('R1/20000101T00Z', [{'at': 0}], qs=q_all(1)),                     # everything excluded
            mk('R3/T00', [{'seq': 'P1D'}], qs=q_all(3)),
            mk('R5/T00', [{'at': -1}], qs=q_all(5)),                              # one trailing exclusion
            # month-end clamping: p - P1M is not the predecessor
            mk('R/19991231T00Z/P1M', [], icp='19991231T00Z', qs=q_all(6)),
            mk('R6/P1M', [], icp='20000131T00Z', fcp='20000731T00Z', qs=q_all(6)),
            # cache exercise: next from recent valid points, tiny caches
            mk('PT6H', [{'seq': 'T12'}, {'at': 5}], cap=1,
               qs=[['n', 0, Z, 0], ['n', 3, Z, 0], ['v', 6, Z, 0], ['n', 1, [0, 1, 1], 0], ['f', 2, Z, 1], ['v', 6, Z, 1],
                   ['on', 7, Z, 0], ['n', 9, [0, 1, -1], 0], ['np', 8, [0, 1, 30], 0], ['v', 2, Z, 0], ['n', 0, Z, 0],
                   ['p', 6, Z, 0], ['n', 12, Z, 0], ['v', 13, Z, 0], ['v', 4, Z, 0], ['f', 0, [0, 1, -60], 0],
                   ['e', 0, Z, 0], ['s', 0, Z, 0]]),
            mk('T06/P1D', [], tz='+0100', qs=q_all(4)),
            mk('R/P1M/-P1D', [], fcp='20000510T00Z', qs=q_all(5)),
        ]

    def mk(self, text, excl, icp='20000101T00Z', fcp=None, mode='gregorian', tz='Z', xy=0, cap=None, qs=(), kind='corpus'):
        return {'text': text, 'excl': list(excl), 'icp': icp, 'fcp': fcp, 'mode': mode, 'tz': tz, 'xy': xy,
                'cap': cap, 'qs': [list(q) for q in qs], 'kind': kind}

    def gen(self, tier, rng):
        n = {"quick": 1500, "thorough": 20000, "search": 12000}[tier]
        for _ in range(n):
            yield self.random_case(rng, long=(tier != 'quick'))

    def random_case(self, rng, long=False):
        mode = rng.choice(MODES) if rng.random() < 0.5 else 'gregorian'
        tz = rng.choice(TZS)
        xy = 2 if rng.random() < 0.12 else 0
        icp_dt = datetime.datetime(*rng.choice(ICPS))
        if mode != 'gregorian' and icp_dt.day > 28:
            icp_dt = icp_dt.replace(day=28)
        intv = rng.choice(INTVS_EXACT) if rng.random() < 0.72 else rng.choice(INTVS_INEXACT)
        L = LEN[intv]
        n = rng.choice([1, 2, 3, 3, 4, 5, 6, 8, 12])
        k = rng.randint(1, 16)

        def absolute(lo, hi):
            """absolute point text, lo..hi interval lengths away from the initial point"""
            dt = icp_dt + datetime.timedelta(minutes=L * rng.randint(lo, hi) + rng.choice([0, 0, 0, 0, 30, 360, -720]))
            if mode != 'gregorian' and dt.day > 28:
                dt = dt.replace(day=28)
            return render(dt, rng.choice(ZONES), rng.randrange(3), xy)

        def point(lo, hi):
            r = rng.random()
            if r < 0.33:
                return rng.choice(TRUNC[:6]) if rng.random() < 0.7 else rng.choice(TRUNC)
            if r < 0.58:
                return rng.choice(RELS)
            return absolute(lo, hi)

        icp = render(icp_dt, rng.choice(ZONES), rng.randrange(3), xy)
        fcp = None
        need_fcp = False
        R = rng.choice(['R', 'R%d' % n])
        if mode == 'gregorian' and rng.random() < 0.06:
            # calendar duration from a month end written in another time zone than the cycle point time zone:
            # stepping from the re-parsed point and iterating disagree (finding step-off-iteration)
            intv = rng.choice(INTVS_INEXACT)
            L = LEN[intv]
            y, m = rng.choice([(2000, 1), (2000, 3), (1999, 12), (2000, 8), (2001, 5), (2000, 2), (2023, 10)])
            last = (datetime.datetime(y + m // 12, m % 12 + 1, 1) - datetime.timedelta(days=1)).day
            d = rng.choice([last, last, 30 if last > 30 else last, 1])
            z = rng.choice(['+01', '-0530', '+1300', '-08'])
            hh = rng.choice([0, 0, 23, 12])
            start = '%04d%02d%02dT%02d00%s' % (y, m, d, hh, z)
            if xy:
                start = '+00' + start
            icp_dt = datetime.datetime(y, m, 1)
            icp = render(icp_dt, ZONES[0], 0, xy)
            text, kind = f'{R}/{start}/{intv}', 'foreign-zone-calendar'
            tz = rng.choice(['Z', 'Z', '+0100', '-0800'])
            k = 0
        elif k == 1:
            text, kind = rng.choice(TRUNC), 'start'
        elif k == 2:
            if rng.random() < 0.5:
                a, b = absolute(-2, 3), absolute(4, 9)
            else:
                a, b = point(-2, 3), point(4, 9)
                need_fcp = True
            text, kind = f'{R}/{a}/{b}', 'rep-start-end'
        elif k in (3, 4):
            text, kind = f'{point(-3, 6)}/{intv}' + rng.choice(['', '', '/']), 'start-intv'
        elif k in (5, 6):
            text, kind = intv, 'intv'
        elif k == 7:
            text, kind, need_fcp = f'{intv}/{point(5, 30)}', 'intv-end', True
        elif k == 8:
            text, kind = f'R{rng.choice([1, 1, n])}/{point(-3, 6)}' + rng.choice(['', '/']), 'rep-start'
        elif k in (9, 10):
            text, kind = f'{R}/{point(-3, 6)}/{intv}', 'rep-start-intv'
        elif k == 11:
            text, kind = f'R{n}//{intv}', 'rep-intv-icp'
        elif k in (12, 13):
            text, kind, need_fcp = f'{R}/{intv}/{point(5, 30)}', 'rep-intv-end', True
        elif k == 14:
            text, kind, need_fcp = f'R{n}/{intv}' + rng.choice(['', '/']), 'rep-intv', True
        elif k == 15:
            text, kind = rng.choice(['R1', 'R1/']), 'r1'
        else:
            text, kind, need_fcp = f'R1//{point(5, 30)}', 'r1-end', True
        if need_fcp or rng.random() < 0.3:
            fdt = icp_dt + datetime.timedelta(minutes=L * rng.randint(3, 40) + rng.choice([0, 0, 360, 90, 1440 * 17]))
            if mode != 'gregorian' and fdt.day > 28:
                fdt = fdt.replace(day=28)
            fcp = render(fdt, rng.choice(ZONES), rng.randrange(3), xy)
        main_len = L
        if kind in ('start', 'rep-start'):
            main_len = 1440
        if kind == 'start' and text[0] != 'T':
            main_len = 43200
        excl = []
        for _ in range(rng.choice([0, 0, 0, 1, 1, 2, 2, 3, 4])):
            r = rng.random()
            if r < 0.5:
                excl.append({'at': rng.choice([-1, -1, -2, -2, -3, 0, 0, 1, 2, 3, 4, 5, 7])})
            elif r < 0.6:
                excl.append({'abs': absolute(-2, 12)})
            else:
                ok = [x for x in EXCL_SEQS if XLEN[x] * 4 >= main_len]
                excl.append({'seq': rng.choice(ok)})
        nq = rng.randint(4, 40 if long else 24)
        qs = []
        hot = [rng.randrange(POOL) for _ in range(3)]
        for _ in range(nq):
            op = rng.choice(['v', 'v', 'on', 'n', 'n', 'n', 'p', 'np', 'f', 'f', 's', 'e'])
            idx = rng.choice(hot) if rng.random() < 0.4 else rng.randrange(POOL)
            off = rng.choice(OFFS)
            if op == 'p' and rng.random() < 0.85:
                off = [0, 1, 0]           # get_prev_point is meant for points of the recurrence
            qs.append([op, idx, off, rng.choice([0, 0, 0, 1, 2, 3, 4])])
        return self.mk(text, excl, icp, fcp, mode, tz, xy, rng.choice(CAPS), qs, kind)

    # ------------------------------------------------------------------
    # adapter
    def minutes(self, tp):
        s = int(tp.seconds_since_unix_epoch)
        if s % 60:
            raise ValueError('sub-minute instant')
        return s // 60

    def build_text(self, inp):
        """resolve `at` exclusions against the exclusion-free recurrence"""
        I = self.I
        text = inp['text']
        items = []
        base = None
        for e in inp['excl']:
            if 'at' in e:
                if base is None:
                    s0 = I.ISO8601Sequence(text, inp['icp'], inp['fcp'])
                    base = []
                    for tp in s0.recurrence:
                        base.append(tp)
                        if len(base) >= 40:
                            break
                if base:
                    items.append(str(base[e['at'] % len(base)] if e['at'] < 0 else base[min(e['at'], len(base) - 1)]))
            elif 'abs' in e:
                items.append(e['abs'])
            else:
                items.append(e['seq'])
        if items:
            text += '!' + (items[0] if len(items) == 1 and len(inp['qs']) % 2 else '(' + ','.join(items) + ')')
        return text

    def impl(self, inp):
        # a query that does not come back is an answer ('TIMEOUT', judged); the timer can expire spuriously
        # when the VM is paused, hence one retry of the whole case
        for attempt in (0, 1):
            old = signal.signal(signal.SIGVTALRM, _on_alarm)
            signal.setitimer(signal.ITIMER_VIRTUAL, CASE_BUDGET)
            self._partial = None
            try:
                return self._impl(inp)
            except RecursionError:
                return {'build': 'skip', 'why': 'RecursionError'}
            except _Timeout:
                if attempt == 0:
                    continue
                if self._partial is None:
                    return {'build': 'skip', 'why': 'slow'}
                raw, ans = self._partial
                if len(raw['env']['pts']) > SMALL:
                    return {'build': 'skip', 'why': 'slow'}
                # a query that does not return within the budget on a window of a few points is an answer
                n = len(raw['env']['qs'])
                raw['a'] = ans + ['TIMEOUT'] * (n - len(ans))
                raw['f'] = [None] * n
                return raw
            finally:
                signal.setitimer(signal.ITIMER_VIRTUAL, 0)
                signal.signal(signal.SIGVTALRM, old)

    def _impl(self, inp):
        I = self.I
        self._init(inp)
        if inp['cap'] is not None:
            I._LARGE_LRU_CACHE_SIZE = inp['cap']
        try:
            try:
                text = self.build_text(inp)
                s = I.ISO8601Sequence(text, inp['icp'], inp['fcp'])
            except Exception as exc:
                return {'build': 'err', 'why': type(exc).__name__}
            rec = s.recurrence
            if rec.start_point is None:
                return {'build': 'skip', 'why': 'reverse iteration'}
            ex = s.exclusions

            # exclusions, by brute-force enumeration of the exclusion recurrences (lazily, up to the instant asked)
            xp_set = set()
            xiters = []
            if ex:
                xp_set = {self.minutes(I.point_parse(p.value)) for p in ex.exclusion_points}
                for q in ex.exclusion_sequences:
                    if q.recurrence.start_point is None:
                        return {'build': 'skip', 'why': 'reverse exclusion'}
                    xiters.append({'it': iter(q.recurrence), 'seen': [], 'set': set(), 'done': False})
            budget = [40 * LIMIT]

            def advance(upto):
                for x in xiters:
                    while not x['done'] and (not x['seen'] or x['seen'][-1] <= upto):
                        budget[0] -= 1
                        if budget[0] < 0:
                            raise OverflowError
                        try:
                            m = self.minutes(next(x['it']))
                        except StopIteration:
                            x['done'] = True
                            break
                        x['seen'].append(m)
                        x['set'].add(m)

            def excluded(m):
                advance(m)
                return m in xp_set or any(m in x['set'] for x in xiters)

            # query points: around the first POOL points
            it = iter(rec)
            pts = []
            for tp in it:
                pts.append(tp)
                if len(pts) >= POOL:
                    break
            if not pts:
                return {'build': 'skip', 'why': 'empty recurrence'}
            first = list(pts)
            step = (self.minutes(first[1]) - self.minutes(first[0])) if len(first) > 1 else 1440
            qpts = []
            for op, idx, off, sp in inp['qs']:
                tp = first[idx % len(first)]
                a, b, c = off
                mins = (step * a) // b + c
                if mins:
                    tp = tp + self.Duration(minutes=mins)
                qpts.append(tp)
            qmax = max([self.minutes(t) for t in qpts] + [self.minutes(first[-1])])
            # the rest of the window: everything if the iteration ends, else MARGIN non-excluded points beyond qmax
            unbounded = rec.repetitions is None and rec.end_point is None and rec.max_point is None
            is_open = False
            try:
                beyond = sum(1 for t in pts if self.minutes(t) > qmax and not excluded(self.minutes(t)))
                if not (unbounded and beyond >= MARGIN):
                    for tp in it:
                        pts.append(tp)
                        m = self.minutes(tp)
                        if unbounded and m > qmax and not excluded(m):
                            beyond += 1
                            if beyond >= MARGIN:
                                break
                        if len(pts) > LIMIT:
                            return {'build': 'skip', 'why': 'window too large'}
                is_open = unbounded
                m_pts = [self.minutes(t) for t in pts]
                hi = max(m_pts[-1], qmax)
                advance(hi)
            except OverflowError:
                return {'build': 'skip', 'why': 'exclusion window too large'}
            if any(a >= b for a, b in zip(m_pts, m_pts[1:])):
                return {'build': 'skip', 'why': 'iteration not strictly increasing'}
            # where the wrapper's stepping (get_next / get_prev applied to the point re-parsed from its own
            # string) is not the iteration successor / predecessor, and where it leads from there
            memb = set(m_pts)
            succ = dict(zip(m_pts, m_pts[1:] + [None]))
            pred = dict(zip(m_pts, [None] + m_pts[:-1]))
            canon = lambda tp: I.point_parse(str(tp))  # noqa: E731
            nxo, pvo = [], []
            seen = set()
            hi2 = [hi]

            def chain_from(rm, r):
                """entries for the off-iteration points reached from a deviating step, far enough for every query:
                up to MARGIN non-excluded chain points beyond the largest query"""
                beyond = steps = 0
                while rm is not None and rm not in memb and rm not in seen:
                    seen.add(rm)
                    hi2[0] = max(hi2[0], rm)
                    if rm > qmax and not excluded(rm):
                        beyond += 1
                        if beyond >= MARGIN and rm > hi:
                            return True
                    r2 = rec.get_next(canon(r))
                    if r2 is None:
                        return True
                    rm2 = self.minutes(r2)
                    nxo.append([rm, rm2])
                    steps += 1
                    if steps > 400:
                        return False
                    rm, r = rm2, r2
                return True

            for m, tp in zip(m_pts, pts):
                r = rec.get_next(canon(tp))
                rm = None if r is None else self.minutes(r)
                if rm is not None and rm > hi and succ[m] is None:
                    rm = None           # the iteration goes on beyond the window (open recurrence)
                if rm != succ[m]:
                    nxo.append([m, rm])
                    try:
                        if not chain_from(rm, r):
                            return {'build': 'skip', 'why': 'off-iteration closure too large'}
                    except OverflowError:
                        return {'build': 'skip', 'why': 'exclusion window too large'}
            hi = hi2[0]
            try:
                advance(hi)
            except OverflowError:
                return {'build': 'skip', 'why': 'exclusion window too large'}
            pseen = set()

            def prev_closure(rm, r):
                """entries for the excluded non-members a get_prev chain runs through"""
                n = 0
                while rm is not None and rm not in memb and rm not in pseen and excluded(rm) and n < 200:
                    pseen.add(rm)
                    r = rec.get_prev(canon(r))
                    nm = None if r is None else self.minutes(r)
                    pvo.append([rm, nm])
                    rm = nm
                    n += 1

            for m, tp in zip(m_pts, pts):
                r = rec.get_prev(canon(tp))
                rm = None if r is None else self.minutes(r)
                if rm != pred[m]:
                    pvo.append([m, rm])
                    prev_closure(rm, r)
            xp = sorted(xp_set)
            xs = [[m for m in x['seen'] if m <= hi] for x in xiters]
            bounded = (rec.repetitions is not None or (
                (rec.start_point is not None or rec.min_point is not None)
                and (rec.end_point is not None or rec.max_point is not None)))
            # the queries
            fmtz = [None if f is None else fmt_fix(f, inp['xy']) for f in SPELL]
            keys = []
            for (op, idx, off, sp), tp in zip(inp['qs'], qpts):
                key = str(tp)
                if fmtz[sp] is not None:
                    alt = self.dumper.dump(tp, fmtz[sp])
                    try:
                        if self.minutes(I.point_parse(alt)) == self.minutes(tp):
                            key = alt
                    except Exception:
                        pass
                keys.append(key)
            qrows = []
            for q, k, t in zip(inp['qs'], keys, qpts):
                kp = None
                if q[0] in ('p', 'np'):
                    r = rec.get_prev(I.point_parse(k))
                    kp = None if r is None else self.minutes(r)
                    prev_closure(kp, r)
                qrows.append([q[0], k, self.minutes(t), kp])
            if len(m_pts) * (1 + sum(len(x) for x in xs)) > COST:
                return {'build': 'skip', 'why': 'costly exclusions'}
            env = {'pts': m_pts, 'open': is_open, 'bounded': bool(bounded), 'xp': xp, 'xs': xs,
                   'nxo': nxo, 'pvo': pvo, 'cap': inp['cap'], 'qs': qrows}
            raw = {'build': 'ok', 'text': text, 'value': str(s), 'env': env}
            ans, fresh = [], []
            self._partial = (raw, ans)
            for (op, idx, off, sp), key in zip(inp['qs'], keys):
                ans.append(self.ask(s, op, key))
            self._partial = None
            for (op, idx, off, sp), key in zip(inp['qs'], keys):
                fresh.append(self.ask(I.ISO8601Sequence(text, inp['icp'], inp['fcp']), op, key))
            raw['a'], raw['f'] = ans, fresh
            return raw
        finally:
            I._LARGE_LRU_CACHE_SIZE = self.live_cap

    def ask(self, s, op, key):
        I = self.I
        try:
            if op == 's':
                r = s.get_start_point()
            elif op == 'e':
                r = s.get_stop_point()
            else:
                p = I.ISO8601Point(key)
                if op == 'v':
                    return bool(s.is_valid(p))
                if op == 'on':
                    return bool(s.is_on_sequence(p))
                r = {'n': s.get_next_point, 'p': s.get_prev_point, 'np': s.get_nearest_prev_point,
                     'f': s.get_first_point}[op](p)
            if r is None:
                return None
            try:
                return self.minutes(I.point_parse(r.value))
            except Exception:
                return 'BOGUS'
        except RecursionError:
            raise
        except Exception as exc:
            return 'ERR:' + type(exc).__name__

    def impl_batch(self, inputs):
        # core.Prop.impl_batch pickles the bound method and with it the modules this object holds;
        # fork the workers and reach the instance through the module global instead
        if len(inputs) < 32:
            return [self.impl(i) for i in inputs]
        import multiprocessing as mp
        with mp.get_context('fork').Pool(self.workers) as pool:
            return pool.map(_impl_worker, inputs, chunksize=max(1, len(inputs) // (self.workers * 16)))

    # ------------------------------------------------------------------
    def skip_case(self, inp, raw):
        return raw.get('build') != 'ok'

    def driver_input(self, inp, raw):
        return raw['env']

    def driver_obs(self, inp, raw):
        return {'a': raw['a'], 'f': raw['f']}

    def replay_input(self, inp, env):
        # the class label needs the enumerated window: computed here, carried on the stored case (impl ignores it)
        memb = set(env['pts'])
        ex = set(env['xp'])
        for l in env['xs']:
            ex.update(l)
        hit = sum(1 for p in env['pts'] if p in ex)
        trail = 0
        for p in reversed(env['pts']):
            if p not in ex:
                break
            trail += 1
        tags = [inp.get('kind', '?'), 'open' if env['open'] else 'closed']
        if not env['xp'] and not env['xs']:
            tags.append('noexcl')
        else:
            tags.append(('xpt' if env['xp'] else '') + ('xseq' if env['xs'] else '') + ('-hit' if hit else '-miss'))
        if hit and hit == len(env['pts']):
            tags.append('all-excluded')
        elif trail >= 2:
            tags.append('trail2+')
        elif trail == 1:
            tags.append('trail1')
        if any(e[0] in memb for e in env['nxo']):
            tags.append('next-deviates')
        if any(e[0] in memb for e in env['pvo']):
            tags.append('prev-deviates')
        return dict(inp, cls='/'.join(tags))

    def classify(self, inp, obs):
        return inp.get('cls') or inp.get('kind')

    def neighbours(self, inp, rng):
        out = []
        base = {k: v for k, v in inp.items() if k != 'cls'}
        for cap in (None, 0, 1, 3):
            out.append(dict(base, cap=cap))
        out.append(dict(base, excl=[]))
        for i in range(len(base['excl'])):
            out.append(dict(base, excl=base['excl'][:i] + base['excl'][i + 1:]))
        out.append(dict(base, qs=[[op, q[1], q[2], 0] for q in base['qs'] for op in OPS][:64]))
        out.append(dict(base, qs=list(reversed(base['qs']))))
        return out


PROP = C17()


def _impl_worker(inp):
    return PROP.impl(inp)
