"""C01  Graph-faithful execution: exactly the graph-implied task instances run."""
from __future__ import annotations

import sys
from pathlib import Path

sys.path.insert(0, str(Path(__file__).resolve().parents[1] / 'sched'))
from prop import SchedProp  # noqa: E402


class C01(SchedProp):
    id = 'C01'
    gen_opts = {'p_multirec': 0.25, 'p_boundrec': 0.25, 'fail_signals': True, 'p_lose': 0.25}
    props_modules = ['CylcModel.Props.C01']
    theorems = [
        'CylcModel.C01.submit_sound',
        'CylcModel.C01.submit_sound_before',
        'CylcModel.C01.launch_only_from_queued',
        'CylcModel.C01.queued_only_when_satisfied',
        'CylcModel.C01.prereq_atoms_justified',
        'CylcModel.C01.abs_outputs_completed',
        'CylcModel.C01.submit_closed',
        'CylcModel.C01.step_refines',
        'CylcModel.C01.completed_monotone',
        'CylcModel.C01.auto_shutdown_quiescent',
    ]
    statement_note = (
        'proof over the Sched model (v1: intervention-free runs; all instance graphs with the five standard outputs '
        '[hypothesis Graph.wf, checked by the driver on every real graph], all lists of main loops / submit results / '
        'job messages). submit_sound (full): every launch in every state of every run is of a valid instance within '
        '[icp, fcp] whose every graph prerequisite expression is true over {initially satisfied atoms} + {outputs '
        'recorded complete}, a launch only comes from a queued proxy, a proxy is queued only with all prerequisite '
        'expressions true, and (Inv_prereq) a satisfied atom of any pooled proxy is initially satisfied in the graph or '
        'its upstream output is recorded complete (absolute outputs included); completed outputs are never forgotten. '
        'submit_closed (full, in the form: every pooled / recorded / launched instance is in the spawn-on-demand '
        'closure = parentless points + graph children of completed outputs of closure members; the closure rule does '
        'not require the parent to have been submitted). Technique: every model primitive is refined to a sequence of '
        'atomic actions (step_refines) and the invariants are proved per atomic action; submit_sound_before states the '
        'temporal order: the launches of an operation are justified by the outputs recorded complete BEFORE the '
        'operation (as the judge checks on the observations). Partial: closure_complete (closure within bounds is fully submitted at an automatic shutdown) is NOT proved '
        '(def closure_complete_full; needs the no-deadlock argument of C04) - proved of it: auto_shutdown_quiescent; '
        'it is decided by the judge on every real run of kind complete; the judge also decides, for every run that shut down '
        'by itself, that every graph-implied parentless instance (valid point of the task + TaskDef.is_parentless, '
        'independently of next_point_parentless, which the model takes from the implementation) was submitted, that a '
        'complete output comes with the outputs it implies (succeeded / failed => started => submitted), and that the '
        'prerequisites of every instance of the extracted graph are those of the recurrences the instance is valid on '
        '(harness key pre_spec: TaskDef.dependencies + Sequence.is_valid, not the TaskProxy). The JSON layer of the model '
        '(SchedPF.canonMsg) reads failed/<SIGNAL> and aborted/<reason> as the output failed. Not in Sched v1: commands, several flows, '
        'xtriggers, datetime cycling, families (expanded before the model)')
    technique = ('refinement of the Lean scheduler model to atomic actions + inductive invariants over all op lists + '
                 'trace correspondence with the real Scheduler + trace judge')
    trusted = ['the runner instrumentation (wrappers around TaskPool.remove / process_message that only record)']
    rule = ('generated integer-cycling workflows (2-6 tasks, 1-3 recurrences, in a quarter of them additionally one '
            'parentless task on two recurrences with interleaving points (different step or phase) with or without a '
            'child per recurrence, in a quarter a task on P1 and on a bounded stepped recurrence Rn/<point>/Pk with a '
            'trigger of its own there; failing jobs report the failure as job scripts do (failed/<SIGNAL>, aborted/<reason>) '
            'and a message other than the last of a job is lost with probability 0.25, AND/OR/parenthesised triggers, inter-cycle, '
            'pre-initial and absolute offsets, optional and custom outputs, suicide triggers, sequential tasks, retries, '
            'warm starts, stop points, runahead P0-P3) driven through the real Scheduler by a seeded adaptive schedule of '
            'main loops, submit results and job messages; kind complete = every finished task completes its required '
            'outputs (closure equality + automatic shutdown judged), kind any = failures, missing outputs, submit '
            'failures, duplicate/stale/out-of-order messages; non-trivial = distinct (kind, ending, launch-count class, '
            'polls) class per distinct case')


PROP = C01()
