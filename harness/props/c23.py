"""C23  Universal identifiers round-trip (cylc/flow/id.py)."""
from __future__ import annotations

import itertools
import random
import re

from core import Prop

KEYS9 = ['user', 'workflow', 'workflow_sel', 'cycle', 'cycle_sel', 'task', 'task_sel', 'job', 'job_sel']

# ---------------------------------------------------------------------------
# K-T: tables read off the live regexes


def group_body(pat: str, name: str) -> str:
    """Text of the named group `name` of a regex source (balanced parentheses, classes skipped)."""
    tag = '(?P<%s>' % name
    i = pat.index(tag) + len(tag)
    depth, j = 1, i
    while depth:
        c = pat[j]
        if c == '\\':
            j += 2
            continue
        if c == '[':
            k = j + 1
            if pat[k] == '^':
                k += 1
            if pat[k] == ']':
                k += 1
            while pat[k] != ']':
                k += 2 if pat[k] == '\\' else 1
            j = k + 1
            continue
        if c == '(':
            depth += 1
        elif c == ')':
            depth -= 1
        j += 1
    return pat[i:j - 1]


ITEM = re.compile(r'(\[(?:\\.|[^\]\\])*\]|\\d)(\*\?|\+\?|\*|\+|\?)?')


def items(body: str):
    return [(m.group(1), m.group(2) or '') for m in ITEM.finditer(body)]


def excluded(cls: str):
    """Characters rejected by a negated class, found by running the class itself (extensional)."""
    if not cls.startswith('[^'):
        raise ValueError(f'character class {cls!r} is not a negated class')
    rx = re.compile(cls)
    out = [chr(i) for i in range(128) if not rx.fullmatch(chr(i))]
    for i in (0x85, 0xa0, 0xe9, 0x3b1, 0x3000, 0x1f600):
        if not rx.fullmatch(chr(i)):
            raise ValueError(f'character class {cls!r} rejects the non-ASCII character U+{i:04X}')
    return out


def lean_char(c: str) -> str:
    if c == "'":
        return "'\\''"
    if c == '\\':
        return "'\\\\'"
    if c == '\n':
        return "'\\n'"
    if 32 <= ord(c) < 127:
        return f"'{c}'"
    return f'Char.ofNat {ord(c)}'


def lean_chars(cs) -> str:
    return '[' + ', '.join(lean_char(c) for c in cs) + ']'


def skeleton(pat: str) -> str:
    """Verbose-mode regex source without comments / white space (for the reader only)."""
    out = []
    for ln in pat.splitlines():
        ln = re.sub(r'(?<!\\)#.*', '', ln)
        out.append(re.sub(r'\s+', '', ln))
    return ''.join(out)


# ---------------------------------------------------------------------------
# case construction

def T(**kw):
    return [kw.get(k) for k in KEYS9]


def render_legacy(p):
    s = (p['task'] + '.' + p['cycle']) if p['dot'] else (p['cycle'] + '/' + p['task'])
    if p.get('sel') is not None:
        s += ':' + p['sel']
    return s


FIELD_ALPHA = list("aZ1 0.*-_+~:N")     # per-field letters; classes filter what is legal where
ALPHA8 = "~/:.a1 \n"
_I = None     # cylc.flow.id of the repository under test (module global: Prop objects get pickled)


class C23(Prop):
    id = 'C23'
    props_modules = ['CylcModel.Props.C23']
    theorems = [
        'CylcModel.C23.tables_separate',
        'CylcModel.C23.detok_tok_partial',
        'CylcModel.C23.detok_tok_counterexample',
        'CylcModel.C23.tok_detok_partial',
        'CylcModel.C23.relative_absolute_agree',
        'CylcModel.C23.relative_absolute_defined',
        'CylcModel.C23.legacy_upgrade_partial',
        'CylcModel.C23.legacy_upgrade_dot',
        'CylcModel.C23.legacy_upgrade_counterexample',
    ]
    technique = ('Lean 4 theorems (parser-after-printer by structural induction over character lists) over a hand '
                 'parser consuming the character classes regenerated from the live regexes + exhaustive short-string '
                 'correspondence')
    statement_note = 'filled in below'
    trusted = [
        'Python `re` semantics of UNIVERSAL_ID / RELATIVE_ID / LEGACY_* (the hand parser is tied to them by '
        'exhaustive correspondence over all strings up to a length bound on an 8-letter alphabet holding every '
        'separator, plus generated longer identifiers), `str.strip` (white-space table tabulated from the interpreter) '
        'and `int()` / `format(n, "02")` on ASCII digit strings',
    ]
    unmodelled = [
        'non-ASCII decimal digits (`\\d` and int() accept them; the model reads only 0-9)',
        'int() length limit (4300 digits)',
        'Tokens subclasses (TaskTokens), pop_token / lowest_token / ordering, quick_relative_id, '
        'id_cli.cli_tokenise (datetime re-attachment) and the file-system side of id_cli',
    ]
    rule = ''
    workers = 16

    # -- set-up --------------------------------------------------------------
    def setup(self):
        import logging
        from cylc.flow import id as I
        logging.getLogger('cylc').setLevel(logging.CRITICAL)
        I.LOG.setLevel(logging.CRITICAL)
        global _I
        _I = I

    # -- K-T -----------------------------------------------------------------
    def translate(self):
        I = _I
        U, R = I.UNIVERSAL_ID.pattern, I.RELATIVE_ID.pattern
        LD, LS = I.LEGACY_TASK_DOT_CYCLE.pattern, I.LEGACY_CYCLE_SLASH_TASK.pattern
        if [I.UNIVERSAL_ID.flags & re.X, I.RELATIVE_ID.flags & re.X] != [re.X, re.X]:
            raise ValueError('ID patterns are not verbose-mode regexes')
        for p in (I.UNIVERSAL_ID, I.RELATIVE_ID, I.LEGACY_TASK_DOT_CYCLE, I.LEGACY_CYCLE_SLASH_TASK):
            if p.flags & (re.M | re.S | re.I | re.A):
                raise ValueError(f'unexpected regex flags {p.flags}')

        def one(pat, g, quant='+'):
            its = items(group_body(pat, g))
            if len({c for c, _ in its}) != 1 or any(q != quant for _, q in its):
                raise ValueError(f'group {g}: expected one class with {quant!r}, found {its}')
            return excluded(its[0][0])

        def two(pat, g, quants):
            its = items(group_body(pat, g))
            if len(its) != 2 or its[0][1] != '' or its[1][1] not in quants:
                raise ValueError(f'group {g}: expected <first><rest>{quants}, found {its}')
            return its

        tabs = {}
        tabs['userNot'] = one(U, 'user')
        tabs['workflowNot'] = one(U, 'workflow')
        for g in ('workflow_sel', 'cycle_sel', 'task', 'task_sel', 'job', 'job_sel'):
            tabs[g] = one(U, g)
            if g != 'workflow_sel' and one(R, g) != tabs[g]:
                raise ValueError(f'group {g} differs between UNIVERSAL_ID and RELATIVE_ID')
        cyc = two(U, 'cycle', ('*?',))
        if two(R, 'cycle', ('*?',)) != cyc:
            raise ValueError('cycle group differs between UNIVERSAL_ID and RELATIVE_ID')
        tabs['cycleFirstNot'] = excluded(cyc[0][0])
        tabs['cycleRestNot'] = excluded(cyc[1][0])
        # legacy patterns
        ldc = two(LD, 'cycle', ('*', '+'))
        lsc = two(LS, 'cycle', ('*', '+'))
        if ldc[0][0] != '\\d' or lsc[0][0] != '\\d':
            raise ValueError('legacy cycles do not start with \\d')
        digits = [chr(i) for i in range(128) if re.fullmatch(r'\d', chr(i))]
        ws = [chr(i) for i in range(0x110000) if chr(i).isspace()]
        if any((c + 'x' + c).strip() != 'x' for c in ws) or any(
                (chr(i) + 'x').strip() == 'x' for i in range(0x3100) if chr(i) not in ws):
            raise ValueError('str.strip does not strip exactly the isspace characters')
        order = [t.value for t in I.IDTokens]
        sel_keys = sorted(I.Tokens._SELECTOR_KEYS)
        task_like = sorted(I.Tokens._TASK_LIKE_KEYS)
        names = {
            'workflow_sel': 'workflowSelNot', 'cycle_sel': 'cycleSelNot', 'task': 'taskNot',
            'task_sel': 'taskSelNot', 'job': 'jobNot', 'job_sel': 'jobSelNot'}
        L = []
        L.append('/- GENERATED by harness/props/c23.py translate() from the live source (cylc/flow/id.py:')
        L.append('   IDTokens, Tokens key sets, the character classes of UNIVERSAL_ID / RELATIVE_ID / LEGACY_*, found by')
        L.append('   running each class on every ASCII character; the white-space set of str.strip). Do not edit.')
        L.append('')
        L.append('   UNIVERSAL_ID  = ' + skeleton(U).replace('-/', '- /'))
        L.append('   RELATIVE_ID   = ' + skeleton(R).replace('-/', '- /'))
        L.append('   LEGACY_TASK_DOT_CYCLE   = ' + skeleton(LD).replace('-/', '- /'))
        L.append('   LEGACY_CYCLE_SLASH_TASK = ' + skeleton(LS).replace('-/', '- /'))
        L.append('-/')
        L.append('namespace CylcModel.Generated.IdentTables')
        L.append('')
        L.append('/-- `[t.value for t in IDTokens]` (definition order = hierarchy order) -/')
        L.append('def idTokens : List (List Char) := [' + ', '.join(lean_chars(o) for o in order) + ']')
        L.append('/-- `Tokens._SELECTOR_KEYS`, sorted -/')
        L.append('def selectorKeys : List (List Char) := [' + ', '.join(lean_chars(o) for o in sel_keys) + ']')
        L.append('/-- `Tokens._TASK_LIKE_KEYS`, sorted -/')
        L.append('def taskLikeKeys : List (List Char) := [' + ', '.join(lean_chars(o) for o in task_like) + ']')
        L.append('')
        L.append('/-! characters a field may NOT contain (complement of the negated class of its group) -/')
        L.append(f'def userNot : List Char := {lean_chars(tabs["userNot"])}')
        L.append(f'def workflowNot : List Char := {lean_chars(tabs["workflowNot"])}')
        for g, n in names.items():
            L.append(f'def {n} : List Char := {lean_chars(tabs[g])}')
        L.append('/-- first character of a cycle / the following characters (matched lazily) -/')
        L.append(f'def cycleFirstNot : List Char := {lean_chars(tabs["cycleFirstNot"])}')
        L.append(f'def cycleRestNot : List Char := {lean_chars(tabs["cycleRestNot"])}')
        L.append('')
        L.append('/-! legacy `task.cycle[:sel]` -/')
        L.append(f'def lgDotTaskNot : List Char := {lean_chars(one(LD, "task"))}')
        L.append(f'def lgDotCycleNot : List Char := {lean_chars(excluded(ldc[1][0]))}')
        L.append(f'def lgDotCycleMin : Nat := {1 if ldc[1][1] == "+" else 0}   -- characters required after the leading digit')
        L.append(f'def lgDotSelNot : List Char := {lean_chars(one(LD, "task_sel"))}')
        L.append('/-! legacy `cycle/task[:sel]` -/')
        L.append(f'def lgSlashCycleNot : List Char := {lean_chars(excluded(lsc[1][0]))}')
        L.append(f'def lgSlashCycleMin : Nat := {1 if lsc[1][1] == "+" else 0}   -- characters required after the leading digit')
        L.append(f'def lgSlashTaskNot : List Char := {lean_chars(one(LS, "task"))}')
        L.append(f'def lgSlashSelNot : List Char := {lean_chars(one(LS, "task_sel"))}')
        L.append('/-- ASCII characters matched by `\\d` -/')
        L.append(f'def asciiDigits : List Char := {lean_chars(digits)}')
        L.append('')
        L.append('/-- every character `c` with `c.isspace()` (what `str.strip()` removes) -/')
        L.append(f'def pyWhitespace : List Char := {lean_chars(ws)}')
        L.append('')
        L.append('end CylcModel.Generated.IdentTables')
        return {'IdentTables.lean': '\n'.join(L) + '\n'}

    # -- K-C: the real code --------------------------------------------------
    def _t9(self, tok):
        return [tok[k] for k in KEYS9]

    def _mk(self, t9):
        return _I.Tokens(**{k: v for k, v in zip(KEYS9, t9) if v is not None})

    def _detok(self, tok, sel, rel=False):
        try:
            return _I.detokenise(tok, selectors=sel, relative=rel)
        except ValueError:
            return 'err'
        except Exception as exc:    # anything else is unexpected: shows up as a disagreement
            return 'EXC:' + type(exc).__name__

    def _tok(self, s, rel=False):
        if s is None or s == 'err' or s.startswith('EXC:'):
            return None
        try:
            return self._t9(_I.tokenise(s, rel))
        except ValueError:
            return 'err'
        except Exception as exc:
            return 'EXC:' + type(exc).__name__

    def impl(self, inp):
        I = _I
        k = inp['k']
        if k == 'tok':
            try:
                t = I.tokenise(inp['s'], inp['rel'])
            except ValueError:
                return {'t': 'err', 'ids': None, 'id': None, 't2': None}
            ids = self._detok(t, True)
            return {'t': self._t9(t), 'ids': ids, 'id': self._detok(t, False), 't2': self._tok(ids)}
        if k == 'rt':
            sel = inp['sel']
            tk = self._mk(inp['t'])
            id_ = self._detok(tk, sel)
            t2 = self._tok(id_)
            id2 = eq = hs = None
            if isinstance(t2, list):
                tk2 = self._mk(t2)
                id2 = self._detok(tk2, sel)
                eq = tk2 == tk
                hs = hash(tk2) == hash(tk)
            rid = self._detok(tk.task, sel, True)
            return {'id': id_, 't2': t2, 'id2': id2, 'rid': rid, 'rt': self._tok(rid, True), 'eq': eq, 'hash': hs}
        if k == 'legacy':
            lt = []
            for s in inp['ids']:
                try:
                    d = I.legacy_tokenise(s)
                    lt.append([d.get('cycle'), d.get('task'), d.get('task_sel')])
                except ValueError:
                    lt.append('err')
            up = I.upgrade_legacy_ids(*inp['ids'], relative=inp['rel'])
            return {'lt': lt, 'up': list(up), 'toks': [self._tok(u, inp['rel']) for u in up]}
        if k == 'eq':
            A = I.Tokens(**dict(map(tuple, inp['a'])))
            B = I.Tokens(**dict(map(tuple, inp['b'])))
            kw = dict(map(tuple, inp['kw']))
            return {'eq': A == B, 'ne': A != B, 'hash': hash(A) == hash(B),
                    'dup': self._t9(A.duplicate(B, **kw)), 'dupeq': A.duplicate() == A,
                    'task': self._t9(A.task), 'wf': self._t9(A.workflow)}
        raise ValueError(k)

    # -- cases ---------------------------------------------------------------
    def corpus(self):
        leg = lambda rel, *parts: self.legacy_case([p for p in parts], rel)   # noqa: E731
        P = lambda dot, task, cycle, sel=None: {'dot': dot, 'task': task, 'cycle': cycle, 'sel': sel}  # noqa: E731
        return [
            {'k': 'rt', 't': T(user='u', workflow='w', workflow_sel='ws', cycle='c', cycle_sel='cs', task='t',
                               task_sel='ts', job='4', job_sel='js'), 'sel': True},
            {'k': 'rt', 't': T(workflow='w', cycle='2021-01-01T00:00Z'), 'sel': False},
            {'k': 'rt', 't': T(workflow='w', cycle='a:b', cycle_sel='c'), 'sel': True},
            {'k': 'rt', 't': T(workflow='w', cycle='a:b', cycle_sel='c'), 'sel': False},
            {'k': 'rt', 't': T(workflow='a/b/c', cycle='a:', task='~t', job='NN'), 'sel': True},
            {'k': 'rt', 't': T(user='u', cycle='1'), 'sel': True},          # '*' filler: not a valid combination
            {'k': 'rt', 't': T(cycle='1', task='t', job='x'), 'sel': False},  # int('x')
            {'k': 'tok', 's': ' workflow // cycle ', 'rel': False},
            {'k': 'tok', 's': 'a///', 'rel': False},
            {'k': 'tok', 's': '~u/w:s//c:s/t:s/1:s\n', 'rel': False},
            {'k': 'tok', 's': 'c/t/+1_0', 'rel': True},
            {'k': 'tok', 's': ' ', 'rel': False},
            leg(False, 'workflow', P(True, 'task', '123', 'abc'), P(False, 'task', '234', 'def')),
            leg(True, P(True, 'x', '1'), P(True, 't.a.s.k', '2'), P(True, 'x', '3', 's')),
            leg(False, 'w', P(False, 'foo', '12')),
            leg(False, 'w', P(True, 'foo', '1'), 'not-legacy'),
            {'k': 'eq', 'a': [['workflow', 'w'], ['cycle', None]], 'b': [['workflow', 'w']], 'kw': [['job', '02']]},
            {'k': 'eq', 'a': [['workflow', 'w'], ['cycle', '']], 'b': [['workflow', 'w']], 'kw': []},
        ]

    def legacy_case(self, parts, rel):
        """parts: raw strings or structured legacy parts"""
        ids = [p if isinstance(p, str) else render_legacy(p) for p in parts]
        return {'k': 'legacy', 'ids': ids, 'rel': rel, 'parts': [None if isinstance(p, str) else p for p in parts]}

    # per-field letters: everything the field's class allows that sits next to a separator somewhere
    OKCH = {
        'user': "aZ1 0.*-_+N", 'workflow': "aZ1 0.*-_+N", 'workflow_sel': "aZ1 0.*-_+~N",
        'cycle': "aZ1 0.*-_+N:", 'cycle_sel': "aZ1 0.*-_+~N", 'task': "aZ1 0.*-_+~N", 'task_sel': "aZ1 0.*-_+~N",
        'job_sel': "aZ1 0.*-_+~N",
    }
    JOBS_OK = ['NN', '1', '01', '001', '12', '123', '0', '00', '9', '10', '099', '1234567890123456789012']
    JOBS_BAD = ['x', '+1', '-1', '1_0', ' 1', '', 'nn', 'NN ', '1_', '_1', '1__0', '--1', '+', '0x1', '1 0']

    def rand_field(self, rng, key, legal=True):
        if key == 'job':
            return rng.choice(self.JOBS_OK if legal else self.JOBS_OK + self.JOBS_BAD)
        n = rng.choice([1, 1, 2, 2, 3, 4])
        if not legal:
            return ''.join(rng.choice(FIELD_ALPHA + ['/', '\n', '\t', '\xa0', 'é']) for _ in range(n))
        ok = self.OKCH[key]
        while True:
            if key == 'workflow':
                s = '/'.join(''.join(rng.choice(ok) for _ in range(rng.choice([1, 1, 2])))
                             for _ in range(rng.choice([1, 1, 2, 3])))
            else:
                s = ''.join(rng.choice(ok) for _ in range(n))
            if s != s.strip() or (key == 'cycle' and s[0] == ':'):
                continue
            return s

    def rand_tokens(self, rng):
        """mostly valid tokens: hierarchy respected, fields legal; sometimes not"""
        t = dict.fromkeys(KEYS9)
        sloppy = rng.random() < 0.2
        legal = lambda: not (sloppy and rng.random() < 0.4)   # noqa: E731
        depth = rng.choice([0, 1, 1, 2, 2, 3, 3])
        has_user = rng.random() < 0.4
        has_wf = rng.random() < 0.7 or (depth == 0 and not has_user) or (has_user and depth > 0)
        if sloppy and rng.random() < 0.5:
            has_wf = rng.random() < 0.5
        if has_user:
            t['user'] = self.rand_field(rng, 'user', legal())
        if has_wf:
            t['workflow'] = self.rand_field(rng, 'workflow', legal())
        for key, lvl in (('cycle', 1), ('task', 2), ('job', 3)):
            if depth >= lvl and not (sloppy and rng.random() < 0.15):
                t[key] = self.rand_field(rng, key, legal())
        for key in ('workflow', 'cycle', 'task', 'job'):
            if (t[key] is not None or (sloppy and rng.random() < 0.2)) and rng.random() < 0.4:
                t[key + '_sel'] = self.rand_field(rng, key + '_sel', legal())
        return [t[k] for k in KEYS9]

    def rt_box(self):
        """every presence pattern of the nine keys x selectors, fields taken from small pools"""
        pools = {
            'user': ['u'], 'workflow': ['w', 'a/b'], 'workflow_sel': ['s'], 'cycle': ['1', 'a:b'], 'cycle_sel': ['x'],
            'task': ['t'], 'task_sel': ['~y'], 'job': ['7', 'NN'], 'job_sel': ['z 1'],
        }
        for mask in range(1, 512):
            keys = [k for i, k in enumerate(KEYS9) if mask >> i & 1]
            n = max(len(pools[k]) for k in keys)
            for v in range(n):
                t = dict.fromkeys(KEYS9)
                for k in keys:
                    t[k] = pools[k][v % len(pools[k])]
                for sel in (True, False):
                    yield {'k': 'rt', 't': [t[k] for k in KEYS9], 'sel': sel}

    LG_TASKS = ['foo', 'a.b', 't.a.s.k', 'x 1', '1', 'a-b_c', 'f~', ' x', 'a/b', '.']
    LG_CYCLES = ['1', '12', '123', '20200101T00Z', '1a', '2 b', '0', '9+', 'x1', '1.2', '1 ', '1~']
    LG_SELS = [None, None, 'succeeded', 's t', 'a~', 'x.y', ' x', 'a:b']
    RAW_IDS = ['w', '//1/foo', 'foo', '1/foo/01', 'foo.bar', '~u/w', 'a/b', 'foo.1:', '1//foo', '']

    def rand_legacy(self, rng):
        rel = rng.random() < 0.5
        n = rng.choice([1, 1, 2, 3])
        parts = []
        if not rel:
            parts.append(rng.choice(['w', 'a/b', '~u/w', 'foo.1', '12/foo']))
        for _ in range(n):
            if rng.random() < 0.12:
                parts.append(rng.choice(self.RAW_IDS))
            else:
                parts.append({'dot': rng.random() < 0.5, 'task': rng.choice(self.LG_TASKS),
                              'cycle': rng.choice(self.LG_CYCLES), 'sel': rng.choice(self.LG_SELS)})
        return self.legacy_case(parts, rel)

    def legacy_box(self):
        for dot in (True, False):
            for task in self.LG_TASKS:
                for cyc in self.LG_CYCLES:
                    for sel in self.LG_SELS[1:]:
                        p = {'dot': dot, 'task': task, 'cycle': cyc, 'sel': sel}
                        yield self.legacy_case(['w', p], False)
                        yield self.legacy_case([p], True)

    DVALS = [None, '', 'a', 'b', '01']

    def rand_dict(self, rng):
        ks = rng.sample(KEYS9, rng.randint(0, 5))
        return [[k, rng.choice(self.DVALS)] for k in ks]

    def strings(self, alpha, maxlen):
        for n in range(0, maxlen + 1):
            for tup in itertools.product(alpha, repeat=n):
                yield ''.join(tup)

    def gen(self, tier, rng):
        if tier == 'quick':
            boxes, n_rt, n_lg, n_eq, n_str = [(ALPHA8, 4), ("~/:.a1", 5)], 8000, 3000, 1500, 4000
        elif tier == 'thorough':
            boxes, n_rt, n_lg, n_eq, n_str = [(ALPHA8, 6), ("/:a~", 8), ("/:.1 ", 7)], 150000, 40000, 10000, 60000
        else:
            boxes, n_rt, n_lg, n_eq, n_str = [(ALPHA8, 5), ("/:1.*N", 6)], 300000, 80000, 10000, 100000
        # 1. every string over the separator alphabet up to a length bound, through tokenise (absolute and
        #    relative) and through legacy_tokenise / upgrade_legacy_ids
        for alpha, n in boxes:
            for s in self.strings(alpha, n):
                yield {'k': 'tok', 's': s, 'rel': False}
                yield {'k': 'tok', 's': s, 'rel': True}
                yield {'k': 'legacy', 'ids': ['w', s], 'rel': False, 'parts': [None, None]}
        # 2. tokens -> string -> tokens
        yield from self.rt_box()
        for _ in range(n_rt):
            yield {'k': 'rt', 't': self.rand_tokens(rng), 'sel': rng.random() < 0.6}
        # 3. longer identifier strings: rendered tokens with a small edit
        for _ in range(n_str):
            t = self.rand_tokens(rng)
            s = self.loose_render(t, rng)
            yield {'k': 'tok', 's': s, 'rel': rng.random() < 0.3}
        # 4. legacy identifiers
        yield from self.legacy_box()
        for _ in range(n_lg):
            yield self.rand_legacy(rng)
        # 5. Tokens as dictionaries
        for _ in range(n_eq):
            a = self.rand_dict(rng)
            b = rng.choice([a, list(reversed(a)), [kv for kv in a if kv[1]], self.rand_dict(rng),
                            [[k, (v or None)] for k, v in a]])
            yield {'k': 'eq', 'a': a, 'b': b, 'kw': self.rand_dict(rng)[:2]}

    def loose_render(self, t, rng):
        """an identifier-like string: fields joined with the usual separators, white space and a random
        edit thrown in (not necessarily what detokenise writes)"""
        d = dict(zip(KEYS9, t))
        pad = lambda v: (rng.choice(['', ' ', '  ']) + v + rng.choice(['', ' ', '\t'])) if rng.random() < 0.3 else v  # noqa: E731
        s = ''
        if d['user'] is not None:
            s += '~' + pad(d['user'])
            if d['workflow'] is not None or rng.random() < 0.3:
                s += '/'
        if d['workflow'] is not None:
            s += pad(d['workflow'])
            if d['workflow_sel'] is not None:
                s += ':' + pad(d['workflow_sel'])
        if d['cycle'] is not None or rng.random() < 0.1:
            s += '//'
        for k in ('cycle', 'task', 'job'):
            if d[k] is None:
                break
            if k != 'cycle':
                s += '/'
            s += pad(d[k])
            if d[k + '_sel'] is not None:
                s += ':' + pad(d[k + '_sel'])
        if rng.random() < 0.15:
            s += rng.choice(['/', '\n', '//', ':', ' '])
        if rng.random() < 0.3 and s:
            i = rng.randrange(len(s))
            s = s[:i] + rng.choice(['', '/', ':', '~', '.', ' ', '\n', 'x']) + s[i + (rng.random() < 0.5):]
        return s

    # -- evidence ------------------------------------------------------------
    def classify(self, inp, obs):
        k = inp['k']
        mask = lambda t: ''.join(c if v is not None else '-' for c, v in zip('uwWcCtTjJ', t))   # noqa: E731
        if k == 'tok':
            if obs['t'] == 'err':
                return 'tok/rejected' if len(inp['s']) > 1 else None
            return 'tok/' + ('rel/' if inp['rel'] else '') + mask(obs['t']) + ('/strip' if any(
                v is not None and (' ' + v + ' ') in (' ' + inp['s'] + ' ') is False for v in obs['t']) else '')
        if k == 'rt':
            t = inp['t']
            if obs['id'] == 'err':
                out = 'err'
            elif obs['t2'] == 'err':
                out = 'unreadable'
            else:
                want = [v if (inp['sel'] or not kk.endswith('_sel')) else None for kk, v in zip(KEYS9, t)]
                out = 'same' if obs['t2'] == want else ('padded' if [x for i, x in enumerate(obs['t2']) if i != 7] == [
                    x for i, x in enumerate(want) if i != 7] else 'changed')
            return 'rt/' + ('sel/' if inp['sel'] else 'nosel/') + mask(t) + '/' + out
        if k == 'legacy':
            ups = sum(1 for a, b in zip(inp['ids'], obs['up']) if a != b)
            forms = ''.join('r' if p is None else ('d' if p['dot'] else 's') for p in inp['parts'])
            return 'legacy/' + ('rel/' if inp['rel'] else 'abs/') + forms[:4] + '/' + ('upgraded' if ups else 'unchanged')
        if k == 'eq':
            return 'eq/' + ('equal' if obs['eq'] else 'different') + ('/samehash' if obs['hash'] else '')
        return None

    def neighbours(self, inp, rng):
        out = []
        k = inp['k']
        edits = ['', '/', ':', '~', '.', ' ', '\n', 'a', '1']
        if k == 'tok' or (k == 'legacy' and all(p is None for p in inp['parts'])):
            s = inp['s'] if k == 'tok' else inp['ids'][-1]
            for i in range(len(s) + 1):
                for e in edits:
                    for s2 in (s[:i] + e + s[i:], s[:i] + e + s[i + 1:]):
                        if k == 'tok':
                            out.append({'k': 'tok', 's': s2, 'rel': inp['rel']})
                            out.append({'k': 'tok', 's': s2, 'rel': not inp['rel']})
                        else:
                            out.append({'k': 'legacy', 'ids': inp['ids'][:-1] + [s2], 'rel': inp['rel'],
                                        'parts': inp['parts']})
            return out[:4000]
        if k == 'rt':
            for i, key in enumerate(KEYS9):
                for v in [None, 'a', '1', 'a:b', 'a/b', 'NN', '07', 'a b', '*']:
                    t = list(inp['t'])
                    t[i] = v
                    for sel in (True, False):
                        out.append({'k': 'rt', 't': t, 'sel': sel})
            return out
        if k == 'legacy':
            for j, p in enumerate(inp['parts']):
                if p is None:
                    continue
                for f, vals in (('task', self.LG_TASKS), ('cycle', self.LG_CYCLES), ('sel', self.LG_SELS), ('dot', [True, False])):
                    for v in vals:
                        q = dict(p)
                        q[f] = v
                        parts = [x if x is not None else inp['ids'][n] for n, x in enumerate(inp['parts'])]
                        parts[j] = q
                        out.append(self.legacy_case(parts, inp['rel']))
            return out
        return out


C23.rule = (
    'exhaustive: every string up to length 4-5 (quick) / 6-8 (thorough) over alphabets holding every separator '
    '(~ / : . letter digit space newline) through tokenise (absolute + relative) and legacy_tokenise / '
    'upgrade_legacy_ids; every presence pattern of the nine token keys x selectors; a box of legacy parts; random: '
    'tokens with legal fields over the separator-adjacent letters of each field (20 % deliberately malformed), '
    'rendered identifiers with white space and one random edit, legacy id lists, Tokens dictionaries with '
    'None / empty values. Non-trivial = distinct class (kind, keys present, selectors, relative, outcome), '
    'counted per distinct input')
C23.statement_note = (
    'partial. Proved for all valid tokens (fields of any length over the generated character classes): '
    'detokenise writes the canonical string; tokenise(detokenise t) = t with the job padded, provided the cycle '
    'text is not ambiguous (detok_tok_partial; a cycle containing a colon with no selector written after it is read back '
    'as cycle + selector: counterexample theorem, known finding cycle-colon); parsing and formatting a canonical '
    'string returns it (tok_detok); the relative form read with relative=True is the task part of the absolute '
    'form (relative_absolute_agree); task.cycle[:sel] upgrades to the tokens of //cycle/task[:sel] '
    '(legacy_upgrade_dot); cycle/task[:sel] too when the cycle is longer than the pattern\'s minimum '
    '(legacy_upgrade_partial; with the current `+` quantifier a one-character cycle such as 1/foo is not '
    'upgraded: conditional counterexample theorem, known finding legacy-slash-short-cycle). Equivalence of the '
    'hand splitter with Python `re` is correspondence only.')

PROP = C23()
