"""C07  Task instances stay within cycle bounds and on their sequences; nothing beyond the stop point is submitted."""
from __future__ import annotations

import re
import sys
from pathlib import Path

sys.path.insert(0, str(Path(__file__).resolve().parents[1] / 'sched'))
from prop import SchedProp  # noqa: E402


def recurrence_points(rec: str, icp: int, fcp: int):
    """Points of an integer recurrence of the generator's vocabulary, from its text (spec side:
    independent of cylc.flow.cycling)."""
    if rec == 'P1':
        pts = range(icp, fcp + 1)
    elif rec == 'R1':
        pts = [icp]
    elif rec == 'P2':
        pts = range(icp, fcp + 1, 2)
    elif rec == '+P1/P2':
        pts = range(icp + 1, fcp + 1, 2)
    elif rec == 'R1/$':
        pts = [fcp]
    elif rec == 'R1/+P1':
        pts = [icp + 1]
    else:
        raise ValueError(f'recurrence {rec!r} not in the vocabulary of the C07 spec')
    return [p for p in pts if icp <= p <= fcp]


def expect_from_flow(flow: str) -> dict:
    """Bounds, stop point and per-task recurrence points of a generated flow.cylc, read from the text."""
    def num(key):
        m = re.search(r'^\s*' + re.escape(key) + r'\s*=\s*(-?\d+)\s*$', flow, flags=re.M)
        return None if m is None else int(m.group(1))
    icp, fcp = num('initial cycle point'), num('final cycle point')
    stop = num('stop after cycle point')
    pts: dict = {}
    graph = flow.split('[[graph]]', 1)[1].split('[runtime]', 1)[0]
    for m in re.finditer(r'^\s*(\S+)\s*=\s*"""\n(.*?)^\s*"""', graph, flags=re.M | re.S):
        rec, body = m.group(1), m.group(2)
        rp = recurrence_points(rec, icp, fcp)
        # every task named in a section is on that section's sequence (the generator adds a lone node
        # for tasks that appear only with an offset); output names follow a colon and are skipped
        for name in set(re.findall(r'(?<![\w:])([a-g])(?![\w])', body)):
            pts.setdefault(name, set()).update(rp)
    return {'icp': icp, 'fcp': fcp, 'stop': stop, 'pts': {n: sorted(ps) for n, ps in sorted(pts.items())}}


class C07(SchedProp):
    id = 'C07'
    also = ['C07F']
    props_modules = ['CylcModel.Props.C07']
    theorems = [
        'CylcModel.C07.pool_within_bounds_on_sequence',
        'CylcModel.C07.ever_pooled_within_bounds_on_sequence',
        'CylcModel.C07.no_launch_beyond_stop_point',
        'CylcModel.C07.beyond_stop_point_held_back',
        'CylcModel.C07.mkProxy_only_instances',
    ]
    statement_note = (
        'proof over the Sched model v1 (intervention-free runs), for every instance graph (no well-formedness hypothesis '
        'is needed) and every list of main loops, submit results and job messages: every proxy in the pool, every proxy '
        'removed during the current operation and every instance recorded as removed earlier lies within [icp, fcp] on a '
        'valid point of its task (inductive invariant Inv07, one lemma per primitive); every launched job is such an '
        'instance at a point <= the stop point; proxies beyond the stop point stay runahead-limited and unqueued and the '
        'runahead limit never exceeds the stop point. Partial with respect to the property text: Sched v1 has only the '
        'configured stop point (no `cylc stop <point>` mid-run, no manual trigger, hence no is_manual_submit exemption), '
        'no restart loading, and no future-offset triggers (the spawn_task check "prerequisite beyond the stop point" is '
        'not in the model); that `insts` of the instance graph are the recurrence points is not proved but checked on '
        'every run against the recurrences written in flow.cylc (judge key graph-wf)')
    technique = 'inductive invariant over op lists of a Lean scheduler model + trace correspondence with the real Scheduler'
    trusted = ['the C07 spec side computes recurrence points from the six recurrence spellings of the generator '
               '(P1, R1, P2, +P1/P2, R1/$, R1/+P1) with its own arithmetic']
    rule = ('generated integer-cycling workflows (2-6 tasks, 1-3 recurrences incl. offset and one-off ones, inter-cycle '
            'offsets, start points after the initial point, a configured stop point in about half of the cases) driven '
            'through the real Scheduler by a seeded adaptive schedule; every add_to_pool call, pool snapshot and job launch '
            'is judged against bounds / recurrences / stop point read from the flow.cylc text; non-trivial = distinct '
            '(kind, ending, launch-count class, stop-point, off-P1 recurrence) class per distinct case')
    gen_opts = {'p_stop': 0.5, 'p_startcp': 0.25}

    def driver_input(self, inp, raw):
        d = super().driver_input(inp, raw)
        if 'crash' not in d:
            d['expect'] = expect_from_flow(inp['flow'])
        return d

    def classify(self, inp, obs):
        base = super().classify(inp, obs)
        if base == 'crash':
            return base
        e = expect_from_flow(inp['flow'])
        tags = [base]
        if e['stop'] is not None:
            tags.append('stop')
        full = list(range(e['icp'], e['fcp'] + 1))
        if any(ps != full for ps in e['pts'].values()):
            tags.append('offseq')
        return '/'.join(tags)


PROP = C07()
