"""C28  Group trigger runs each member once, honouring in-group order."""
from __future__ import annotations

import json
import sys
from pathlib import Path

sys.path.insert(0, str(Path(__file__).resolve().parents[1] / 'sched'))
from prop import SchedProp, run_workers  # noqa: E402
from core import Infra  # noqa: E402


def _flow(graph, extra='', fcp=1, runahead='P1'):
    return f'''[scheduler]
    allow implicit tasks = True
[scheduling]
    cycling mode = integer
    initial cycle point = 1
    final cycle point = {fcp}
    runahead limit = {runahead}
{extra}    [[graph]]
        P1 = """
{graph}
        """
[runtime]
    [[root]]
        [[[simulation]]]
            default run length = PT0S
'''


_L = {'op': 'loop'}


def _cmd(name, **args):
    return {'op': 'cmd', 'name': name, 'args': args}


def _trig(tasks, flow=(), wait=False):
    return _cmd('force_trigger_tasks', tasks=list(tasks), flow=list(flow), flow_wait=wait)


def _job(task, sn=1, msgs=('started', 'succeeded')):
    return [{'op': 'subres', 'task': task, 'ok': True, 'sn': sn}] + [
        {'op': 'msg', 'task': task, 'msg': m, 'sn': sn, 'sev': 'INFO'} for m in msgs]


_AB = _flow('            a => b\n            b => c', fcp=2)
_ABC = _flow('            a => b => c => d')
# hand-written regression histories (run first on every check)
_CORPUS = {
    # held + paused: the group-start member runs all the same, the other member after it, each once
    'held-paused': (_AB, [_cmd('hold', tasks=['1/a', '1/b']), _cmd('pause'), _trig(['1/a', '1/b']), _L, _L]
                    + _job('1/a') + [_L, _L] + _job('1/b') + [_L, _L]),
    # re-run of a finished chain in a new flow; the second trigger names a member that is live
    'rerun-new-flow': (_AB, [_L] + _job('1/a') + [_L, _L] + _job('1/b') + [_L, _trig(['1/a', '1/b'], flow=['new']), _L]
                       + _job('1/a', sn=2, msgs=('started',)) + [_L, _trig(['1/a', '1/b', '1/c']), _L, _L]),
    # no-flow trigger of an inactive member; ignored for a member that is active in a flow
    'flow-none': (_AB, [_trig(['2/b'], flow=['none']), _trig(['1/a'], flow=['none']), _L] + _job('2/b') + [_L, _L]),
    # a live non-start member is removed (job killed) and re-run after its in-group parent
    'kill-and-rerun': (_AB, [_L] + _job('1/a') + [_L, _L] + _job('1/b', msgs=('started',))
                       + [_L, _trig(['1/a', '1/b'], flow=['1']), _L] + _job('1/a', sn=2) + [_L, _L]),
    # `cylc hold` of a member that is not in the pool BEFORE the trigger: a future one (1/c) ...
    'held-future-member': (_ABC, [_cmd('pause'), _cmd('hold', tasks=['1/c']), _trig(['1/a', '1/b', '1/c']),
                                  _cmd('resume'), _L] + _job('1/a') + [_L, _L] + _job('1/b') + [_L, _L]
                           + _job('1/c') + [_L, _L]),
    # ... and a finished one (1/b) in the re-run of a finished sub-graph; the trigger overrides both holds
    'held-finished-member': (_ABC, [_cmd('hold', tasks=['1/d']), _L] + _job('1/a') + [_L, _L] + _job('1/b')
                             + [_L, _L] + _job('1/c') + [_L, _L, _cmd('hold', tasks=['1/b']),
                                _trig(['1/a', '1/b', '1/c']), _L] + _job('1/a', sn=2) + [_L, _L]
                             + _job('1/b', sn=2) + [_L, _L] + _job('1/c', sn=2) + [_L, _L]),
    # flow-wait trigger, then the original flow catches up
    'flow-wait': (_AB, [_trig(['2/b'], flow=['2'], wait=True), _L] + _job('2/b') + [_L, _L] + _job('1/a')
                  + [_L, _L] + _job('1/b') + [_L, _L]),
}


class C28(SchedProp):
    id = 'C28'
    props_modules = ['CylcModel.Props.C28']
    theorems = [
        'CylcModel.C28.triggered_is_marked',
        'CylcModel.C28.triggered_again_is_not_requeued',
        'CylcModel.C28.triggered_submits_despite_hold_and_pause',
        'CylcModel.C28.submit_once_per_loop',
        'CylcModel.C28.live_start_member_left_alone',
        'CylcModel.C28.non_start_member_queued_for_removal',
        'CylcModel.C28.trigger_releases_member_holds',
        'CylcModel.C28.off_group_forced',
        'CylcModel.C28.parentless_all_forced',
        'CylcModel.C28.in_group_kept',
        'CylcModel.C28.live_parent_partial',
        'CylcModel.C28.live_parent_repaired',
        'CylcModel.C28.live_parent_counterexample',
        'CylcModel.C28.live_parent_live',
        'CylcModel.C28.groups_cover',
        'CylcModel.C28.unpooled_object_counterexample',
    ]
    statement_note = ''      # set below (kept next to the theorem list)
    technique = ('line-by-line Lean port of the group-trigger code path on top of the scheduler model (Sched3Trig: flows, '
                 'run-DB tables, manual submission) + lemmas per primitive + trace correspondence with the real '
                 'Scheduler + a monitor judge on the observed traces')
    trusted = [
        'the stub job runner clears is_manual_submit when a job is handed over (what live mode does in '
        'submit_livelike_task_jobs; simulation mode never clears it)',
        'iteration orders that come out of Python sets / the pool point buckets (order of the connected groups, of the '
        'active members, of the ids in _remove_matched_tasks, of the respawns) are taken from the implementation as '
        'hints; the theorems hold for every hint',
        'jobs of proxies removed by the command are killed: the generated schedule delivers no further message of theirs',
        'SQLite returns the rows of one task in primary-key order (flow_nums text, binary collation)',
    ]
    unmodelled = SchedProp.unmodelled[:2] + [
        'datetime cycling, xtriggers and external triggers (force-satisfied by the command; not generated), clock-expiry, '
        'queue limits (default unlimited queue only: push_task_if_limited never queues), reload, cylc set / cylc remove '
        'as commands of their own, restart after a trigger (is_manual_submit and the trigger-now list across restarts)',
        'the most-recent-flow fallback of _get_active_flow_nums when the pool has no flows is modelled by insertion order '
        '(the code orders by time_created at one-second resolution)',
    ]
    rule = ('generated integer-cycling workflows (2-6 tasks, 1-3 recurrences, AND/OR, inter-cycle, absolute and suicide '
            'triggers, sequential tasks, retries, warm starts, runahead P0-P3) driven through the real Scheduler by a '
            'seeded adaptive schedule of main loops, submit results, job messages (any outcome / complete outcomes, noise) '
            'and commands: `cylc trigger` of a random group of 1-6 instances (pooled in any state and not yet spawned / '
            'already finished ones, grown along graph edges) with --flow default / new / none / N(+wait), repeated, mixed '
            'with hold / release / hold point / pause / resume; non-trivial = distinct (flow options used, members '
            'removed / triggered live / killed, several groups, manual launches, multi-flow pool) class per distinct case')
    kinds = ('cmdtrig', 'cmdtrigc')
    n_quick = 36
    n_thorough = 560

    # -- K-T: behaviour flag probed from the live code ---------------------------------------------------
    def translate(self):
        probes = [
            # 1/a running with "started" complete: is 1/b's prerequisite on 1/a:succeeded satisfied by the trigger?
            {'id': 'c28-probe1', 'flow': _flow('            a => b'), 'seed': 0, 'opts': {}, 'policy': {},
             'ops': [_L] + _job('1/a', msgs=('started',)) + [_L, _trig(['1/a', '1/b'])], 'kind': 'cmdtrig'},
            # 1/e pooled in flow 1 (absolute trigger on the running 1/d), triggered in a new flow: is an object
            # that is not the pooled proxy put on the trigger-now list?
            {'id': 'c28-probe2', 'flow': _flow('            d\n            d[^]:x => e', fcp=2).replace(
                '            default run length = PT0S\n',
                '            default run length = PT0S\n    [[d]]\n        [[[outputs]]]\n            x = xx\n'),
             'seed': 0, 'opts': {}, 'policy': {},
             'ops': [_L] + _job('1/d', msgs=('started',)) + [_L, _trig(['1/d', '1/e'], flow=['new'])],
             'kind': 'cmdtrig'},
        ]
        raws = None
        for attempt in range(3):       # a worker that fails to start (overloaded machine) is an infrastructure hiccup
            try:
                raws = run_workers(probes, 2)
            except Infra:
                if attempt == 2:
                    raise
                continue
            if not any('error' in raw for raw in raws):
                break
        for raw in raws:
            if 'error' in raw:
                raise Infra(f'C28 probe run failed: {raw["error"][-400:]}')
        last = raws[0]['obs'][-1]
        b = [t for t in last['xt']['pool'] if (t['p'], t['n']) == (1, 'b')]
        any_output = bool(b) and any(a[3] != 0 for pre in b[0]['pre'] for a in pre if a[:3] == [1, 'a', 'succeeded'])
        unpooled = [1, 'e'] in raws[1]['obs'][-1]['xt']['now']
        mode = self._probe_row_insert_mode()
        unit = self._probe_unit_flags()
        self.flags = dict({'anyOutput': any_output, 'triggerUnpooled': unpooled, 'rowInsertMode': mode}, **unit)
        tf = {True: 'true', False: 'false'}
        return {'TrigFlags.lean': (
            '/- GENERATED by harness/props/c28.py translate() from the live source. Do not edit. -/\n'
            'namespace CylcModel.TrigFlags\n'
            '/-- `cylc trigger` satisfies every prerequisite on a live group-start member that has completed *some*\n'
            'output (true: code as found) or only the prerequisites on its completed outputs (false: repaired) -/\n'
            f'def anyOutput : Bool := {tf[any_output]}\n'
            '/-- `cylc trigger` triggers the object `_set_prereqs_tdef` hands back even when it is not the pooled proxy of\n'
            'its instance (true: code as found; false: repaired) -/\n'
            f'def triggerUnpooled : Bool := {tf[unpooled]}\n'
            '/-- `_load_historical_outputs`, rows overlap the flows of the proxy but none has exactly its flows: fresh rows\n'
            'are queued never (0) / always (1) / unless the proxy is a finished, complete instance not to be spawned (2) -/\n'
            f'def rowInsertMode : Nat := {mode}\n'
            '/-- `queue_or_trigger` returns early for a proxy already waiting on job preparation -/\n'
            f'def qotSkipsPrepped : Bool := {tf[unit["qotSkipsPrepped"]]}\n'
            '/-- `release_held_active_task` queues through `queue_if_ready` -/\n'
            f'def releaseQueueIfReady : Bool := {tf[unit["releaseQueueIfReady"]]}\n'
            '/-- `_remove_matched_tasks`: DB queue written before the first id / after each id; an active proxy in none of\n'
            'the given flows does not end the handling of its id -/\n'
            f'def rmFlushFirst : Bool := {tf[unit["rmFlushFirst"]]}\n'
            f'def rmFlushEach : Bool := {tf[unit["rmFlushEach"]]}\n'
            f'def rmEraseUnmatched : Bool := {tf[unit["rmEraseUnmatched"]]}\n'
            'end CylcModel.TrigFlags\n')}

    @staticmethod
    def _probe_row_insert_mode():
        """Call the live TaskPool._load_historical_outputs on stand-in objects: one overlapping DB row of other flows."""
        from types import SimpleNamespace
        from cylc.flow.task_pool import TaskPool

        def called(status, complete, outputs_text):
            calls = []

            class _State:
                def __init__(self):
                    self.status = status
                    self.outputs = SimpleNamespace(set_trigger_complete=lambda t: None,
                                                   set_message_complete=lambda m: None,
                                                   is_complete=lambda: complete)

                def __call__(self, *statuses):
                    return self.status in statuses
            itask = SimpleNamespace(tdef=SimpleNamespace(name='a'), point='1', flow_nums={1, 2}, state=_State(),
                                    transient=False, is_complete=lambda: complete, identity='1/a')
            pool = SimpleNamespace(
                workflow_db_mgr=SimpleNamespace(pri_dao=SimpleNamespace(
                    select_task_outputs=lambda name, point: {outputs_text: {1}})),
                db_add_new_flow_rows=lambda it: calls.append(it))
            TaskPool._load_historical_outputs(pool, itask)
            return bool(calls)
        try:
            unfinished = called('waiting', False, '{}')
            finished = called('succeeded', True, '{"succeeded": "succeeded"}')
        except Exception as exc:
            raise Infra(f'C28 probe of _load_historical_outputs failed: {exc!r}')
        return 0 if not unfinished else 1 if finished else 2

    @staticmethod
    def _probe_unit_flags():
        """Call the live queue_or_trigger / release_held_active_task / _remove_matched_tasks on stand-in objects and
        read the behaviour off the calls they make."""
        from unittest.mock import MagicMock
        from cylc.flow.task_pool import TaskPool
        from cylc.flow import commands
        try:
            # queue_or_trigger on a proxy that is already waiting on job preparation
            pool, itask = MagicMock(), MagicMock()
            itask.waiting_on_job_prep = True
            itask.state.is_queued = False
            pool.task_queue_mgr.push_task_if_limited.return_value = False
            pool.count_active_tasks.return_value = ({}, [])
            TaskPool.queue_or_trigger(pool, itask)
            qot = not pool.tasks_to_trigger_now.add.called
            # release_held_active_task on a held proxy that is ready to run
            pool, itask = MagicMock(), MagicMock()
            itask.state_reset.return_value = True
            itask.state.is_runahead = False
            itask.is_ready_to_run.return_value = True
            TaskPool.release_held_active_task(pool, itask)
            qir = bool(pool.queue_if_ready.called) and not pool.queue_task.called
            # _remove_matched_tasks on one id whose pooled proxy is in none of the given flows
            trace = []
            schd = MagicMock()
            active = MagicMock()
            active.match_flows.return_value = set()
            schd.pool._get_task_by_id.side_effect = lambda rid: (trace.append('get'), active)[1]
            schd.workflow_db_mgr.process_queued_ops.side_effect = lambda: trace.append('flush')
            schd.workflow_db_mgr.remove_task_from_flows.side_effect = (
                lambda *a: (trace.append('erase'), set())[1])
            schd.pool.compute_runahead.return_value = False
            tid = MagicMock()
            tid.relative_id = '1/a'
            tid.__getitem__.side_effect = lambda k: {'task': 'a', 'cycle': '1'}[k]
            saved = (commands.generate_graph_children, commands.get_point)
            commands.generate_graph_children = lambda tdef, point: {}
            commands.get_point = lambda p: p
            try:
                commands._remove_matched_tasks(schd, {tid}, {2}, warn_unremovable=False)
                # ... and on one id that is not in the pool
                trace2 = []
                schd.pool._get_task_by_id.side_effect = lambda rid: (trace2.append('get'), None)[1]
                schd.workflow_db_mgr.process_queued_ops.side_effect = lambda: trace2.append('flush')
                schd.workflow_db_mgr.remove_task_from_flows.side_effect = (
                    lambda *a: (trace2.append('erase'), set())[1])
                commands._remove_matched_tasks(schd, {tid}, {2}, warn_unremovable=False)
            finally:
                commands.generate_graph_children, commands.get_point = saved
        except Exception as exc:
            raise Infra(f'C28 unit probes failed: {exc!r}')
        if 'get' not in trace or 'get' not in trace2 or 'erase' not in trace2:
            raise Infra(f'C28 probe of _remove_matched_tasks: unexpected call traces {trace} {trace2}')
        k, k2 = trace.index('get'), trace2.index('get')
        return {
            'qotSkipsPrepped': qot,
            'releaseQueueIfReady': qir,
            'rmFlushFirst': 'flush' in trace2[:k2],
            'rmFlushEach': 'flush' in trace2[trace2.index('erase'):],
            'rmEraseUnmatched': 'erase' in trace[k:],
        }

    def corpus(self):
        return [{'id': 'c28-' + k, 'flow': v[0], 'seed': 0, 'opts': {}, 'policy': {'obs_db': True}, 'ops': v[1],
                 'kind': 'cmdtrig'} for k, v in _CORPUS.items()]

    def driver_input(self, inp, raw):
        d = super().driver_input(inp, raw)
        if 'crash' not in d:
            d['obs_db'] = bool((inp.get('policy') or {}).get('obs_db'))
        return d

    def impl_batch(self, inputs):
        # on an overloaded machine the network server thread of a starting Scheduler can miss its barrier
        # time-out (an infrastructure hiccup, not a behaviour): such cases are run again, a few at a time
        res = run_workers(inputs, self.workers)
        for attempt in range(3):
            again = [k for k, r in enumerate(res) if 'error' in r and 'BrokenBarrierError' in r['error']]
            if not again:
                break
            redo = run_workers([inputs[k] for k in again], 2 if attempt else 4)
            for k, r in zip(again, redo):
                res[k] = r
        return res

    def skip_case(self, inp, raw):
        if 'error' in raw and 'BrokenBarrierError' in raw['error']:
            raise Infra('scheduler server thread did not start within its time-out (overloaded machine?) '
                        f'in case {inp.get("id")}')
        return super().skip_case(inp, raw)

    def classify(self, inp, obs):
        if isinstance(obs, dict):
            return 'crash'
        ops = inp.get('ops') or []
        trigs = [(k, o) for k, o in enumerate(ops) if o.get('name') == 'force_trigger_tasks']
        if not trigs:
            return None
        tags = set()
        for k, o in trigs:
            fl = o['args'].get('flow') or []
            tags.add('flow-' + ('dflt' if not fl else fl[0] if fl[0] in ('new', 'none') else 'N'))
            if o['args'].get('flow_wait'):
                tags.add('wait')
            if len(o.get('groups') or []) > 1:
                tags.add('groups>1')
            if k + 1 < len(obs):
                ob = obs[k + 1]
                if any(r[4] == 'request' for r in ob['removed']):
                    tags.add('removed')
                if any(r[4] == 'request' and r[2] in ('preparing', 'submitted', 'running') for r in ob['removed']):
                    tags.add('killed')
                if ob['xt']['now']:
                    tags.add('now')
                if ob['paused']:
                    tags.add('paused')
        if any(len(t['fl']) > 1 for o in obs for t in o['pool']):
            tags.add('multiflow')
        if any(lx[4] for o in obs for lx in o['launch_x']):
            tags.add('manual-launch')
        tags.add('trig<3' if len(trigs) < 3 else 'trig<8' if len(trigs) < 8 else 'trig>=8')
        return '/'.join(sorted(tags))

    def neighbours(self, inp, rng):
        # op-sequence mutations of a recorded history: drop one op / duplicate a trigger
        ops = inp.get('ops') or []
        out = []
        for _ in range(6):
            if len(ops) < 2:
                break
            k = rng.randrange(len(ops))
            new = ops[:k] + ops[k + 1:]
            out.append(dict(inp, id=f'{inp["id"]}-d{k}', ops=new))
        return out


C28.statement_note = (
    'PARTIAL. Proved over the Sched3Trig model (Sched2 + flows, run-DB tables, manual submission, group trigger), for every '
    'instance graph, state and iteration-order hint: (1) queue_or_trigger marks the proxy manual, waiting, unqueued, '
    'waiting-on-job-prep and puts it on the trigger-now list (triggered_is_marked); (2) the submission step of a main loop '
    'launches a job for every pooled instance on the trigger-now list, with no hypothesis on its held flag or on the paused '
    'flag of the workflow (triggered_submits_despite_hold_and_pause), and at most one job per pooled instance '
    '(submit_once_per_loop); (3) the per-member step of the command leaves a live (preparing / submitted / running) '
    'group-start member (in some flow, not flow-waiting) with its status, submit number, outputs, prerequisites and flags, '
    'only merging flow numbers, neither queueing it for removal nor triggering it (live_start_member_left_alone), while a '
    'pooled member with an in-group trigger parent is only queued for removal (non_start_member_queued_for_removal); (4) a '
    'member respawned by the command has every off-group prerequisite atom of its TaskDef satisfied (off_group_forced; all '
    'atoms for a parentless member: parentless_all_forced) and every atom that is not named keeps its state (in_group_kept); '
    '(5) the defect found: an in-group atom is forced only if its parent is a live group-start member with some completed '
    'output (live_parent_partial, both flag values); for the repaired behaviour exactly the completed outputs are forced '
    '(live_parent_repaired); for the behaviour as found the full statement live_parent_full is false '
    '(live_parent_counterexample, concrete witness), and live_parent_live ties the truth of the full statement to the flag '
    'TrigFlags.anyOutput that translate() probes from the live code; (6) every id of a command lands in a connected group '
    'and groups contain ids of the command only (groups_cover); (7) the second defect found: when the command meets a '
    'member that is pooled in other flows only, the behaviour as found submits one instance twice under the same submit '
    'number -- once from an object that is not in the pool -- and the repaired behaviour once '
    '(unpooled_object_counterexample, a concrete run for both values of the probed flag TrigFlags.triggerUnpooled; '
    'submit_once_per_loop therefore carries the hypothesis "no unpooled object pending"). NOT proved (covered by the trace correspondence and the '
    'judge only): the end-to-end statements "each member runs exactly once more along every continuation" (liveness over the '
    'whole scheduler incl. removal, kill and respawn), the ordering of later submissions after in-group outputs, '
    'whole-command versions of (3)/(4) through _remove_matched_tasks, and (3) for a live member that is in no flow or '
    'flow-waiting (merge_flows then also spawns on its completed outputs). Eight deviations of cylc-flow from the property '
    'text have been recorded: live-parent-any-output and unpooled-object-triggered (both repaired in /repo since: '
    'findings/C28-fix-1.diff, C28-fix-2.diff), queued-row-survives-removal (a regression of the withdrawn commit ec8c5af; '
    'flag TrigFlags.rowInsertMode), and the open findings sequential-task, abs-trigger-in-group, other-flow-member, '
    'hold-point-blocks-member, flow-none-keeps-hold. Also proved: release_held_tasks as applied by the command leaves '
    'none of the removed / not-pooled members on the hold list (trigger_releases_member_holds); the behaviour of the '
    'later repairs 6e65a44 / e8480f1 / f48c598 / 472081b is followed through five more probed flags '
    '(triggered_again_is_not_requeued states the first).')

PROP = C28()
