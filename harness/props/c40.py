"""C40  Workflow-state queries match exactly what was recorded.

One case = one small real sqlite run database (tables created by the real CylcWorkflowDAO,
rows inserted directly) + one query run through the real
CylcWorkflowDBChecker.workflow_state_query.
"""
from __future__ import annotations

import ast
import contextlib
import io
import json
import os
import re
import shutil
import sqlite3
import tempfile

from core import Prop, Infra

# characters the generated names / patterns are built from: LIKE and GLOB metacharacters,
# mixed case, characters legal in task names, a few non-ASCII ones
ALPHA = ['a', 'b', 'A', 'B', 'z', 'Z', '1', '0', '_', '%', '-', '+', '@', '.', '?', '[', ']', '^', '!',
         '\\', 'é', 'É', 'ß', 'Ж', 'ж', 'T']
META = ['_', '%', '?', '[', ']', '^', '\\', '-']
FINAL = ['succeeded', 'failed', 'expired', 'submit-failed']
STATUSES = ['waiting', 'preparing', 'submitted', 'running'] + FINAL
OUTPUT_NAMES = ['submitted', 'started', 'succeeded', 'failed', 'x', 'file1', 'X', 'expired', 'submit-failed']
CYCLES = ['1', '2', '10', '11', '20000101T00Z', '20000101T0000Z', '2000_01', '20000102t00z', '1%', 'T1']


def lean_char(c):
    if 0x20 < ord(c) < 0x7f and c not in "'\\":
        return "'%s'" % c
    return 'Char.ofNat %d' % ord(c)


def lean_str_list(s):
    return '[' + ', '.join(lean_char(c) for c in s) + ']'


class _RecConn:
    """sqlite connection wrapper recording the statements the query executes."""

    def __init__(self, conn, log):
        self._c, self._log = conn, log

    def execute(self, stmt, args=()):
        self._log.append((stmt, list(args)))
        return self._c.execute(stmt, args)

    def __getattr__(self, k):
        return getattr(self._c, k)


class C40(Prop):
    id = 'C40'
    props_modules = ['CylcModel.Props.C40']
    theorems = [
        'CylcModel.C40.starMatch_star_iff',
        'CylcModel.C40.starMatch_literal',
        'CylcModel.C40.starMatch_nil',
        'CylcModel.C40.starMatch_iff_rel',
        'CylcModel.C40.like_translation',
        'CylcModel.C40.field_filter_exact',
        'CylcModel.C40.query_exact',
        'CylcModel.C40.flow_filter',
        'CylcModel.C40.like_percent_counterexample',
    ]
    statement_note = (
        'full, for the query as repaired by findings/C40-fix-1.diff: for every database, task / cycle pattern, selector and '
        'flow number (strings of any length over all of Unicode) the rows returned are exactly the recorded rows whose name and '
        'cycle match with "*" = any sequence and every other character = itself, whose status / output matches and whose flow '
        'set contains the requested flow (query_exact, carried by like_translation: sqlite operator applied to the translated '
        'pattern = starMatch).  The operator and the per-character translation are regenerated from the live source on every '
        'run; on the unrepaired code (LIKE, "*" -> "%") like_translation does not hold and like_percent_counterexample shows why')
    technique = 'structural induction over patterns against a model of sqlite LIKE/GLOB; generated operator + translation table; correspondence on real sqlite DBs'
    trusted = [
        'SQLite semantics of ==, LIKE (%, _, ASCII case folding) and GLOB (*, ?, [..] sets) as modelled in CylcModel/Like.lean '
        '(standard backtracking semantics of patternCompare); validated on every run against the real sqlite3 library',
        'the translator reads the operator and the per-character rewrite of a pattern off the SQL the real '
        'workflow_state_query executes (recording connection) for every ASCII character; the rewrite is assumed to act '
        'character by character and to leave non-ASCII characters alone (validated by the correspondence runs)',
    ]
    unmodelled = [
        'Cylc 7 back-compat databases (no flow_nums column), adjust_point_to_db (cycle point reformatting before the query), '
        'display_maps; ORDER BY submit_num (results are compared as multisets)',
    ]
    rule = ('generated run databases (3-9 task_states / task_outputs rows; names over an alphabet with _ % ? [ ] ^ \\ - mixed case '
            'and non-ASCII letters; flow sets; dict and pre-8.3 list outputs) x queries derived from the recorded names '
            '(substrings replaced by "*", one character swapped for a metacharacter or the other case, exact names, random '
            'patterns) x status / trigger / message selectors x flow numbers; distinct = distinct (db, query); non-trivial = not an unfiltered dump; class = '
            '(mode + selector kind, strongest pattern kind of task/cycle, flow filter, all / some / miss / rejected)')
    workers = 16

    # ------------------------------------------------------------------
    def setup(self):
        from cylc.flow.rundb import CylcWorkflowDAO
        from cylc.flow.dbstatecheck import CylcWorkflowDBChecker
        from cylc.flow.exceptions import InputError
        self.DAO, self.Checker, self.InputError = CylcWorkflowDAO, CylcWorkflowDBChecker, InputError
        base = '/dev/shm' if os.path.isdir('/dev/shm') and os.access('/dev/shm', os.W_OK) else '/tmp'
        self.tmp = tempfile.mkdtemp(prefix='verif-C40-', dir=base)
        import atexit
        atexit.register(shutil.rmtree, self.tmp, True)
        self._db_key = None
        self._db_path = None
        # an empty template database with the real schema
        self.template = os.path.join(self.tmp, 'template.db')
        dao = self.DAO(self.template, create_tables=True)
        dao.close()

    # ------------------------------------------------------------------
    # K-T: what does the live code do with a pattern
    def _record(self, **kw):
        log = []
        with self.Checker('', '', db_path=self.template) as chk:
            real = chk.conn
            chk.conn = _RecConn(real, log)
            try:
                chk.workflow_state_query(**kw)
            finally:
                chk.conn = real
        sel = [(s, a) for s, a in log if re.search(r'\bFROM\s+task_(states|outputs)\b', s)]
        if len(sel) != 1:
            raise Infra(f'translator: expected one SELECT on the task tables, saw {len(sel)}')
        return sel[0]

    def _probe(self, field, pattern):
        stmt, args = self._record(**{field: pattern})
        col = {'task': 'name', 'cycle': 'cycle'}[field]
        m = re.search(r'\b' + col + r'\s*(==|=|\blike\b|\bglob\b)\s*\?\s*(escape\b)?', stmt, flags=re.I)
        if not m or m.group(2) or len(args) != 1 or not isinstance(args[0], str):
            raise ValueError(f'cannot read the {col} condition off the statement: {stmt!r} {args!r}')
        return m.group(1).lower().replace('==', '=').strip(), args[0]

    def translate(self):
        from cylc.flow.task_state import TASK_STATE_MAP, TASK_STATUSES_FINAL
        from cylc.flow import task_outputs as TO
        cfgs = []
        for field in ('task', 'cycle'):
            op0, star_to = self._probe(field, '*')
            if op0 not in ('like', 'glob'):
                raise ValueError(f'pattern operator {op0!r} is neither LIKE nor GLOB')
            ope, lit = self._probe(field, 'ab')
            if ope != '=' or lit != 'ab':
                raise ValueError(f'a pattern without "*" is not compared with ==: {ope} {lit!r}')
            escapes = []
            for code in list(range(1, 128)) + [0xe9, 0x416]:
                c = chr(code)
                if c == '*':
                    continue
                op, arg = self._probe(field, c + '*')
                if op != op0 or not arg.endswith(star_to):
                    raise ValueError(f'translation of {c!r}+"*" is {op} {arg!r}')
                t = arg[:len(arg) - len(star_to)]
                op2, arg2 = self._probe(field, '*' + c)
                if arg2 != star_to + t:
                    raise ValueError(f'translation of {c!r} depends on its position: {arg!r} / {arg2!r}')
                if t != c:
                    escapes.append((c, t))
            cfgs.append((op0, star_to, escapes))
        if cfgs[0] != cfgs[1]:
            raise ValueError(f'task and cycle patterns are translated differently: {cfgs}')
        op0, star_to, escapes = cfgs[0]
        # status selectors accepted by check_polling_config (finite table: every known status)
        pollable = []
        with self.Checker('', '', db_path=self.template) as chk:
            for st in sorted(TASK_STATE_MAP):
                try:
                    chk.workflow_state_query(selector=st)
                    pollable.append(st)
                except self.InputError:
                    pass
            # _selector_in_outputs: which selectors stand for "succeeded or failed"
            cands = sorted({'finish', 'finished', 'finishes', 'Finished', 'FINISHED', 'fin', 'done', 'complete', 'completed',
                            'end', *TASK_STATE_MAP, *getattr(TO, 'TASK_OUTPUTS', ()),
                            TO.TASK_OUTPUT_FINISHED, TO.TASK_OUTPUT_SUCCEEDED, TO.TASK_OUTPUT_FAILED})
            sio = chk._selector_in_outputs
            aliases = [c for c in cands
                       if c not in (TO.TASK_OUTPUT_SUCCEEDED, TO.TASK_OUTPUT_FAILED)
                       and sio(c, [TO.TASK_OUTPUT_SUCCEEDED]) and sio(c, [TO.TASK_OUTPUT_FAILED])
                       and not sio(c, ['started'])]
        assert set(TASK_STATUSES_FINAL) >= set(pollable) or True
        q = json.dumps
        body = [
            '/- GENERATED by harness/props/c40.py translate() from the live source',
            '   (cylc/flow/dbstatecheck.py: SQL recorded from the real workflow_state_query). Do not edit. -/',
            'namespace CylcModel.Generated.LikeCfg',
            '',
            '/-- operator applied to a task / cycle text containing "*": GLOB (true) or LIKE (false) -/',
            f'def opIsGlob : Bool := {"true" if op0 == "glob" else "false"}',
            '/-- what "*" is rewritten to -/',
            f'def starTo : List Char := {lean_str_list(star_to)}   -- {q(star_to)}',
            '/-- characters rewritten to something other than themselves -/',
            'def escapes : List (Char × List Char) := [' + ', '.join(
                f'({lean_char(c)}, {lean_str_list(t)})' for c, t in escapes) + ']   -- ' + q(escapes),
            '/-- status selectors accepted by check_polling_config -/',
            'def pollableStatuses : List String := [' + ', '.join(q(s) for s in pollable) + ']',
            '/-- selectors that _selector_in_outputs reads as "succeeded or failed" -/',
            'def finishAliases : List String := [' + ', '.join(q(s) for s in aliases) + ']',
            f'def succeededName : String := {q(TO.TASK_OUTPUT_SUCCEEDED)}',
            f'def failedName : String := {q(TO.TASK_OUTPUT_FAILED)}',
            '',
            'end CylcModel.Generated.LikeCfg',
            '',
        ]
        return {'LikeCfg.lean': '\n'.join(body)}

    # ------------------------------------------------------------------
    # generators
    def corpus(self):
        rows = [[n, '1', [1], 1, 'succeeded'] for n in ['foo_1', 'fooX1', 'FOO_1', 'foo%1', 'foo_', 'foo']]
        db = {'states': rows, 'outputs': [[r[0], r[1], r[2], {'d': [['succeeded', 'succeeded']]}] for r in rows]}

        def q(task, cycle='1', sel=None, mode='status', flow=None):
            return {'db': db, 'q': {'task': task, 'cycle': cycle, 'selector': sel, 'mode': mode, 'flow': flow}}
        db2 = {'states': [['a', c, [1], 1, 'failed'] for c in ['20000101T00Z', '20000101t00z', '2000_101T00Z', '1', '_']],
               'outputs': []}
        db3 = {'states': [[n, '1', [1], 1, 'succeeded'] for n in ['a?c', 'abc', 'a[c', 'a[b]c', 'ab', 'a*c', 'a]c']],
               'outputs': []}
        return [
            q('foo_*'), q('foo%*'), q('FOO*'), q('*_1'), q('foo_1'), q('foo*', sel='succeeded'),
            q('foo_*', mode='trigger', sel='succeeded'), q('*', cycle='*'),
            {'db': db2, 'q': {'task': 'a', 'cycle': '2000*T00Z', 'selector': None, 'mode': 'status', 'flow': None}},
            {'db': db2, 'q': {'task': None, 'cycle': '_*', 'selector': None, 'mode': 'status', 'flow': None}},
            {'db': db3, 'q': {'task': 'a?*', 'cycle': None, 'selector': None, 'mode': 'status', 'flow': None}},
            {'db': db3, 'q': {'task': 'a[b]*', 'cycle': None, 'selector': None, 'mode': 'status', 'flow': None}},
            {'db': db3, 'q': {'task': 'a[*', 'cycle': None, 'selector': None, 'mode': 'status', 'flow': None}},
            {'db': db3, 'q': {'task': '*]c', 'cycle': None, 'selector': None, 'mode': 'status', 'flow': None}},
        ]

    def rand_name(self, rng, pool):
        r = rng.random()
        if pool and r < 0.45:
            # a variation of an existing name: one character replaced / case flipped / char inserted
            s = list(rng.choice(pool))
            i = rng.randrange(len(s))
            k = rng.random()
            if k < 0.35:
                s[i] = s[i].swapcase() if s[i].swapcase() != s[i] and len(s[i].swapcase()) == 1 else rng.choice(ALPHA)
            elif k < 0.7:
                s[i] = rng.choice(ALPHA)
            elif k < 0.85:
                s.insert(i, rng.choice(ALPHA))
            elif len(s) > 1:
                del s[i]
            return ''.join(s)
        n = rng.choice([1, 2, 2, 3, 3, 4, 5])
        if r < 0.6:
            return ''.join(rng.choice(['a', 'b', 'A', '_', '%', '1']) for _ in range(n))
        return ''.join(rng.choice(ALPHA) for _ in range(n))

    def rand_flows(self, rng):
        # multi-digit flow numbers too: a filter on flow 1 must not select flows 10, 12, 21 ...
        return rng.choice([[1], [1], [1], [2], [1, 2], [], [1, 3], [2, 3], [1, 2, 3],
                           [10], [12], [21], [3, 21], [2, 10], [11, 12], [1, 10], [2, 100]])

    def rand_outputs(self, rng):
        ks = rng.sample(OUTPUT_NAMES, rng.randint(0, 4))
        if rng.random() < 0.8:
            return {'d': [[k, (k if rng.random() < 0.6 else rng.choice(['msg ' + k, 'the quick brown', 'x', 'succeeded']))]
                          for k in ks]}
        return {'l': ks}

    def rand_db(self, rng):
        names, seen_s, seen_o = [], set(), set()
        states, outputs = [], []
        for _ in range(rng.randint(3, 9)):
            n = self.rand_name(rng, names)
            names.append(n)
            cyc = rng.choice(CYCLES) if rng.random() < 0.8 else self.rand_name(rng, [])
            fl = self.rand_flows(rng)
            key = (n, cyc, tuple(fl))
            if key not in seen_s:
                seen_s.add(key)
                st = rng.choice(STATUSES + FINAL * 2) if rng.random() < 0.97 else None
                states.append([n, cyc, fl, rng.randint(0, 3), st])
            if rng.random() < 0.8 and key not in seen_o:
                seen_o.add(key)
                outputs.append([n, cyc, fl, self.rand_outputs(rng)])
        return {'states': states, 'outputs': outputs}

    def rand_pattern(self, rng, v, disturb):
        """A pattern derived from the recorded value `v`: substrings replaced by "*" (still matches `v`);
        with `disturb`, one literal character is then swapped for a metacharacter / the other case / another
        character, or a metacharacter is inserted (the near misses the property is about)."""
        r = rng.random()
        if r < 0.07:
            return None
        if r < 0.09:
            return ''
        if r < 0.14:
            return '*'
        s = list(v)
        if r >= 0.32:
            i = rng.randint(0, len(s))
            j = rng.randint(i, len(s))
            s[i:j] = ['*']
            if rng.random() < 0.25 and len(s) > 1:
                k = rng.randint(0, len(s))
                s[k:k] = ['*']
        if disturb:
            lits = [k for k, c in enumerate(s) if c != '*']
            d = rng.random()
            if lits and d < 0.8:
                k = rng.choice(lits)
                e = rng.random()
                if e < 0.35 and s[k].swapcase() != s[k] and len(s[k].swapcase()) == 1:
                    s[k] = s[k].swapcase()
                elif e < 0.85:
                    s[k] = rng.choice(META)
                else:
                    s[k] = rng.choice(ALPHA)
            else:
                s.insert(rng.randint(0, len(s)), rng.choice(META))
        return ''.join(s)

    def rand_query(self, rng, db):
        mode = rng.choice(['status', 'status', 'trigger', 'message'])
        rows = db['states'] if mode == 'status' else db['outputs']
        if not rows:
            mode, rows = 'status', db['states']
        # aim at one recorded row, then disturb the query in at most one or two places
        name, cyc, flows, last = rng.choice(rows) if mode != 'status' else (lambda r: (r[0], r[1], r[2], r[4]))(rng.choice(rows))
        task = self.rand_pattern(rng, name, rng.random() < 0.3)
        c = rng.random()
        cycle = (None if c < 0.25 else '*' if c < 0.35 else cyc if c < 0.55
                 else self.rand_pattern(rng, cyc, rng.random() < 0.25))
        r = rng.random()
        if mode == 'status':
            sel = (None if r < 0.4 else last if (r < 0.8 and last in FINAL) else rng.choice(FINAL) if r < 0.93
                   else rng.choice(STATUSES + ['', 'bogus']))
        else:
            o = last
            keys = [k for k, _ in o['d']] if 'd' in o else list(o['l'])
            msgs = [m for _, m in o['d']] if 'd' in o else list(o['l'])
            own = keys if mode == 'trigger' else msgs
            if r < 0.25:
                sel = None
            elif r < 0.7 and own:
                sel = rng.choice(own)
            elif r < 0.82 and mode == 'trigger':
                sel = rng.choice(['finished', 'finish'])
            else:
                sel = rng.choice(OUTPUT_NAMES + ['the quick brown', 'msg x', 'finished', 'Finished'])
        f = rng.random()
        flow = None if f < 0.55 else (rng.choice(flows) if (f < 0.8 and flows) else rng.choice([1, 1, 2, 3, 4, 10, 12, 21]))
        return {'task': task, 'cycle': cycle, 'selector': sel, 'mode': mode, 'flow': flow}

    def gen(self, tier, rng):
        n_db, per = {'quick': (700, 12), 'thorough': (9000, 14), 'search': (14000, 14)}[tier]
        for _ in range(n_db):
            db = self.rand_db(rng)
            for _ in range(per):
                yield {'db': db, 'q': self.rand_query(rng, db)}

    # ------------------------------------------------------------------
    # adapter
    def _db_for(self, db):
        key = json.dumps(db, sort_keys=True)
        if key == self._db_key:
            return self._db_path
        path = os.path.join(self.tmp, f'db-{os.getpid()}.sqlite')
        shutil.copyfile(self.template, path)
        conn = sqlite3.connect(path)
        conn.executemany(
            'INSERT INTO task_states (name, cycle, flow_nums, time_created, time_updated, submit_num, status, '
            'flow_wait, is_manual_submit) VALUES (?,?,?,?,?,?,?,?,?)',
            [(n, c, json.dumps(fl), 't0', 't1', sn, st, 0, 0) for n, c, fl, sn, st in db['states']])
        conn.executemany(
            'INSERT INTO task_outputs (cycle, name, flow_nums, outputs) VALUES (?,?,?,?)',
            [(c, n, json.dumps(fl), json.dumps(dict(o['d']) if 'd' in o else o['l'])) for n, c, fl, o in db['outputs']])
        conn.commit()
        conn.close()
        self._db_key, self._db_path = key, path
        return path

    def impl(self, inp):
        path = self._db_for(inp['db'])
        q = inp['q']
        try:
            with self.Checker('', '', db_path=path) as chk, contextlib.redirect_stderr(io.StringIO()):
                res = chk.workflow_state_query(
                    task=q['task'], cycle=q['cycle'], selector=q['selector'],
                    is_trigger=q['mode'] == 'trigger', is_message=q['mode'] == 'message',
                    flow_num=q['flow'])
        except self.InputError:
            return {'err': 'InputError'}
        except Exception as exc:
            return {'err': type(exc).__name__}
        rows = []
        for r in res:
            r = list(r)
            cell = r[2]
            if q['mode'] != 'status':
                val = ast.literal_eval(cell)          # str(dict) / str(list) as returned
                cell = {'d': [[k, v] for k, v in val.items()]} if isinstance(val, dict) else {'l': list(val)}
            rows.append([r[0], r[1], cell] + r[3:])
        rows.sort(key=lambda x: json.dumps(x, sort_keys=True))
        return {'rows': rows}

    def equal(self, model_out, obs):
        def canon(o):
            if isinstance(o, dict) and 'rows' in o:
                return sorted(json.dumps(r, sort_keys=True) for r in o['rows'])
            return o
        return canon(model_out) == canon(obs)

    # ------------------------------------------------------------------
    @staticmethod
    def _pkind(p):
        """0 none/all, 1 exact, 2 exact with a LIKE/GLOB metacharacter, 3 star, 4 star with a metacharacter or letters"""
        if p is None or p == '' or p == '*':
            return 0
        meta = any(c in p for c in '_%?[]^\\') or any(c.lower() != c.upper() for c in p)
        return (3 if '*' in p else 1) + (1 if meta else 0)

    def classify(self, inp, obs):
        q = inp['q']
        db = inp['db']
        total = len(db['states'] if q['mode'] == 'status' else db['outputs'])
        if 'err' in obs:
            hit = 'rejected'
        else:
            n = len(obs['rows'])
            hit = 'miss' if n == 0 else ('all' if n == total else 'some')
        kind = max(self._pkind(q['task']), self._pkind(q['cycle']))
        if kind == 0 and q['selector'] is None and q['flow'] is None:
            return None       # unfiltered dump
        kinds = ['nopattern', 'exact', 'exact+meta/case', 'star', 'star+meta/case']
        sel = '' if q['selector'] is None else ('+finished' if q['selector'] in ('finished', 'finish') else '+sel')
        return '/'.join([q['mode'] + sel, kinds[kind], 'flow' if q['flow'] is not None else 'anyflow', hit])

    def neighbours(self, inp, rng):
        out = []
        q = inp['q']
        for field in ('task', 'cycle'):
            p = q[field]
            if not p:
                continue
            for i in range(len(p)):
                for rep in ('*', '_', '%', '?', '[', p[i].swapcase()):
                    if rep != p[i] and len(rep) == 1:
                        q2 = dict(q)
                        q2[field] = p[:i] + rep + p[i + 1:]
                        out.append({'db': inp['db'], 'q': q2})
        for fl in (None, 1, 2):
            q2 = dict(q)
            q2['flow'] = fl
            out.append({'db': inp['db'], 'q': q2})
        return out[:200]


PROP = C40()
