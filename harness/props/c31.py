"""C31  Sequential tasks never overlap and run in cycle order."""
from __future__ import annotations

import sys
from pathlib import Path

sys.path.insert(0, str(Path(__file__).resolve().parents[1] / 'sched'))
from prop import SchedProp  # noqa: E402


class C31(SchedProp):
    id = 'C31'
    gen_opts = {'p_sequential': 0.6, 'p_seqfam': 0.4}
    props_modules = ['CylcModel.Props.C31']
    theorems = [
        'CylcModel.C31.seq_order',
        'CylcModel.C31.seq_queued_after_prev',
    ]
    statement_note = (
        'proof over the Sched model (v1, intervention-free). Hypotheses, both decidable and checked by the driver on '
        'every real extracted graph: Graph.wf, and Graph.seqShape n for every task n the loaded configuration flags '
        'sequential (every instance with an earlier valid point carries the single-atom prerequisite '
        'prev/n:succeeded on the NEAREST earlier valid point, initially satisfied only if prev < start point - what '
        'TaskState._add_prerequisites builds). Full: seq_order - in every state of every run every launch of an '
        'instance of such a task comes with the succeeded output of the nearest previous instance recorded complete, '
        'unless that instance is before the start point (from C01.submit_sound); the next instance is not even queued '
        'earlier. NOT proved: seq_no_overlap (def seq_no_overlap_full) - it needs the status-regression guards of '
        'message processing (a succeeded instance is not made active again; C09/C10) which the atomic actions do not '
        'carry; the judge checks it on every observation of every real run')
    technique = ('graph-shape hypothesis + C01 submit_sound (atomic-action invariants of the Lean scheduler model) + trace '
                 'correspondence with the real Scheduler + trace judge')
    trusted = ['the runner instrumentation (wrapper around TaskPool.remove that only records)']
    rule = ('as C01 with 60% of the tasks of every workflow declared sequential (in 40% of the workflows through a family '
            'name SEQ inherited as first, second or only parent, multiple inheritance with a second family; "declared '
            'sequential" is computed from the flow.cylc text, not from tdef.sequential; one or more recurrences, explicit '
            'inter-cycle triggers on the same task, warm starts, stop points); non-trivial = distinct (kind, ending, '
            'launch-count class, polls) class per distinct case')

    @staticmethod
    def declared_sequential(flow: str):
        """The names declared sequential by the flow.cylc TEXT: the [[special tasks]] sequential list, family names
        replaced by everything that inherits them (full, multiple inheritance) - not read from tdef.sequential."""
        import re
        listed = []
        m = re.search(r'^\s*sequential\s*=\s*(.*)$', flow, flags=re.M)
        if m:
            listed = [x.strip() for x in m.group(1).split(',') if x.strip()]
        parents = {}
        cur = None
        in_runtime = False
        for ln in flow.splitlines():
            if re.match(r'^\[runtime\]\s*$', ln):
                in_runtime = True
                continue
            if re.match(r'^\[[^\[]', ln):
                in_runtime = False
            if not in_runtime:
                continue
            h = re.match(r'^\s*\[\[([^\[\]]+)\]\]\s*$', ln)
            if h:
                cur = h.group(1).strip()
                parents.setdefault(cur, [])
                continue
            i = re.match(r'^\s*inherit\s*=\s*(.*)$', ln)
            if i and cur is not None:
                parents[cur] = [x.strip() for x in i.group(1).split(',') if x.strip()]

        def ancestors(n, seen=None):
            seen = seen or set()
            for q in parents.get(n, []):
                if q not in seen:
                    seen.add(q)
                    ancestors(q, seen)
            return seen
        names = set(parents) | set(listed)
        return sorted(n for n in names if n in listed or ancestors(n) & set(listed))

    def driver_input(self, inp, raw):
        d = super().driver_input(inp, raw)
        if 'graph' in d:
            # which tasks the flow text declares sequential (the judge does not take it from tdef.sequential)
            d['seq_declared'] = [n for n in self.declared_sequential(inp.get('flow', '')) if n in raw['graph']['tasks']]
        return d

    def classify(self, inp, obs):
        base = super().classify(inp, obs)
        return base


PROP = C31()
