"""C26S  Pool bookkeeping (C26) on the Sched3Set model: `cylc set`, several flows, merges, flow wait, restarts.

(The Sched v1 half of C26 - intervention-free runs - is harness/props/c26.py; the coordinator merges the manifest
entries / adds `also`.)"""
from __future__ import annotations

import sys
from pathlib import Path

sys.path.insert(0, str(Path(__file__).resolve().parents[1] / 'sched'))
sys.path.insert(0, str(Path(__file__).resolve().parent))
import prop as sprop  # noqa: E402
from prop import SchedProp  # noqa: E402
import gen as sgen  # noqa: E402
import _s3set  # noqa: E402
from _s3set import S, L, RESTART, run_ok, sub, msg, case  # noqa: E402
from c29 import C29  # noqa: E402


def corpus_cases():
    c = []
    # `cylc set` completes a LEAF task that is not in the pool, at a cycle point where the pool holds nothing: a
    # transient object is "removed" although it never was in the pool - no bucket may be left behind
    c.append(case('c26s-leaf-empty-point', 'a => b', [L, S('7/b', out=['succeeded']), L, S('7/b'), L,
                                                       S('6/b', out=['succeeded'], flow=['new']), L, L], fcp=7))
    k = case('c26s-leaf-prestart', 'a => b', [L, S('1/b', out=['succeeded']), L, S('2/b'), L, L], fcp=7)
    k['opts'] = {'startcp': '5'}
    c.append(k)
    # set on a task after it finished and left the pool: outputs (a transient object), then prerequisites (the
    # instance comes back), then outputs on the pooled instance in another flow (merge), then a restart
    c.append(case('c26s-after-finish', 'a => b => c', [
        L, *run_ok('1/a'), L, L, S('1/a', out=['x']), L, S('1/a', pre=['all'], flow=['new']), L,
        S('1/a', out=['started'], flow=['3']), L, *RESTART, L, S('1/a', out=['succeeded']), L, L]))
    # the same inactive instance addressed twice in different flows, with and without --wait; then its parent runs
    c.append(case('c26s-twice-inactive', 'a => b => c', [
        S('1/c', pre=['all'], flow=['2'], wait=True), L, S('1/c', pre=['all'], flow=['3']), L,
        S('1/c', out=['succeeded'], flow=['4']), L, *run_ok('1/a'), L, L, L]))
    # a future instance spawned by set --pre, its own parent arrives later (merge into the pooled proxy); restart
    c.append(case('c26s-future-merge', 'a[-P1] => a => b', [
        S('3/a', pre=['all'], flow=['new']), L, L, *RESTART, L, S('3/b', pre=['3/a:succeeded'], flow=['none']), L,
        S('3/b', pre=['all'], flow=['1']), L, L], fcp=4, rh=3))
    # set --out on an inactive instance whose child is pooled already (merge into the child), leaf child, no flow
    c.append(case('c26s-noflow-leaf', 'a => b', [S('1/b', pre=['all'], flow=['none']), L,
                                                  S('1/a', out=['succeeded'], flow=['none']), L, L, *RESTART, L, L]))
    return c


class C26S(SchedProp):
    id = 'C26S'
    report_id = 'C26'
    drv = 'C26S'
    props_modules = ['CylcModel.Props.C26S']
    theorems = []
    statement_note = 'TODO'
    technique = ('inductive invariant over op lists of the Sched3Set model (one lemma per primitive) + trace '
                 'correspondence with the real Scheduler + judge on the observed pool indexes')
    trusted = C29.trusted[:2] + [
        'the runner reads TaskPool.active_tasks / _active_tasks_list / the look-up methods after every operation '
        '(observation keys book, idx, db)',
    ]
    unmodelled = C29.unmodelled
    rule = 'TODO'
    kinds = ('set', 'setany', 'setI', 'setanyI')
    n_quick = 48
    n_thorough = 640

    def translate(self):
        return _s3set.translate_flags()

    def corpus(self):
        return corpus_cases() + _s3set.corpus_cases()

    def gen(self, tier, rng):
        n = self.n_quick if tier == 'quick' else self.n_thorough
        base = rng.randrange(1 << 30)
        for k in range(n):
            kind = self.kinds[k % len(self.kinds)]
            yield gen_case(base + k, kind)

    def impl_batch(self, inputs):
        return _s3set.retry_flakes(sprop.run_workers, inputs, _s3set.run_robust(sprop.run_workers, inputs, self.workers))

    def equal(self, model_out, obs):
        if isinstance(obs, dict) and 'crash' in obs:
            return 'graph_depth' in obs['crash']
        return super().equal(model_out, obs)

    def classify(self, inp, obs):
        if isinstance(obs, dict):
            return 'crash'
        base = C29.classify(self, inp, obs)
        ops = inp.get('ops') or []
        seen = set()
        was = set()
        for k, ob in enumerate(obs):
            if k < len(ops):
                op = ops[k]
                if op.get('op') == 'cmd' and op.get('name') == 'set_prereqs_and_outputs':
                    p, n = op['args']['tasks'][0].split('/')
                    key = (int(p), n)
                    if not any((t['p'], t['n']) == key for t in ob['pool']):
                        # inactive target: an instance that was pooled earlier (finished / removed) or never was
                        seen.add('gone' if key in was else 'never')
                        if not ob['pool'] or all(t['p'] != key[0] for t in ob['pool']):
                            seen.add('empty-point')
            was |= {(t['p'], t['n']) for t in ob['pool']}
        return base + '/' + (','.join(sorted(seen)) or '-')


def gen_case(seed, kind):
    """kinds set / setany as in C29; setI / setanyI: the same generator with most commands aimed at instances that
    are NOT in the pool (future, finished, never-run leaves), more --wait, one or two restarts"""
    if kind in ('setI', 'setanyI'):
        c = sgen.gen_case(seed, kind[:-1])
        c['id'] = f'{kind}{seed}'
        c['policy'].update(p_set_pooled=0.15, p_wait=0.3, restarts=1 + seed % 2,
                           p_cmd=max(c['policy'].get('p_cmd', 0.1), 0.18))
        return c
    return sgen.gen_case(seed, kind)


PROP = C26S()
