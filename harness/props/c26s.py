"""C26S  Pool bookkeeping (C26) on the Sched3Set model: `cylc set`, several flows, merges, flow wait, restarts.

(The Sched v1 half of C26 - intervention-free runs - is harness/props/c26.py; the coordinator merges the manifest
entries / adds `also`.)"""
from __future__ import annotations

import sys
from pathlib import Path

sys.path.insert(0, str(Path(__file__).resolve().parents[1] / 'sched'))
sys.path.insert(0, str(Path(__file__).resolve().parent))
import prop as sprop  # noqa: E402
from prop import SchedProp  # noqa: E402
import gen as sgen  # noqa: E402
import _s3set  # noqa: E402
from _s3set import S, L, RESTART, run_ok, sub, msg, case  # noqa: E402
from c29 import C29  # noqa: E402


def corpus_cases():
    c = []
    # `cylc set` completes a LEAF task that is not in the pool, at a cycle point where the pool holds nothing: a
    # transient object is "removed" although it never was in the pool - no bucket may be left behind
    c.append(case('c26s-leaf-empty-point', 'a => b', [L, S('7/b', out=['succeeded']), L, S('7/b'), L,
                                                       S('6/b', out=['succeeded'], flow=['new']), L, L], fcp=7))
    k = case('c26s-leaf-prestart', 'a => b', [L, S('1/b', out=['succeeded']), L, S('2/b'), L, L], fcp=7)
    k['opts'] = {'startcp': '5'}
    c.append(k)
    # set on a task after it finished and left the pool: outputs (a transient object), then prerequisites (the
    # instance comes back), then outputs on the pooled instance in another flow (merge), then a restart
    c.append(case('c26s-after-finish', 'a => b => c', [
        L, *run_ok('1/a'), L, L, S('1/a', out=['x']), L, S('1/a', pre=['all'], flow=['new']), L,
        S('1/a', out=['started'], flow=['3']), L, *RESTART, L, S('1/a', out=['succeeded']), L, L]))
    # the same inactive instance addressed twice in different flows, with and without --wait; then its parent runs
    c.append(case('c26s-twice-inactive', 'a => b => c', [
        S('1/c', pre=['all'], flow=['2'], wait=True), L, S('1/c', pre=['all'], flow=['3']), L,
        S('1/c', out=['succeeded'], flow=['4']), L, *run_ok('1/a'), L, L, L]))
    # a future instance spawned by set --pre, its own parent arrives later (merge into the pooled proxy); restart
    c.append(case('c26s-future-merge', 'a[-P1] => a => b', [
        S('3/a', pre=['all'], flow=['new']), L, L, *RESTART, L, S('3/b', pre=['3/a:succeeded'], flow=['none']), L,
        S('3/b', pre=['all'], flow=['1']), L, L], fcp=4, rh=3))
    # set --out on an inactive instance whose child is pooled already (merge into the child), leaf child, no flow
    c.append(case('c26s-noflow-leaf', 'a => b', [S('1/b', pre=['all'], flow=['none']), L,
                                                  S('1/a', out=['succeeded'], flow=['none']), L, L, *RESTART, L, L]))
    return c


class C26S(SchedProp):
    id = 'C26S'
    report_id = 'C26'
    drv = 'C26S'
    props_modules = ['CylcModel.Props.C26S']
    theorems = [
        'CylcModel.C26S.pool_no_duplicates',
        'CylcModel.C26S.step_keeps_no_duplicates',
        'CylcModel.C26S.set_keeps_no_duplicates',
        'CylcModel.C26S.merge_keeps_no_duplicates',
        'CylcModel.C26S.restart_keeps_no_duplicates',
        'CylcModel.C26S.add_present_noop',
        'CylcModel.C26S.lookup_returns_filed',
        'CylcModel.C26S.lookup_consistent',
        'CylcModel.C26S.db_pool_exact',
    ]
    statement_note = (
        'partial: proofs over the Sched3Set model (scheduler core + flows + `cylc set` + restart, a line-by-line port) for '
        'all instance graphs. PROVED: pool_no_duplicates - in every state of every run (any list of main loops, submit '
        'results, job messages, hold / release / hold-point / stop / pause commands, `cylc set` of outputs or '
        'prerequisites with any --flow option and --wait on pooled or inactive instances, restarts) no two pooled proxies '
        'share a (cycle point, name); the invariant is inductive: every operation keeps it from ANY state that has it '
        '(step_keeps_no_duplicates; named instances for `cylc set`, merge_flows and restart), proved primitive by primitive '
        '(add_to_pool, put, remove, spawn_task incl. the flow-wait recursion, spawn_on_all_outputs, merge_flows, '
        'spawn_on_output, process_message incl. forced messages, _set_outputs_itask / _set_prereqs_tdef, '
        'load_db_task_pool_for_restart ...) as an instance of a generic pool-shape invariant (Sched3SetNoDup, also used by '
        'C11R). add_present_noop - add_to_pool of an instance whose key is pooled drops the second object. '
        'lookup_returns_filed / lookup_consistent - with no duplicates the pool\'s look-up (the model\'s get_task / '
        '_get_task_by_id) returns exactly the filed proxy for the key of every pooled proxy, in every state of every run. '
        'db_pool_exact - after a main loop that does not shut down, the task_pool table is exactly the pool (status, flows, '
        'held). NOT PROVED (the model keeps one flat pool list: cycle buckets, the cached task list and the side indexes '
        'have no counterpart in it): no empty cycle bucket, cached list = contents, queue / trigger-now members are pooled '
        'objects - these are checked by the judge on every real trace (observation keys book, idx) and, for the bucket / '
        'cache algebra, proved in C26 (PoolCache).')
    technique = ('inductive invariant over op lists of the Sched3Set model (one lemma per primitive) + trace '
                 'correspondence with the real Scheduler + judge on the observed pool indexes')
    trusted = C29.trusted[:2] + [
        'the runner reads TaskPool.active_tasks / _active_tasks_list / the look-up methods after every operation '
        '(observation keys book, idx, db)',
    ]
    unmodelled = C29.unmodelled
    rule = ('generated integer-cycling workflows (2-6 tasks, 1-3 recurrences, AND/OR triggers, inter-cycle offsets, retries, '
            'optional/custom outputs, suicide and absolute triggers, sequential tasks, runahead P0-P3) driven through the real '
            'Scheduler by a seeded adaptive schedule of main loops, submit results and job messages mixed with `cylc set` '
            'commands (outputs none / 1-3 / unknown, prerequisites all / some / foreign; --flow default / new / none / N; '
            '--wait), hold, release, hold point, pause, stop + restart. Kinds set / setany as in C29 (half of the commands on '
            'pooled instances); setI / setanyI: 85% of the commands on instances that are NOT in the pool (future, finished, '
            'never-run leaf tasks, cycle points where the pool holds nothing), 30% --wait, 1-2 restarts; 6 + 17 hand-written '
            'histories (leaf task at an empty cycle point, pre-start instance, set after the target finished, the same '
            'inactive instance in several flows, future instance merged later, no-flow leaf). After every operation the '
            'pool dictionaries, the cached list, every look-up path and (after main loops) the task_pool table are read; '
            'non-trivial = distinct class (kind, ending, set variants on pooled / inactive targets, target gone / never '
            'pooled / at an empty point, merges, flow-wait, restarts with several flows) per distinct case')
    kinds = ('set', 'setany', 'setI', 'setanyI')
    n_quick = 48
    n_thorough = 640

    def translate(self):
        return _s3set.translate_flags()

    def corpus(self):
        return corpus_cases() + _s3set.corpus_cases()

    def gen(self, tier, rng):
        n = self.n_quick if tier == 'quick' else self.n_thorough
        base = rng.randrange(1 << 30)
        for k in range(n):
            kind = self.kinds[k % len(self.kinds)]
            yield gen_case(base + k, kind)

    def impl_batch(self, inputs):
        return _s3set.retry_flakes(sprop.run_workers, inputs, _s3set.run_robust(sprop.run_workers, inputs, self.workers))

    def equal(self, model_out, obs):
        if isinstance(obs, dict) and 'crash' in obs:
            return 'graph_depth' in obs['crash']
        return super().equal(model_out, obs)

    def classify(self, inp, obs):
        if isinstance(obs, dict):
            return 'crash'
        base = C29.classify(self, inp, obs)
        ops = inp.get('ops') or []
        seen = set()
        was = set()
        for k, ob in enumerate(obs):
            if k < len(ops):
                op = ops[k]
                if op.get('op') == 'cmd' and op.get('name') == 'set_prereqs_and_outputs':
                    p, n = op['args']['tasks'][0].split('/')
                    key = (int(p), n)
                    if not any((t['p'], t['n']) == key for t in ob['pool']):
                        # inactive target: an instance that was pooled earlier (finished / removed) or never was
                        seen.add('gone' if key in was else 'never')
                        if not ob['pool'] or all(t['p'] != key[0] for t in ob['pool']):
                            seen.add('empty-point')
            was |= {(t['p'], t['n']) for t in ob['pool']}
        return base + '/' + (','.join(sorted(seen)) or '-')


def gen_case(seed, kind):
    """kinds set / setany as in C29; setI / setanyI: the same generator with most commands aimed at instances that
    are NOT in the pool (future, finished, never-run leaves), more --wait, one or two restarts"""
    if kind in ('setI', 'setanyI'):
        c = sgen.gen_case(seed, kind[:-1])
        c['id'] = f'{kind}{seed}'
        c['policy'].update(p_set_pooled=0.15, p_wait=0.3, restarts=1 + seed % 2,
                           p_cmd=max(c['policy'].get('p_cmd', 0.1), 0.18))
        return c
    return sgen.gen_case(seed, kind)


PROP = C26S()
