"""C37  Template variables survive restart unchanged.

Real code path: templatevars.load_template_vars (eval_var) -> WorkflowDatabaseManager.put_workflow_template_vars
(repr) -> real sqlite (private + public DB) -> Scheduler._load_template_vars / get_template_vars_from_db on restart.
The Lean model (PyLit.lean) works on tokens; leaf tokens are lexed / evaluated by Python itself (trusted).
"""
from __future__ import annotations

import ast
import io
import json
import os
import shutil
import sys
import tempfile
import tokenize
import types

from core import Prop, Infra

KEYS = ['A', 'B', 'FOO', 'x1', '_k', 'N']
PUNCT = {'(', ')', '[', ']', '{', '}', ',', ':', '+', '-', '...'}


# ---------------------------------------------------------------------------- encodings
def int_dec(n: int) -> str:
    """decimal digits of an int of any size (str() refuses > 4300 digits)"""
    if n < 0:
        return '-' + int_dec(-n)
    base = 10 ** 4000
    if n < base:
        return str(n)
    hi, lo = divmod(n, base)
    return int_dec(hi) + str(lo).rjust(4000, '0')


def enc(v):
    t = type(v)
    if v is None:
        return {'t': 'none'}
    if v is Ellipsis:
        return {'t': 'ell'}
    if t is bool:
        return {'t': 'bool', 'v': v}
    if t is int:
        return {'t': 'int', 'v': int_dec(v)}
    if t is float:
        return {'t': 'float', 'v': repr(v)}
    if t is complex:
        return {'t': 'complex', 'v': repr(v)}
    if t is str:
        return {'t': 'str', 'v': [ord(c) for c in v]}
    if t is bytes:
        return {'t': 'bytes', 'v': list(v)}
    if t in (list, tuple, set):
        return {'t': t.__name__, 'v': [enc(x) for x in v]}
    if t is dict:
        return {'t': 'dict', 'v': [[enc(k), enc(x)] for k, x in v.items()]}
    return {'t': 'other', 'v': t.__name__}


def canon(j):
    """set elements sorted: order of a set is not part of its value"""
    if isinstance(j, dict) and 'db' in j and isinstance(j['db'], list):
        j = dict(j)
        j['db'] = [[k, canon_toks(t)] for k, t in j['db']]
        return {k: (v if k == 'db' else canon(v)) for k, v in j.items()}
    if isinstance(j, dict):
        if j.get('t') == 'set':
            return {'t': 'set', 'v': sorted((canon(x) for x in j['v']), key=lambda x: json.dumps(x, sort_keys=True))}
        return {k: canon(v) for k, v in j.items()}
    if isinstance(j, list):
        return [canon(x) for x in j]
    return j


def canon_toks(toks):
    """token list of a repr with the items of every set display sorted"""
    pos = 0
    closers = {'(': ')', '[': ']', '{': '}'}

    def group(closer):
        # -> list of items (each a token list) up to the closer
        nonlocal pos
        items, cur, colon = [], [], False
        while pos < len(toks):
            t = toks[pos]
            pos += 1
            if t == closer:
                if not cur and len(items) == 1 and closer == ')':
                    items[0] = items[0] + [',']        # (x,) is not (x)
                break
            if isinstance(t, str) and t in closers:
                inner, is_dict = group(closers[t])
                flat = []
                for k, it in enumerate(inner if (t != '{' or is_dict) else sorted(inner, key=lambda x: json.dumps(x, sort_keys=True))):
                    flat += ([','] if k else []) + it
                cur += [t] + flat + [closers[t]]
            elif t == ',':
                items.append(cur)
                cur = []
            else:
                if t == ':':
                    colon = True
                cur.append(t)
        if cur:
            items.append(cur)
        return items, colon
    items, _ = group(None)
    out = []
    for k, it in enumerate(items):
        out += ([','] if k else []) + it
    return out


def tokens(text: str):
    """Token list of a template variable text as eval_var sees it; leaves evaluated by Python."""
    text = text.strip().lstrip(' \t')
    out = []
    strs = []

    def flush():
        if strs:
            try:
                v = ast.literal_eval(' '.join(strs))
                out.append({'s': [ord(c) for c in v]} if isinstance(v, str) else {'b': list(v)})
            except Exception:
                out.append({'x': 'badstring'})
            strs.clear()
    try:
        for tk in tokenize.generate_tokens(io.StringIO(text).readline):
            tt, s = tk.type, tk.string
            if tt == tokenize.STRING:
                strs.append(s)
                continue
            if tt in (tokenize.NL, tokenize.NEWLINE, tokenize.COMMENT, tokenize.ENDMARKER,
                      tokenize.INDENT, tokenize.DEDENT):
                continue
            flush()
            if tt == tokenize.NUMBER:
                try:
                    v = ast.literal_eval(s)
                except Exception:
                    out.append({'x': s[:20]})
                    continue
                if type(v) is int:
                    out.append({'i': int_dec(v)})
                elif type(v) is float:
                    out.append({'f': repr(v)})
                else:
                    out.append({'j': s})
            elif tt == tokenize.NAME:
                out.append({'n': s})
            elif tt == tokenize.OP and s in PUNCT:
                out.append(s)
            else:
                out.append({'x': s[:20] or tokenize.tok_name.get(tt, '?')})
        flush()
    except (tokenize.TokenError, SyntaxError, IndentationError):
        flush()
        out.append({'x': 'tokenize-error'})
    return out


# ---------------------------------------------------------------------------- generation
def gen_leaf(rng, hashable_only=False):
    r = rng.random()
    if r < 0.05:
        return None
    if r < 0.10:
        return rng.choice([True, False])
    if r < 0.32:
        return rng.choice([0, 1, -1, 7, 42, -300, 2 ** 31, -2 ** 63, 10 ** 30, -10 ** 40 + 1, rng.randint(-10 ** 6, 10 ** 6)])
    if r < 0.50:
        return rng.choice([0.0, -0.0, 1.5, -2.25, 1e100, -1e-7, 5e-324, 1.7976931348623157e308, 0.1, 3.0,
                           rng.uniform(-1e3, 1e3), float('inf'), float('-inf'), float('inf')])
    if r < 0.53:
        return Ellipsis
    if r < 0.535:
        return rng.choice([1j, 1 + 2j, -1.5 - 0.5j, complex(0, float('inf'))])
    if r < 0.65:
        return bytes(rng.choice([b'', b'ab', b'\x00\xff', b"q'\"\\", bytes([rng.randrange(256) for _ in range(3)])]))
    alphabet = ['a', 'b', 'Z', '0', ' ', "'", '"', '\\', '\n', '\t', '\x00', '\x7f', 'é', '☃', '\U0001f600', '\ud800',
                '{', '}', ',', ':', '=', '#', '%', '　', '\x85', ' ']
    n = rng.choice([0, 1, 1, 2, 3, 5, 8])
    return ''.join(rng.choice(alphabet) for _ in range(n))


def is_hashable(v):
    try:
        hash(v)
        return True
    except TypeError:
        return False


def gen_value(rng, depth):
    if depth <= 0 or rng.random() < 0.35:
        return gen_leaf(rng)
    kind = rng.choice(['list', 'list', 'tuple', 'tuple', 'set', 'dict', 'dict'])
    n = rng.choice([0, 1, 1, 2, 3, 4])
    if kind == 'list':
        return [gen_value(rng, depth - 1) for _ in range(n)]
    if kind == 'tuple':
        return tuple(gen_value(rng, depth - 1) for _ in range(n))
    if kind == 'set':
        out = set()
        for _ in range(n):
            v = gen_value(rng, depth - 1)
            if is_hashable(v):
                out.add(v)
        return out
    d = {}
    for _ in range(n):
        k = gen_value(rng, min(depth - 1, 1))
        if is_hashable(k):
            d[k] = gen_value(rng, depth - 1)
    return d


def render(v, rng, top=False):
    """a text that ast.literal_eval turns into v (spelling variants chosen by rng)"""
    t = type(v)
    r = rng.random()
    if t is int:
        a = abs(v)
        body = rng.choice([str(a), hex(a), str(a), '{:_}'.format(a), oct(a)]) if a < 10 ** 100 else str(a)
        if v < 0:
            return rng.choice(['-' + body, '- ' + body, '-(' + body + ')'])
        return rng.choice([body, body, '+' + body, '(' + body + ')'])
    if t is float:
        if v != v:
            raise ValueError('nan has no literal')
        if v in (float('inf'), float('-inf')):
            body = rng.choice(['1e999', '1e400', '9.9e9999'])
            return body if v > 0 else '-' + body
        s = repr(v)
        neg = s.startswith('-')
        body = s[1:] if neg else s
        if 'e' not in body and 'n' not in body and rng.random() < 0.3:
            body += '0'
        return ('-' + body) if neg else rng.choice([body, body, '+' + body])
    if t is complex:
        return repr(v) if 'inf' not in repr(v) and 'nan' not in repr(v) else '1e999j'
    if t is str:
        if r < 0.25 and len(v) >= 2 and not any(0xD800 <= ord(c) <= 0xDFFF for c in v):
            k = rng.randrange(1, len(v))
            return repr(v[:k]) + rng.choice([' ', '']) + repr(v[k:])
        if r < 0.45 and v.isprintable() and '"' not in v and '\\' not in v:
            return '"' + v + '"'
        if r < 0.55:
            return "'" + ''.join('\\u%04x' % ord(c) if ord(c) < 0x10000 else '\\U%08x' % ord(c) for c in v) + "'"
        return repr(v)
    if t is bytes:
        return repr(v)
    if t in (type(None), bool) or v is Ellipsis:
        return '...' if v is Ellipsis else repr(v)
    sp = rng.choice(['', ' ', ' ', '\n '])
    tc = rng.choice(['', '', ','])
    if t is list:
        items = [render(x, rng) for x in v]
        return '[' + (',' + sp).join(items) + (tc if items else '') + ']'
    if t is tuple:
        items = [render(x, rng) for x in v]
        if not items:
            return '()'
        if len(items) == 1:
            return items[0] + ',' if (top and rng.random() < 0.3) else '(' + items[0] + ',)'
        body = (',' + sp).join(items) + tc
        return body if (top and rng.random() < 0.3 and '\n' not in body) else '(' + body + ')'
    if t is set:
        items = [render(x, rng) for x in v]
        if not items:
            return 'set()'
        return '{' + (',' + sp).join(items) + tc + '}'
    if t is dict:
        items = [render(k, rng) + rng.choice([':', ': ', ' : ']) + render(x, rng) for k, x in v.items()]
        return '{' + (',' + sp).join(items) + (tc if items else '') + '}'
    raise TypeError(t)


BAD_TEXTS = ['--1', '-(-1)', '[1,,2]', '{[1]:2}', '{1:2, 3}', 'foo', '1+1', '-True', '[1', "f'x'", '1 if 1 else 2',
             '[*(1,2)]', '{**{}}', 'set(1)', 'inf', 'None()', '(1)(2)', '[1][0]', "'a' b'b'", '', 'set', '{(1,[2])}',
             '1 2', '(,)', '{:}', '{1:}', 'nan', '-inf', '[1]]', '~1', 'not 1', '1,,', 'Ellipsis', "-'a'", '{{}}',
             '[...]', '(1,2)+3j', '1+2j+3j', '1+2', '-1-2', '(-1)', '-(1)', '+(+1)', '(((1,)))', '1,', '()', '((),)',
             '0x' + 'f' * 3600, '1' * 4301]


def mk_var(key, text):
    return [key, text, tokens(text)]


def z_render(items, rng):
    parts = []
    for s in items:
        if ',' in s or rng.random() < 0.3:
            q = rng.choice(['"', "'"])
            parts.append(q + s + q)
        else:
            parts.append(s)
    return ','.join(parts)


class C37(Prop):
    id = 'C37'
    props_modules = ['CylcModel.Props.C37']
    theorems = [
        'CylcModel.C37.eval_repr',
        'CylcModel.C37.eval_repr_unrepresentable',
        'CylcModel.C37.restart_spec',
        'CylcModel.C37.cli_precedence',
        'CylcModel.C37.restarts_spec',
        'CylcModel.C37.accepted_storable',
        'CylcModel.C37.survive',
        'CylcModel.C37.survive_partial',
        'CylcModel.C37.survive_live',
        'CylcModel.C37.survive_counterexample',
    ]
    technique = ('Lean 4: mutual structural induction over nested Python literals (printer / fuel-bounded recursive-descent parser on tokens), '
                 'induction over database rows for the restart merge; direct correspondence through the real sqlite round trip')
    trusted = [
        "Python's lexer and leaf semantics: tokenize, the value of NUMBER / STRING tokens, repr of str / bytes / finite float / int "
        '(leaf tokens carry their value; that leaves round-trip is checked on every case, not proved)',
        'sqlite stores and returns the text unchanged (exercised: real private and public databases)',
        'set iteration order is not modelled: values and stored texts are compared with the items of every set display sorted',
    ]
    unmodelled = [
        'complex numbers (model answers "unsupported"; judged on the real code only)',
        'displays with equal keys / equal set elements, nesting beyond the Python parser limits',
        'template variables provided by pre-configure plugins (cylc-rose)',
    ]
    rule = ('1-3 runs (first start, restarts with command-line options) x 1-4 variables from -s, -z and --set-file; values = random nested '
            'Python objects (None, bool, Ellipsis, small / 64-bit / 40-digit / >4300-digit ints, floats incl. -0.0, denormal, max, inf, str with '
            'quotes, backslashes, control characters, non-BMP, lone surrogate, bytes, complex; list / tuple / set / dict to depth 4) rendered '
            'with spelling variants (hex, underscores, signs, parentheses, adjacent strings, escapes, trailing commas, newlines, bare top-level '
            'tuples) + a list of malformed texts; distinct = distinct run list, non-trivial = class (value kinds, overrides, outcome)')
    workers = 1     # measured: the sqlite round trips are 3-8x slower under a fork pool in this sandbox than in one process

    def setup(self):
        from cylc.flow.templatevars import load_template_vars, get_template_vars_from_db, eval_var
        from cylc.flow.workflow_db_mgr import WorkflowDatabaseManager
        from cylc.flow.scheduler import Scheduler
        from cylc.flow import __version__
        self.load, self.from_db, self.eval_var = load_template_vars, get_template_vars_from_db, eval_var
        self.M, self.S, self.version = WorkflowDatabaseManager, Scheduler, __version__
        self.reject = None

    # ------------------------------------------------------------------ K-T
    def translate(self):
        def accepted(text):
            try:
                self.eval_var(text)
                return True
            except Exception:
                return False
        probes = [accepted('1e999'), accepted('...'), accepted('[1, {2: -1e999}]')]
        if all(probes):
            self.reject = False
        elif not any(probes):
            self.reject = True
        else:
            raise ValueError(f'eval_var accepts some unrestorable values and refuses others: {probes}')
        if not accepted('[1, "a", {2: (3.5, None)}]'):
            raise ValueError('eval_var refuses an ordinary literal')
        limit = sys.get_int_max_str_digits()
        self.statement_note = self.note()
        return {'PyLitCfg.lean': (
            '/- GENERATED by harness/props/c37.py translate() from the live interpreter / source. Do not edit. -/\n'
            'namespace CylcModel.Generated.PyLitCfg\n'
            '/-- `sys.get_int_max_str_digits()` (0 = no limit): `repr` of a longer int raises -/\n'
            f'def intMaxStrDigits : Nat := {limit}\n'
            '/-- does `eval_var` refuse values that cannot be read back from their repr? (probed: `1e999`, `...`) -/\n'
            f'def rejectsUnrestorable : Bool := {"true" if self.reject else "false"}\n'
            'end CylcModel.Generated.PyLitCfg\n')}

    def note(self):
        base = ('eval_repr (full: every nesting of list/tuple/set/dict over opaque leaves): literal_eval(repr(v)) = v iff v contains no Ellipsis/inf/nan '
                '(eval_repr_unrepresentable: otherwise it fails); restart_spec / restarts_spec (full, any number of restarts, any variables): '
                'after storing and restarting, each variable has the value of the last command line that gave it, else its first value. '
                'Leaves are opaque (Python lexer / repr of str, bytes, int, finite float assumed to round-trip). ')
        if self.reject:
            return base + 'The live eval_var refuses unrestorable values: survive_live applies, the full statement survive_full holds.'
        return base + ('partial on the live code: eval_var accepts values that cannot be restored, so survive_full is false '
                       '(survive_counterexample, known finding unrestorable, fix proposed in findings/C37-fix-1.diff); '
                       'proved for the live code: survive_partial (storable values).')

    # ------------------------------------------------------------------ cases
    def mk(self, runs):
        """runs: [{'s': [(k, text)], 'f': [...], 'z': [(k, [str])]}]"""
        out = []
        for r in runs:
            out.append({
                's': [mk_var(k, t) for k, t in r.get('s', [])],
                'f': [mk_var(k, t) for k, t in r.get('f', [])],
                'z': [[k, t, [[ord(c) for c in s] for s in items]] for k, t, items in r.get('z', [])],
            })
        return {'runs': out}

    def corpus(self):
        mk = self.mk
        return [
            mk([{'s': [('X', '1e999')]}, {}]),
            mk([{'s': [('Y', '...')]}, {'s': [('Z', '1')]}]),
            mk([{'s': [('A', "[1, 'x', {2: (3.5, None)}, {4, 5}, set(), (), (6,)]")]}, {'s': [('B', '2')]}, {}]),
            mk([{'s': [('A', '1'), ('B', '"old"')]}, {'s': [('B', '"new"'), ('C', '-0.0')]}, {}]),
            mk([{'s': [('A', '1e999')]}, {'s': [('A', '2')]}]),           # overridden at restart: still refused
            mk([{'s': [('A', '0x' + 'f' * 3600)]}, {}]),
            mk([{'s': [('A', '1')], 'z': [('L', 'a,"b,b",c', ['a', 'b,b', 'c'])], 'f': [('F', "'file'"), ('A', '0')]}, {'z': [('F', 'q', ['q'])]}]),
            mk([{'s': [('A', "'it''s' \"q\"")]}, {}]),
            mk([{'s': [('A', '-1-2j')]}, {}]),
        ]

    def random_case(self, rng):
        nruns = rng.choice([2, 2, 2, 3])
        runs = []
        keys = rng.sample(KEYS, rng.choice([1, 2, 3, 4]))
        for ri in range(nruns):
            run = {'s': [], 'f': [], 'z': []}
            ks = keys if ri == 0 else rng.sample(KEYS, rng.choice([0, 0, 1, 2]))
            for k in ks:
                r = rng.random()
                if r < 0.08:
                    run['s'].append((k, rng.choice(BAD_TEXTS)))
                    continue
                if r < 0.16:
                    items = [''.join(rng.choice('abz09 _.-') for _ in range(rng.choice([0, 1, 3]))) + rng.choice(['', '', ',x'])
                             for _ in range(rng.choice([1, 2, 3]))]
                    items = [s.strip() if i in (0, len(items) - 1) else s for i, s in enumerate(items)]
                    run['z'].append((k, z_render(items, rng), items))
                    continue
                for _ in range(20):
                    v = gen_value(rng, rng.choice([0, 1, 2, 2, 3, 4]))
                    try:
                        text = render(v, rng, top=True)
                        back = ast.literal_eval(text)
                    except (ValueError, SyntaxError, TypeError, MemoryError, RecursionError):
                        continue
                    if canon(enc(back)) == canon(enc(v)) and '=' != text[:1]:
                        break
                else:
                    text = '0'
                (run['f'] if r > 0.9 and '\n' not in text and '#' not in text else run['s']).append((k, text))
            runs.append(run)
        return self.mk(runs)

    def gen(self, tier, rng):
        for t in BAD_TEXTS:
            yield self.mk([{'s': [('A', '1'), ('B', t)]}, {'s': [('B', t)]}, {}])
            yield self.mk([{'s': [('A', t)]}, {}])
        n = {'quick': 1500, 'thorough': 30000, 'search': 15000}[tier]
        for _ in range(n):
            yield self.random_case(rng)

    # ------------------------------------------------------------------ implementation
    def tvs(self, tv):
        return [[k, enc(v)] for k, v in sorted(tv.items())]

    def impl(self, inp):
        base = '/dev/shm' if os.path.isdir('/dev/shm') else None
        d = tempfile.mkdtemp(prefix='c37-', dir=base)
        out = []
        try:
            run_dir = os.path.join(d, 'run')
            pri_d, pub_d = os.path.join(run_dir, '.service'), os.path.join(run_dir, 'log')
            os.makedirs(pri_d)
            os.makedirs(pub_d)
            started = False
            for ri, run in enumerate(inp['runs']):
                rec = {'load': 'err', 'tv': 'skip', 'tv2': 'skip', 'db': 'skip'}
                out.append(rec)
                # --- Scheduler.__init__: get_template_vars(options)
                fpath = None
                if run['f']:
                    fpath = os.path.join(d, f'tvars{ri}')
                    with open(fpath, 'w', encoding='utf-8', errors='surrogatepass') as fh:
                        fh.write(''.join(f'{k} = {t}\n' for k, t, _ in run['f']))
                try:
                    cli = self.load([f'{k}={t}' for k, t, _ in run['s']], fpath, [f'{k}={t}' for k, t, _ in run['z']])
                except Exception:
                    continue
                rec['load'] = self.tvs(cli)
                db = self.M(pri_d, pub_d)
                try:
                    tv = dict(cli)
                    if started:
                        # --- Scheduler.load_workflow_params_and_tmpl_vars
                        stub = types.SimpleNamespace(template_vars=tv)
                        try:
                            with db.get_pri_dao() as dao:
                                dao.select_workflow_template_vars(lambda i, row: self.S._load_template_vars(stub, i, row))
                            rec['tv'] = self.tvs(tv)
                        except Exception:
                            rec['tv'] = 'err'
                        # --- parsec.fileparse._prepend_old_templatevars (flow file processing on restart)
                        try:
                            old = self.from_db(__import__('pathlib').Path(run_dir))
                            old.update(cli)
                            rec['tv2'] = self.tvs(old)
                        except Exception:
                            rec['tv2'] = 'err'
                        if rec['tv'] == 'err' or rec['tv2'] == 'err':
                            continue     # the restart aborts (database untouched)
                    else:
                        rec['tv'] = rec['tv2'] = self.tvs(tv)
                    # --- Scheduler.configure: store
                    db.on_workflow_start(started)
                    try:
                        db.put_workflow_params_1(self.M.KEY_CYLC_VERSION, self.version)
                        db.put_workflow_template_vars(tv)
                        db.process_queued_ops()
                    except Exception:
                        rec['db'] = 'err'
                        if not started:
                            # the first start crashed before anything was committed: no database to restart from
                            db.on_workflow_shutdown()
                            for p in (pri_d, pub_d):
                                try:
                                    os.unlink(os.path.join(p, 'db'))
                                except OSError:
                                    pass
                        continue
                    started = True
                    rows = []
                    with db.get_pri_dao() as dao:
                        dao.select_workflow_template_vars(lambda i, row: rows.append(row))
                    rec['db'] = [[k, tokens(t)] for k, t in sorted(rows)]
                finally:
                    db.on_workflow_shutdown()
        finally:
            shutil.rmtree(d, ignore_errors=True)
        return {'runs': out}

    def equal(self, model_out, obs):
        return model_out == 'unsupported' or canon(model_out) == canon(obs)

    def classify(self, inp, obs):
        tags = set()

        def walk(j, depth):
            if isinstance(j, dict) and 't' in j:
                t = j['t']
                if t == 'float' and j['v'] in ('inf', '-inf', 'nan'):
                    tags.add('inf')
                elif t in ('ell', 'complex', 'set', 'dict', 'bytes'):
                    tags.add(t)
                elif t == 'int' and len(j['v']) > 20:
                    tags.add('bigint')
                elif t == 'str' and any(c in (39, 34, 92) for c in j['v']):
                    tags.add('quotes')
                elif t == 'str' and any(c > 127 or c < 32 for c in j['v']):
                    tags.add('unicode')
                if t in ('list', 'tuple', 'set'):
                    if depth >= 2:
                        tags.add('deep')
                    for x in j['v']:
                        walk(x, depth + 1)
                if t == 'dict':
                    for k, v in j['v']:
                        walk(k, depth + 1)
                        walk(v, depth + 1)
        outcome = []
        prev_keys = None
        for r in obs['runs']:
            if r['load'] == 'err':
                outcome.append('refused')
                continue
            for _k, v in r['load']:
                walk(v, 0)
            if prev_keys is not None and prev_keys & {k for k, _ in r['load']}:
                tags.add('override')
            if r['tv'] == 'err' or r['tv2'] == 'err':
                outcome.append('restore-err')
                continue
            if r['db'] == 'err':
                outcome.append('put-err')
                continue
            outcome.append('ok')
            prev_keys = {k for k, _ in r['tv']}
        if any(run['z'] for run in inp['runs']):
            tags.add('-z')
        if any(run['f'] for run in inp['runs']):
            tags.add('file')
        return '+'.join(sorted(tags) or ['plain']) + ':' + ','.join(outcome)

    def neighbours(self, inp, rng):
        out = []
        runs = inp['runs']
        for ri, run in enumerate(runs):
            for kind in ('s', 'f', 'z'):
                for i in range(len(run[kind])):
                    r2 = dict(run)
                    r2[kind] = run[kind][:i] + run[kind][i + 1:]
                    out.append({'runs': runs[:ri] + [r2] + runs[ri + 1:]})
        if len(runs) > 2:
            out.append({'runs': runs[:2]})
        return out[:100]


PROP = C37()
