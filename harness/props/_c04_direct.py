"""C04 (ii): the real TaskPool.compute_runahead / set_max_future_offset / release_runahead_tasks
run on a pool stub (count and duration limits, future-trigger offsets, stop point, sequences of
pool changes that exercise the cached base point / sequence points and the early returns).

A direct case (everything the real code sees is built from it; strings are cylc syntax):
    {"direct": {"mode": "integer"|"datetime", "icp", "fcp", "recs": [...], "limit": "P2"|"PT6H",
                "stop": point|None,
                "ops": [{"op": "pool", "tasks": [[point, offset|None, is_runahead], ...]} |
                        {"op": "offset"} | {"op": "compute", "force": bool} | {"op": "release"}]}}
The driver case is the same with recurrences expanded to point lists and all points / intervals
converted to integers (datetime: seconds since the epoch)."""
from __future__ import annotations

import traceback
from types import SimpleNamespace as NS


def _imports():
    from cylc.flow.cycling import iso8601
    from cylc.flow.cycling.integer import IntegerInterval, IntegerPoint, IntegerSequence
    from cylc.flow.cycling.iso8601 import (
        ISO8601Interval, ISO8601Point, ISO8601Sequence, interval_parse, point_parse)
    from cylc.flow.task_pool import TaskPool
    return NS(**locals())


class _State:
    def __init__(self, rh):
        self.is_runahead = rh

    def __call__(self, *statuses):      # itask.state(TASK_STATUS_FAILED): only asked in Cylc-7 mode
        return False


class _Task:
    def __init__(self, point, off, rh, k):
        self.point = point
        self.tdef = NS(max_future_prereq_offset=off, name=f't{k}')
        self.state = _State(rh)
        self.flow_nums = {1}
        self.is_xtrigger_sequential = False
        self.identity = f'{point}/t{k}'

    def state_reset(self, is_runahead=None):
        if self.state.is_runahead == is_runahead:
            return False
        self.state.is_runahead = is_runahead
        return True


def make_stub(m, config, stop):
    TaskPool = m.TaskPool

    class Stub:
        compute_runahead = TaskPool.compute_runahead
        set_max_future_offset = TaskPool.set_max_future_offset
        release_runahead_tasks = TaskPool.release_runahead_tasks
        get_tasks_by_point = TaskPool.get_tasks_by_point

        def __init__(self):
            self.config = config
            self.stop_point = stop
            self.max_future_offset = None
            self._prev_runahead_base_point = None
            self._prev_runahead_sequence_points = None
            self.runahead_limit_point = None
            self.active_tasks = {}
            self.data_store_mgr = NS(delta_task_state=lambda t: None)

        def get_tasks(self):
            return [t for mp in self.active_tasks.values() for t in mp.values()]

        def spawn_next_parentless(self, itask):
            pass
    return Stub()


_GUARDED = None


def probe_guarded(m):
    """Which variant of the 'limit already at the stop point' early return does the code under test have?
    P1 on 1..10, limit P1, stop point 4: base 3 -> limit 4 (= stop point); base back to 1 -> the limit stays 4
    (early return regardless of direction: False) or comes down to 2 (early return only forward: True)."""
    global _GUARDED
    if _GUARDED is None:
        P, S = m.IntegerPoint, m.IntegerSequence
        icp, fcp = P('1'), P('10')
        stub = make_stub(m, NS(runahead_limit=m.IntegerInterval('P1'), sequences=[S('P1', icp, fcp)],
                               start_point=icp), P('4'))
        for pt in ('3', '1'):
            t = _Task(P(pt), None, True, 0)
            stub.active_tasks = {t.point: {t.identity: t}}
            stub.compute_runahead()
        _GUARDED = int(stub.runahead_limit_point) == 2
    return _GUARDED


def run_direct(case):
    """-> {"case": <driver case>, "obs": [...]} or {"error": text}"""
    d = case['direct']
    try:
        m = _imports()
        if d['mode'] == 'integer':
            P, I, S = m.IntegerPoint, m.IntegerInterval, m.IntegerSequence
            pt_int = lambda p: int(p)                                  # noqa: E731
            iv_int = lambda i: int(i)                                  # noqa: E731
        else:
            m.iso8601.init(time_zone='Z')
            P, I, S = m.ISO8601Point, m.ISO8601Interval, m.ISO8601Sequence
            pt_int = lambda p: int(m.point_parse(str(p)).seconds_since_unix_epoch)   # noqa: E731
            iv_int = lambda i: int(m.interval_parse(str(i)).get_seconds())           # noqa: E731
        icp, fcp = P(d['icp']), P(d['fcp'])
        seqs = [S(r, str(icp), str(fcp)) for r in d['recs']]
        lim = d['limit']
        count = lim[1:].isdigit() and lim.startswith('P')
        runahead_limit = m.IntegerInterval(lim) if count else I(lim)
        stop = None if d['stop'] is None else P(d['stop'])
        stub = make_stub(m, NS(runahead_limit=runahead_limit, sequences=seqs, start_point=icp), stop)
        # the recurrences as point lists
        seq_pts = []
        for s in seqs:
            pts, p = [], s.get_first_point(icp)
            while p is not None and len(pts) < 400:
                pts.append(pt_int(p))
                p = s.get_next_point(p)
            seq_pts.append(pts)
        dcase = {
            'seqs': seq_pts,
            'limit': {'count': int(lim[1:])} if count else {'dur': iv_int(I(lim))},
            'start': pt_int(icp), 'stop': None if stop is None else pt_int(stop), 'ops': [],
            'guarded': probe_guarded(m),
        }
        obs = []
        k = 0
        for op in d['ops']:
            ob = {'ch': None, 'rel': []}
            if op['op'] == 'pool':
                stub.active_tasks = {}
                conv = []
                for pt, off, rh in op['tasks']:
                    k += 1
                    t = _Task(P(pt), None if off is None else I(off), rh, k)
                    stub.active_tasks.setdefault(t.point, {})[t.identity] = t
                    conv.append([pt_int(t.point), None if off is None else iv_int(I(off)), bool(rh)])
                dcase['ops'].append({'op': 'pool', 'tasks': conv})
            elif op['op'] == 'offset':
                stub.set_max_future_offset()
                dcase['ops'].append({'op': 'offset'})
            elif op['op'] == 'compute':
                ob['ch'] = bool(stub.compute_runahead(force=bool(op['force'])))
                dcase['ops'].append({'op': 'compute', 'force': bool(op['force'])})
            elif op['op'] == 'release':
                before = {t.identity for t in stub.get_tasks() if t.state.is_runahead}
                stub.release_runahead_tasks()
                ob['rel'] = sorted(pt_int(t.point) for t in stub.get_tasks()
                                   if t.identity in before and not t.state.is_runahead)
                dcase['ops'].append({'op': 'release'})
            else:
                raise ValueError(op)
            rl, mo = stub.runahead_limit_point, stub.max_future_offset
            ob['rl'] = None if rl is None else pt_int(rl)
            ob['off'] = None if mo is None else iv_int(mo)
            obs.append(ob)
        return {'case': dcase, 'obs': obs}
    except Exception:
        return {'error': traceback.format_exc()[-1500:]}


# ---------------------------------------------------------------------------
# generator

INT_RECS = ['P1', 'P1', 'P2', 'P3', 'P4', 'P5', '+P1/P2', '+P2/P3', 'R1', 'R1/+P3', '+P3/P6', 'R1/+P5',
            'P1!3', 'P1!(2,5)', 'P2!7', 'P1!P3']
DT_RECS = ['PT6H', 'PT6H', 'PT12H', 'P1D', 'PT3H', 'P2D', 'T00', 'T06', '+PT6H/P1D', 'R1', 'R1/+P1D', 'PT8H']
DT_LIMITS = ['P0', 'P1', 'P2', 'P3', 'PT0H', 'PT3H', 'PT6H', 'PT12H', 'PT18H', 'P1D', 'P2D', 'PT5H', 'PT30H']
DT_OFFS = ['PT3H', 'PT6H', 'PT12H', 'P1D']
INT_OFFS = ['P1', 'P1', 'P2', 'P3']


def gen_direct(seed, rng_cls, allow_back=0.12):
    rng = rng_cls(seed)
    mode = 'integer' if rng.random() < 0.5 else 'datetime'
    if mode == 'integer':
        icp, span = 1, rng.randint(6, 18)
        fcp = str(icp + span)
        icp = str(icp)
        recs = sorted({rng.choice(INT_RECS) for _ in range(rng.randint(1, 3))})
        limit = f'P{rng.choice([0, 1, 1, 2, 3, 4])}'
        offs = INT_OFFS
        grid = [str(p) for p in range(1, 1 + span + 1)]
    else:
        days = rng.randint(3, 7)
        icp, fcp = '20000101T0000Z', f'200001{1 + days:02d}T0000Z'
        recs = sorted({rng.choice(DT_RECS) for _ in range(rng.randint(1, 3))})
        limit = rng.choice(DT_LIMITS)
        offs = DT_OFFS
        grid = [f'200001{1 + h // 24:02d}T{h % 24:02d}00Z' for h in range(0, days * 24 + 1, 3)]
    # candidate pool points: the grid points that lie on some recurrence are found by the real code at run time;
    # here the generator only picks grid indices, the adapter filters (see on_sequence below)
    stop = None
    r = rng.random()
    if r < 0.35:
        stop = fcp
    elif r < 0.7:
        stop = grid[rng.randrange(len(grid) // 3, len(grid))]
    ops = []
    base = rng.randrange(0, max(1, len(grid) // 3))
    for _blk in range(rng.randint(2, 7)):
        width = rng.randint(1, 8)
        tasks = []
        if rng.random() < 0.06:
            pass                                    # empty pool
        else:
            tasks.append([grid[base], rng.choice(offs) if rng.random() < 0.15 else None, rng.random() < 0.6])
            for i in range(base, min(len(grid), base + width + 1)):
                for _ in range(rng.choice([0, 1, 1, 2])):
                    tasks.append([grid[i], rng.choice(offs) if rng.random() < 0.15 else None, rng.random() < 0.8])
            rng.shuffle(tasks)
        ops.append({'op': 'pool', 'tasks': tasks})
        ops.append({'op': 'offset'})
        for _ in range(rng.choice([1, 1, 1, 2])):
            ops.append({'op': 'compute', 'force': rng.random() < 0.15})
        ops.append({'op': 'release'})
        # next base point: mostly forward, sometimes the same, rarely backward
        r = rng.random()
        if r < allow_back and base > 0:
            base = rng.randrange(0, base)
        elif r < 0.3:
            pass
        else:
            base = min(len(grid) - 1, base + rng.randint(1, 4))
    return {'direct': {'mode': mode, 'icp': icp, 'fcp': fcp, 'recs': recs, 'limit': limit, 'stop': stop,
                       'ops': ops, 'snap': True}}


def snap_to_sequences(case):
    """Move every pool point to the nearest point at or after it that lies on one of the recurrences
    (real pools only hold on-sequence points); tasks with no such point are dropped.  Uses the real
    sequence objects; done once when the case is first run, so that the stored case is exact."""
    d = case['direct']
    if not d.get('snap'):
        return case
    m = _imports()
    if d['mode'] == 'integer':
        P, S = m.IntegerPoint, m.IntegerSequence
    else:
        m.iso8601.init(time_zone='Z')
        P, S = m.ISO8601Point, m.ISO8601Sequence
    seqs = [S(r, d['icp'], d['fcp']) for r in d['recs']]
    out_ops = []
    for op in d['ops']:
        if op['op'] != 'pool':
            out_ops.append(op)
            continue
        tasks = []
        for pt, off, rh in op['tasks']:
            cands = [s.get_first_point(P(pt)) for s in seqs]
            cands = [c for c in cands if c is not None]
            if cands:
                tasks.append([str(min(cands)), off, rh])
        out_ops.append({'op': 'pool', 'tasks': tasks})
    d2 = dict(d, ops=out_ops)
    d2.pop('snap')
    return {'direct': d2}
