"""C36  Configuration processing is idempotent.

Real code: parsec.fileparse.parse(source, output_fname=processed) writes the processed file; it is then parsed again
(from <run dir>/log/config/, as cylc does) and the two configurations are compared.  read_and_proc of both files is
compared line by line with the Lean model (Lines.lean); Jinja2 is an oracle recorded from the real jinja2process.
"""
from __future__ import annotations

import os
import re
import shutil
import tempfile

from core import Prop, Infra

SHEBANG = '#!jinja2'


def cfg_json(c):
    if isinstance(c, dict):
        return [[str(k), cfg_json(v)] for k, v in c.items()]
    if isinstance(c, (list, tuple)):
        return [cfg_json(x) for x in c]
    return c if isinstance(c, str) else repr(c)


class Doc:
    """Random flow-file builder: keeps the section nesting valid so that most documents parse."""

    def __init__(self, rng, jinja):
        self.rng, self.jinja = rng, jinja
        self.lines = []
        self.depth = 0
        self.files = {}
        self.n_inc = 0
        self.counter = 0

    def name(self):
        self.counter += 1
        base = self.rng.choice(['foo', 'bar', 'a b', 'scheduling', 'runtime', 'x-1', 'T_é', 'graph'])
        if self.jinja and self.rng.random() < 0.2:
            return base + '{{ N }}'
        return f'{base}{self.counter}'

    def word(self):
        rng = self.rng
        w = rng.choice(['a', 'b => c', 'foo', '1', 'x y', 'é☃', 'a:b', 'P1D', 'q#r', '%d', "it's", 'say "hi"', 'C:\\dir', 'a\\b'])
        if self.jinja and rng.random() < 0.25:
            w += rng.choice(['{{ V }}', '{{ N + 1 }}', "{{ 'lit' }}", '{{ V | upper }}'])
        return w

    def trail(self):
        """what may follow a value on its line"""
        return self.rng.choice(['', '', '', ' ', '  \t', ' # note', '  # c \\x', '\xa0', '　', '\x0c'])

    def value(self):
        rng = self.rng
        r = rng.random()
        if r < 0.30:
            return [self.word() + self.trail()]
        if r < 0.42:
            return [', '.join(self.word() for _ in range(rng.randint(2, 4))) + self.trail()]
        if r < 0.54:
            q = rng.choice(['"', "'"])
            w = self.word().replace(q, '')
            return [q + w + rng.choice(['', ' # not a comment']) + q + self.trail()]
        if r < 0.62:
            q = rng.choice(['"""', "'''"])
            return [q + self.word().replace('"', '').replace("'", '') + q + self.trail()]
        if r < 0.80:                       # multi-line string
            q = rng.choice(['"""', "'''"])
            body = []
            for _ in range(rng.randint(1, 4)):
                body.append(rng.choice([
                    '    ' + self.word().replace('"', '').replace("'", ''), '', '   ', '    # comment inside', '    a => b \\',
                    '      & c', '    x | y' + rng.choice([' ', '\t', '']), '    [brackets]', '    k = v',
                ]))
            first = q + rng.choice(['', self.word().replace('"', '').replace("'", '')])
            last = rng.choice(['    ', '']) + q + rng.choice(['', '', ' # end', '  '])
            return [first] + body + [last]
        # continuation lines
        n = rng.randint(1, 3)
        out = []
        for i in range(n):
            out.append(('' if i == 0 else '        ') + self.word() + rng.choice([', ', ' ', '']) + '\\')
        out.append('        ' + self.word() + self.trail())
        return out

    def setting(self):
        ind = '    ' * self.depth
        key = self.rng.choice(['key', 'title', 'script', 'R1', 'env VAR', 'a-b', 'x<i>', 'k.1'])
        self.counter += 1
        if key == 'x<i>':
            key = f'x{self.counter}<i>'
        elif self.rng.random() < 0.8:
            key += str(self.counter)
        v = self.value()
        eq = self.rng.choice([' = ', '=', ' =', '= '])
        self.lines.append(ind + key + eq + v[0])
        self.lines += v[1:]

    def section(self):
        d = self.rng.randint(1, min(self.depth + 1, 3))
        self.depth = d
        ind = '    ' * (d - 1)
        self.lines.append(ind + '[' * d + self.rng.choice(['', ' ']) + self.name() + self.rng.choice(['', ' ']) + ']' * d
                          + self.rng.choice(['', '', ' # sect', '  ']))

    def comment(self):
        rng = self.rng
        if rng.random() < 0.06:
            # trailing whitespace hides a backslash
            self.lines.append(rng.choice(['# trailing backslash-space \\ ', '    # path C:\\tmp\\  ', 'cmt = x # note \\\t']))
            return
        self.lines.append(rng.choice([
            '# plain', '    # indented comment', '#', '# with = sign', '#!not a shebang',
            '# ends with a backslash \\', '# %include nothing', '    #   ', '# é☃ \xa0',
        ]))

    def blank(self):
        self.lines.append(self.rng.choice(['', '', '   ', '\t', '\xa0']))

    def include(self, level=0):
        rng = self.rng
        self.n_inc += 1
        name = rng.choice(['inc%d.cylc', 'sub/inc%d.cylc', 'my inc%d.cylc']) % self.n_inc
        sub = Doc(rng, self.jinja)
        sub.depth = self.depth
        sub.counter = self.counter + 100 * self.n_inc
        sub.n_inc = self.n_inc * 10
        for _ in range(rng.randint(0, 4)):
            sub.step(allow_include=(level < 2), level=level + 1)
        self.depth = sub.depth
        self.files.update(sub.files)
        self.files[name] = sub.lines
        r = rng.random()
        if r < 0.015:
            name = 'missing.cylc'
        q = rng.choice(['', '', '"', "'"])
        q2 = q if rng.random() > 0.015 else rng.choice(['"', "'", ''])
        self.lines.append(rng.choice(['', '    ', '\t']) + '%include' + rng.choice([' ', '  ', '\t']) + q + name + q2
                          + rng.choice(['', '', '  ']))

    def jinja_block(self, level):
        rng = self.rng
        r = rng.random()
        if r < 0.35:
            self.lines.append(rng.choice(['{% for i in range(2) %}', '{%- for i in [1, 2] %}', '{% for i in range(N) -%}']))
            save = self.depth
            for _ in range(rng.randint(1, 3)):
                self.step(allow_include=False, level=level + 1, in_loop=True)
            self.depth = min(self.depth, save) if rng.random() < 0.5 else self.depth
            self.lines.append(rng.choice(['{% endfor %}', '{%- endfor -%}']))
        elif r < 0.6:
            self.lines.append(rng.choice(['{% if V == "val" %}', '{% if N > 5 %}', '{% if FLAG %}']))
            d0 = self.depth
            self.step(allow_include=False, level=level + 1)
            if rng.random() < 0.5:
                self.lines.append('{% else %}')
                self.depth = d0
                self.step(allow_include=False, level=level + 1)
            self.lines.append('{% endif %}')
        elif r < 0.8:
            self.lines.append(rng.choice(['{% set W = N * 2 %}', '{# a jinja2 comment #}', '{% set L = [1, 2, 3] %}',
                                          '{# multi', 'line #}'][0:3] + ['{# c #}']))
        else:
            self.lines.append(rng.choice(['    ' * self.depth + 'jk = {{ V }} \\', '{{ "# generated comment \\\\ " }}',
                                          '    ' * self.depth + 'gen = {{ "a \\\\" }}', '{{ "gc = b, \\\\" }}',
                                          '{{ "x" }}{{ "=" }}1', '{{ "%include gen.cylc" if FLAG else "# no" }}']))

    def step(self, allow_include=True, level=0, in_loop=False):
        rng = self.rng
        r = rng.random()
        if self.depth == 0 and r < 0.5:
            return self.section()
        if r < 0.15:
            return self.section()
        if r < 0.55:
            return self.setting()
        if r < 0.68:
            return self.comment()
        if r < 0.76:
            return self.blank()
        if r < 0.84:
            return self.include(level) if allow_include else self.setting()
        if r < 0.96:
            return self.jinja_block(level) if (self.jinja and level < 3) else self.setting()
        if r < 0.967:
            self.lines.append('    ' * self.depth + 'bad = v \\ ')            # whitespace after the continuation character
        elif r < 0.985:
            self.lines += ['    ' * self.depth + 'jb = a \\', '        b \\ ']   # ... on a continuation line
        else:
            self.setting()


def to_text(lines, rng):
    if not lines and rng.random() < 0.5:
        return ''
    nl = rng.choice(['\n'] * 8 + ['\r\n', '\r'])
    text = nl.join(lines)
    if rng.random() > 0.15:
        text += nl
    return text


class C36(Prop):
    id = 'C36'
    props_modules = ['CylcModel.Props.C36']
    theorems = [
        'CylcModel.C36.concat_idem',
        'CylcModel.C36.strip_idem',
        'CylcModel.C36.reproc_identity_partial',
        'CylcModel.C36.reproc_identity',
        'CylcModel.C36.config_same',
        'CylcModel.C36.reproc_identity_live',
        'CylcModel.C36.reproc_identity_counterexample',
    ]
    technique = ('Lean 4: fold invariants of the continuation state machine, list induction for split/dump and include-free inlining; '
                 'direct end-to-end correspondence (parse source vs parse processed file) with Jinja2 as a recorded oracle')
    trusted = [
        'Jinja2 is an opaque function (recorded from the real jinja2process on every case)',
        'the key/value grammar of parse() is an opaque function of the processed lines (the judge compares its two results)',
        'Python re for include_re, the shebang and _BAD_CONTINUATION_TRAILING_WHITESPACE re-implemented by hand; \\s = str.isspace regenerated '
        'into Generated/LinesCfg.lean; text-mode file reading (universal newlines) and str.rstrip as modelled by splitLines / rstrip',
    ]
    unmodelled = [
        'pre-configure plugins (none installed), template variables from an existing run database, cylc view options (viewcfg)',
        'include cycles (RecursionError) and include depth beyond 40',
    ]
    rule = ('random flow files built from a nesting-tracking grammar: section headers (1-3 levels), settings with plain / list / quoted / '
            'triple-quoted / multi-line values, trailing comments and whitespace (ASCII and non-ASCII), continuation lines (1-3, also inside '
            'multi-line strings and comments, at end of file, followed by whitespace), comments, blank lines, %include (nested to depth 3, '
            'quoting variants, missing file, mismatched quotes), Jinja2 (shebang, for / if / set / comments / whitespace control / generated '
            'continuation, comment and %include lines) with template variables; \\n, \\r\\n, \\r line ends, missing final newline, empty file; '
            'distinct = distinct file set, non-trivial = class (features present, outcome)')
    workers = 1

    def setup(self):
        import cylc.flow.parsec.fileparse as fp
        import cylc.flow.parsec.jinja2support as js
        self.fp = fp
        self.rec = []
        if not getattr(js.jinja2process, '_c36', False):
            orig = js.jinja2process
            prop = self

            def wrapper(fpath, flines, dir_, template_vars=None):
                given = list(flines)
                try:
                    out = orig(fpath, flines, dir_, template_vars)
                except BaseException:
                    prop.rec.append([given, None])
                    raise
                prop.rec.append([given, list(out)])
                return out
            wrapper._c36 = True
            js.jinja2process = wrapper
        self.cc = self.ke = None

    # ------------------------------------------------------------------ K-T
    def translate(self):
        fp = self.fp
        from cylc.flow.parsec.exceptions import FileParseError

        def raises(lines):
            try:
                fp._concatenate(list(lines))
                return False
            except FileParseError:
                return True
        if not raises(['a \\ ']):
            raise ValueError('_concatenate no longer rejects whitespace after a continuation character')
        if raises(['a \\', 'b']) or raises(['# c \\ ']) or raises(['a', 'b \\']):
            raise ValueError('_concatenate rejects plain input')
        joined, last = raises(['a \\', 'b \\ ']), raises(['a \\ \\'])
        if joined != last:
            raise ValueError(f'_concatenate checks joined lines: {joined}, stripped last lines: {last} - not a behaviour the model knows')
        self.cc = joined
        d = tempfile.mkdtemp(prefix='c36-t-')
        try:
            f = os.path.join(d, 'flow.cylc')
            with open(f, 'w') as fh:
                fh.write('# c \\ \nx = 1  \n')
            ls = fp.read_and_proc(f)
        finally:
            shutil.rmtree(d, ignore_errors=True)
        if ls == ['# c \\ ', 'x = 1']:
            self.ke = True
        elif ls == ['# c \\', 'x = 1']:
            self.ke = False
        else:
            raise ValueError(f'read_and_proc strips lines in an unknown way: {ls}')
        spaces = [cp for cp in range(0x110000) if chr(cp).isspace()]
        sset = set(spaces)
        rx = re.compile(r'\s')
        for cp in range(0x110000):
            if bool(rx.match(chr(cp))) != (cp in sset):
                raise ValueError(f're \\s and str.isspace differ at U+{cp:04X}')
        self.statement_note = self.note()
        b = lambda x: 'true' if x else 'false'  # noqa: E731
        return {'LinesCfg.lean': (
            '/- GENERATED by harness/props/c36.py translate() from the live interpreter / source. Do not edit. -/\n'
            'namespace CylcModel.Generated.LinesCfg\n'
            '/-- code points with `str.isspace()` (= `\\s` of `re`, checked for every code point) -/\n'
            f'def pySpace : List Nat := {spaces}\n'
            '/-- does `_concatenate` check every completed logical line (joined lines, a stripped last line)? -/\n'
            f'def checkCompleted : Bool := {b(self.cc)}\n'
            '/-- does the final strip of `read_and_proc` keep trailing whitespace that hides a backslash? -/\n'
            f'def keepExposed : Bool := {b(self.ke)}\n'
            'end CylcModel.Generated.LinesCfg\n')}

    def note(self):
        base = ('partial proof (Jinja2 and the key/value grammar are opaque functions; hypothesis NoDirective: the processed lines contain no '
                '%include line and no leading #!jinja2, checked per case by classify). reproc_identity (full for the repaired behaviour, all '
                'sources / include maps / Jinja2 functions, unbounded): read_and_proc(dump(ps)) = ps, hence the same configuration for every '
                'grammar (config_same); concat_idem, strip_idem; reproc_identity_partial: the same for ANY behaviour when the processed lines '
                'are clean (no trailing backslash, no backslash+blank outside a comment). ')
        if self.cc and self.ke:
            return base + 'The live code has both repairs: reproc_identity_live applies.'
        return base + (f'Live code: checkCompleted={self.cc}, keepExposed={self.ke}: the full statement is false for it '
                       '(reproc_identity_counterexample, known finding backslash-exposed, fix in findings/C36-fix-1.diff); '
                       'proved for the live code: reproc_identity_partial.')

    # ------------------------------------------------------------------ cases
    TVARS = {'V': 'val', 'N': 3, 'FLAG': True}

    def mk(self, files, main='flow.cylc'):
        return {'files': sorted([n, t] for n, t in files.items()), 'main': main}

    def corpus(self):
        mk = self.mk
        return [
            mk({'flow.cylc': '[scheduling]\n    # a path like C:\\ \n    cycling mode = integer\n'}),
            mk({'flow.cylc': '[a]\n  x = 1 \\\n  2 \\  \n  y = 3\n'}),
            mk({'flow.cylc': '#!jinja2\n{% for i in range(2) %}\n[a{{i}}]\n  x = {{ V }} \\\n   z\n{% endfor %}\n%include inc.cylc\n',
                'inc.cylc': "[b]\n  q = '''\n  multi # not\n  line'''\n"}),
            mk({'flow.cylc': ''}),
            mk({'flow.cylc': '[a]\r\n  k = v  \r\n  l = w \\\r\n     x'}),
            mk({'flow.cylc': '[a]\n  k = v \\\\'}),
            mk({'flow.cylc': '#!Jinja2\n{{ "#!jinja2" }}\n[a]\n x = {{ "{{ V }}" }}\n'}),
            mk({'flow.cylc': '[a]\n%include "x.cylc\'\n', 'x.cylc': 'k = 1\n'}),
            # continuation lines that only exist after Jinja2 has run
            mk({'flow.cylc': '#!jinja2\n[a]\n    gen = {{ "a \\\\" }}\n    b\n{% for i in range(2) %}\n    k{{ i }} = {{ "x, \\\\" }}\n        y\n{% endfor %}\n'}),
            mk({'flow.cylc': '[a]\n  %include  \'sub/x y.cylc\'  \n  z = 2\n', 'sub/x y.cylc': 'k = 1 # c\n%include sub/z.cylc\n', 'sub/z.cylc': '[[b]]\n'}),
        ]

    def random_case(self, rng):
        jinja = rng.random() < 0.4
        doc = Doc(rng, jinja)
        for _ in range(rng.choice([0, 1, 3, 5, 8, 12, 18])):
            doc.step()
        lines = list(doc.lines)
        if jinja:
            lines.insert(0, rng.choice([SHEBANG, SHEBANG, '#!Jinja2', SHEBANG + ' ']))
        if rng.random() < 0.08 and lines:
            lines[-1] = lines[-1].rstrip() + ' \\' * rng.randint(1, 2)
        files = {'flow.cylc': to_text(lines, rng)}
        for n, ls in doc.files.items():
            files[n] = to_text(ls, rng)
        return self.mk(files)

    def gen(self, tier, rng):
        n = {'quick': 800, 'thorough': 12000, 'search': 8000}[tier]
        for _ in range(n):
            yield self.random_case(rng)

    # ------------------------------------------------------------------ implementation
    def impl(self, inp):
        fp = self.fp
        base = '/dev/shm' if os.path.isdir('/dev/shm') else None
        d = tempfile.mkdtemp(prefix='c36-', dir=base)
        self.rec.clear()
        cwd = os.getcwd()
        try:
            for n, t in inp['files']:
                p = os.path.join(d, n)
                os.makedirs(os.path.dirname(p), exist_ok=True)
                with open(p, 'w', newline='', encoding='utf-8') as fh:
                    fh.write(t)
            os.makedirs(os.path.join(d, 'log', 'config'))
            src = os.path.join(d, inp['main'])
            proc = os.path.join(d, 'log', 'config', 'flow-processed.cylc')
            obs = {'l1': 'err', 'dump': None, 'l2': 'skip', 'cfg': 'skip'}
            try:
                obs['l1'] = list(fp.read_and_proc(src, dict(self.TVARS)))
            except Exception:
                os.chdir(cwd)
            if obs['l1'] != 'err':
                try:
                    c1 = cfg_json(fp.parse(src, proc, dict(self.TVARS)))
                except Exception:
                    os.chdir(cwd)
                    c1 = None
                if not os.path.exists(proc):
                    raise Infra('no processed file although read_and_proc succeeded')
                with open(proc, newline='', encoding='utf-8') as fh:
                    obs['dump'] = fh.read()
                try:
                    obs['l2'] = list(fp.read_and_proc(proc, dict(self.TVARS)))
                except Exception:
                    os.chdir(cwd)
                    obs['l2'] = 'err'
                try:
                    c2 = cfg_json(fp.parse(proc, None, dict(self.TVARS)))
                except Exception:
                    os.chdir(cwd)
                    c2 = None
                obs['cfg'] = 'src-error' if c1 is None else ('same' if c1 == c2 else 'diff')
            jinja = []
            for e in self.rec:
                if e not in jinja:
                    jinja.append(e)
            return {'obs': obs, 'jinja': jinja}
        finally:
            os.chdir(cwd)
            shutil.rmtree(d, ignore_errors=True)

    def driver_input(self, inp, raw):
        return {'files': inp['files'], 'main': inp['main'], 'jinja': raw['jinja']}

    def driver_obs(self, inp, raw):
        return raw['obs']

    def equal(self, m, o):
        if not isinstance(m, dict) or 'cfg' not in m:
            return False
        if (m.get('l1'), m.get('dump'), m.get('l2')) != (o.get('l1'), o.get('dump'), o.get('l2')):
            return False
        if m['cfg'] == 'lines-equal':
            return o['cfg'] in ('same', 'src-error')
        return True

    INC = re.compile(r'\s*%include\s+')

    def classify(self, inp, obs):
        tags = set()
        main = dict((n, t) for n, t in inp['files'])[inp['main']]
        alltext = ''.join(t for _n, t in inp['files'])
        if re.match(r'#![jJ]inja2', main):
            tags.add('jinja')
        if len(inp['files']) > 1:
            tags.add('include')
        if re.search(r'\\(\r\n|\n|\r|$)', alltext):
            tags.add('contin')
        if '"""' in alltext or "'''" in alltext:
            tags.add('triple')
        if '\r' in alltext:
            tags.add('cr')
        if not main:
            tags.add('empty')
        l1 = obs['l1']
        if isinstance(l1, list):
            if any(s.rstrip().endswith('\\') for s in l1):
                tags.add('exposed-backslash')
            if any(self.INC.match(s) for s in l1) or (l1 and re.match(r'#![jJ]inja2', l1[0])):
                tags.add('directive-in-output')
        out = obs['cfg'] if obs['l2'] != 'err' else 'pass2-err/' + obs['cfg']
        return '+'.join(sorted(tags) or ['plain']) + ':' + ('pass1-err' if l1 == 'err' else out)

    def neighbours(self, inp, rng):
        out = []
        files = dict((n, t) for n, t in inp['files'])
        for n, t in files.items():
            ls = t.split('\n')
            for i in range(len(ls)):
                f2 = dict(files)
                f2[n] = '\n'.join(ls[:i] + ls[i + 1:])
                out.append(self.mk(f2, inp['main']))
        return out[:150]


PROP = C36()
