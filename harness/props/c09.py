"""C09  Task status transitions follow the lifecycle; outputs are monotone.

Cases = (1) the component enumeration: one-task-per-cycle workflows in the real scheduler with explicit
op lists that bring every cycle's instance of task `a` into one of the reachable message states
(status x outputs x try state) and then deliver one probe per instance covering
flag {internal, received, polled} x submit number {same, older, newer} x message kind; and
(2) generated workflows driven by the seeded adaptive schedule with duplicate / stale / out-of-order
messages and poll results (answered when the scheduler requests them, and routine polls).
"""
from __future__ import annotations

import sys
from pathlib import Path

sys.path.insert(0, str(Path(__file__).resolve().parents[1] / 'sched'))
from prop import SchedProp  # noqa: E402
from core import Infra  # noqa: E402
import gen as sgen  # noqa: E402

L = {'op': 'loop'}

# job messages: a failure is reported bare (poll result), with the run signal of the job script's trap
# (failed/ERR, failed/SIGTERM ...) or as an abort (aborted/<reason>)
RECEIVED_TEXTS = ['submitted', 'started', 'succeeded', 'failed', 'failed/ERR', 'aborted/by the job script',
                  'submission failed', 'xx', 'hello']
# poll results are job states fed through the real jobs-poll callbacks ('killed' = died without its error trap)
POLLED_TEXTS = ['submitted', 'started', 'succeeded', 'failed', 'failed/SIGKILL', 'killed', 'submission failed', 'xx',
                'vacated/SIGUSR1']


def comp_flow(n: int, retries: str) -> str:
    """One cycle, n independent instances a01..aNN of the same task family (all pooled from the start)."""
    body = ''
    if retries == 'E':
        body = '        execution retry delays = PT0S\n'
    elif retries == 'S':
        body = '        submission retry delays = PT0S\n'
    graph = '\n'.join(f'            a{i:02d}:x => b{i:02d}' for i in range(1, n + 1))
    names = ', '.join(f'a{i:02d}' for i in range(1, n + 1))
    return f'''[scheduler]
    allow implicit tasks = True
[scheduling]
    cycling mode = integer
    initial cycle point = 1
    final cycle point = 1
    runahead limit = P1
    [[graph]]
        R1 = """
{graph}
        """
[runtime]
    [[root]]
        [[[simulation]]]
            default run length = PT0S
    [[{names}]]
{body}        [[[outputs]]]
            x = xx
'''


def _tid(i):
    return f'1/a{i:02d}'


def _sub(i, ok, sn):
    return {'op': 'subres', 'task': _tid(i), 'ok': ok, 'sn': sn}


def _msg(i, text, sn):
    return {'op': 'msg', 'task': _tid(i), 'msg': text, 'sn': sn,
            'sev': 'CRITICAL' if text in ('failed', 'submission failed') else 'INFO'}


def _poll(i, text, sn):
    # the result of a jobs-poll command for job sn (through the real poll callbacks)
    return {'op': 'pollres', 'task': _tid(i), 'state': text, 'sn': sn}


# prefix name -> (retry variant, function(points) -> ops, submit number reached)
def _each(pts, f):
    return [f(i) for i in pts]


def prefix_ops(name, pts):
    """Ops that bring every instance `i/a` (i in pts) into the named state; returns (ops, submit number)."""
    sub1 = _each(pts, lambda i: _sub(i, True, 1))
    started1 = _each(pts, lambda i: _msg(i, 'started', 1))
    run1 = [L] + sub1 + started1 + [L]
    if name == 'W0':
        return [], 0
    if name == 'P':
        return [L], 1
    if name == 'S':
        return [L] + sub1, 1
    if name == 'R':
        return run1, 1
    if name == 'Rx':
        return run1 + _each(pts, lambda i: _msg(i, 'xx', 1)) + [L], 1
    if name == 'SUCC':
        return run1 + _each(pts, lambda i: _msg(i, 'succeeded', 1)) + [L], 1
    if name == 'Rfq':            # running, the job's "failed" already queued: with retries=E the probes that are
        # received messages are processed in the same batch AFTER it, i.e. while the task waits for its retry
        return run1 + _each(pts, lambda i: _msg(i, 'failed', 1)), 1
    if name in ('F', 'Wr'):      # with retries=E the same ops end in waiting (retry lined up)
        return run1 + _each(pts, lambda i: _msg(i, 'failed', 1)) + [L], 1
    if name in ('SF', 'Wsr'):    # with retries=S the same ops end in waiting (submit retry lined up)
        return [L] + _each(pts, lambda i: _sub(i, False, 1)), 1
    if name == 'ES':             # started before the submit result
        return [L] + started1 + [L], 1
    wr = run1 + _each(pts, lambda i: _msg(i, 'failed', 1)) + [L]
    if name == 'P2':
        return wr + [L], 2
    sub2 = _each(pts, lambda i: _sub(i, True, 2))
    if name == 'S2':
        return wr + [L] + sub2, 2
    if name == 'ES2':            # second try, started before the submit result (submitted already complete)
        return wr + [L] + _each(pts, lambda i: _msg(i, 'started', 2)) + [L], 2
    run2 = wr + [L] + sub2 + _each(pts, lambda i: _msg(i, 'started', 2)) + [L]
    if name == 'R2':
        return run2, 2
    if name == 'F2':
        return run2 + _each(pts, lambda i: _msg(i, 'failed', 2)) + [L], 2
    wsr = [L] + _each(pts, lambda i: _sub(i, False, 1))
    if name == 'P2s':
        return wsr + [L], 2
    if name == 'SF2':
        return wsr + [L] + _each(pts, lambda i: _sub(i, False, 2)), 2
    if name == 'R2s':
        return wsr + [L] + sub2 + _each(pts, lambda i: _msg(i, 'started', 2)) + [L], 2
    raise ValueError(name)


PREFIXES = [
    ('W0', ''), ('P', ''), ('S', ''), ('R', ''), ('Rx', ''), ('SUCC', ''), ('F', ''), ('SF', ''), ('ES', ''),
    ('Wr', 'E'), ('Rfq', 'E'), ('P2', 'E'), ('S2', 'E'), ('ES2', 'E'), ('R2', 'E'), ('F2', 'E'),
    ('Wsr', 'S'), ('P2s', 'S'), ('SF2', 'S'), ('R2s', 'S'),
]


def probes(sn):
    """One probe per instance: (kind, text, submit number).  The first N_CORE probes (every message kind and
    flag with the current submit number) are run in every tier; the variants (older / newer submit number,
    poll results of the previous job) are sampled in the quick tier."""
    if sn == 0:
        # never submitted: no job exists, so the only deliverable events are messages of another submit number
        return [('msg', text, 1) for text in RECEIVED_TEXTS]
    out = [('subres', True, sn), ('subres', False, sn)]
    out += [('msg', text, sn) for text in RECEIVED_TEXTS]
    out += [('poll', text, sn) for text in POLLED_TEXTS]
    assert len(out) == N_CORE
    for text in RECEIVED_TEXTS:
        for s in [sn + 1] + ([sn - 1] if sn >= 1 else []):
            out.append(('msg', text, s))
    if sn >= 2:
        # the poll result of the previous job arriving late (dropped by the dispatch of jobs-poll output)
        for text in ('started', 'succeeded', 'failed'):
            out.append(('poll', text, sn - 1))
    return out


N_CORE = 2 + len(RECEIVED_TEXTS) + len(POLLED_TEXTS)


def probe_op(i, pr):
    kind, payload, sn = pr
    if kind == 'subres':
        return _sub(i, payload, sn)
    if kind == 'msg':
        return _msg(i, payload, sn)
    return _poll(i, payload, sn)


CHUNK = 10     # N_CORE = 20: the first two chunks


def comp_case(prefix, retries, chunk, second=None):
    """Probes chunk*CHUNK .. of the probe list against one prefix state, one task instance each; `second`
    (an int) adds a second probe per instance (the whole probe list rotated by `second`) to cover pairs
    of deliveries."""
    _ops0, sn = prefix_ops(prefix, [1])
    allp = probes(sn)
    prs = allp[chunk * CHUNK:(chunk + 1) * CHUNK]
    pts = list(range(1, len(prs) + 1))
    ops, sn = prefix_ops(prefix, pts)
    ops = list(ops) + [probe_op(i, pr) for i, pr in zip(pts, prs)] + [L]
    if second is not None:
        rot = (allp[second % len(allp):] + allp[:second % len(allp)])[chunk * CHUNK:(chunk + 1) * CHUNK]
        # a received "submitted" for an instance that the first probe removed from the pool crashes the scheduler
        # (findings/C10.json: orphan-submitted-crash): not a job event, not generated as a second probe
        rot = [('msg', 'hello', pr[2]) if pr[0] == 'msg' and pr[1] == 'submitted' else pr for pr in rot]
        if prefix in ('Wr', 'Wsr'):
            # the main loop after the first probe re-prepares the waiting instance under the next submit number:
            # a submit result is delivered for that job (the result of the old one would be dropped by the real
            # dispatch of jobs-submit output, which the subres op bypasses)
            rot = [('subres', pr[1], sn + 1) if pr[0] == 'subres' else pr for pr in rot]
        ops += [probe_op(i, pr) for i, pr in zip(pts, rot)] + [L]
    ops += [L]
    cid = f'comp-{prefix}-{retries or "N"}-c{chunk}' + (f'-{second}' if second is not None else '')
    return {'id': cid, 'flow': comp_flow(len(pts), retries), 'seed': 0, 'opts': {}, 'policy': {},
            'ops': ops, 'kind': 'comp'}


def n_chunks(prefix):
    _ops0, sn = prefix_ops(prefix, [1])
    return (len(probes(sn)) + CHUNK - 1) // CHUNK


def comp_cases(tier, rng):
    cases = [comp_case(p, r, c) for p, r in PREFIXES for c in range(n_chunks(p))]
    if tier == 'quick':
        # every state with every message kind / flag of the current submit number in every run (the core chunks),
        # plus one seeded chunk of the variants per state (thorough runs them all)
        core = -(-N_CORE // CHUNK)
        pick = {p: (core + rng.randrange(max(1, n_chunks(p) - core))) for p, _r in PREFIXES}
        cases = [c for c in cases
                 if n_chunks(c['id'].split('-')[1]) == 1 or int(c['id'].split('-c')[-1]) < core or
                 int(c['id'].split('-c')[-1]) == pick[c['id'].split('-')[1]]]
    if tier != 'quick':
        for p, r in PREFIXES:
            for k in (1, 5, 11, 17, 23):
                cases += [comp_case(p, r, c, second=k) for c in range(n_chunks(p))]
    return cases


GEN_OPTS = {'polls': True, 'noise': 0.35, 'p_poll_late': 0.0, 'fail_signals': True, 'silent_kill': True, 'p_lose': 0.12, 'p_vacate': 0.1}


class MsgProp(SchedProp):
    """Shared by C09 and C10 (same cases, different judges)."""
    kinds = ('any', 'any', 'complete')
    n_quick = 20
    n_thorough = 420
    gen_opts = GEN_OPTS
    exhaustive = False
    unmodelled = SchedProp.unmodelled + [
        'clock-expiry (status expired) and forced (cylc set) messages: not generated; run-signal suffixes on messages '
        'other than failed / aborted / vacated (e.g. succeeded/x, started/x: the output is completed without the status '
        'change) and RECEIVED vacation messages (the frozen Sched queue path takes message texts literally; vacation is '
        'modelled for messages found by a poll): not generated; execution/submission polling timers: a poll result is an '
        'explicit op (truthful about the job, possibly delivered late)',
    ]
    trusted = [
        'the runner instrumentation: wrappers around TaskProxy.state_reset and TaskEventsManager.process_message '
        'that log every status change / processed message (observation keys trans, msgs)',
    ]

    def corpus(self):
        return []

    def impl_batch(self, inputs):
        # on a heavily loaded machine the scheduler's start-up can time out (threading.BrokenBarrierError of the
        # server thread, asyncio timeouts): such load-stage failures say nothing about the workflow - run them again
        raw = super().impl_batch(inputs)
        for _attempt in range(3):
            again = [k for k, r in enumerate(raw) if r.get('stage') == 'load' and (
                inputs[k].get('kind') in ('comp', 'witness') or
                any(t in r.get('error', '') for t in ('BrokenBarrierError', 'TimeoutError', 'CancelledError')))]
            if not again:
                break
            redo = super().impl_batch([inputs[k] for k in again])
            for k, r in zip(again, redo):
                raw[k] = r
        return raw

    def skip_case(self, inp, raw):
        # generated flow.cylc files that cylc rejects at load time are skipped (SchedProp); the fixed workflows of
        # the component enumeration and of the findings always load, and a machine too loaded to start
        # schedulers must not silently shrink the check: infrastructure failure, never a verdict
        skipped = super().skip_case(inp, raw)
        self.seen_total = getattr(self, 'seen_total', 0) + 1
        if skipped:
            self.seen_rejected = getattr(self, 'seen_rejected', 0) + 1
            if inp.get('kind') in ('comp', 'witness'):
                raise Infra(f'the fixed workflow of case {inp.get("id")} did not load: '
                            f'{raw.get("error", "").strip().splitlines()[-1][:200]}')
            # about 1 in 25 generated workflows is rejected by cylc (e.g. an offset trigger on a one-off task)
            if self.seen_rejected >= 8 and self.seen_rejected > 0.2 * self.seen_total:
                raise Infra(f'{self.seen_rejected} of {self.seen_total} workflows did not load')
        return skipped

    def gen(self, tier, rng):
        yield from comp_cases(tier, rng)
        n = self.n_quick if tier == 'quick' else self.n_thorough
        base = rng.randrange(1 << 30)
        for k in range(n):
            kind = self.kinds[k % len(self.kinds)]
            opts = dict(self.gen_opts)
            if k % 4 == 3:
                opts['p_poll_late'] = 1.0       # poll results may be overtaken by job messages
            yield sgen.gen_case(base + k, kind, opts)

    def classify(self, inp, obs):
        if isinstance(obs, dict):
            return 'crash'
        if inp.get('kind') == 'comp':
            return '/'.join(str(inp['id']).split('-')[:3])
        tags = [inp.get('kind', '?')]
        recs = [r for o in obs for r in o.get('msgs', []) if r['d'] == 0]
        if any(r['fl'] == 'polled' for r in recs):
            tags.append('polled')
        if any(r['fl'] == 'received' and r['sn'] != r['b'][1] for r in recs):
            tags.append('stale')
        if any(r['r'] for r in recs):
            tags.append('backward')
        if any(t[3] == 'waiting' for o in obs for t in o.get('trans', [])):
            tags.append('retry')
        n = len(recs)
        tags.append('msgs<10' if n < 10 else 'msgs<40' if n < 40 else 'msgs>=40')
        return '/'.join(tags)


class C09(MsgProp):
    id = 'C09'
    props_modules = ['CylcModel.Props.C09']
    theorems = [
        'CylcModel.C09.outputs_monotone',
        'CylcModel.C09.outputs_monotone_deliver',
        'CylcModel.C09.implied_outputs',
        'CylcModel.C09.implied_outputs_deliver',
        'CylcModel.C09.lifecycle_partial',
        'CylcModel.C09.lifecycle_trace',
        'CylcModel.C09.lifecycle_counterexample',
        'CylcModel.C09.lifecycle_counterexample_received',
        'CylcModel.C09.processMessage_is_step',
        'CylcModel.C09.sched_message',
        'CylcModel.C09.runX_base',
        'CylcModel.C09.outputs_monotone_run',
        'CylcModel.C09.outputs_monotone_pooled',
        'CylcModel.C09.implied_outputs_run',
        'CylcModel.C09.lifecycle_run',
        'CylcModel.C09.vacation_step',
        'CylcModel.C09.retry_pending_ignored',
        'CylcModel.C09.retry_pending_ignored_sched',
    ]
    statement_note = (
        'partial proof. Component (Msg.step = TaskEventsManager.process_message on one task proxy: output completion, '
        'implied outputs first, backward checks, retries, removal when finished and complete), for every task '
        'definition, proxy, flag, submit number, message text: outputs are never un-completed, identity and submit '
        'number are fixed (outputs_monotone, also over any delivery sequence); status/outputs consistency incl. '
        '"succeeded or failed complete => submitted and started complete" is preserved by every message and every '
        'delivery sequence (implied_outputs, for tasks with the standard outputs); lifecycle: the full statement is '
        'FALSE on cylc-flow (lifecycle_full, lifecycle_counterexample: a late poll result started takes succeeded -> '
        'running; lifecycle_counterexample_received: started after submit-failed is accepted); proved is '
        'lifecycle_partial / lifecycle_trace: outside the explicit decidable set Msg.Deviant (polled or internal '
        'message behind the status; job message after submit-failed/expired; succeeded after failed; a repeated '
        'failure event of a finished task with a retry left - unreachable) a job event for a waiting task that is not sitting out a retry - no job exists) every message, and every consecutive pair '
        'of a delivery trace, moves the status forward along the lifecycle (stages may be skipped forward) or back to '
        'waiting from preparing/submitted/running on a failure event with a retry left, advancing that retry counter '
        'by one; retry_pending_ignored(_sched): a task waiting for its automatic retry (submit number of the failed job, a retry '
        'consumed) drops every message of any flag - Msg.step and the whole Sched state unchanged. Scheduler lift: processMessage_is_step - for every instance graph without self-children (decidable '
        'noSelfChild, checked by the driver on every extracted graph), every state and message, Sched.processMessage '
        'changes the addressed proxy (or transient object) exactly as Msg.step and requests the same poll, whatever '
        'spawning, suicide triggers, completion removal, parentless spawning and DB history do around it (given no '
        'older transient object shadows the proxy); sched_message - the same for the pooled proxy from ANY consistent '
        'state, with no assumption on transient objects (pool-only simulation pm_simP), transporting outputs-monotone / '
        'consistency / lifecycle to every Sched.processMessage call. Run level, for every instance graph (the last two '
        'for graphs without self-children whose tasks have submitted/started outputs - decidable, checked by the '
        'driver on every extracted graph), every op list of main loops, submit results, job messages and poll results, '
        'and every reached state: outputs_monotone_run - one more op keeps every output on record for every task '
        'instance (pooled proxy, else its latest DB record, from which a respawn starts); implied_outputs_run - every '
        'pooled proxy is consistent, in particular succeeded or failed complete => submitted and started complete '
        '(inductive invariants proved primitive by primitive: spawning, suicide and completion removal, DB-history '
        'revival, queue release, message batches); lifecycle_run - the ops that deliver one message (submit result, '
        'poll result of the current job) move the addressed proxy along the lifecycle unless Msg.Deviant. NOT proved: '
        'the lifecycle of a whole main-loop op as one relation between consecutive states (each message of a batch obeys '
        'sched_message from a state satisfying the invariant, and job preparation waiting -> preparing is '
        'releaseAndSubmit on queued proxies; that queued proxies are waiting is not proved as an invariant); expiry is '
        'not modelled. The frozen Sched model has no poll-result op: Msg.XOp / stepX / runX add it (dispatch by current '
        'submit number, then processMessage with the polled flag; runX_base: conservative); forced (cylc set) messages '
        'and commands are not modelled. Run signals: Msg.canon models split_run_signal (failed/<SIGNAL> and '
        'aborted/<reason> are the message failed; checked by decide on examples); job vacation (vacated/<SIGNAL> found by '
        'a poll) is Msg.vacateProxy in stepX: vacation_step - outputs, identity and submit number untouched, status '
        'unchanged or back to submitted (the designed step back, finding job-vacated), consistency kept when the job had '
        'been submitted; implied_outputs_run and lifecycle_run are stated for op lists without vacation messages '
        '(outputs_monotone_run covers them too)')
    technique = ('case analysis over the message step function, simulation of Sched.processMessage by it, inductive '
                 'invariants over delivery lists + enumerated and generated trace correspondence with the real Scheduler')
    rule = ('component enumeration: 20 reachable message states (status x outputs x try state, incl. second tries and '
            'started-before-submitted, and waiting for the automatic retry with the failed job\'s duplicates / late messages / '
            'poll results arriving: polled and internal ones at once, received ones in the same message batch) x up to 39 probes (internal submit results, received messages of the same / older / '
            'newer submit number for 9 message kinds incl. failures with a run signal (failed/ERR, aborted/...), polled '
            'results incl. signal kills, a job vacation and those of the previous job; the 20 current-job probes run in every tier), one probe per task '
            'instance of a one-cycle workflow in the real scheduler (thorough: pairs of probes); plus generated workflows '
            'under the seeded adaptive schedule with duplicate/stale/out-of-order/lost messages, failures reported with run '
            'signals, job vacations, answered and routine polls '
            '(a quarter with late poll results); non-trivial = distinct (state, retry variant, chunk) or (kind, polled, '
            'stale, backward, retry, size) class per distinct case')


PROP = C09()
