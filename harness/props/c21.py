"""C21  Database writes are atomic and the public database converges.

Real `WorkflowDatabaseManager` + two `CylcWorkflowDAO`s on two sqlite files in a scratch
directory.  A case is a list of rounds; a round queues operations through the manager's
`db_*_map`s, runs `process_queued_ops()` and `recover_pub_from_pri()` with a fault injected into
the private and/or the public write (error or process death at statement k after j rows, or a
second connection holding the write lock of the public file).  Observed: what happened and the
full content of both files after every step.
"""
from __future__ import annotations

import json
import logging
import os
import random
import shutil
import sqlite3
import tempfile

from core import Prop

SPECIAL = 'CYLC_TEMPLATE_VARS'


class Ctl:
    """Fault + event record of one DAO for one step."""

    def __init__(self, tag):
        self.tag = tag          # 'p' | 'u'
        self.fault = None       # None | ('fail'|'crash', k, j)
        self.calls = 0
        self.commits = 0
        self.errors = 0
        self.pipe = None        # in a forked child: events go to the parent
        self.events = set()

    def reset(self, fault=None):
        self.fault = fault
        self.calls = self.commits = self.errors = 0
        self.events = set()

    def event(self, what):
        self.events.add(self.tag + what)
        if self.pipe is not None:
            os.write(self.pipe, (self.tag + what).encode())

    def fire(self):
        if self.fault[0] == 'crash':
            self.event('x')
            if self.pipe is not None:
                os._exit(0)         # forked child: the process dies here
            raise Killed()          # in-process: unwinds like KeyboardInterrupt / SystemExit
        raise sqlite3.OperationalError('injected fault')


class Killed(BaseException):
    """The scheduler is interrupted at a statement (not an Exception: nothing in cylc catches it)."""


class ConnProxy:
    """Wraps the DAO's sqlite3 connection: counts executemany calls, injects the fault."""

    def __init__(self, real, ctl):
        self.__dict__['real'] = real
        self.__dict__['ctl'] = ctl

    def executemany(self, stmt, args):
        ctl = self.ctl
        k = ctl.calls
        ctl.calls += 1
        args = list(args)
        try:
            f = ctl.fault
            if f is not None and f[1] == k:
                self.real.executemany(stmt, args[:f[2]])
                ctl.fire()
            return self.real.executemany(stmt, args)
        except sqlite3.Error:
            ctl.errors += 1
            ctl.event('e')
            raise

    def commit(self):
        ctl = self.ctl
        f = ctl.fault
        try:
            if f is not None and f[1] == ctl.calls:
                ctl.fire()
            self.real.commit()
        except sqlite3.Error:
            ctl.errors += 1
            ctl.event('e')
            raise
        ctl.commits += 1
        ctl.event('c')

    def __getattr__(self, name):
        return getattr(self.real, name)


def install(dao, ctl):
    orig = dao.connect

    def connect():
        c = orig()
        if not isinstance(c, ConnProxy):
            c = ConnProxy(c, ctl)
            dao.conn = c
        return c
    dao.connect = connect


def canon_val(v):
    if isinstance(v, float) and v == int(v):
        return int(v)
    if isinstance(v, bytes):
        return v.decode('utf8', 'replace')
    return v


def row_key(r):
    return json.dumps(r, sort_keys=True)


class World:
    """One manager on two files."""

    def __init__(self, P, base, max_tries):
        self.P = P
        self.dir = tempfile.mkdtemp(prefix='c21-', dir=base)
        os.mkdir(os.path.join(self.dir, 'pri'))
        os.mkdir(os.path.join(self.dir, 'pub'))
        self.max_tries = max_tries
        self.mgr = None
        self.start(False)

    def start(self, is_restart):
        M = self.P.M
        self.mgr = m = M(os.path.join(self.dir, 'pri'), os.path.join(self.dir, 'pub'))
        m.on_workflow_start(is_restart)
        m.pub_dao.CONN_TIMEOUT = 0.001
        if self.max_tries is not None:
            m.pub_dao.MAX_TRIES = self.max_tries
        self.pc, self.uc = Ctl('p'), Ctl('u')
        install(m.pri_dao, self.pc)
        install(m.pub_dao, self.uc)
        self.copies = 0
        orig_copy = m.copy_pri_to_pub

        def copy():
            self.copies += 1
            return orig_copy()
        m.copy_pri_to_pub = copy

    def queue(self, ops):
        m = self.mgr
        for op in ops:
            k, t = op['k'], op['t']
            if k == 'del':
                m.db_deletes_map.setdefault(t, []).append(dict(op.get('w') or {}))
            elif k == 'ins':
                m.db_inserts_map.setdefault(t, []).append(list(op['r']))
            elif k == 'insd':
                m.db_inserts_map.setdefault(t, []).append(dict(op['r']))
            elif k == 'upd':
                m.db_updates_map[t].append((dict(op['s']), dict(op.get('w') or {})))
            else:
                raise ValueError(k)

    def content(self, which):
        path = self.mgr.pri_path if which == 'pri' else self.mgr.pub_path
        conn = sqlite3.connect(path, timeout=1.0)
        out = {}
        try:
            for name in self.P.table_names:
                rows = [[canon_val(v) for v in r] for r in conn.execute(f'SELECT * FROM {name}')]  # nosec
                if rows:
                    out[name] = sorted(rows, key=row_key)
        finally:
            conn.close()
        return out

    def close(self):
        try:
            self.mgr.on_workflow_shutdown()
        finally:
            shutil.rmtree(self.dir, ignore_errors=True)

    # -- one step ---------------------------------------------------------
    def step(self, ops, pf, uf):
        crash = (pf and pf[0] == 'crash') or (uf and uf[0] == 'crash')
        if crash:
            return self.step_crash(ops, pf, uf)
        m = self.mgr
        self.pc.reset(tuple(pf) if pf and pf[0] == 'fail' else None)
        self.uc.reset(tuple(uf) if uf and uf[0] == 'fail' else None)
        lock = None
        if uf and uf[0] == 'lock':
            lock = sqlite3.connect(m.pub_path, timeout=1.0)
            lock.execute('BEGIN IMMEDIATE')
        tries0 = m.pub_dao.n_tries
        raised = False
        try:
            self.queue(ops)
            try:
                m.process_queued_ops()
            except sqlite3.Error:
                raised = True
            tries1 = m.pub_dao.n_tries
            copies0 = self.copies
            m.recover_pub_from_pri()
            rec = self.copies > copies0
        finally:
            if lock is not None:
                lock.rollback()
                lock.close()
        pr = 'fail' if raised else ('ok' if self.pc.commits else 'noop')
        if self.uc.errors or tries1 > tries0:
            ur = 'fail'
        elif self.uc.commits:
            ur = 'ok'
        elif raised:
            ur = 'skip'
        else:
            ur = 'noop'
        return {'pr': pr, 'ur': ur, 'hit': [self.pc.errors > 0, self.uc.errors > 0],
                'tries': m.pub_dao.n_tries, 'rec': rec}

    def step_crash(self, ops, pf, uf):
        """The scheduler dies at the given statement; then it is restarted.

        fault[3] == 'fork': a forked copy of this process runs the step and dies by os._exit() at the
        statement (a real process death: open transaction, hot journal); otherwise the step is run
        in-process and a BaseException unwinds from the statement (as KeyboardInterrupt would).
        """
        m = self.mgr
        pri_crash = bool(pf and pf[0] == 'crash')
        fork = bool((pf and pf[3:] == ['fork']) or (uf and uf[3:] == ['fork']))
        self.pc.reset(tuple(pf[:3]) if pf else None)
        self.uc.reset(tuple(uf[:3]) if uf and uf[0] in ('fail', 'crash') else None)

        def run(die):
            if pri_crash:
                orig = m.pri_dao.execute_queued_items

                def wrapped():
                    try:
                        orig()
                    finally:
                        die()
                m.pri_dao.execute_queued_items = wrapped
            self.queue(ops)
            try:
                m.process_queued_ops()
            except sqlite3.Error:
                pass

        if fork:
            r, w = os.pipe()
            pid = os.fork()
            if pid == 0:
                try:
                    os.close(r)
                    self.pc.pipe = self.uc.pipe = w
                    run(lambda: os._exit(0))
                finally:
                    os._exit(0)
            os.close(w)
            ev = b''
            while True:
                chunk = os.read(r, 4096)
                if not chunk:
                    break
                ev += chunk
            os.close(r)
            os.waitpid(pid, 0)
            ev = ev.decode()
            toks = {ev[i:i + 2] for i in range(0, len(ev), 2)}
        else:
            def die():
                raise Killed()
            try:
                run(die)
            except Killed:
                pass
            toks = self.pc.events | self.uc.events

        def res(tag):
            if tag + 'x' in toks:
                return 'crash'
            if tag + 'e' in toks:
                return 'fail'
            if tag + 'c' in toks:
                return 'crashafter'
            return 'noop'
        if pri_crash:
            pr, ur = res('p'), 'skip'
        else:
            pr = res('p')
            pr = 'ok' if pr == 'crashafter' else pr
            ur = 'skip' if pr == 'fail' else res('u')
        # restart (the old manager object is abandoned, as after a kill)
        try:
            m.on_workflow_shutdown()
        except Exception:
            pass
        self.start(True)
        return {'pr': pr, 'ur': ur, 'hit': ['pe' in toks, 'ue' in toks],
                'tries': self.mgr.pub_dao.n_tries, 'rec': False}


# ---------------------------------------------------------------------------
# generator helpers

def ins(t, *row):
    return {'k': 'ins', 't': t, 'r': list(row)}


def insd(t, **row):
    return {'k': 'insd', 't': t, 'r': row}


def dele(t, **w):
    return {'k': 'del', 't': t, 'w': w}


def upd(t, s, w=None):
    return {'k': 'upd', 't': t, 's': s, 'w': w or {}}


def rnd(ops, pri=None, pub=None, rep=1):
    return {'ops': ops, 'pri': pri, 'pub': pub, 'rep': rep}


class C21(Prop):
    id = 'C21'
    props_modules = ['CylcModel.Props.C21']
    theorems = [
        'CylcModel.C21.pri_atomic',
        'CylcModel.C21.pri_crash_atomic',
        'CylcModel.C21.pub_failure_retries',
        'CylcModel.C21.recover_copies',
        'CylcModel.C21.pub_converges_partial',
        'CylcModel.C21.pub_converges_live',
        'CylcModel.C21.pub_converges_counterexample',
        'CylcModel.C21.recover_stale_queue_counterexample',
    ]
    technique = ('transaction model + inductive invariant over unbounded round histories; '
                 'correspondence on real sqlite files with fault injection at every statement position')
    trusted = [
        'SQLite semantics (transaction atomicity, DELETE/INSERT OR REPLACE/UPDATE row semantics, NULLs in keys, '
        'UNIQUE failure) are assumed in the model and validated by the correspondence on real sqlite files',
        'fault injection: a proxy around the DAO\'s sqlite3 connection raises sqlite3.OperationalError / kills the '
        '(forked) process at executemany call k after j rows or at commit; public locks are real '
        '(second connection, BEGIN IMMEDIATE); CONN_TIMEOUT and (in most cases) MAX_TRIES are lowered on the '
        'public DAO instance to keep runs short',
        'values are type-correct for their column (TEXT: str/None, INTEGER/REAL: int/None); SQLite type '
        'affinity conversions are not modelled',
    ]
    unmodelled = [
        'raw-SQL update items (the "UPDATE OR REPLACE" statements of remove_task_from_flows)',
        'NULL or updated workflow_flows.flow_num (rowid alias)',
        'file-level failures of copy_pri_to_pub (OSError), file permissions',
        'the put_* helpers that fill the db_*_map queues (covered by C19/C20/C22)',
    ]
    rule = ('base batches over all 19 tables x every (executemany call, row) fault position incl. commit and '
            'beyond, for private error / private crash / public error / public crash, plus seeded random '
            'multi-round histories (3 tables, tiny value pools so keys collide; private+public faults, real '
            'locks, lowered and real recovery thresholds); non-trivial = a case with at least one fault hit, '
            'retry, recovery, crash or natural sqlite error; distinct by input hash, class = the set of '
            'step outcomes')
    workers = 16

    # -- setup / translate ------------------------------------------------
    def setup(self):
        from cylc.flow import LOG
        LOG.setLevel(logging.CRITICAL + 10)
        from cylc.flow.rundb import CylcWorkflowDAO
        from cylc.flow.workflow_db_mgr import WorkflowDatabaseManager
        self.D, self.M = CylcWorkflowDAO, WorkflowDatabaseManager
        self.attrs = {
            name: [(c[0], (c[1] if len(c) > 1 else {}).get('datatype', 'TEXT'),
                    bool((c[1] if len(c) > 1 else {}).get('is_primary_key', False))) for c in cols]
            for name, cols in CylcWorkflowDAO.TABLES_ATTRS.items()}
        self.table_names = sorted(self.attrs)
        base = '/dev/shm' if os.access('/dev/shm', os.W_OK) else tempfile.gettempdir()
        self.base = os.path.join(base, 'C21')
        os.makedirs(self.base, exist_ok=True)
        self.flags = None

    def probe(self):
        """Two behaviours of the live code that the model follows (see Db.lean header)."""
        if self.flags is not None:
            return self.flags
        # 1. is a failed public batch retried in its original order?
        w = World(self, self.base, 5)
        try:
            w.step([insd('broadcast_states', point='1', namespace='root', key='script', value='x')],
                   None, ['fail', 0, 0])
            w.step([dele('broadcast_states', point='1', namespace='root', key='script')], None, None)
            pub = w.content('pub').get('broadcast_states', [])
            pri = w.content('pri').get('broadcast_states', [])
            if pri:
                raise RuntimeError(f'probe: private DB holds {pri}')
            keeps = not pub
        finally:
            w.close()
        # 2. does the recovery drop what is still queued for the public DB?
        w = World(self, self.base, 1)
        try:
            w.step([insd('task_events', name='a', cycle='1', event='e')], None, ['fail', 0, 0])
            w.step([], None, None)
            n = len(w.content('pub').get('task_events', []))
            if n not in (1, 2):
                raise RuntimeError(f'probe: {n} rows after recovery')
            clears = n == 1
        finally:
            w.close()
        self.flags = (keeps, clears)
        self.statement_note = self.note(keeps, clears)
        return self.flags

    def note(self, keeps, clears):
        base = ('pri_atomic / pri_crash_atomic: full (every batch, every statement/row position, error or crash: '
                'private file unchanged; no fault: all statements applied in the code\'s order). ')
        if keeps and clears:
            return base + ('pub_converges_full holds for the live code by pub_converges_partial/pub_converges_live (retry keeps statement order, recovery clears the '
                           'queue): after any history of rounds and public failures, every committed public write '
                           'and every recovery leaves pub = pri.')
        return base + (
            'pub_converges_full is proved (pub_converges_partial) for the repaired retry (statement order kept, queue cleared on recovery); the '
            f'live code has retryKeepsOrder={keeps}, recoverClearsQueue={clears}: for it pub_failure_retries '
            '(nothing is lost, file unchanged, counter +1) and recover_copies hold, and the two counterexample '
            'theorems show the full convergence statement false (known findings pub-retry-reorder, '
            'pub-recover-stale-queue; fix in findings/C21-fix-1.diff; once applied pub_converges_live applies)')

    def translate(self):
        keeps, clears = self.probe()
        lines = [
            '/- GENERATED by harness/props/c21.py translate() from the live source',
            '   (cylc/flow/rundb.py: CylcWorkflowDAO.TABLES_ATTRS, MAX_TRIES; two behaviours probed on the real',
            '   CylcWorkflowDAO / WorkflowDatabaseManager). Do not edit. -/',
            'namespace CylcModel.Generated.DbSchema',
            '',
            '/-- (table, [(column, is_primary_key)]) in `sorted(TABLES_ATTRS.items())` order -/',
            'def tables : List (String × List (String × Bool)) := [',
        ]
        rows = []
        for name in self.table_names:
            cols = ', '.join('(%s, %s)' % (json.dumps(c), 'true' if pk else 'false') for c, _, pk in self.attrs[name])
            rows.append('  (%s, [%s])' % (json.dumps(name), cols))
        lines.append(',\n'.join(rows))
        lines += [
            ']',
            '',
            '/-- `CylcWorkflowDAO.MAX_TRIES` -/',
            f'def maxTries : Nat := {int(self.D.MAX_TRIES)}',
            '/-- probed: the statements of a failed write are re-executed in their original order',
            '    (false: they stay in the per-table queues and are merged with later batches) -/',
            f'def retryKeepsOrder : Bool := {"true" if keeps else "false"}',
            '/-- probed: `recover_pub_from_pri` discards what is still queued for the public database -/',
            f'def recoverClearsQueue : Bool := {"true" if clears else "false"}',
            '',
            'end CylcModel.Generated.DbSchema',
            '',
        ]
        return {'DbSchema.lean': '\n'.join(lines)}

    # -- cases -------------------------------------------------------------
    def corpus(self):
        bs = dict(point='1', namespace='root', key='script')
        return [
            # private failure at the 2nd statement of a 3-statement batch, then retry
            {'max_tries': 3, 'rounds': [
                rnd([ins('task_pool', '1', 'a', '[1]', 'waiting', 0), ins('task_events', 'a', '1', 't', 1, 'e', 'm'),
                     ins('xtriggers', 's', 'r')], pri=['fail', 1, 0]),
                rnd([])]},
            # public lock for two rounds, then success (insert-only: converges)
            {'max_tries': 5, 'rounds': [
                rnd([ins('task_events', 'a', '1', 't', 1, 'e', 'm')], pub=['lock']),
                rnd([ins('task_events', 'b', '1', 't', 1, 'e', 'm')], pub=['lock']),
                rnd([ins('task_events', 'c', '1', 't', 1, 'e', 'm')])]},
            # recovery at the threshold
            {'max_tries': 2, 'rounds': [
                rnd([ins('inheritance', 'a', 'x')], pub=['lock'], rep=3),
                rnd([ins('inheritance', 'b', 'y')])]},
            # natural sqlite errors: empty SET list, UNIQUE failure
            {'max_tries': 3, 'rounds': [
                rnd([ins('task_pool', '1', 'a', '[1]', 'waiting', 0), ins('task_pool', '1', 'b', '[1]', 'waiting', 0)]),
                rnd([upd('task_pool', {'name': 'a'}, {'cycle': '1'})]),
                rnd([upd('task_pool', {'nosuch': 'a'}, {'cycle': '1'})])]},
            # crash in the middle of the private write, and in the public write
            {'max_tries': 3, 'rounds': [
                rnd([ins('task_states', 'a', '1', '[1]', 't0', 't1', 1, 'running', 0, 0),
                     ins('task_jobs', '1', 'a', 1)], pri=['crash', 1, 0, 'fork']),
                rnd([ins('task_jobs', '1', 'a', 1)], pub=['crash', 0, 1]),
                rnd([dele('task_jobs')])]},
            # reorder shape (finding witness on the unrepaired code)
            {'max_tries': 5, 'rounds': [
                rnd([insd('broadcast_states', value='x', **bs)], pub=['lock']),
                rnd([dele('broadcast_states', **bs)])]},
        ]

    def value_pool(self, table, col, typ, rng=None):
        if typ == 'TEXT':
            if col in ('cycle', 'point', 'prereq_cycle'):
                return ['1', '2']
            if col in ('name', 'namespace', 'prereq_name'):
                return ['a', 'b']
            if col == 'key':
                return ['k', SPECIAL] if table == 'workflow_template_vars' else ['k', 'l']
            if col == 'flow_nums':
                return ['[1]', '[1,2]']
            return ['x', 'y']
        return [0, 1]

    def rand_val(self, rng, table, col, typ, pk, allow_null=True):
        if table == 'workflow_flows' and col == 'flow_num':
            return rng.choice([1, 2, 3])
        pool = self.value_pool(table, col, typ)
        if allow_null and rng.random() < (0.08 if pk else 0.15):
            return None
        return rng.choice(pool)

    def rand_op(self, rng, table):
        cols = self.attrs[table]
        r = rng.random()
        if r < 0.45:
            if rng.random() < 0.5:
                n = len(cols) if rng.random() < 0.7 else rng.randint(1, len(cols) + 1)
                row = [self.rand_val(rng, table, c, t, pk) for c, t, pk in cols]
                row = (row + ['x'])[:n]
                return {'k': 'ins', 't': table, 'r': row}
            d = {c: self.rand_val(rng, table, c, t, pk) for c, t, pk in cols
                 if rng.random() < 0.8 or (table == 'workflow_flows' and c == 'flow_num')}
            if rng.random() < 0.1:
                d['nosuch'] = 'z'
            return {'k': 'insd', 't': table, 'r': d}
        some = [c for c in cols if rng.random() < 0.4]
        w = {c: self.rand_val(rng, table, c, t, pk, allow_null=rng.random() < 0.3) for c, t, pk in some}
        if rng.random() < 0.05:
            w = {'nosuch': 'z'}
        if r < 0.7:
            return {'k': 'del', 't': table, 'w': w}
        setc = [c for c in cols if rng.random() < 0.3 and not (table == 'workflow_flows' and c[0] == 'flow_num')]
        if not setc and rng.random() < 0.85:
            setc = [rng.choice([c for c in cols if not (table == 'workflow_flows' and c[0] == 'flow_num')])]
        s = {c: self.rand_val(rng, table, c, t, pk) for c, t, pk in setc}
        return {'k': 'upd', 't': table, 's': s, 'w': w}

    def rand_fault(self, rng, kinds, nops):
        k = rng.choice(kinds)
        if k is None:
            return None
        if k == 'lock':
            return ['lock']
        f = [k, rng.randint(0, max(1, nops)), rng.randint(0, 2)]
        if k == 'crash' and rng.random() < 0.1:
            f.append('fork')
        return f

    def random_case(self, rng):
        tables = rng.sample(self.table_names, rng.choice([1, 1, 2, 3]))
        mt = rng.choice([1, 2, 2, 3, 4])
        rounds = []
        for _ in range(rng.randint(1, 6)):
            ops = [self.rand_op(rng, rng.choice(tables)) for _ in range(rng.choice([0, 1, 2, 2, 3, 4, 6]))]
            pf = self.rand_fault(rng, [None] * 8 + ['fail', 'crash'], len(ops))
            if pf and pf[0] == 'crash':
                uf = None
            else:
                uf = self.rand_fault(rng, [None] * 4 + ['lock'] * 3 + ['fail'] * 2 + ['crash'], len(ops))
            rep = 1
            if uf and uf[0] in ('lock', 'fail') and rng.random() < 0.3:
                rep = rng.randint(2, 4)
            rounds.append(rnd(ops, pf, uf, rep))
        return {'max_tries': mt, 'rounds': rounds}

    def shape(self, ops):
        """(rows per executemany call) of a fresh DAO for these ops: positions to enumerate."""
        dao = self.D(os.path.join(self.base, 'none'))
        for op in ops:
            k, t = op['k'], op['t']
            if k == 'del':
                dao.add_delete_item(t, dict(op.get('w') or {}))
            elif k == 'ins':
                dao.add_insert_item(t, list(op['r']))
            elif k == 'insd':
                dao.add_insert_item(t, dict(op['r']))
            else:
                dao.add_update_item(t, (dict(op['s']), dict(op.get('w') or {})))
        out = []
        for table in dao.tables.values():
            out += [len(a) for a in table.delete_queues.values()]
            if table.insert_queue:
                out.append(len(table.insert_queue))
            out += [len(a) for a in table.update_queues.values()]
        return out

    def positions(self, ops):
        sh = self.shape(ops)
        pos = []
        for k, n in enumerate(sh):
            pos += [(k, j) for j in range(n + 1)]
        pos += [(len(sh), 0), (len(sh) + 1, 0)]
        return pos

    def full_row(self, table, variant):
        row = []
        for c, t, pk in self.attrs[table]:
            if table == 'workflow_flows' and c == 'flow_num':
                row.append(1 + variant)
            else:
                pool = self.value_pool(table, c, t)
                row.append(pool[variant % len(pool)] if pk or variant < 2 else pool[0])
        return row

    def base_batches(self, tier, rng):
        """Deterministic batches touching every table."""
        names = self.table_names
        out = []
        # every table: two inserts, a delete and an update
        for i in range(0, len(names), 3):
            grp = names[i:i + 3]
            seed_ops, ops = [], []
            for t in grp:
                cols = self.attrs[t]
                seed_ops += [ins(t, *self.full_row(t, 0)), ins(t, *self.full_row(t, 1))]
                first = cols[0][0] if not (t == 'workflow_flows') else 'description'
                ops.append(dele(t, **{first: self.full_row(t, 0)[[c[0] for c in cols].index(first)]}))
                ops.append(ins(t, *self.full_row(t, 1)))
                ops.append(ins(t, *self.full_row(t, 2)))
                last = cols[-1][0]
                ops.append(upd(t, {last: self.full_row(t, 1)[-1]}, {}))
            out.append((seed_ops, ops))
        n_rand = 4 if tier == 'quick' else 40
        for _ in range(n_rand):
            tables = rng.sample(names, rng.choice([1, 2, 3]))
            seed_ops = [self.rand_op(rng, rng.choice(tables)) for _ in range(4)]
            seed_ops = [o for o in seed_ops if o['k'] in ('ins', 'insd')]
            ops = [self.rand_op(rng, rng.choice(tables)) for _ in range(rng.randint(2, 7))]
            out.append((seed_ops, ops))
        return out

    def gen(self, tier, rng):
        # 1. every fault position of base batches
        n_pos = 0
        fork_every = 10 if tier == 'quick' else 2
        for seed_ops, ops in self.base_batches(tier, rng):
            pos = self.positions(ops)
            for kind in ('fail', 'crash'):
                for k, j in pos:
                    n_pos += 1
                    # a real process death (fork + os._exit) for a share of the crash positions
                    f = [kind, k, j] + (['fork'] if kind == 'crash' and n_pos % fork_every == 0 else [])
                    yield {'max_tries': 3, 'rounds': [rnd(seed_ops), rnd(ops, pri=f), rnd([])]}
                    yield {'max_tries': 3, 'rounds': [rnd(seed_ops), rnd(ops, pub=f),
                                                      rnd([ins('inheritance', 'z', 'z')])]}
            yield {'max_tries': 3, 'rounds': [rnd(seed_ops), rnd(ops, pub=['lock']), rnd([])]}
        # 2. failure patterns of the public write up to the recovery threshold
        pats = 3 if tier == 'quick' else 5
        for mt in (1, 2, 3):
            for bits in range(1 << pats):
                rounds = []
                for n in range(pats):
                    fail = bits >> n & 1
                    rounds.append(rnd([ins('task_events', 'n%d' % n, '1', 't', n, 'e', 'm'),
                                       ins('task_pool', '1', 'n%d' % (n % 2), '[1]', 's%d' % n, 0)],
                                      pub=(['lock'] if n % 2 else ['fail', 0, 1]) if fail else None))
                rounds.append(rnd([]))
                yield {'max_tries': mt, 'rounds': rounds}
        # the real threshold
        yield {'max_tries': None, 'rounds': [
            rnd([ins('task_events', 'a', '1', 't', 1, 'e', 'm'), ins('task_pool', '1', 'a', '[1]', 'w', 0)],
                pub=['fail', 0, 0], rep=int(self.D.MAX_TRIES) - 1),
            rnd([ins('task_pool', '1', 'b', '[1]', 'w', 0)], pub=['lock'], rep=2),
            rnd([ins('task_pool', '1', 'c', '[1]', 'w', 0)])]}
        # 3. random histories
        n = {'quick': 1000, 'thorough': 40000}.get(tier, 120000)
        for _ in range(n):
            yield self.random_case(rng)

    # -- implementation ------------------------------------------------------
    def impl(self, inp):
        try:
            w = World(self, self.base, inp.get('max_tries'))
        except Exception as exc:  # noqa
            return {'exc': 'start:' + type(exc).__name__}
        out = []
        prev = {}
        try:
            for r in inp['rounds']:
                for n in range(r.get('rep', 1)):
                    try:
                        st = w.step(r['ops'] if n == 0 else [], r.get('pri'), r.get('pub'))
                    except Exception as exc:  # noqa
                        return {'exc': type(exc).__name__ + ':' + str(exc)[:80], 'steps': out}
                    for which in ('pri', 'pub'):
                        c = w.content(which)
                        st[which] = '=' if (which in prev and prev[which] == c) else c
                        prev[which] = c
                    out.append(st)
        finally:
            w.close()
        return out

    def equal(self, model_out, obs):
        if not isinstance(model_out, list) or not isinstance(obs, list):
            return False
        norm = []
        for st in model_out:
            st = dict(st)
            for which in ('pri', 'pub'):
                c = st.get(which)
                if isinstance(c, dict):
                    st[which] = {t: sorted(rows, key=row_key) for t, rows in c.items()}
            norm.append(st)
        return norm == obs

    def classify(self, inp, obs):
        if not isinstance(obs, list):
            return 'exception'
        tags = set()
        for st in obs:
            pr = st['pr'].replace('crashafter', 'crash')
            ur = st['ur'].replace('crashafter', 'crash')
            if pr not in ('ok', 'noop'):
                tags.add('pri-' + pr)
            if ur not in ('ok', 'noop', 'skip'):
                tags.add('pub-' + ur)
            if st['rec']:
                tags.add('recovered')
        retry_ok = any(a['ur'] == 'fail' and b['ur'] == 'ok' for a, b in zip(obs, obs[1:]))
        if retry_ok:
            tags.add('retry-ok')
        if not tags:
            return None
        return '+'.join(sorted(tags))

    def neighbours(self, inp, rng):
        out = []
        rounds = inp['rounds']
        for i, r in enumerate(rounds):
            for key in ('pri', 'pub'):
                f = r.get(key)
                if f and len(f) >= 3:
                    for dk, dj in ((-1, 0), (1, 0), (0, -1), (0, 1)):
                        if f[1] + dk >= 0 and f[2] + dj >= 0:
                            rr = [dict(x) for x in rounds]
                            rr[i][key] = [f[0], f[1] + dk, f[2] + dj] + f[3:]
                            out.append({'max_tries': inp.get('max_tries'), 'rounds': rr})
                if f:
                    rr = [dict(x) for x in rounds]
                    rr[i][key] = None
                    out.append({'max_tries': inp.get('max_tries'), 'rounds': rr})
            if len(rounds) > 1:
                out.append({'max_tries': inp.get('max_tries'), 'rounds': rounds[:i] + rounds[i + 1:]})
        return out


PROP = C21()
