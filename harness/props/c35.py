"""C35  Runtime inheritance follows the C3 linearisation (cylc/flow/c3mro.py, config.py)."""
from __future__ import annotations

import copy
import itertools
import signal
import types

from core import Prop


def py_oracle(decls, defs=()):
    """Python's own MRO for the equivalent class hierarchy (the oracle named by the property).

    decls: [(name, parents)] in an order in which the classes can be created.
    Returns ([[name, mro | None]], [[name, definer | None]]); None = Python refuses the class
    (inconsistent MRO, duplicate base, or a base that could not be created / does not exist).
    """
    classes = {}
    mros, wins = [], []
    for name, ps in decls:
        try:
            bases = tuple(classes[p] for p in ps)
            cls = type(str(name), bases, {'item': name} if name in defs else {})
        except (KeyError, TypeError):
            mros.append([name, None])
            wins.append([name, None])
            continue
        classes[name] = cls
        mros.append([name, [k.__name__ for k in cls.__mro__ if k is not object]])
        wins.append([name, getattr(cls, 'item', None)])
    return mros, wins


def eff_parents(names, name, inh):
    """What `inherit = ...` means (docs): implicit root, a leading None demotes the first parent."""
    if name == 'root':
        return []
    inh = list(inh) or ['root']
    if inh[0] == 'None':
        inh = inh[1:]
    if not inh or any(p not in names for p in inh):
        return None
    return inh


def ordered_subsets(items, max_len):
    for k in range(0, min(max_len, len(items)) + 1):
        yield from itertools.permutations(items, k)


NAMES = ['O', 'A', 'B', 'C', 'D', 'E', 'F', 'G', 'H', 'I', 'J', 'K', 'L', 'M']


class _Timeout(Exception):
    pass


def _alarm(signum, frame):
    raise _Timeout()


class C35(Prop):
    id = 'C35'
    props_modules = ['CylcModel.Props.C35']
    theorems = [
        'CylcModel.C35.merge_terminates',
        'CylcModel.C35.mro_recursive_definition',
        'CylcModel.C35.c3_props',
        'CylcModel.C35.c3_deterministic',
        'CylcModel.C35.c3_unique',
        'CylcModel.C35.merge_props',
        'CylcModel.C35.reject_iff',
        'CylcModel.C35.mro_reject_iff',
    ]
    statement_note = (
        'full for the model: for every hierarchy given as declarations in creation order (any number of '
        'classes/parents): an accepted linearisation starts with the class, is duplicate-free, is exactly the '
        'ancestor closure, keeps local precedence and is monotone (c3_props); merge = the relation "repeatedly '
        'take the first head that is in no tail" and that relation is functional (c3_deterministic, c3_unique); '
        'merge fails iff the rounds reach a state where every head is in some tail (reject_iff, mro_reject_iff); '
        'merge terminates by the measure total remaining length, no fuel (merge_terminates). '
        '"The same order Python computes" is not a theorem (CPython is not modelled): it is checked by the judge '
        'against type().__mro__ on every generated hierarchy, exhaustively up to 5 classes.')
    technique = ('well-founded recursion + induction on the result list / on declarations; relational spec of one '
                 'merge round; correspondence (exhaustive up to 5 classes) with Python type() as oracle')
    trusted = [
        "Python's own MRO (type().__mro__) is the oracle for 'the order Python computes'; it is evaluated by the "
        'harness generator and handed to the Lean judge inside the input',
        'compute_family_tree / compute_inheritance are called unbound on a stub object holding only cfg["runtime"] '
        'and the runtime tables they read and write',
    ]
    unmodelled = [
        'cyclic inheritance (RecursionError -> "circular [runtime] inheritance?"): not a DAG, outside the quantifier',
        'falsy namespace names (the code tests "if not cand")',
        'first-parent ancestors (c3_single) and the descendants tables',
    ]
    rule = ('c3 mode: every hierarchy with <= 5 classes whose parents are ordered subsets of earlier classes '
            '(exhaustive), plus random hierarchies of 6-8 (quick) / 6-13 (thorough) classes biased to shared bases and '
            'reversed parent orders, with occasional duplicate or undeclared parents; the tree dict is passed in a '
            'shuffled key order. config mode: random [runtime] sections (implicit root, explicit root, leading None, '
            'undefined parents, null parentage) through WorkflowConfig.compute_family_tree + compute_inheritance '
            'with a probe item defined in a random subset of namespaces. non-trivial = at least one class with >= 2 '
            'parents or a rejected class; distinct = distinct input')
    workers = 16

    def setup(self):
        from cylc.flow.c3mro import C3
        from cylc.flow.config import WorkflowConfig
        from cylc.flow.parsec.OrderedDict import OrderedDictWithDefaults
        self.C3, self.WC, self.OD = C3, WorkflowConfig, OrderedDictWithDefaults

    # ------------------------------------------------------------------ inputs
    def mk_c3(self, decls, order=None):
        decls = [[n, list(ps)] for n, ps in decls]
        mros, _ = py_oracle([(n, ps) for n, ps in decls])
        return {'mode': 'c3', 'decls': decls, 'order': order or [n for n, _ in decls], 'py': mros}

    def mk_config(self, decls, defs, order=None):
        decls = [[n, list(ps)] for n, ps in decls]
        names = [n for n, _ in decls]
        eff = [(n, eff_parents(names, n, ps)) for n, ps in decls]
        if any(ps is None for _, ps in eff):
            mros = [[n, None] for n in names]
            wins = [[n, None] for n in names]
        else:
            mros, wins = py_oracle(eff, set(defs))
        return {'mode': 'config', 'decls': decls, 'defs': sorted(defs), 'order': order or names,
                'py': mros, 'pywin': wins}

    def corpus(self):
        out = []
        # the examples of the c3mro.py doc string
        out.append(self.mk_c3([('O', []), ('X', ['O']), ('Y', ['O']), ('A', ['X', 'Y']), ('B', ['Y', 'X']),
                               ('Z', ['A', 'B'])]))
        out.append(self.mk_c3([('O', []), ('F', ['O']), ('E', ['O']), ('D', ['O']), ('C', ['D', 'F']),
                               ('B', ['D', 'E']), ('A', ['B', 'C'])]))
        out.append(self.mk_c3([('O', []), ('F', ['O']), ('E', ['O']), ('D', ['O']), ('C', ['D', 'F']),
                               ('B', ['E', 'D']), ('A', ['B', 'C'])]))
        out.append(self.mk_c3([('O', []), ('A', ['O']), ('B', ['O']), ('C', ['O']), ('D', ['O']), ('E', ['O']),
                               ('K1', ['A', 'B', 'C']), ('K2', ['D', 'B', 'E']), ('K3', ['D', 'A']),
                               ('Z', ['K1', 'K2', 'K3'])]))
        out.append(self.mk_c3([('O', []), ('A', ['O', 'O'])]))            # duplicate base
        out.append(self.mk_c3([('O', []), ('A', ['O', 'Q'])]))            # undeclared parent
        out.append(self.mk_c3([('O', []), ('A', ['O']), ('B', ['O', 'A'])]))   # base before its subclass
        out.append(self.mk_config([('root', []), ('A', []), ('B', []), ('C', ['A', 'B']), ('D', ['None', 'C']),
                                   ('E', ['B', 'A']), ('F', ['C', 'E'])], ['root', 'B']))
        out.append(self.mk_config([('root', []), ('A', []), ('B', ['root']), ('C', ['A', 'B']),
                                   ('D', ['None', 'C', 'B'])], ['A', 'B'], order=['D', 'C', 'B', 'A', 'root']))
        out.append(self.mk_config([('root', []), ('A', ['None'])], []))
        out.append(self.mk_config([('root', []), ('A', ['X'])], ['root']))
        return out

    def exhaustive_c3(self, n_max, max_parents=5):
        """every hierarchy of n_max classes (those with fewer classes are their prefixes)"""
        def rec(decls):
            if len(decls) == n_max:
                yield list(decls)
                return
            name = NAMES[len(decls)]
            earlier = [d[0] for d in decls]
            for ps in ordered_subsets(earlier, max_parents):
                yield from rec(decls + [(name, list(ps))])
        yield from rec([])

    def random_decls(self, rng, n):
        decls = []
        for i in range(n):
            name = NAMES[i]
            earlier = [d[0] for d in decls]
            if not earlier or rng.random() < 0.1:
                ps = []
            else:
                k = rng.choice([1, 1, 2, 2, 2, 3, 3, 4])
                # bias: reuse (and sometimes reverse) the parent list of an earlier class
                if decls and rng.random() < 0.3:
                    ps = list(rng.choice(decls)[1])
                    if rng.random() < 0.5:
                        ps.reverse()
                    elif ps and rng.random() < 0.5:
                        rng.shuffle(ps)
                    if not ps:
                        ps = rng.sample(earlier, min(k, len(earlier)))
                else:
                    # prefer recent classes (deep hierarchies) but keep shared old bases
                    pool = earlier[-5:] + earlier[:2]
                    ps = []
                    for p in rng.sample(pool, min(k, len(pool))):
                        if p not in ps:
                            ps.append(p)
                if rng.random() < 0.02:
                    ps.append(ps[0])                 # duplicate base
                if rng.random() < 0.02:
                    ps.insert(rng.randrange(len(ps) + 1), 'Q')   # undeclared
            decls.append((name, ps))
        return decls

    def random_config(self, rng):
        # a [runtime] section is rejected as a whole, so resample most rejected ones to keep
        # accepted multiple-inheritance configurations well represented
        for _ in range(6):
            case = self._random_config(rng)
            if all(v is not None for _, v in case['py']) or rng.random() < 0.25:
                break
        return case

    def _random_config(self, rng):
        n = rng.randint(2, 8)
        base = self.random_decls(rng, n)
        decls = [('root', [])]
        for name, ps in base:
            ps = [p for p in ps if p != 'Q']
            r = rng.random()
            if r < 0.15:
                ps = list(ps)
                ps.insert(rng.randrange(len(ps) + 1), 'root')
            elif r < 0.3 and ps:
                ps = ['None'] + ps
            elif r < 0.33:
                ps = ['None']
            elif r < 0.36:
                ps = ps + ['None']
            elif r < 0.39:
                ps = ps + ['undefined_family']
            decls.append((name, ps))
        names = [d[0] for d in decls]
        defs = [x for x in names if rng.random() < 0.4]
        order = names[:]
        if rng.random() < 0.5:
            rng.shuffle(order)
        return self.mk_config(decls, defs, order)

    def gen(self, tier, rng):
        for decls in self.exhaustive_c3(5 if tier != 'search' else 4):
            order = [d[0] for d in decls]
            rng.shuffle(order)
            yield self.mk_c3(decls, order)
        n_rand, hi, n_cfg = {'quick': (4000, 8, 3000), 'thorough': (120000, 13, 60000)}.get(tier, (150000, 13, 60000))
        for _ in range(n_rand):
            decls = self.random_decls(rng, rng.randint(6, hi))
            order = [d[0] for d in decls]
            rng.shuffle(order)
            yield self.mk_c3(decls, order)
        for _ in range(n_cfg):
            yield self.random_config(rng)

    # ------------------------------------------------------------ implementation
    def impl(self, inp):
        # CPU-time limit against non-terminating mutants.  The sandbox VM is sometimes paused and the
        # pause is charged to the running process (spurious expiry of either kind of timer was seen
        # about once per 200k cases), so a case only counts as non-terminating if it times out 3 times.
        signal.signal(signal.SIGVTALRM, _alarm)
        for _attempt in range(3):
            signal.setitimer(signal.ITIMER_VIRTUAL, 20)
            try:
                return self._impl(inp)
            except _Timeout:
                continue
            finally:
                signal.setitimer(signal.ITIMER_VIRTUAL, 0)
        return 'timeout'

    def _impl(self, inp):
        parents = {n: ps for n, ps in inp['decls']}
        if inp['mode'] == 'c3':
            tree = {n: list(parents[n]) for n in inp['order']}
            snapshot = copy.deepcopy(tree)
            c3 = self.C3(tree)
            out = []
            for n, _ in inp['decls']:
                try:
                    r = [str(x) for x in c3.mro(n)]
                except KeyError:
                    r = 'undef'
                except RecursionError:
                    r = 'cycle'
                except _Timeout:
                    raise
                except Exception:
                    r = 'bad'
                out.append([n, r])
            return {'mro': out, 'intact': tree == snapshot}
        rt = self.OD()
        for n in inp['order']:
            sec = self.OD()
            if parents[n]:
                sec['inherit'] = list(parents[n])
            if n in inp['defs']:
                sec['script'] = n
            rt[n] = sec
        stub = types.SimpleNamespace()
        stub.cfg = {'runtime': rt}
        stub.runtime = {'parents': {}, 'linearized ancestors': {}, 'first-parent ancestors': {},
                        'descendants': {}, 'first-parent descendants': {}}
        try:
            self.WC.compute_family_tree(stub)
            lin = {n: [str(x) for x in v] for n, v in stub.runtime['linearized ancestors'].items()}
            self.WC.compute_inheritance(stub)
        except _Timeout:
            raise
        except Exception:
            return 'err'
        rt2 = stub.cfg['runtime']
        return {'lin': [[n, lin.get(n)] for n, _ in inp['decls']],
                'win': [[n, rt2[n].get('script') if n in rt2 else None] for n, _ in inp['decls']]}

    # ------------------------------------------------------------------ evidence
    def classify(self, inp, obs):
        decls = inp['decls']
        multi = any(len([p for p in ps if p != 'None']) >= 2 for _, ps in decls)
        rejected = any(v is None for _, v in inp['py'])
        if not multi and not rejected:
            return None
        tags = [inp['mode'], 'n=%d' % min(len(decls), 9)]
        if rejected:
            undeclared = any(p not in dict(decls) and p != 'None' for _, ps in decls for p in ps)
            tags.append('rejected-undeclared' if undeclared else 'rejected')
        else:
            tags.append('multi')
        if inp['mode'] == 'config' and any(ps[:1] == ['None'] for _, ps in decls):
            tags.append('demoted')
        return '/'.join(tags)

    def neighbours(self, inp, rng):
        out = []
        decls = inp['decls']
        for i, (n, ps) in enumerate(decls):
            if len(ps) >= 2:
                for alt in (list(reversed(ps)), ps[1:], ps[:-1]):
                    d2 = [list(d) for d in decls]
                    d2[i] = [n, alt]
                    out.append(self.mk_c3(d2, inp.get('order')) if inp['mode'] == 'c3'
                               else self.mk_config(d2, inp.get('defs', []), inp.get('order')))
        return out[:40]


PROP = C35()
