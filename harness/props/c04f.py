"""C04F  Runahead limit with FUTURE-TRIGGER offsets (scheduler-level sub-check of C04, report_id C04)."""
from __future__ import annotations

import sys
from pathlib import Path

sys.path.insert(0, str(Path(__file__).resolve().parent))
from _fut import FutProp  # noqa: E402


class C04F(FutProp):
    id = 'C04F'
    report_id = 'C04'
    drv = 'C04F'
    props_modules = ['CylcModel.Props.C04F']
    theorems = [
        'CylcModel.C04F.future_offset_meaning',
        'CylcModel.C04F.future_offset_of_instance',
        'CylcModel.C04F.cached_offset_bracket',
        'CylcModel.C04F.cached_offset_invariant',
        'CylcModel.C04F.cached_offset_recomputed',
        'CylcModel.C04F.cached_offset_exact_on_add',
        'CylcModel.C04F.cached_offset_exact_on_remove',
        'CylcModel.C04F.cached_offset_exact_counterexample',
        'CylcModel.C04F.limit_forced_spec',
        'CylcModel.C04F.limit_unforced_spec',
        'CylcModel.C04F.limit_capped_at_stop_point',
        'CylcModel.C04F.release_sound_loop',
        'CylcModel.C04F.release_sound_other',
        'CylcModel.C04F.restart_release_final',
        'CylcModel.C04F.release_within_spec_partial',
        'CylcModel.C04F.release_within_spec_counterexample',
    ]
    statement_note = (
        'partial. Over the Sched3Fut model (Sched2 = scheduler core + hold / release / hold point / stop modes / stop point by '
        'command / pause / clean restart, extended with future triggers: the lazily raised TaskDef.max_future_prereq_offset '
        '(touched by every TaskProxy construction: spawn_task, restart load, the ghost proxies of the data-store n=1 window, '
        'the temporary proxy of a job message without a pooled task), the cached TaskPool.max_future_offset with its two '
        'update sites (add_to_pool / remove, only when the task definition of that proxy has an offset; a changed value forces '
        'compute_runahead at once), the limit extended by the cached maximum and capped at the stop point, spawn_task\'s '
        'refusal of an instance with a prerequisite beyond the stop point incl. the database row it leaves), for EVERY instance '
        'graph and EVERY op list / state: (0) the future offset of an instance is the largest distance to a prerequisite atom '
        '(suicide ones included) at a later cycle, however the trigger is written - cycle-relative x[+P2] or relative to the '
        'initial cycle point x[^+P2] (future_offset_meaning; the JSON layer computes it from the atoms of the instance graph, '
        'never from tdef.max_future_prereq_offset: future_offset_of_instance / wfFut; what the implementation records per '
        'instance is compared with it on every run by judge clause R0); (1) in every state of every run the cached maximum lies between the largest future '
        'offset of the pooled instances and the largest future offset of the pooled tasks over all their instances '
        '(cached_offset_bracket = judge clause R3; cached_offset_invariant in elementary terms; the two ends coincide unless a '
        'task has instances with different offsets - the code raises the offset of a task definition lazily, so exact '
        'equality with the maximum over the pool members does not hold in cylc-flow either: cached_offset_exact_counterexample); set_max_future_offset '
        'recomputes the maximum over the whole pool and is what add / remove of a proxy with an offset run '
        '(cached_offset_recomputed, _exact_on_add, _exact_on_remove); (2) a forced compute_runahead yields the specification '
        'limit specLimit (count limit from the base point found by walking next-larger points over the plain union of the '
        'recurrences, + offset, capped at the stop point) in ANY state (limit_forced_spec, hypothesis wfSeqs checked by the '
        'driver); in every state of every run the unforced compute_runahead either is skipped (base point unchanged, or limit '
        'at the stop point) and leaves the limit alone or yields the specification limit - the cached sequence points never '
        'decide (limit_unforced_spec); the computed limit never exceeds the stop point; (3) for ANY state: a proxy is released '
        'only by the release step of a main loop and only at or before the limit compute_runahead left at the start of that '
        'loop, by no other op, and by a restart only if it is finished (release_sound_loop, release_sound_other, '
        'restart_release_final); (4) combined: whatever a main loop releases lies within the specification limit of the pool '
        'the loop started with (largest offset of the pooled tasks) whenever its computation is not skipped '
        '(release_within_spec_partial); the unrestricted statement (release_within_spec_full, = the property as written) is '
        'FALSE for the model and for cylc-flow: release_within_spec_counterexample is the recorded finding '
        'stale-limit-at-stop-point, reproduced on the real scheduler with future triggers only (no manual intervention). '
        'Not proved: liveness (judge clause R2 is checked on every trace; its known failure is the recorded finding '
        'stale-runahead-limit of C43), duration limits, manual-trigger exemption, reload.')
    technique = ('inductive invariants over op lists of a Lean scheduler model with future-trigger offsets (Sched3Fut) + '
                 'trace correspondence with the real Scheduler + a trace judge that recomputes the limit from the observed pool')
    trusted = ['the pool snapshots (cycle point, name, status, is_runahead of every proxy), the stop point in effect and the '
               'cached TaskPool.max_future_offset read after start-up and after every op',
               'the future offset each instance contributes (fut_off) is read off a fresh TaskProxy of the real TaskDef; '
               'the ghost neighbours (graph children / parents up to the final point) are read off the real '
               'generate_graph_children / generate_graph_parents']
    rule = ('generated integer-cycling workflows (2-6 tasks, 1-3 recurrences P1 / P2 / +P1/P2 / R1 / R1/$ / R1/+P1, AND/OR triggers, '
            'inter-cycle offsets -P1/-P2, FUTURE offsets +P1/+P2 on 30 % and initial-cycle-point-relative future offsets ^+P1..^+P3 on '
            '12 % of the candidate triggers in any section (mixed in one expression; the parent is put on P1) - at the '
            'final cycle point they refer beyond the final point -, optional / custom outputs, suicide triggers, retries, '
            'runahead P0-P3, up to 6 cycles, configured stop point in 30 %, warm starts) driven through the real Scheduler by '
            'a seeded adaptive schedule: kinds fut (every job completes), futany (failures, submit failures, duplicate / '
            'stale / out-of-order messages), futcmd (any outcomes + cylc stop <point> at a third of the commands, hold / '
            'release / hold point, pause, stop + restart); 19 hand-written workflow/schedule pairs run first (two dependants '
            'with different offsets, offset depending on the cycle, prerequisite beyond the stop point, future trigger at the '
            'final point only, child behind the base point); compared after every op: everything the Sched2 correspondence '
            'compares + the pool in get_tasks() order, the cached max_future_offset, the max_future_prereq_offset of every '
            'task definition, the cached base point; the judge recomputes the limit from the observed pool (R1 release-sound, '
            'R2 no-deadlock, R3 cache-sound, R0 offset-recorded; offsets from the atoms of the instance graph); non-trivial = the workflow has a future trigger; classes = (kind, offset seen, '
            'offset dropped, base point moved backward, stop point moved / tasks beyond it, limit binds, ending)')


PROP = C04F()
