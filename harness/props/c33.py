"""C33  Xtriggers are called with the documented discipline (XtriggerManager)."""
from __future__ import annotations

import json
import logging
import random
from types import SimpleNamespace

from core import Prop, Infra


# ---------------------------------------------------------------------------
# rendering of the structured arguments into the Python values handed to SubFuncContext

TEMPL = {'point': '%(point)s', 'name': '%(name)s', 'id': '%(id)s', 'workflow': '%(workflow)s'}


def arg_value(a):
    if 's' in a:
        return ''.join(p['lit'] if isinstance(p, dict) else TEMPL[p] for p in a['s'])
    if 'i' in a:
        return a['i']
    return a['b']


class _Clock:
    def __init__(self):
        self.now = 0

    def __call__(self):
        return self.now


class _Pool:
    """stub process pool: records the submissions"""

    def __init__(self):
        self.pending = []       # [(sig, ctx, callback, (task id, label))]
        self.new = []

    def put_command(self, ctx, bad_hosts=None, callback=None, callback_args=None,
                    callback_255=None, callback_255_args=None):
        self.new.append((ctx, callback))


class _Rec:
    def __init__(self):
        self.bcs, self.db = [], []

    # broadcast_mgr
    def put_broadcast(self, point_strings=None, namespaces=None, settings=None):
        for s in settings or []:
            for k, v in s.get('environment', {}).items():
                self.bcs.append([k, v])

    # workflow_db_mgr
    def put_xtriggers(self, sat):
        self.db += list(sat)

    # data_store_mgr
    def delta_xtrigger(self, sig, ok):
        pass

    def delta_task_xtrigger(self, itask, label, sig, satisfied):
        pass


class _Task:
    def __init__(self, t):
        self.point = t['point']
        self.tdef = SimpleNamespace(name=t['name'])
        self.identity = f"{t['point']}/{t['name']}"
        self.state = SimpleNamespace(xtriggers={lb: False for lb in t['labels']})

    def __str__(self):
        return self.identity


def run_case(inp):
    import cylc.flow.xtrigger_mgr as xm
    import cylc.flow.xtriggers.wall_clock as wc
    from cylc.flow.subprocctx import SubFuncContext

    clock = _Clock()
    real = (xm.time, wc.time)
    xm.time = wc.time = clock
    try:
        pool, rec = _Pool(), _Rec()
        schd = SimpleNamespace(workflow=inp['wf'], owner='verif', proc_pool=pool, workflow_db_mgr=rec,
                               broadcast_mgr=rec, data_store_mgr=rec)
        mgr = xm.XtriggerManager(schd, workflow_run_dir='/nonexistent/run', workflow_share_dir='/nonexistent/share')
        for lb in inp['labels']:
            iv = () if lb['intvl'] is None else (lb['intvl'],)     # None: the code's DEFAULT_INTVL
            if lb['clock']:
                # the shape of a retry timer: wall_clock with an absolute trigger time
                ctx = SubFuncContext(lb['label'], 'wall_clock', [], {'trigger_time': lb['trig']}, *iv)
            else:
                ctx = SubFuncContext(lb['label'], lb['func'], [arg_value(a) for a in lb['args']],
                                     {k: arg_value(a) for k, a in lb['kwargs']}, *iv)
            mgr.xtriggers.add_trig(lb['label'], ctx, '/nonexistent/fdir')
        table = {t['id']: t for t in inp['tasks']}
        protos = {t['id']: _Task(t) for t in inp['tasks']}      # for signatures only

        def sig_of(tid, label):
            return mgr.get_xtrig_ctx(protos[tid], label).get_signature()

        sigs = [[t['id'], lb, sig_of(t['id'], lb)] for t in inp['tasks'] for lb in t['labels']]
        live = {}
        ops_out, out = [], []
        for op in inp['ops']:
            k = op[0]
            pool.new, rec.bcs, rec.db = [], [], []
            xt = []
            if k == 'adv':
                clock.now += op[1]
            elif k == 'spawn':
                if op[1] not in live:
                    live[op[1]] = _Task(table[op[1]])
                    xt = list(live[op[1]].state.xtriggers.values())
            elif k == 'remove':
                live.pop(op[1], None)
            elif k == 'call':
                t = live.get(op[1])
                if t is not None:
                    t._tid = op[1]
                    mgr.call_xtriggers_async(t)
                    xt = list(t.state.xtriggers.values())
            elif k in ('cb', 'cbp'):
                if k == 'cbp':
                    if not pool.pending:
                        continue
                    ent = pool.pending[op[1] % len(pool.pending)]
                    kind, res = op[2], op[3]
                    op = ['cb', ent[3][0], ent[3][1], kind, res]
                else:
                    sig = sig_of(op[1], op[2])
                    ent = next((e for e in pool.pending if e[0] == sig), None)
                    kind, res = op[3], op[4]
                if ent is not None:
                    pool.pending.remove(ent)
                    ctx = ent[1]
                    ctx.ret_code = 1 if kind in ('errok', 'none') else 0
                    if kind in ('ok', 'errok'):
                        ctx.out = json.dumps([True, dict(res)])
                    elif kind == 'no':
                        ctx.out = json.dumps([False, {}])
                    elif kind == 'bad':
                        ctx.out = 'Traceback: this is not JSON'
                    else:
                        ctx.out = None
                        ctx.err = 'ImportError: no such function'
                    ent[2](ctx)
            elif k == 'hk':
                if op[1] or mgr.do_housekeeping:
                    mgr.housekeep(list(live.values()))
            elif k == 'load':
                mgr.load_xtrigger_for_restart(1, (sig_of(op[1], op[2]), json.dumps(dict(op[3]))))
            elif k == 'force':
                t = live.get(op[1])
                if t is not None:
                    mgr.force_satisfy(t, {op[2]: op[3]})
                    xt = list(t.state.xtriggers.values())
            else:
                raise Infra(f'unknown op {op}')
            subs = []
            for ctx, cb in pool.new:
                s = ctx.get_signature()
                who = (op[1], ctx.label) if k == 'call' else (None, ctx.label)
                pool.pending.append((s, ctx, cb, who))
                subs.append([ctx.label, s])
            ops_out.append(list(op))
            out.append({'subs': subs, 'bcs': [list(b) for b in rec.bcs], 'db': list(rec.db), 'xt': xt,
                        'sat': sorted(mgr.sat_xtrig), 'hk': bool(mgr.do_housekeeping)})
        return {'ops': ops_out, 'sigs': sigs, 'out': out}
    finally:
        xm.time, wc.time = real


def _impl_one(inp):
    return run_case(inp)


def S(*ps):
    return {'s': [p if p in TEMPL else {'lit': p} for p in ps]}


def L(label, func='echo', args=(), kwargs=(), intvl=10, clock=False, trig=0):
    if clock:
        # the label shape of a retry timer: add_trig does not validate these against wall_clock(offset)
        label = '_cylc_retry_' + label
    kw = [list(x) for x in kwargs]
    if not clock and not any(k == 'succeed' for k, _ in kw):
        kw.append(['succeed', {'b': True}])
    return {'label': label, 'clock': clock, 'intvl': intvl, 'trig': trig, 'func': func,
            'args': list(args), 'kwargs': kw}


def T(i, point, name, labels):
    return {'id': i, 'point': point, 'name': name, 'labels': list(labels)}


class C33(Prop):
    id = 'C33'
    props_modules = ['CylcModel.Props.C33']
    theorems = [
        'CylcModel.C33.discipline_partial',
        'CylcModel.C33.discipline_no_forget',
        'CylcModel.C33.interval_after_forget_counterexample',
        'CylcModel.C33.submit_only_fresh',
        'CylcModel.C33.success_remembered',
        'CylcModel.C33.dependents_satisfied',
    ]
    statement_note = (
        'partial (one clause, recorded as finding interval-after-forget). The property is the monitor Spec.judge (= the '
        'judge run on the implementation): own bookkeeping of calls in flight, last submission time + interval per '
        'signature, signatures succeeded and needed ever since; rejects a submission of an in-flight signature, a '
        'submission earlier than previous submission + interval, a submission of a succeeded and still needed '
        'signature, and a call that leaves a label waiting for a succeeded signature unsatisfied. Proved for ALL '
        'configurations (any labels / intervals / clock labels / signature function, i.e. any sharing of signatures '
        'between tasks and labels) and ALL operation histories of any length (advance, spawn, remove, call, callback '
        'with any outcome, housekeep forced or flag-driven, load, force): discipline_partial - the monitor accepts '
        'every run of the manager model or rejects it only with intervalAfterForget (a signature whose previous call '
        'SUCCEEDED is called again within that call\'s interval, possible only after housekeeping deleted the result and '
        't_next_call); discipline_no_forget - on histories without housekeeping the verdict is ok outright; '
        'interval_after_forget_counterexample refutes the full statement (witness of the finding). Plus one-operation '
        'forms: submit_only_fresh (a signature is submitted only if not in `active` and not in `sat_xtrig`), '
        'success_remembered (only housekeeping forgets, and only signatures no pool task waits for), '
        'dependents_satisfied. Function execution in a subprocess is environment (callback operations with arbitrary '
        'outcomes)')
    technique = 'refinement: the property monitor accepts every run of the manager model (coupling invariant) + correspondence'
    trusted = [
        'stub process pool (records put_command, the harness plays the callbacks), stub broadcast / DB / data-store '
        'recorders, light task proxies (point, tdef.name, identity, state.xtriggers)',
        'time() of cylc.flow.xtrigger_mgr and of cylc.flow.xtriggers.wall_clock is a virtual integer clock',
    ]
    unmodelled = [
        'execution of the xtrigger function in a subprocess (environment); XtriggerCollator validation; reload '
        '(purge_user_xtriggers), mutate_trig (retry timers changing a signature), sequential-xtrigger spawning; '
        'wall-clock labels computed from the cycle point (the absolute trigger_time form of retry timers is used)',
    ]
    rule = ('random configurations of 1-4 labels (wall-clock with absolute trigger time, or echo(...) with literal / '
            '%(point)s / %(name)s / %(id)s / %(workflow)s / int / bool arguments and keyword arguments, so that signatures '
            'are shared between tasks, between cycle points or between labels with different intervals), 1-5 tasks with '
            'subsets of the labels, histories of 6-60 operations (spawn, call, callback on a pending submission with '
            'outcome ok / not yet / garbage output / error / error-but-true, clock advance 0-20, housekeeping forced or '
            'flag-driven, remove, force-satisfy, restart load); class = set of features met (retry, success, '
            'broadcast of results, held back by interval / in-flight, clock satisfied, shared signature, housekept, '
            're-call after forget)')
    workers = 8

    # ------------------------------------------------------------------
    def setup(self):
        import cylc.flow.xtrigger_mgr as xm
        xm.LOG.setLevel(logging.CRITICAL + 10)

    def translate(self):
        from cylc.flow.subprocctx import SubFuncContext
        d = SubFuncContext.DEFAULT_INTVL
        if float(d) != int(d):
            raise ValueError(f'SubFuncContext.DEFAULT_INTVL = {d!r} is not a whole number of seconds')
        probe = SubFuncContext('l', 'f', [], {})
        if probe.intvl != d:
            raise ValueError('SubFuncContext() without interval does not use DEFAULT_INTVL')
        return {'XtrigConsts.lean': (
            '/- GENERATED by harness/props/c33.py translate() from the live source. Do not edit. -/\n'
            'namespace CylcModel.Xtrig\n'
            '/-- `SubFuncContext.DEFAULT_INTVL`: call interval (seconds) of an xtrigger declared without one -/\n'
            f'def defaultIntvl : Int := {int(d)}\n'
            'end CylcModel.Xtrig\n')}

    # ------------------------------------------------------------------
    def corpus(self):
        two = [T(0, '1', 'foo', ['x']), T(1, '2', 'foo', ['x'])]
        return [
            # retry at the interval, success, both tasks satisfied, housekeeping
            {'wf': 'wf', 'labels': [L('x', args=[S('a')], intvl=None)], 'tasks': two,
             'ops': [['spawn', 0], ['spawn', 1], ['call', 0], ['call', 1], ['cb', 0, 'x', 'no', []], ['call', 0],
                     ['adv', 9], ['call', 1], ['adv', 1], ['call', 1], ['call', 0], ['cb', 1, 'x', 'ok', [['k', 'v']]],
                     ['call', 0], ['hk', False], ['call', 1], ['hk', False], ['hk', True]]},
            # signature per cycle point; second label with the same signature and another interval
            {'wf': 'wf', 'labels': [L('x', args=[S('p', 'point')], intvl=5), L('y', args=[S('p', 'point')], intvl=3),
                                    L('c', clock=True, trig=7)],
             'tasks': [T(0, '1', 'foo', ['x', 'y', '_cylc_retry_c']), T(1, '1', 'bar', ['y']), T(2, '2', 'bar', ['x', '_cylc_retry_c'])],
             'ops': [['spawn', 0], ['spawn', 1], ['spawn', 2], ['call', 0], ['call', 1], ['call', 2],
                     ['cbp', 0, 'bad', []], ['adv', 4], ['call', 1], ['call', 0], ['adv', 4], ['call', 0],
                     ['call', 2], ['cbp', 1, 'errok', [['a', '1'], ['b', '2']]], ['cbp', 0, 'none', []],
                     ['call', 0], ['call', 1], ['call', 2], ['hk', False], ['remove', 0], ['hk', True]]},
            # restart load, forced satisfaction, removal before the callback
            {'wf': 'wf', 'labels': [L('x', args=[S('name')], kwargs=[['z', {'i': 3}], ['a', S('id')]], intvl=10)],
             'tasks': [T(0, '1', 'foo', ['x']), T(1, '2', 'foo', ['x'])],
             'ops': [['load', 1, 'x', [['r', 's']]], ['spawn', 0], ['spawn', 1], ['call', 0], ['remove', 0],
                     ['cb', 0, 'x', 'ok', []], ['hk', False], ['call', 1], ['force', 1, 'x', False], ['call', 1],
                     ['force', 1, 'x', True], ['hk', True], ['spawn', 0], ['call', 0]]},
        ]

    # ------------------------------------------------------------------
    def gen(self, tier, rng):
        n = {'quick': 1500, 'thorough': 30000, 'search': 15000}[tier]
        for k in range(n):
            yield self.random_case(rng, big=(tier != 'quick' and k % 4 == 0))

    def random_case(self, rng, big=False):
        nlab = rng.randint(1, 4)
        labels = []
        argpool = [S('a'), S('a'), S('b'), S('p', 'point'), S('point'), S('name'), S('id', '-x'), S('workflow'),
                   {'i': 3}, {'b': False}]
        for i in range(nlab):
            if rng.random() < 0.22:
                labels.append(L('c%d' % i, clock=True, trig=rng.choice([0, 4, 4, 9, 25]), intvl=10))
                continue
            args = [rng.choice(argpool) for _ in range(rng.choice([0, 1, 1, 1, 2]))]
            kwargs = []
            if rng.random() < 0.3:
                kwargs.append([rng.choice(['z', 'k']), rng.choice(argpool)])
            labels.append(L('x%d' % i, args=args, kwargs=kwargs, intvl=rng.choice([0, 2, 5, 5, 10, None])))
        ntask = rng.randint(1, 5 if big else 4)
        tasks = []
        names = [lb['label'] for lb in labels]
        for i in range(ntask):
            ls = [x for x in names if rng.random() < 0.7] or [rng.choice(names)]
            rng.shuffle(ls)
            tasks.append(T(i, rng.choice(['1', '1', '2']), rng.choice(['foo', 'foo', 'bar']), ls))
        ops = []
        nops = rng.randint(6, 60 if big else 34)
        livish = set()
        res_pool = [[], [], [['k', 'v']], [['out', '1'], ['k', 'w']]]
        for _ in range(nops):
            r = rng.random()
            if r < 0.14 or not livish:
                t = rng.randrange(ntask)
                ops.append(['spawn', t])
                livish.add(t)
            elif r < 0.48:
                ops.append(['call', rng.choice(sorted(livish)) if rng.random() < 0.93 else rng.randrange(ntask)])
            elif r < 0.66:
                kind = rng.choice(['ok', 'ok', 'ok', 'no', 'no', 'bad', 'none', 'errok'])
                if rng.random() < 0.85:
                    ops.append(['cbp', rng.randrange(4), kind, rng.choice(res_pool)])
                else:
                    t = rng.choice(tasks)
                    ops.append(['cb', t['id'], rng.choice(t['labels']), kind, rng.choice(res_pool)])
            elif r < 0.80:
                ops.append(['adv', rng.choice([0, 1, 1, 2, 3, 5, 5, 10, 20])])
            elif r < 0.90:
                ops.append(['hk', rng.random() < 0.3])
            elif r < 0.95:
                t = rng.choice(sorted(livish))
                ops.append(['remove', t])
                livish.discard(t)
            elif r < 0.975:
                t = rng.choice(tasks)
                ops.append(['force', t['id'], rng.choice(t['labels'] + ['nolabel']), rng.random() < 0.6])
            else:
                t = rng.choice(tasks)
                ops.append(['load', t['id'], rng.choice(t['labels']), rng.choice(res_pool)])
        return {'wf': 'wf', 'labels': labels, 'tasks': tasks, 'ops': ops}

    # ------------------------------------------------------------------
    def impl(self, inp):
        return run_case(inp)

    def impl_batch(self, inputs):
        if len(inputs) < 64:
            return [run_case(i) for i in inputs]
        import multiprocessing as mp
        ctx = mp.get_context('fork')
        with ctx.Pool(self.workers) as pool:
            return pool.map(_impl_one, inputs, chunksize=max(1, len(inputs) // (self.workers * 8)))

    def driver_input(self, inp, raw):
        d = dict(inp)
        d['ops'] = raw['ops']
        return d

    def driver_obs(self, inp, raw):
        return {'sigs': raw['sigs'], 'out': raw['out']}

    def replay_input(self, inp, driver_inp):
        # the resolved history (callbacks named by task and label) is itself a valid input of impl()
        return driver_inp

    # ------------------------------------------------------------------
    def classify(self, inp, obs):
        tags = set()
        last = {}
        succeeded = set()
        now = 0
        for op, o in zip(inp['ops'], obs['out']):
            if op[0] == 'adv':
                now += op[1]
            for lb, s in o['subs']:
                if s in last:
                    tags.add('retry')
                if s in succeeded:
                    tags.add('recall-after-forget')
                last[s] = now
            if op[0] == 'cb' and o['db']:
                succeeded |= set(o['db'])
                tags.add('success')
            if o['bcs']:
                tags.add('broadcast')
            if op[0] == 'call' and not o['subs'] and any(not x for x in o['xt']):
                tags.add('held-back')
            if op[0] == 'call' and o['db']:
                tags.add('clock')
        sigs = [s for _, _, s in obs['sigs']]
        if len(set(sigs)) < len(sigs):
            tags.add('shared-sig')
        sats = [tuple(o['sat']) for o in obs['out']]
        if any(len(a) > len(b) for a, b in zip(sats, sats[1:])):
            tags.add('housekept')
        if not tags:
            return None
        return '/'.join(sorted(tags))

    def neighbours(self, inp, rng):
        out = []
        ops = inp['ops']
        for i in range(len(ops)):
            j = dict(inp)
            j['ops'] = ops[:i] + ops[i + 1:]
            out.append(j)
        for i, op in enumerate(ops):
            if op[0] == 'adv' and op[1] > 0:
                j = dict(inp)
                j['ops'] = ops[:i] + [['adv', op[1] - 1]] + ops[i + 1:]
                out.append(j)
        return out[:120]


PROP = C33()
