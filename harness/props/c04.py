"""C04  Runahead limit is respected and never deadlocks a completable run."""
from __future__ import annotations

import sys
from pathlib import Path

sys.path.insert(0, str(Path(__file__).resolve().parents[1] / 'sched'))
from prop import SchedProp  # noqa: E402

sys.path.insert(0, str(Path(__file__).resolve().parent))
import _c04_direct as direct  # noqa: E402


class C04(SchedProp):
    id = 'C04'
    also = ['C04F']
    props_modules = ['CylcModel.Props.C04']
    theorems = [
        'CylcModel.C04.limitAt_meaning',
        'CylcModel.C04.pointsFrom_spec',
        'CylcModel.C04.nth_of_union',
        'CylcModel.C04.limitAt_bounds',
        'CylcModel.C04.limit_spec_at_recompute',
        'CylcModel.C04.cache_transparent',
        'CylcModel.C04.release_sound',
        'CylcModel.C04.release_sound_loop',
        'CylcModel.C04.release_flips_within_limit',
        'CylcModel.C04.other_ops_keep_limit',
        'CylcModel.C04.no_deadlock_base_le_limit',
        'CylcModel.C04.no_deadlock_base_released',
        # (ii) component model Runahead: duration limits, future offsets, any pool history
        'CylcModel.C04.direct_spec0_meaning',
        'CylcModel.C04.direct_compute_forced',
        'CylcModel.C04.direct_compute_sound_partial',
        'CylcModel.C04.direct_compute_sound_guarded',
        'CylcModel.C04.direct_compute_sound_counterexample',
        'CylcModel.C04.direct_release_sound',
        'CylcModel.C04.direct_no_deadlock',
    ]
    statement_note = (
        'partial. (i) Scheduler level, over the frozen Sched model (v1), for all instance graphs satisfying two decidable '
        'hypotheses (every recurrence a strictly ascending point list; no graph child / next parentless instance at an '
        'earlier point = no future triggers; both checked by the driver on every extracted graph) and all op lists of main '
        'loops, submit results and job messages: the specification limit limitAt (RunaheadSpec for count limits Pn: '
        '(n+1)-th earliest point of the recurrences at or after the earliest pooled point, the latest if fewer, capped at '
        'the stop point) characterised without any sorting function; the key lemma (the k smallest of a union of ascending '
        'lists = the k smallest of the union of their first k); a forced compute_runahead yields limitAt of the current '
        'pool in any state; in every reachable state the unforced compute_runahead (recompute / cached sequence points / '
        'early return on unchanged base point / early return at the stop point) yields the same; every released proxy of '
        'every reachable state lies within limitAt of the current pool, and after a main loop within limitAt of the pool '
        'the loop started with; release_runahead_tasks flips is_runahead only at or before runahead_limit_point; other ops '
        'neither release nor change the limit; base point <= limit and after the release step of a main loop no proxy of '
        'the base cycle is held back (no deadlock). Sched v1 has only count limits Pn, no future-trigger offsets, no '
        'commands: (ii) those parts are covered at component level by the Runahead model (compute_runahead, '
        'set_max_future_offset, release decision; count and duration limits, largest future offset among pooled tasks, '
        'stop point, cache, both early returns) for ALL histories of pool changes (the base point may move backward, as '
        'after a manual trigger): forced computation = specification in any state; unforced computation = specification '
        'after any history EXCEPT when the limit sits at the stop point and the base point moved backward '
        '(direct_compute_sound_full is refuted on a reachable state = finding stale-limit-at-stop-point, reproduced on the '
        'real scheduler; proved in full for the repaired early return of findings/C04-fix-1.diff); releases after '
        'pool-change + offset update + computation lie within the specification limit (same exception); the base cycle is '
        'always released (no exception). Not proved / not generated anywhere: the manual-trigger exemption itself '
        '(is_manual_submit tasks are not runahead-limited), the set_stop_point command (re-limiting), reload, restart '
        'loading, Cylc-7 compatibility mode. The global liveness reading of "never prevents the workflow from finishing" '
        'is delivered as the per-loop statement that the earliest cycle is always released (the run-to-completion '
        'argument on top of it belongs to C01/C03).')
    technique = ('inductive invariant over op lists of a Lean scheduler model (one lemma per primitive, lifted with run_inv) '
                 '+ list lemmas for the specification limit + trace correspondence and a trace judge on the real Scheduler')
    trusted = ['the pool snapshots (cycle point, name, is_runahead of every proxy) taken after start-up and after every op',
               'direct cases: the pool stub (fake task proxies with point / tdef.max_future_prereq_offset / is_runahead) on which the '
               'real TaskPool.compute_runahead, set_max_future_offset and release_runahead_tasks run; the real sequence objects '
               '(IntegerSequence / ISO8601Sequence get_first_point, get_next_point: C16/C17) enumerate the recurrence points handed '
               'to the model; datetime points and intervals are converted to seconds']
    unmodelled = SchedProp.unmodelled + [
        'runahead at scheduler level: duration limits and future-trigger offsets (covered at component level only); '
        'nowhere: manual-trigger exemption, set_stop_point re-limiting, reload, restart, Cylc-7 back-compat base point',
    ]
    rule = ('generated integer-cycling workflows (2-6 tasks, 1-3 recurrences of different intervals P1/P2/+P1/P2/R1..., AND/OR '
            'triggers, inter-cycle offsets, optional and custom outputs, runahead P0-P3, final point up to 5 cycles after the '
            'initial one, stop point before the final point in ~30% of the cases, warm starts) driven through the real '
            'Scheduler by a seeded adaptive schedule of main loops, submit results and job messages (with failures, submit '
            'failures, duplicate/stale/out-of-order messages in the "any" kind); the judge evaluates every release between '
            'consecutive pool snapshots against limitAt of the pool of that moment and checks that the base cycle is never '
            'held back; non-trivial = distinct (kind, ending, launch-count class, limit binds?, base point moves?) class per '
            'distinct case. Direct cases: integer and datetime cycling, 1-3 recurrences (P1..P6, offsets, R1, PT3H..P2D, T00...), '
            'limits P0-P4 and durations PT0H..P2D, stop point none / final / inside, 2-7 blocks of (new pool with tasks on several '
            'cycles, some with future offsets P1-P3 / PT3H-P1D, some already released; set_max_future_offset; 1-2 compute_runahead, '
            '15% forced; release_runahead_tasks), base point moving forward, staying, or (12%) backward')
    gen_opts = {'max_span': 5, 'p_stop': 0.3}
    def corpus(self):
        # regression inputs of the component level: datetime duration limit with future offsets and a stop point;
        # limit at the stop point while the base point moves forward (early return must stay correct)
        return [
            {'direct': {'mode': 'datetime', 'icp': '20000101T0000Z', 'fcp': '20000105T0000Z', 'recs': ['P1D', 'PT6H'],
                        'limit': 'PT12H', 'stop': '20000103T0000Z', 'ops': [
                            {'op': 'pool', 'tasks': [['20000101T0600Z', None, True], ['20000101T1200Z', 'PT6H', True],
                                                     ['20000102T0000Z', None, True], ['20000102T0600Z', None, True]]},
                            {'op': 'offset'}, {'op': 'compute', 'force': False}, {'op': 'release'},
                            {'op': 'pool', 'tasks': [['20000102T0000Z', None, False], ['20000102T1800Z', None, True],
                                                     ['20000103T0000Z', None, True], ['20000103T0600Z', None, True]]},
                            {'op': 'offset'}, {'op': 'compute', 'force': False}, {'op': 'release'}]}},
            {'direct': {'mode': 'integer', 'icp': '1', 'fcp': '10', 'recs': ['P1', 'P3'], 'limit': 'P2', 'stop': '5', 'ops': [
                {'op': 'pool', 'tasks': [['3', None, True], ['5', None, True], ['6', None, True]]},
                {'op': 'offset'}, {'op': 'compute', 'force': False}, {'op': 'release'},
                {'op': 'pool', 'tasks': [['4', None, True], ['5', None, True], ['6', None, True]]},
                {'op': 'offset'}, {'op': 'compute', 'force': False}, {'op': 'release'}]}},
        ]

    n_direct_quick = 300
    n_direct_thorough = 6000

    # -- scheduler runs + direct runs of compute_runahead on a pool stub ----------------------
    def gen(self, tier, rng):
        yield from super().gen(tier, rng)
        import random
        n = self.n_direct_quick if tier == 'quick' else self.n_direct_thorough
        base = rng.randrange(1 << 30)
        for k in range(n):
            yield direct.gen_direct(base + k, random.Random)

    def impl_batch(self, inputs):
        # scheduler runs in worker processes (a thread waits for them) while the direct cases run in this process
        import threading
        out = [None] * len(inputs)
        sched = [(k, i) for k, i in enumerate(inputs) if 'direct' not in i]
        box = {}

        def run_sched():
            try:
                box['res'] = SchedProp.impl_batch(self, [i for _k, i in sched])
            except BaseException as exc:      # re-raised in the main thread (Infra = exit 2)
                box['exc'] = exc
        th = threading.Thread(target=run_sched)
        th.start()
        try:
            for k, i in enumerate(inputs):
                if 'direct' in i:
                    out[k] = direct.run_direct(direct.snap_to_sequences(i))
        finally:
            th.join()
        if 'exc' in box:
            raise box['exc']
        for (k, _i), r in zip(sched, box['res']):
            out[k] = r
        return out

    def skip_case(self, inp, raw):
        return False if 'direct' in inp else super().skip_case(inp, raw)

    def driver_input(self, inp, raw):
        if 'direct' not in inp:
            return super().driver_input(inp, raw)
        if 'error' in raw:
            return {'crash': raw['error'].strip().splitlines()[-1][:300]}
        return {'direct': raw['case']}

    def driver_obs(self, inp, raw):
        if 'direct' not in inp:
            return super().driver_obs(inp, raw)
        return {'crash': raw['error'][-1500:]} if 'error' in raw else raw['obs']

    def replay_input(self, inp, driver_inp):
        if 'direct' not in inp:
            return super().replay_input(inp, driver_inp)
        return direct.snap_to_sequences(inp)

    def equal(self, model_out, obs):
        if isinstance(obs, list) and obs and isinstance(obs[0], dict) and 'rl' in obs[0] and 'pool' not in obs[0]:
            return model_out == obs
        if isinstance(obs, list) and not obs:
            return model_out == obs
        return super().equal(model_out, obs)

    def classify(self, inp, obs):
        if 'direct' in inp:
            if isinstance(obs, dict):
                return 'direct/crash'
            d = inp['direct']
            tags = ['direct', d['mode'], 'count' if d['limit'][1:].isdigit() else 'duration']
            if any(t[1] for op in d['ops'] if op['op'] == 'pool' for t in op['tasks']):
                tags.append('offsets')
            if d['stop'] is not None and any(o['rl'] is not None and o['rl'] >= 0 and o.get('ch') is False for o in obs):
                tags.append('early-return')
            if any(o['rel'] for o in obs):
                tags.append('releases')
            return '/'.join(tags)
        base = super().classify(inp, obs)
        if isinstance(obs, dict):
            return base
        tags = [base]
        # the limit actually held something back at some point
        tags.append('binds' if any(t['rh'] for o in obs for t in o['pool']) else 'slack')
        bases = {min(t['p'] for t in o['pool']) for o in obs if o['pool']}
        tags.append('base-moves' if len(bases) > 1 else 'base-fixed')
        return '/'.join(tags)


PROP = C04()
