"""C04  Runahead limit is respected and never deadlocks a completable run."""
from __future__ import annotations

import sys
from pathlib import Path

sys.path.insert(0, str(Path(__file__).resolve().parents[1] / 'sched'))
from prop import SchedProp  # noqa: E402

sys.path.insert(0, str(Path(__file__).resolve().parent))
import _c04_direct as direct  # noqa: E402


class C04(SchedProp):
    id = 'C04'
    props_modules = ['CylcModel.Props.C04']
    theorems = [
        'CylcModel.C04.limitAt_meaning',
        'CylcModel.C04.pointsFrom_spec',
        'CylcModel.C04.nth_of_union',
        'CylcModel.C04.limitAt_bounds',
        'CylcModel.C04.limit_spec_at_recompute',
        'CylcModel.C04.cache_transparent',
        'CylcModel.C04.release_sound',
        'CylcModel.C04.release_sound_loop',
        'CylcModel.C04.release_flips_within_limit',
        'CylcModel.C04.other_ops_keep_limit',
        'CylcModel.C04.no_deadlock_base_le_limit',
        'CylcModel.C04.no_deadlock_base_released',
    ]
    statement_note = (
        'partial: proof over the frozen Sched model (v1), for all instance graphs satisfying two decidable hypotheses '
        '(every recurrence a strictly ascending point list; no graph child / next parentless instance at an earlier '
        'point = no future triggers; both checked by the driver on every extracted graph) and all op lists of main '
        'loops, submit results and job messages. Proved: the specification limit limitAt (RunaheadSpec for count '
        'limits Pn: (n+1)-th earliest point of the recurrences at or after the earliest pooled point, the latest if '
        'fewer, capped at the stop point) characterised without any sorting function; the key lemma (the k smallest '
        'of a union of ascending lists = the k smallest of the union of their first k); a forced compute_runahead '
        'yields limitAt of the current pool in any state; in every reachable state the unforced compute_runahead '
        '(recompute / cached sequence points / early return on unchanged base point / early return at the stop '
        'point) yields the same; every released proxy of every reachable state lies within limitAt of the current '
        'pool, and after a main loop within limitAt of the pool the loop started with; release_runahead_tasks flips '
        'is_runahead only at or before runahead_limit_point; other ops neither release nor change the limit; '
        'base point <= limit and after the release step of a main loop no proxy of the base cycle is held back '
        '(no deadlock). NOT in Sched v1 and therefore not proved (nor generated): duration limits (PT6H ...), '
        'future-trigger offsets (max_future_offset extension of the limit), manually triggered tasks (exemption), '
        'the set_stop_point command (re-limiting), reload (forced recompute after a config change), restart loading, '
        'Cylc-7 compatibility mode (failed tasks ignored for the base point). The global liveness reading of '
        '"never prevents the workflow from finishing" is delivered as the per-loop statement that the earliest '
        'cycle is always released (the run-to-completion argument on top of it belongs to C01/C03).')
    technique = ('inductive invariant over op lists of a Lean scheduler model (one lemma per primitive, lifted with run_inv) '
                 '+ list lemmas for the specification limit + trace correspondence and a trace judge on the real Scheduler')
    trusted = ['the pool snapshots (cycle point, name, is_runahead of every proxy) taken after start-up and after every op']
    unmodelled = SchedProp.unmodelled + [
        'runahead: duration limits, future-trigger offsets (max_future_offset), manual-trigger exemption, '
        'set_stop_point re-limiting, reload, restart, Cylc-7 back-compat base point',
    ]
    rule = ('generated integer-cycling workflows (2-6 tasks, 1-3 recurrences of different intervals P1/P2/+P1/P2/R1..., AND/OR '
            'triggers, inter-cycle offsets, optional and custom outputs, runahead P0-P3, final point up to 5 cycles after the '
            'initial one, stop point before the final point in ~30% of the cases, warm starts) driven through the real '
            'Scheduler by a seeded adaptive schedule of main loops, submit results and job messages (with failures, submit '
            'failures, duplicate/stale/out-of-order messages in the "any" kind); the judge evaluates every release between '
            'consecutive pool snapshots against limitAt of the pool of that moment and checks that the base cycle is never '
            'held back; non-trivial = distinct (kind, ending, launch-count class, limit binds?, base point moves?) class per '
            'distinct case')
    gen_opts = {'max_span': 5, 'p_stop': 0.3}
    n_direct_quick = 400
    n_direct_thorough = 6000

    # -- scheduler runs + direct runs of compute_runahead on a pool stub ----------------------
    def gen(self, tier, rng):
        yield from super().gen(tier, rng)
        import random
        n = self.n_direct_quick if tier == 'quick' else self.n_direct_thorough
        base = rng.randrange(1 << 30)
        for k in range(n):
            yield direct.gen_direct(base + k, random.Random)

    def impl_batch(self, inputs):
        out = [None] * len(inputs)
        sched = [(k, i) for k, i in enumerate(inputs) if 'direct' not in i]
        for (k, _i), r in zip(sched, super().impl_batch([i for _k, i in sched])):
            out[k] = r
        for k, i in enumerate(inputs):
            if 'direct' in i:
                exact = direct.snap_to_sequences(i)
                r = direct.run_direct(exact)
                r['exact'] = exact
                out[k] = r
        return out

    def skip_case(self, inp, raw):
        return False if 'direct' in inp else super().skip_case(inp, raw)

    def driver_input(self, inp, raw):
        if 'direct' not in inp:
            return super().driver_input(inp, raw)
        if 'error' in raw:
            return {'crash': raw['error'].strip().splitlines()[-1][:300]}
        return {'direct': raw['case']}

    def driver_obs(self, inp, raw):
        if 'direct' not in inp:
            return super().driver_obs(inp, raw)
        return {'crash': raw['error'][-1500:]} if 'error' in raw else raw['obs']

    def replay_input(self, inp, driver_inp):
        if 'direct' not in inp:
            return super().replay_input(inp, driver_inp)
        return direct.snap_to_sequences(inp)

    def equal(self, model_out, obs):
        if isinstance(obs, list) and obs and isinstance(obs[0], dict) and 'rl' in obs[0] and 'pool' not in obs[0]:
            return model_out == obs
        if isinstance(obs, list) and not obs:
            return model_out == obs
        return super().equal(model_out, obs)

    def classify(self, inp, obs):
        if 'direct' in inp:
            if isinstance(obs, dict):
                return 'direct/crash'
            d = inp['direct']
            tags = ['direct', d['mode'], 'count' if d['limit'][1:].isdigit() else 'duration']
            if any(t[1] for op in d['ops'] if op['op'] == 'pool' for t in op['tasks']):
                tags.append('offsets')
            if d['stop'] is not None and any(o['rl'] is not None and o['rl'] >= 0 and o.get('ch') is False for o in obs):
                tags.append('early-return')
            if any(o['rel'] for o in obs):
                tags.append('releases')
            return '/'.join(tags)
        base = super().classify(inp, obs)
        if isinstance(obs, dict):
            return base
        tags = [base]
        # the limit actually held something back at some point
        tags.append('binds' if any(t['rh'] for o in obs for t in o['pool']) else 'slack')
        bases = {min(t['p'] for t in o['pool']) for o in obs if o['pool']}
        tags.append('base-moves' if len(bases) > 1 else 'base-fixed')
        return '/'.join(tags)


PROP = C04()
