"""C07F  Cycle bounds / stop point with FUTURE triggers and stop points set by command (sub-check of C07, report_id C07)."""
from __future__ import annotations

import sys
from pathlib import Path

sys.path.insert(0, str(Path(__file__).resolve().parent))
from _fut import FutProp  # noqa: E402
from c07 import expect_from_flow  # noqa: E402  (spec side: bounds / recurrences / stop point read from the flow.cylc text)


class C07F(FutProp):
    id = 'C07F'
    report_id = 'C07'
    drv = 'C07F'
    props_modules = ['CylcModel.Props.C07F']
    theorems = [
        'CylcModel.C07F.no_launch_beyond_stop_point_partial',
        'CylcModel.C07F.beyond_stop_point_held_back',
        'CylcModel.C07F.no_launch_beyond_stop_point_configured',
        'CylcModel.C07F.main_loop_respects_stop_point',
        'CylcModel.C07F.future_prereq_refused',
        'CylcModel.C07F.no_prerequisite_beyond_stop_point',
        'CylcModel.C07F.no_launch_beyond_stop_point_counterexample',
    ]
    statement_note = (
        'partial. Over the Sched3Fut model (Sched2 + future triggers, see C04F), for EVERY instance graph (with or without '
        'future triggers): for every op list in which each cylc stop <point> finds every pooled proxy beyond the new point '
        'unqueued and either runahead-limited, or never submitted and not waiting, or waiting while the limit is above the new '
        'point, and each restart finds no finished proxy with a job beyond the restored stop point (decidable guards '
        'okStopPoint / okRestart evaluated along the run) every state of the run satisfies: the runahead limit does not exceed '
        'the stop point - future-offset extension included -, a pooled proxy beyond the stop point is not queued and cannot '
        'become ready, and no job beyond the stop point is launched (no_launch_beyond_stop_point_partial, '
        'beyond_stop_point_held_back; unconditional for op lists without stop-point commands and restarts: '
        '_configured; per main loop from any state satisfying the invariant: main_loop_respects_stop_point). The unguarded '
        'statement (no_launch_beyond_stop_point_full, = the second sentence of C07 as written) is FALSE for the model and for '
        'cylc-flow: no_launch_beyond_stop_point_counterexample = recorded finding queued-before-stop-point of C43. The '
        'future-trigger exception as spawn_task documents it: an instance at or before the stop point with a prerequisite '
        'atom beyond it is refused whatever else holds (future_prereq_refused), so as long as the stop point is not moved no '
        'pooled proxy at or before the stop point waits on anything beyond it (no_prerequisite_beyond_stop_point: run '
        'invariant for all graphs and all op lists without stop-point commands / restart) - the task can neither stall the '
        'workflow nor keep it from shutting down. The first sentence of C07 (bounds / on-sequence) is judged on every trace '
        '(clause B1, as C07) and proved for Sched v1 in C07; it is not re-proved here. Not in the model: manual triggers '
        '(is_manual_submit exemption), reload, several flows.')
    technique = ('inductive invariants over op lists of a Lean scheduler model with future triggers and stop-point commands '
                 '(Sched3Fut) + trace correspondence with the real Scheduler + a monitor judge on the observed traces')
    trusted = ['the C07 spec side computes recurrence points from the six recurrence spellings of the generator '
               '(P1, R1, P2, +P1/P2, R1/$, R1/+P1) with its own arithmetic',
               'the add_to_pool log, the launch log, the stop point in effect and the pool snapshot taken when '
               'TaskPool.is_stalled answers yes are read off the real scheduler by the harness']
    rule = ('the generated runs of C04F (integer-cycling workflows with FUTURE offsets +P1/+P2 incl. one-off recurrences at the '
            'final cycle point, configured stop points, warm starts; kinds fut / futany / futcmd - the last with cylc stop '
            '<point> at a third of the commands, holds, pause, stop + restart) through the real Scheduler; every add_to_pool '
            'call, pool snapshot, job launch, stall report (with the pool of that moment) and the stop point in effect are '
            'judged: B1 bounds / recurrence points read from the flow.cylc text, B2 no launch beyond the stop point in '
            'effect, B3 no release beyond it, B4 no instance at or before it added with a prerequisite beyond it, B5 no stall '
            'reported without a reason at or before it; non-trivial = the workflow has a future trigger; classes as C04F')

    def driver_input(self, inp, raw):
        d = super().driver_input(inp, raw)
        if 'crash' not in d:
            d['expect'] = expect_from_flow(inp['flow'])
        return d


PROP = C07F()
