"""C43  Stop point, stop task and stop modes behave as documented."""
from __future__ import annotations

import sys
from pathlib import Path

sys.path.insert(0, str(Path(__file__).resolve().parents[1] / 'sched'))
from prop import SchedProp  # noqa: E402


class C43(SchedProp):
    id = 'C43'
    props_modules = ['CylcModel.Props.C43']
    theorems = []
    kinds = ('cmd',)
    n_quick = 48
    n_thorough = 600
    # stop-heavy command mix (additive generator options 'cmds' / 'p_cmd' / 'restarts')
    gen_opts = {
        'cmds': ['stop_point', 'stop_point', 'stop_point', 'stop_task', 'stop_task', 'stop_clean', 'stop_now',
                 'stop_now_now', 'pause', 'resume', 'hold', 'release', 'set_hold_point', 'release_hold_point'],
        'p_cmd': 0.15,
        'restarts': [1, 2, 3],
        'p_stop': 0.3,
    }


PROP = C43()
