"""C43  Stop point, stop task and stop modes behave as documented."""
from __future__ import annotations

import sys
from pathlib import Path

sys.path.insert(0, str(Path(__file__).resolve().parents[1] / 'sched'))
from prop import SchedProp  # noqa: E402


class C43(SchedProp):
    id = 'C43'
    also = ['C43R']
    props_modules = ['CylcModel.Props.C43']
    theorems = [
        'CylcModel.C43.stop_point_submit_counterexample',
        'CylcModel.C43.stop_point_submit_retry_counterexample',
        'CylcModel.C43.stop_point_submit_partial',
        'CylcModel.C43.stop_point_submit_configured',
        'CylcModel.C43.stop_point_submit_loop',
        'CylcModel.C43.stop_point_shutdown',
        'CylcModel.C43.auto_shutdown_sound',
        'CylcModel.C43.auto_shutdown_counterexample',
        'CylcModel.C43.db_stop_point_inv',
        'CylcModel.C43.stop_point_recorded',
        'CylcModel.C43.stop_point_persisted',
        'CylcModel.C43.restart_stop_point',
        'CylcModel.C43.stop_point_survives_restart',
        'CylcModel.C43.stop_point_forgotten',
        'CylcModel.C43.stop_task_stops',
        'CylcModel.C43.stop_task_partial',
        'CylcModel.C43.stop_task_counterexample',
        'CylcModel.C43.stop_task_run_counterexample',
        'CylcModel.C43.stop_task_flag_only_by_messages',
        'CylcModel.C43.clean_stop_waits',
        'CylcModel.C43.clean_stop_when_idle',
        'CylcModel.C43.no_launch_while_stopping',
        'CylcModel.C43.stop_now_immediate',
        'CylcModel.C43.stop_now_keeps_jobs',
        'CylcModel.C43.restart_keeps_jobs',
    ]
    statement_note = (
        'partial: proofs over the Sched2 model (scheduler core + holds, stop modes / stop point / stop task, pause, clean '
        'restart) for all instance graphs and all op lists. (1) stop_point_submit: the full statement "no job beyond the '
        'stop point is launched" is FALSE for the code and the model (two proved counterexamples = findings '
        'queued-before-stop-point and retry-beyond-stop-point); proved: the inductive stop-point invariant SPInv (runahead '
        'limit <= stop point; no proxy beyond the stop point is queued or can become ready) and "no launch beyond the stop '
        'point" for every op list in which each `cylc stop <point>` finds every pooled proxy beyond the new point unqueued '
        'and not yet released (okStopPoint) and each restart finds no finished-job proxy beyond the restored stop point '
        '(okRestart); unconditionally for op lists without stop-point/restart ops. No manual trigger exists in Sched2, so '
        'the "unless manually triggered" exemption is not modelled. (2) stop_point_shutdown: from the state in which the main '
        'loop decides (after its runahead release): nothing at or before the stop point remains + everything beyond is '
        'waiting and runahead-limited + not stalled/paused => AUTOMATIC shutdown and DB stopcp cleared; conversely an '
        'AUTOMATIC shutdown not caused by the stop task implies no preparing/submitted/running proxy and every waiting proxy '
        'runahead-limited; the full converse "only once nothing at or before the stop point remains" is FALSE (proved '
        'counterexample = finding stale-runahead-limit: the limit stays at a lowered stop point after it is raised again). '
        '(3) forgotten/persisted: DB stopcp = current stop point whenever recorded (all runs); it changes only by `cylc stop '
        '<point>` or by the automatic shutdown; restart restores DB stopcp, else flow.cylc, else the final point (graph '
        'hypothesis WF: initial stop point = configured-or-final, checked by the driver on every graph). (4) stop task: the '
        'main loop after the finished-flag is raised stops; the flag is raised only by remove_if_complete, for the stop task '
        'in a FINAL status - the full statement "after that task succeeds" is false (proved counterexample = finding '
        'stop-task-not-succeeded); that the flag is raised only during message processing is proved at step level, not that '
        'the proxy is still final at the end of the step. (5) clean stop stops only without submitted/running proxies and '
        'does once idle; nothing is launched while stopping or paused. (6) stop --now/--now --now stops at the next main loop '
        'and leaves every instance with its status and submit number; a restart finds every non-preparing instance again '
        'under the same status and submit number. Not in the model: kill mode, stop at a wall-clock time, stop of a flow, '
        'event timers / process-pool draining at shutdown, reload')
    technique = ('inductive invariants over guarded op lists of a Lean scheduler model (one lemma per primitive, control-frame '
                 'lemmas) + proved counterexamples + trace correspondence with the real Scheduler under stop commands and restarts')
    trusted = ['SQLite (the workflow_params rows stopcp / stop_task are read back after each shutdown, before the restart)']
    rule = ('generated integer-cycling workflows (2-6 tasks, 1-3 recurrences, AND/OR triggers, inter-cycle offsets, retries, '
            'optional/custom outputs, runahead P0-P3, configured stop points in ~30%) driven through the real Scheduler by a '
            'seeded adaptive schedule of main loops, submit results and job messages, with a stop-heavy command mix (p=0.15 per '
            'step: stop <point> x3, stop <task> x2, stop clean / --now / --now --now, pause, resume, hold, release, hold point) '
            'and 1-3 stop+restart cycles; kind cmd = jobs complete their required outputs, kind cmdany = failures, submit '
            'failures, missing outputs, duplicate/stale/out-of-order messages as well; every observation of the real scheduler '
            'is judged by the S1-S6 monitor of Drv/C43.lean; non-trivial = distinct (kind, ending, launch-count class, stop '
            'commands used, restarts) class per distinct case')
    kinds = ('cmd', 'cmdany')
    n_quick = 48
    n_thorough = 640
    # stop-heavy command mix (additive generator options 'cmds' / 'p_cmd' / 'restarts')
    gen_opts = {
        'cmds': ['stop_point', 'stop_point', 'stop_point', 'stop_task', 'stop_task', 'stop_clean', 'stop_now',
                 'stop_now_now', 'pause', 'resume', 'hold', 'release', 'set_hold_point', 'release_hold_point'],
        'p_cmd': 0.15,
        'restarts': [1, 2, 3],
        'p_stop': 0.3,
    }
    unmodelled = SchedProp.unmodelled[:2] + [
        'datetime cycling, xtriggers, clock-expiry, queue limits, several flows, manual triggers, reload, kill mode, '
        'wall-clock stop, stop of a flow, event timers and process-pool draining at shutdown',
    ]

    # The in-process restart occasionally fails on a loaded machine with threading.BrokenBarrierError (the server
    # thread of the new Scheduler does not reach its start barrier in time).  That is an infrastructure failure of the
    # harness set-up, not a behaviour of the scheduler: such cases are re-run, and dropped if it happens again.
    FLAKE = 'BrokenBarrierError'

    def impl_batch(self, inputs):
        res = super().impl_batch(inputs)
        for _attempt in range(2):
            again = [k for k, r in enumerate(res) if self.FLAKE in str(r.get('error', ''))]
            if not again:
                break
            redo = super().impl_batch([inputs[k] for k in again])
            for k, r in zip(again, redo):
                res[k] = r
        return res

    def skip_case(self, inp, raw):
        if self.FLAKE in str(raw.get('error', '')):
            self.flaky = getattr(self, 'flaky', 0) + 1
            return True
        return super().skip_case(inp, raw)

    def classify(self, inp, obs):
        base = super().classify(inp, obs)
        if base == 'crash' or not isinstance(obs, list):
            return base
        tags = [base]
        stops = {o['stop'] for o in obs if o.get('stop')}
        for key, tag in (('AUTOMATIC', 'auto'), ('REQUEST(CLEAN)', 'clean'), ('REQUEST(NOW)', 'now'),
                         ('REQUEST(NOW-NOW)', 'nownow')):
            if key in stops:
                tags.append(tag)
        sps = {o.get('stop_point') for o in obs}
        if len(sps) > 1:
            tags.append('sp*%d' % min(len(sps), 3))
        if any(o.get('stop_task') for o in obs):
            tags.append('task')
        n = sum(1 for o in obs if o.get('db_shutdown') is not None)
        if n:
            tags.append('restart%d' % min(n, 3))
        return '/'.join(tags)

    def neighbours(self, inp, rng):
        # same workflow, other schedules / command histories
        out = []
        for k in range(6):
            d = dict(inp)
            d['ops'] = None
            d['seed'] = rng.randrange(1 << 30)
            d['id'] = f"{inp.get('id', 'n')}n{k}"
            out.append(d)
        return out


PROP = C43()
