"""C32  Clock expiry only expires eligible tasks."""
from __future__ import annotations

import sys
from pathlib import Path

sys.path.insert(0, str(Path(__file__).resolve().parents[1] / 'sched'))
from prop import SchedProp, run_workers  # noqa: E402
from core import Infra  # noqa: E402

# -- hand-written histories on the hourly grid (point p = 2000-01-01T00:00Z + p h; times in seconds) -------------

_HEAD = '''[scheduler]
    UTC mode = True
    cycle point format = CCYYMMDDThhmmZ
    allow implicit tasks = True
[scheduling]
    initial cycle point = 20000101T0100Z
    final cycle point = %s
    runahead limit = P1
    [[special tasks]]
        clock-expire = %s
    [[graph]]
%s[runtime]
    [[root]]
        [[[simulation]]]
            default run length = PT0S
%s'''


def _flow(fcp, expire, graph, runtime=''):
    sections = ''.join(f'        {rec} = """\n' + ''.join(f'            {ln}\n' for ln in lines) + '        """\n'
                       for rec, lines in graph)
    return _HEAD % (fcp, expire, sections, runtime)


_L = {'op': 'loop'}
_R = {'op': 'restart'}


def _tick(dt):
    return {'op': 'tick', 'dt': dt}


def _cmd(name, **args):
    return {'op': 'cmd', 'name': name, 'args': args}


def _trig(task):
    return _cmd('force_trigger_tasks', tasks=[task], flow=[], flow_wait=False)


def _sub(task, sn=1, ok=True):
    return {'op': 'subres', 'task': task, 'ok': ok, 'sn': sn}


def _msg(task, text, sn=1):
    return {'op': 'msg', 'task': task, 'msg': text, 'sn': sn, 'sev': 'CRITICAL' if text == 'failed' else 'INFO'}


def _case(cid, flow, offsets, now0, ops, kind='exp', restarts=0, judge_only=False, variants=None):
    case = {'id': cid, 'flow': flow, 'seed': 0, 'opts': {}, 'policy': {'outcomes': {}, 'restarts': restarts},
            'ops': ops, 'kind': kind, 'dt': {'now0': now0, 'unit': 3600},
            'spec_exp': {'offsets': offsets, 'unit': 3600}}
    if judge_only:
        case['judge_only'] = True
    if variants:
        case['spec_exp']['variants'] = variants
    return case


def _reload(flow, tag, inloop=False):
    return {'op': 'reload', 'flow': flow, 'tag': tag, 'inloop': inloop}


_RETRY = '    [[a]]\n        execution retry delays = 2*PT0S\n'
# a(PT1H) expires at 02:00 for point 01:00; `a:expire? => b`, `a => c`
_ABC = _flow('20000101T0300Z', 'a(PT1H)', [('PT1H', ['a:expire? => b', 'a => c'])])
# an expired task that stays in the pool (expiry not in the completion expression), with retries
_KEEP = _flow('20000101T0100Z', 'a(PT1H)', [('R1', ['a => c'])], _RETRY)
# a and b both due; the expiry of a removes b by suicide trigger before the loop reaches b
_GHOST = _flow('20000101T0100Z', 'a(PT0M), b(PT0M)', [('R1', ['a:expire? => !b', 'b', 'a:expire? => c'])])

# one slot in the default queue; 1/y waits for 1/a and 1/w, 1/z and 1/y are clock-expire tasks (expiry 02:00)
_QUEUE = _flow('20000101T0100Z', 'y(PT1H), z(PT1H)', [('R1', ['a & w => y', 'z'])]).replace(
    '    [[special tasks]]\n', '    [[queues]]\n        [[[default]]]\n            limit = 1\n    [[special tasks]]\n')
# 1/x (held, so that it stays waiting) with a clock-expire offset that a reload lengthens from PT1H to PT3H
_RL1 = _flow('20000101T0100Z', 'x(PT1H)', [('R1', ['x'])])
_RL3 = _flow('20000101T0100Z', 'x(PT3H)', [('R1', ['x'])])

# offsets of a day and more: 1/a(P1D) expires at 01:00 + 24 h, 1/b(P1DT6H) at + 30 h, 1/d(P1W) a week later
_DAYS = _flow('20000101T0100Z', 'a(P1D), b(P1DT6H), d(P1W)', [('R1', ['a:expire? => c', 'b', 'd'])])

_CORPUS = [
    # the clock passes the expiry time of 1/a exactly (tick to 02:00): it expires, b is spawned with its
    # prerequisite satisfied, c is not; 2/a is not due yet
    _case('c32-basic', _ABC, {'a': 3600}, 3600, [_tick(3599), _L, _tick(1), _L, _L, _tick(3600), _L, _L]),
    # 1/a is due but manually triggered before the next main loop: it runs instead of expiring
    _case('c32-manual', _ABC, {'a': 3600}, 3600,
          [_cmd('pause'), _tick(7200), _trig('1/a'), _L, _sub('1/a'), _msg('1/a', 'started'), _L,
           _msg('1/a', 'succeeded'), _L, _cmd('resume'), _L, _L]),
    # held tasks expire too; a task that failed once and waits for its retry expires; late messages of the
    # old job bring it back (running -> failed -> retry) and the clock expires it again before it is released
    _case('c32-retry-late-messages', _KEEP, {'a': 3600}, 3600,
          [_L, _sub('1/a'), _msg('1/a', 'started'), _L, _tick(7200), _msg('1/a', 'failed'), _L, _L, _L,
           _msg('1/a', 'started'), _L, _msg('1/a', 'failed'), _L, _L, _L]),
    _case('c32-held', _ABC, {'a': 3600}, 3600, [_cmd('hold', tasks=['1/a', '2/a']), _L, _tick(3600), _L, _tick(3600), _L, _L]),
    # the expiry of 1/a removes 1/b (suicide trigger) while clock_expire_tasks is walking its task list: the
    # removed object is expired as a transient (its output reaches the DB, nothing is spawned)
    _case('c32-transient', _GHOST, {'a': 0, 'b': 0}, 7200, [_L, _L, _L]),
    # expired (incomplete) task across a stop + restart
    _case('c32-restart', _KEEP, {'a': 3600}, 9000,
          [_L, _cmd('stop', mode='REQUEST(NOW)'), _L, _R, _L, _tick(600), _L], kind='expcmd', restarts=1),
    # offsets of a day or more (held, so that the tasks stay waiting): nothing expires after 2 h or 23 h 59 min 59 s;
    # 1/a expires exactly 24 h after its cycle point, 1/b 6 h later, 1/d after a week
    _case('c32-day-offsets', _DAYS, {'a': 86400, 'b': 108000, 'd': 604800}, 3600,
          [_cmd('hold', tasks=['1/a', '1/b', '1/d']), _tick(7200), _L, _tick(79199), _L, _tick(1), _L, _L, _tick(21600), _L,
           _tick(400000), _L, _tick(100000), _L, _L]),
    # (judged on the real trace only) 1/a runs and finishes, 1/w takes the only queue slot and keeps it; 1/y (spawned
    # by 1/a, not queued) is triggered: the full queue can only queue it; the clock passes the expiry time of 1/y
    # and 1/z: 1/z expires, the triggered 1/y does not, and runs when 1/w has finished
    _case('c32-trigger-queued-by-limit', _QUEUE, {'y': 3600, 'z': 3600}, 3600,
          [_L, _sub('1/a'), _msg('1/a', 'started'), _msg('1/a', 'succeeded'), _L, _L, _sub('1/w'),
           _msg('1/w', 'started'), _L, _trig('1/y'), _L, _tick(7200), _L, _L, _msg('1/w', 'succeeded'), _L, _L, _L],
          kind='expq', judge_only=True),
    # (judged on the real trace only) the offset of the pooled, waiting 1/x is lengthened by a reload: it must not
    # expire at the old time (02:00), only at the new one (04:00)
    _case('c32-reload-lengthens-offset', _RL1, {'x': 3600}, 3600,
          [_cmd('hold', tasks=['1/x']), _L, _reload(_RL3, 'long'), _L, _tick(5400), _L, _L, _tick(5400), _L, _L],
          kind='exprl', judge_only=True, variants={'same': {'x': 3600}, 'long': {'x': 10800}}),
    # ... and shortened while the old time is still ahead: it expires at the new time
    _case('c32-reload-shortens-offset', _RL3, {'x': 10800}, 3600,
          [_cmd('hold', tasks=['1/x']), _L, _tick(1800), _reload(_RL1, 'short', inloop=True), _L, _tick(1800), _L, _L],
          kind='exprl', judge_only=True, variants={'short': {'x': 3600}}),
]

# the witness of the recorded finding (also the probe of translate()): a job message `expired` from a running task
_WITNESS = _case('c32-job-message-expired', _ABC, {'a': 3600}, 3600,
                 [_L, _sub('1/a'), _msg('1/a', 'started'), _L, _msg('1/a', 'expired'), _L, _L])


def _run_robust(cases, workers):
    """run_workers; cases whose scheduler did not come up (server thread start-up time-out on an overloaded
    machine) are run again on their own"""
    import prop as sprop
    res = run_workers(cases, workers)
    for _attempt in range(2):
        again = [k for k, r in enumerate(res) if 'error' in r and (
            'BrokenBarrierError' in r['error'] or 'TimeoutError' in r['error'])]
        if not again:
            break
        for k, r in zip(again, run_workers([cases[k] for k in again], 2)):
            res[k] = r
    return res


class C32(SchedProp):
    id = 'C32'
    props_modules = ['CylcModel.Props.C32']
    theorems = [
        'CylcModel.C32.expire_guard_partial',
        'CylcModel.C32.expire_guard_live',
        'CylcModel.C32.expire_guard_counterexample',
        'CylcModel.C32.expire_guard_code',
        'CylcModel.C32.expired_inert',
        'CylcModel.C32.expired_never_submits',
        'CylcModel.C32.expiry_unqueues',
        'CylcModel.C32.expire_children_only',
        'CylcModel.C32.expire_children_logged',
        'CylcModel.C32.expire_children_satisfied',
    ]
    statement_note = (
        'proof over the Sched3Exp model (Sched2 + virtual clock + clock_expire_tasks / clock_expire / process_message(expired) '
        '/ state_reset(expired) / spawning on the expired output + cylc trigger of one pooled task), for every instance '
        'graph and every op list; every transition into `expired` is logged by the one model function that performs it '
        '(the log of each op is compared with the expiry events of the real scheduler). expire_guard: every logged expiry '
        'was a waiting, not manually triggered proxy with an expiry time that the clock had reached - proved for all '
        'histories without a job message `expired` (expire_guard_partial, inductive invariant over all primitives) and for '
        'all histories once such messages are ignored (expire_guard_live); PARTIAL on that point: the unrestricted statement '
        '(expire_guard_full) is false for the code as found - a job message with the text `expired` expires a running task '
        'before its time (expire_guard_counterexample, a concrete run; the real scheduler does the same: finding '
        'job-message-expired; the behaviour flag is probed from the live code on every run, expire_guard_code is the '
        'statement for whichever code is under test). expired_never_submits: in every state of every run an expired proxy '
        'is not queued, not manual, not waiting on job preparation, not in tasks_to_trigger_now (expired_inert), and every '
        'job launch of every run is made by a main loop for a proxy that was pooled and not expired when that loop handed it '
        'to job submission, i.e. after the clock expiry of the same loop (expired_never_submits; same hypothesis on job '
        'messages). NOT proved: that an instance never launches *after* an earlier expiry when stale job messages move it '
        'out of the expired state again (expired -> running -> failed -> retry): the model and the real scheduler then '
        're-expire it before the next release because the clock does not go back - checked by the judge on every trace and '
        'by a hand-written history, not a theorem. expire_children: after the expired output of a pooled proxy is '
        'processed every pooled key was pooled before, is a child of that output, or is the next parentless instance of a '
        'proxy removed meanwhile by a suicide trigger (expire_children_only, all states); along every run, with no '
        'hypothesis on the history, every logged expiry of a pooled proxy reports as added only children of its expired '
        'output or the next parentless instance of a task it reports as removed (expire_children_logged - the rule the '
        'judge applies to the real events); each child reached by the spawn_on_output step has its prerequisite atoms on '
        'the output satisfied (expire_children_satisfied, one step, all states); that no child of the output is skipped, '
        'and that a satisfied child stays satisfied until the event ends, is checked by the judge on the traces, not proved. '
        'OUTSIDE the model (no theorem, judged on the real trace only, kinds expq / exprl): limited internal queues - a '
        'manual trigger that a full queue can only queue - and cylc reload changing clock-expire offsets; there the judge '
        'decides "manually triggered" from the trigger ops (not from the is_manual_submit flag alone) and the expiry time '
        'from the offsets of the definition in force after each reload (not from TaskProxy.expire_time)')
    technique = ('inductive invariants over op lists of a Lean scheduler model (Sched3Exp = Sched2 + clock expiry, virtual '
                 'clock, single-task trigger) + trace correspondence with the real Scheduler on datetime-cycling workflows '
                 'under a virtual clock + a monitor judge on the observed traces')
    trusted = [
        'the virtual clock: `time` of cylc.flow.task_proxy (the only clock TaskProxy.clock_expire reads) is replaced by a '
        'harness clock that only tick ops advance; cycle points live on an hourly grid from 2000-01-01T00:00Z (UTC mode), '
        'mapped to integers for the model',
        'expiry events are observed by wrapping TaskProxy.state_reset (every status change into `expired` of a pool member) '
        'and TaskEventsManager.spawn_children (what processing the `expired` output adds to / removes from the pool)',
        'the expiry time of an instance is an input of the model (TaskProxy.expire_time read off the real proxies); the judge '
        'recomputes it from the generated offsets as cycle point + offset',
    ]
    unmodelled = SchedProp.unmodelled[:2] + [
        'limited internal queues (queue_or_trigger against a full queue) and cylc reload are NOT in the Sched3Exp model: runs '
        'of the kinds expq and exprl (and three hand-written histories) go through the real scheduler and the judge only, no '
        'model comparison is made for them (the driver answers {"judge_only": true}; counted as judged, not as compared)',
        'xtriggers, several flows, the experimental expire-triggers mode; cylc trigger only for one '
        'pooled task in the default flow (group triggers, --flow options: C28); a manual trigger followed by stop + restart '
        'is modelled through the is_manual_submit column written with the task pool (restart does not resubmit in the runner)',
        'expiry offsets that are not whole seconds / calendars other than Gregorian UTC; sequences are listed 12 h beyond '
        'the final cycle point (ISO8601 sequences are not cut off there when compute_runahead walks them)',
    ]
    rule = ('generated datetime-cycling workflows (2-6 tasks, 1-3 hourly / two-hourly / one-off recurrences, AND/OR and '
            'inter-cycle triggers, suicide triggers, retries, runahead P0-P3) in which about half of the tasks are '
            'clock-expire tasks (offsets -PT1H .. PT3H and P1D, P2D, P1DT6H, PT36H, P1W; the seconds of each offset are computed '
            'by the generator with its own ISO8601 duration arithmetic from the text written into flow.cylc) with triggers off their expired output (`t:expire? => u`, '
            '`t[-PT1H]:expire? => u`, `t:expire? => !u`), driven through the real Scheduler under a virtual clock by a seeded '
            'adaptive schedule of main loops, clock ticks (random sizes, exactly to / one second short of the next pending '
            'expiry time - also of the expiry times tasks had under a definition replaced by a reload), submit results and '
            'job messages; six kinds in rotation: exp (complete outcomes), expany (failures, submit failures, duplicate / '
            'stale messages), expcmd (+ hold / release / hold point / stop point / pause / stop + restart), exptrig (+ cylc '
            'trigger of single waiting tasks, preferably ones whose expiry is pending or due), expq (limited queues with '
            'limits 1-2, most tasks clock-expire, triggers of waiting tasks that are not queued - a full queue can only queue '
            'them - with the clock starting before the first expiry; judged only), exprl (cylc reload, between and inside '
            'main loops, with 3-4 definitions that differ only in the clock-expire declaration: offsets lengthened / '
            'shortened / dropped / added; judged only); nine hand-written histories (exact-time expiry, manual trigger of a '
            'due task, retry + late messages, held tasks, expiry of an object removed earlier in the same loop, restart, '
            'trigger queued by a full queue while the expiry time passes, reload lengthening / shortening the offset of a '
            'pooled task) and the witness of the recorded finding run first; '
            'non-trivial = at least one task expired or a due task was protected by a manual '
            'trigger; classes = (kind, number of expiries, features of the expiries)')
    kinds = ('exp', 'expany', 'expcmd', 'exptrig', 'expq', 'exprl')
    n_quick = 78
    n_thorough = 800

    def setup(self):
        self.flags = None

    def translate(self):
        raws = _run_robust([dict(_WITNESS, id='c32-probe'), dict(_CORPUS[2], id='c32-probe2')], 2)
        for raw in raws:
            if 'error' in raw:
                raise Infra(f'C32 probe run failed: {raw["error"][-400:]}')
        # did the job message `expired` move the running task 1/a into `expired`?
        expires = any(e['p'] == 1 and e['n'] == 'a' for ob in raws[0]['obs'] for e in ob['exp'])
        # (history c32-retry-late-messages) does the late `started` message bring the expired 1/a back to running?
        revived = any(tr[:4] == [1, 'a', 'expired', 'running'] for ob in raws[1]['obs'] for tr in ob['trans'])
        self.flags = {'jobMsgExpires': expires, 'expiredIgnoresMsgs': not revived}
        lb = {True: 'true', False: 'false'}
        return {'ExpFlags.lean': (
            '/- GENERATED by harness/props/c32.py translate() from the live source. Do not edit. -/\n'
            'namespace CylcModel.ExpFlags\n'
            '/-- a job message (received / polled) with the text `expired` is processed like the scheduler\'s own clock-expiry\n'
            'message: the task becomes `expired` whatever its state (true: code as found); such a message is ignored\n'
            '(false: repaired, findings/C32-proposal-1.diff) -/\n'
            f'def jobMsgExpires : Bool := {lb[expires]}\n'
            '/-- job messages (received / polled) for a task in the `expired` state are ignored (true: repaired,\n'
            'findings/C32-fix-1.diff); they are processed like for any other state, so the `started` message of an earlier job\n'
            'brings an expired task back to `running` (false: code as found) -/\n'
            f'def expiredIgnoresMsgs : Bool := {lb[not revived]}\n'
            'end CylcModel.ExpFlags\n')}

    def corpus(self):
        return [dict(c) for c in _CORPUS]

    def gen(self, tier, rng):
        import gen as sgen
        n = self.n_quick if tier == 'quick' else self.n_thorough
        base = rng.randrange(1 << 30)
        for k in range(n):
            yield sgen.gen_case(base + k, self.kinds[k % len(self.kinds)], self.gen_opts)

    def impl_batch(self, inputs):
        return _run_robust(inputs, self.workers)

    def skip_case(self, inp, raw):
        if 'error' in raw and ('BrokenBarrierError' in raw['error'] or 'TimeoutError' in raw['error']):
            raise Infra('scheduler did not start / stop within its time-out (overloaded machine?) '
                        f'in case {inp.get("id")}')
        return super().skip_case(inp, raw)

    def driver_input(self, inp, raw):
        d = super().driver_input(inp, raw)
        if 'crash' not in d:
            # the expiry offsets (of the start-up definition and of every reload variant) and the start time come from
            # the generated case, not from the scheduler
            d['spec'] = inp.get('spec_exp')
            d['dt'] = inp.get('dt')
            if inp.get('judge_only'):
                # limited queues / reload: outside the Sched3Exp model, judged on the real trace only
                d['judge_only'] = True
        return d

    def equal(self, model_out, obs):
        if model_out == {'judge_only': True}:
            return True
        return super().equal(model_out, obs)

    def _replay_input(self, inp, driver_inp):
        d = super()._replay_input(inp, driver_inp)
        return d

    def classify(self, inp, obs):
        if isinstance(obs, dict):
            return 'crash'
        evs = [e for ob in obs for e in ob.get('exp', [])]
        exp_at = {}
        tags = [inp.get('kind', '?')]
        # a due, waiting task protected by a manual trigger
        protected = any(ob.get('man') for ob in obs)
        if not evs and not protected:
            return None
        tags.append('exp0' if not evs else 'exp<4' if len(evs) < 4 else 'exp>=4')
        if protected:
            tags.append('manual')
        for name, test in (('exact', lambda e: e['now'] == e['exp']), ('held', lambda e: e['held']),
                           ('queued', lambda e: e['q']), ('runahead', lambda e: e['rh']),
                           ('after-try', lambda e: e['sn'] > 0), ('spawns', lambda e: bool(e['added'])),
                           ('kids-pooled', lambda e: bool(e['pooled_kids'])), ('suicide', lambda e: len(e['removed']) > 1),
                           ('transient', lambda e: e['tr'])):
            if any(test(e) for e in evs):
                tags.append(name)
        ops = inp.get('ops') or []
        if any(o.get('op') == 'restart' for o in ops):
            tags.append('restart')
        if inp.get('judge_only'):
            tags.append('judged-only')
        # a manually triggered task that sits in a queue (the trigger could only queue it)
        if any(set(map(tuple, ob.get('man', []))) & {(t['p'], t['n']) for t in ob['pool'] if t['q']} for ob in obs):
            tags.append('manual-queued')
        if any(o.get('op') == 'reload' and not o.get('skipped') and not o.get('failed') and o.get('tag') != 'same'
               for o in ops):
            tags.append('offsets-reloaded')
        return '/'.join(tags)


PROP = C32()
