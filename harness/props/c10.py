"""C10  Stale, duplicate and out-of-order job messages cannot corrupt state.

Same cases as C09 (component enumeration + generated schedules with noise and poll results); the judge
of Drv/C10.lean evaluates the stale / backward-poll / convergence clauses on the real message log."""
from __future__ import annotations

import sys
from pathlib import Path

sys.path.insert(0, str(Path(__file__).resolve().parent))
from c09 import MsgProp, C09  # noqa: E402


class C10(MsgProp):
    id = 'C10'
    props_modules = ['CylcModel.Props.C10']
    theorems = [
        'CylcModel.C10.stale_ignored',
        'CylcModel.C10.stale_ignored_sched',
        'CylcModel.C10.stale_poll_counterexample',
        'CylcModel.C10.stale_poll_ignored',
        'CylcModel.C10.backward_polls',
        'CylcModel.C10.backward_polls_sched',
        'CylcModel.C10.converges_succeeded',
        'CylcModel.C10.converges_failed',
        'CylcModel.C10.converges_submit_failed',
        'CylcModel.C10.late_poll_counterexample',
    ]
    statement_note = (
        'partial proof. stale_ignored: a received message of another (so also an older) submit number changes nothing - '
        'for Msg.step (every task, proxy, text) and for Sched.processMessage (every instance graph and state: the whole '
        'state is unchanged, no poll). Poll results: process_message itself does not look at their submit number '
        '(stale_full, stale_poll_counterexample), the protection is the dispatch of jobs-poll output lines by the '
        'current submit number - modelled in Msg.stepX and proved: stale_poll_ignored. backward_polls: a received '
        'message of the current job announcing a status behind the current one (lifecycle position: waiting < '
        'preparing < submitted = submit-failed < running < succeeded = failed) requests a poll and leaves the status '
        'unchanged - for Msg.step and, through the simulation pm_sim, for Sched.processMessage on graphs without '
        'self-children in states without transient objects. Convergence, proved for Msg.step over ARBITRARY delivery '
        'lists (any order, duplicates, stale messages, poll results) followed by the poll result of the actual '
        'outcome: converges_succeeded (no failure event delivered: status succeeded, submitted/started/succeeded '
        'complete, all earlier outputs kept, no poll pending), converges_failed (no submission failure delivered: '
        'failed with the try counter unchanged when no retry was left, waiting with exactly one more try when one '
        'was - duplicates cannot burn retries - or the proxy already left the pool), converges_submit_failed '
        '(likewise for submission retries). Without the final truthful poll result the claim is FALSE: '
        'late_poll_counterexample (a poll result overtaken by succeeded is believed; finding late-poll). Partial: the '
        'poll itself is the environment (the model assumes the requested poll returns the true outcome); convergence '
        'is proved for the per-task function and tied to Sched.processMessage message by message (pm_sim), not '
        'restated over Sched.run; the outputs of the outcome are bounded below (submitted, started, outcome, '
        'everything completed earlier), not characterised exactly')


PROP = C10()
