"""C10  Stale, duplicate and out-of-order job messages cannot corrupt state.

Same cases as C09 (component enumeration + generated schedules with noise and poll results); the judge
of Drv/C10.lean evaluates the stale / backward-poll / convergence clauses on the real message log."""
from __future__ import annotations

import sys
from pathlib import Path

sys.path.insert(0, str(Path(__file__).resolve().parent))
from c09 import MsgProp, C09  # noqa: E402


class C10(MsgProp):
    id = 'C10'
    props_modules = ['CylcModel.Props.C10']
    theorems = []
    statement_note = ''
    technique = C09.technique
    rule = C09.rule


PROP = C10()
