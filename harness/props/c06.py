"""C06  Held tasks never submit; holds persist and apply to future instances."""
from __future__ import annotations

import sys
from pathlib import Path

sys.path.insert(0, str(Path(__file__).resolve().parents[1] / 'sched'))
from prop import SchedProp  # noqa: E402


class C06(SchedProp):
    id = 'C06'
    props_modules = ['CylcModel.Props.C06']
    theorems = [
    ]
    statement_note = 'TODO'
    technique = ('inductive invariants over op lists of a Lean scheduler model (Sched2) + trace correspondence with the '
                 'real Scheduler + a monitor judge on the observed traces')
    trusted = ['the stub job runner hands every proxy released for job preparation to the observer before the real '
               'prep_submit_task_jobs runs (observation key "prep")']
    rule = 'TODO'
    kinds = ('cmd',)
    n_quick = 64
    n_thorough = 640
    # hold-centred command mix: more hold / release / hold-point commands, stops (for restarts) kept
    gen_opts = {
        'cmds': ['hold', 'release', 'hold', 'release', 'hold', 'set_hold_point', 'release_hold_point', 'set_hold_point',
                 'stop_clean', 'stop_now', 'pause', 'resume', 'stop_point'],
        'p_cmd': 0.15,
        'restarts': [1, 2, 2],
    }

    def gen(self, tier, rng):
        import gen as sgen
        n = self.n_quick if tier == 'quick' else self.n_thorough
        base = rng.randrange(1 << 30)
        for k in range(n):
            # every fourth case keeps the shared default command mix of the 'cmd' kind
            opts = {} if k % 4 == 3 else self.gen_opts
            yield sgen.gen_case(base + k, 'cmd', opts)

    def classify(self, inp, obs):
        if isinstance(obs, dict):
            return 'crash'
        ops = inp.get('ops') or []
        names = [o.get('name') for o in ops if o.get('op') == 'cmd']
        tags = []
        if any(n in ('hold',) for n in names):
            tags.append('hold')
        if 'release' in names:
            tags.append('release')
        if 'set_hold_point' in names:
            tags.append('holdpoint')
        if 'release_hold_point' in names:
            tags.append('relpoint')
        # a restart with holds in force
        for k, o in enumerate(ops):
            if o.get('op') == 'restart' and k < len(obs):
                pre = obs[k]
                if pre['hold']['tasks'] or pre['hold']['point'] is not None:
                    tags.append('restart-with-holds')
                    break
        else:
            if any(o.get('op') == 'restart' for o in ops):
                tags.append('restart')
        # a held instance that spawned after the hold was requested
        future = False
        for pre, post in zip(obs, obs[1:]):
            prek = {(t['p'], t['n']) for t in pre['pool']}
            for t in post['pool']:
                if (t['p'], t['n']) not in prek and t['held']:
                    future = True
        if future:
            tags.append('future-hold')
        n = sum(len(o['launch']) for o in obs)
        tags.append('launch<5' if n < 5 else 'launch<15' if n < 15 else 'launch>=15')
        return '/'.join(tags)


PROP = C06()
