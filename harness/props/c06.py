"""C06  Held tasks never submit; holds persist and apply to future instances."""
from __future__ import annotations

import sys
from pathlib import Path

sys.path.insert(0, str(Path(__file__).resolve().parents[1] / 'sched'))
from prop import SchedProp, run_workers  # noqa: E402
from core import Infra  # noqa: E402


# -- hand-written regression histories (run first on every check): one workflow, fixed op lists --------------
_FLOW = '''[scheduler]
    allow implicit tasks = True
[scheduling]
    cycling mode = integer
    initial cycle point = 1
    final cycle point = 3
    runahead limit = P1
    [[graph]]
        P1 = """
            a => b
        """
[runtime]
    [[root]]
        [[[simulation]]]
            default run length = PT0S
'''


# the same workflow with an UNLIMITED default queue (limit = 0; the default limit is 100): the queue release
# must skip held tasks whatever the limit
_FLOW0 = _FLOW.replace('    [[graph]]\n', '    [[queues]]\n        [[[default]]]\n            limit = 0\n    [[graph]]\n')
# ... and with the tasks in a second unlimited queue
_FLOWQ = _FLOW.replace('    [[graph]]\n', '    [[queues]]\n        [[[q0]]]\n            limit = 0\n'
                       '            members = a, b\n    [[graph]]\n')


def _cmd(name, **args):
    return {'op': 'cmd', 'name': name, 'args': args}


def _job(task, sn=1, msgs=('started', 'succeeded')):
    """submit result + job messages of one job"""
    return [{'op': 'subres', 'task': task, 'ok': True, 'sn': sn}] + [
        {'op': 'msg', 'task': task, 'msg': m, 'sn': sn, 'sev': 'INFO'} for m in msgs]


_L = {'op': 'loop'}
_STOP = _cmd('stop', mode='REQUEST(NOW)')
_R = {'op': 'restart'}
_CORPUS = {
    # 1/a is queued (start-up), then held while the workflow is paused: the release after resume must skip it
    'queued-then-held': [_cmd('pause'), _L, _cmd('hold', tasks=['1/a']), _cmd('resume'), _L, _L,
                         _cmd('release', tasks=['1/a']), _L],
    # hold of the not yet spawned 1/b: held when 1/a:succeeded spawns it, across a restart, until released
    'future-hold': [_cmd('hold', tasks=['1/b']), _L] + _job('1/a') + [_L, _L, _L, _STOP, _L, _R, _L, _L,
                                                                      _cmd('release', tasks=['1/b']), _L, _L],
    # hold of the not yet spawned 2/b, restart before it spawns, then it spawns: held
    'future-hold-restart': [_cmd('hold', tasks=['2/b']), _STOP, _L, _R, _L] + _job('2/a') + [_L, _L, _L],
    # hold point 1: 2/a, 3/a held; 2/a released individually and run: the 2/b it spawns lies beyond the hold
    # point and is held at once; restart keeps hold point and held flags; release_hold_point frees everything
    'hold-point': [_cmd('set_hold_point', point='1'), _L] + _job('1/a') + [_L, _cmd('release', tasks=['2/a']), _L]
                  + _job('2/a') + [_L, _L, _STOP, _L, _R, _L, _L, _cmd('release_hold_point'), _L, _L],
}


# histories on the unlimited-queue variants: (flow, run options, ops)
_CORPUS2 = {
    'queued-then-held-limit0': (_FLOW0, {}, _CORPUS['queued-then-held']),
    'queued-then-held-q0': (_FLOWQ, {}, _CORPUS['queued-then-held']),
    # a hold-point command that lands on tasks sitting in the queue since start-up (2/a, 3/a)
    'hold-point-on-queued-limit0': (_FLOW0, {}, [_cmd('set_hold_point', point='1'), _L] + _job('1/a') + [_L, _L]),
    # hold point given at start-up (--hold-after=1): 2/a is spawned and queued before the point is applied
    'start-hold': (_FLOW, {'holdcp': '1'}, [_L] + _job('1/a') + [_L, _L, _STOP, _L, _R, _L, _L,
                                                                 _cmd('release_hold_point'), _L, _L]),
    'start-hold-limit0': (_FLOW0, {'holdcp': '1'}, [_L] + _job('1/a') + [_L, _L, _STOP, _L, _R, _L, _L,
                                                                        _cmd('release_hold_point'), _L, _L]),
}


class C06(SchedProp):
    id = 'C06'
    props_modules = ['CylcModel.Props.C06']
    theorems = [
        'CylcModel.C06.held_not_ready',
        'CylcModel.C06.release_skips_held',
        'CylcModel.C06.launch_only_in_main_loop',
        'CylcModel.C06.held_never_prepared',
        'CylcModel.C06.held_never_prepared_run',
        'CylcModel.C06.hold_command_recorded',
        'CylcModel.C06.hold_kept_until_released_or_removed',
        'CylcModel.C06.future_hold',
        'CylcModel.C06.hold_table_exact',
        'CylcModel.C06.hold_point_command',
        'CylcModel.C06.start_hold_point',
        'CylcModel.C06.hold_persist',
        'CylcModel.C06.hold_persist_partial',
        'CylcModel.C06.hold_persist_counterexample',
    ]
    statement_note = (
        'proof over the Sched2 model (scheduler core + hold / release / hold point / stop / pause / clean restart), for '
        'every instance graph (no well-formedness hypothesis is needed) and every state / op list: a pooled held instance '
        'is launched by no operation (held_never_prepared for all states, held_never_prepared_run along runs; jobs are '
        'launched only by the release step of a main loop, which takes queued, not held proxies); a hold command records '
        'every id, the record stays until a release command or the removal of the instance, spawn_task holds a new proxy '
        'exactly when its instance is recorded or lies beyond the hold point, and in every state of every run a pooled '
        'proxy is held iff its instance is in tasks_to_hold (hold_table_exact, inductive invariant, one lemma per '
        'primitive); a restart keeps the hold point, every recorded hold and every held flag. PARTIAL on one point: the '
        'unrestricted "restart changes no held flag" (hold_persist_full) is false - restart re-applies the hold point, '
        'so an instance beyond it that was released individually is held again (hold_persist_counterexample, a concrete '
        'run; the real scheduler does the same: finding rehold-after-restart); proved instead: hold_persist (exact '
        'characterisation: flag kept, or held because beyond the hold point) and hold_persist_partial (exact '
        'preservation when no instance beyond the hold point was released individually). Missing in the frozen model: '
        'manual trigger (the "or manually triggered" exemption has no counterpart), queue limits (the correspondence uses '
        'explicit queues that are unlimited - limit 0 - or far above reach; a hold point given at start-up is the op list '
        '[setHoldPoint p] with an unobserved first state, so the theorems cover it), the live-mode window '
        'between queue release and job preparation (waiting_on_job_prep across main loops), kill (which holds), reload')
    technique = ('inductive invariants over op lists of a Lean scheduler model (Sched2) + trace correspondence with the '
                 'real Scheduler + a monitor judge on the observed traces')
    trusted = ['the stub job runner hands every proxy released for job preparation to the observer before the real '
               'prep_submit_task_jobs runs (observation key "prep")']
    rule = ('generated integer-cycling workflows (2-6 tasks, 1-3 recurrences, AND/OR and inter-cycle triggers, retries, '
            'runahead P0-P3) driven through the real Scheduler by a seeded adaptive schedule of main loops, submit results, '
            'job messages and commands: hold / release of pooled and of not yet spawned instances, set / release hold '
            'point, stop (clean / now) followed by restart (up to 2), pause / resume, stop point; three cases in four use '
            'explicit internal queues (1-3 named queues with limit 0, default queue limit 0 / 100), in 30% a hold point '
            'given at start-up (--hold-after), and '
            'a hold-centred command mix (a third of its hold commands aim at a task sitting in a queue), one of them with '
            'job failures, submit failures and stale / duplicate messages, one in four the shared default mix; nine '
            'hand-written histories (pause -> hold of a queued task -> resume, future hold, future hold across a restart, '
            'hold point, start-up hold point; the queue-related ones also on unlimited default / named queues) and the '
            'witness of the recorded finding run first; non-trivial = a hold or hold-point command was issued; classes = (kind, commands '
            'used, restart with holds in force, held-at-spawn, held while queued, launch-count)')
    kinds = ('cmd', 'cmdany')
    n_quick = 48
    n_thorough = 480
    # hold-centred command mix: more hold / release / hold-point commands, stops (for restarts) kept
    gen_opts = {
        'cmds': ['hold', 'release', 'hold', 'release', 'hold', 'set_hold_point', 'release_hold_point', 'set_hold_point',
                 'stop_clean', 'stop_now', 'pause', 'resume', 'stop_point'],
        'p_cmd': 0.15,
        'p_hold_queued': 0.35,     # a third of the hold commands target a task sitting in a queue
        'restarts': [1, 2, 2],
        # explicit internal queues, all UNLIMITED or far above anything reachable (the model has no queue limits):
        # 1-3 queues with limit 0 over random member sets, the default queue with limit 0 / 0 / 100 in 60% of the cases
        'queues': True, 'queue_limits': [0], 'p_default_limit': 0.6, 'default_queue_limits': [0, 0, 100],
        # a hold point given at start-up (--hold-after) in 30% of the cases
        'p_start_hold': 0.3,
    }

    def corpus(self):
        return [{'id': 'c06-' + k, 'flow': _FLOW, 'seed': 0, 'opts': {}, 'policy': {'restarts': 2}, 'ops': v, 'kind': 'cmd'}
                for k, v in _CORPUS.items()] + [
            {'id': 'c06-' + k, 'flow': fl, 'seed': 0, 'opts': dict(ro), 'policy': {'restarts': 2}, 'ops': v, 'kind': 'cmd'}
            for k, (fl, ro, v) in _CORPUS2.items()]

    def driver_input(self, inp, raw):
        d = super().driver_input(inp, raw)
        hold = (inp.get('opts') or {}).get('holdcp')
        if hold is not None and 'crash' not in d:
            d['start_hold'] = int(hold)       # hold point given at start-up (--hold-after)
        return d


    def impl_batch(self, inputs):
        # a start-up time-out of the scheduler's server thread (overloaded machine) says nothing about the
        # case: such cases are run again, on their own
        res = run_workers(inputs, self.workers)
        for _attempt in range(2):
            again = [k for k, r in enumerate(res) if 'error' in r and 'BrokenBarrierError' in r['error']]
            if not again:
                break
            for k, r in zip(again, run_workers([inputs[k] for k in again], 2)):
                res[k] = r
        return res

    def skip_case(self, inp, raw):
        # the network server thread of a (re)starting Scheduler waits on a barrier with a time-out; on an
        # overloaded machine that time-out fires: an infrastructure failure (exit 2), never a verdict
        if 'error' in raw and 'BrokenBarrierError' in raw['error']:
            raise Infra('scheduler server thread did not start within its time-out (overloaded machine?) '
                        f'in case {inp.get("id")}')
        return super().skip_case(inp, raw)

    def gen(self, tier, rng):
        import gen as sgen
        n = self.n_quick if tier == 'quick' else self.n_thorough
        base = rng.randrange(1 << 30)
        for k in range(n):
            # k % 4 = 0, 1: hold-centred command mix, every job completes its required outputs;
            #         = 2: the same with failures, submit failures, missing outputs, stale / duplicate messages
            #              (kind 'cmdany': held tasks with retries lined up, held failed tasks);
            #         = 3: the shared default command mix of the 'cmd' kind
            opts = {} if k % 4 == 3 else self.gen_opts
            yield sgen.gen_case(base + k, 'cmdany' if k % 4 == 2 else 'cmd', opts)

    def classify(self, inp, obs):
        if isinstance(obs, dict):
            return 'crash'
        ops = inp.get('ops') or []
        names = [o.get('name') for o in ops if o.get('op') == 'cmd']
        tags = [inp.get('kind', 'cmd')]
        if (inp.get('opts') or {}).get('holdcp') is not None:
            tags += ['start-hold', 'holdpoint']
        if 'limit = 0' in inp.get('flow', ''):
            tags.append('limit0')
        if any(n in ('hold',) for n in names):
            tags.append('hold')
        if 'release' in names:
            tags.append('release')
        if 'set_hold_point' in names:
            tags.append('holdpoint')
        if 'release_hold_point' in names:
            tags.append('relpoint')
        # a restart with holds in force
        for k, o in enumerate(ops):
            if o.get('op') == 'restart' and k < len(obs):
                pre = obs[k]
                if pre['hold']['tasks'] or pre['hold']['point'] is not None:
                    tags.append('restart-with-holds')
                    break
        else:
            if any(o.get('op') == 'restart' for o in ops):
                tags.append('restart')
        # a held instance that spawned after the hold was requested
        future = False
        for pre, post in zip(obs, obs[1:]):
            prek = {(t['p'], t['n']) for t in pre['pool']}
            for t in post['pool']:
                if (t['p'], t['n']) not in prek and t['held']:
                    future = True
        if future:
            tags.append('future-hold')
        # a hold that lands on a task sitting in a queue (queued, not yet released to job preparation)
        if any(t['held'] and t['q'] and t['st'] == 'waiting' for o in obs for t in o['pool']):
            tags.append('held-in-queue')
        if not ({'hold', 'holdpoint'} & set(tags)):
            return None        # no hold was ever requested: trivial for this property
        n = sum(len(o['launch']) for o in obs)
        tags.append('launch<5' if n < 5 else 'launch<15' if n < 15 else 'launch>=15')
        return '/'.join(tags)


PROP = C06()
