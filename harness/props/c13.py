"""C13  Prerequisite satisfaction equals the trigger expression's truth.

Case (JSON) -- see lean/CylcModel/Drv/C13.lean for the mirror description:
  mode   'int' | 'dt'          integer cycling, or datetime cycling (points = hours since 2010-01-01T00Z)
  tz     'Z' | '+01' ...       (dt) cycle point time zone
  ptab   [[n, 'text'], ...]    (dt) rendering of the points the case can mention, made by the real ISO8601Point
  p, icp, start                point of the dependent task, initial point, start point
  trigs  [{name, off, out, label}]   distinct triggers in Dependency.task_triggers order
           off: null | {'rel': d} | {'abs': v} | {'icp': d};  out = TaskTrigger.output (custom: the message text)
           label = graph qualifier of a custom output (null for standard outputs)
  expr   nested list of trigger indices, '&', '|' and sub-lists (the listify() shape)
  variant  int: selects text variants of nodes (':succeed' / ':succeeded', '+P1D' / '+PT24H', ...)
  via    'direct' (default): expression text + node list handed straight to the real generate_triggers
         'graph': a graph line `EXPR => _right_` (aliases, bare nodes, `?`, blanks) goes through the real
                  GraphParser first; gline / gnodes / gideal = the line, its node texts, and the text an ideal
                  parser hands on (filled by finish(); the observation says whether the real parser did: 'ideal')
  runs   [[op, ...], ...]   every run starts from a fresh Prerequisite
           op: ['sat', [[n, name, out], ...], flag]  flag 0 natural 1 skip-mode 2 forced
               ['unset', n, name] | ['setall']
Observation:
  {'build': 'err'} | {'keys': sorted [[point text, name, out, satisfied?]], 'cond': text | null,
                      'runs': [[r0, r1, ...]]}   r = is_satisfied() truthiness after build / after each op, or 'err'
"""
from __future__ import annotations

import itertools
import json
import os
import random
import re
import sys
from types import SimpleNamespace

from core import Prop

STD = ['succeeded', 'failed', 'started', 'submitted', 'submit-failed', 'expired']
ALT = {'succeeded': 'succeed', 'failed': 'fail', 'started': 'start', 'submitted': 'submit',
       'submit-failed': 'submit-fail', 'expired': 'expire'}
BASE = (2010, 1, 1)
RIGHT = '_right_'


def resolve(tr, p, icp):
    off = tr.get('off')
    if not off:
        return p
    if 'rel' in off:
        return p + off['rel']
    if 'abs' in off:
        return off['abs']
    return icp + off['icp']


def atoms_of(expr):
    for it in expr:
        if isinstance(it, list):
            yield from atoms_of(it)
        elif isinstance(it, int):
            yield it


def utc_text(n, tz='Z', short=False):
    """text of hour-ordinal n, written in time zone tz ('Z', '+01', '-0330')."""
    import datetime as dt
    t = dt.datetime(*BASE) + dt.timedelta(hours=n)
    if tz != 'Z':
        sign = 1 if tz[0] == '+' else -1
        hh = int(tz[1:3])
        mm = int(tz[3:5]) if len(tz) > 3 else 0
        t += sign * dt.timedelta(hours=hh, minutes=mm)
    if short and t.minute == 0:
        return t.strftime('%Y%m%dT%H') + tz
    return t.strftime('%Y%m%dT%H%M') + tz


def dur_text(h, variant):
    """ISO8601 duration text for |h| hours."""
    h = abs(h)
    d, r = divmod(h, 24)
    if h == 0:
        return 'PT0H' if variant % 2 else 'P0D'
    if r == 0:
        return ('P%dD' % d) if variant % 2 == 0 else ('PT%dH' % h)
    if d == 0 or variant % 3 == 0:
        return 'PT%dH' % h
    return 'P%dDT%dH' % (d, r)


class C13(Prop):
    id = 'C13'
    props_modules = ['CylcModel.Props.C13']
    theorems = [
        'CylcModel.C13.rewrite_acts_atomwise',
        'CylcModel.C13.rewrite_faithful',
        'CylcModel.C13.eval_rewritten_text',
        'CylcModel.C13.prereq_sem_partial',
        'CylcModel.C13.initial_state',
        'CylcModel.C13.pre_initial_satisfied',
        'CylcModel.C13.prereq_sem_counterexample',
        'CylcModel.C13.prereq_sem_anchored',
    ]
    statement_note = (
        'partial: for every context, trigger list, AND/OR/parenthesised expression and every sequence of '
        'satisfy_me / unset_naturally_satisfied / set_satisfied operations (unbounded), each is_satisfied() result '
        '(computed or cached) equals the truth of the expression over the satisfied upstream outputs, with pre-initial '
        '(and pre-start) dependencies satisfied -- under NoCollision (decidable predicate on the ordered key set: every '
        'trigger text alone is rewritten to its own bool(self._satisfied[..])), messages free of & | ( ) and of double '
        'quotes, every trigger used in the expression. The regex rewrite is proved to act on each trigger text '
        'separately for ANY key set (rewrite_acts_atomwise). prereq_sem_full (no NoCollision) is false on the current '
        'code: counterexample theorem (foo | foo[-P2] at the initial point) + 4 recorded findings. Not proved: a '
        'syntactic sufficient condition for NoCollision under the \\b patterns (with anchored patterns it is proved: '
        'prereq_sem_anchored, hypothesis regenerated by probing the source); graph_parser text processing (judged end to '
        'end, not modelled).')
    technique = ('string-level model of re.sub + locality lemma over separator-cut texts; parser correctness on rendered '
                 'expression trees; inductive invariant (cache soundness via monotonicity) over operation lists; '
                 'correspondence through the real generate_triggers/Dependency/Prerequisite objects')
    trusted = [
        'Python re semantics for the patterns used (literal match, \\b = word-ness of the two neighbours differs, '
        'leftmost non-overlapping substitution) and Python eval of the rewritten text, both re-implemented in Lean and '
        'tied by correspondence (the conditional expression text itself is compared when C13_COMPARE_COND=1)',
        'GraphNodeParser / listify / point arithmetic and rendering of metomi-isodatetime: the adapter renders nodes '
        'to text and the real code parses them; datetime points are hours since 2010-01-01T00Z rendered by the real '
        'ISO8601Point (table carried in the case)',
        'WorkflowConfig.generate_triggers is run with a stand-in for `self` (cfg runtime outputs, taskdefs, initial point)',
    ]
    unmodelled = [
        'non-ASCII word characters; backslashes in names/messages (string and re.sub template escapes)',
        'residues of a failed rewrite that are valid Python outside {bool(..), &, |, (), unary -} (e.g. output x next to x-1)',
        'graph_parser (graph line -> expression text + node list): not modelled; the graph route runs the real '
        'GraphParser and checks that it hands generate_triggers the ideal text (standard qualifiers, no blanks); a case '
        'where it does not is left out of the model comparison and decided by the judge alone (none on the current tree)',
        'family triggers, :finish, xtriggers, suicide triggers, expanded-year cycle points, truncated datetime offsets',
    ]
    rule = ('box: 5 sets of 3 confusable atoms x 10 expression shapes x every insertion order x 4-6 contexts, all satisfaction '
            'subsets; random: 1-5 triggers over families of names that are prefixes/suffixes/substrings of each other '
            '(with - + % @ _), standard and custom outputs (messages with spaces, punctuation, & | ( )), offsets '
            '(relative, absolute, from the initial point; negative integer points; datetime points in 4 time zones), '
            'random and/or trees with redundant parentheses, random insertion order, text variants (aliases, spaces, '
            'duration spellings), all satisfaction subsets (<= 64) + random operation sequences (forced / skip-mode / '
            'foreign outputs / unset / set_satisfied); non-trivial = distinct class of (mode, operators, parentheses, '
            'offset kinds, pre-satisfied, negative point, custom, duplicate key, substring names, route)')
    workers = 16

    def __reduce__(self):          # fork workers: the bound method pickles as a reference to PROP
        return (_get_prop, ())

    # ------------------------------------------------------------------
    def setup(self):
        import cylc.flow.cycling.loader as loader
        import cylc.flow.cycling.iso8601 as iso
        from cylc.flow.config import WorkflowConfig
        from cylc.flow.graphnode import GraphNodeParser
        from cylc.flow.graph_parser import GraphParser
        self.GraphParser = GraphParser
        from cylc.flow.listify import listify
        from cylc.flow.taskdef import TaskDef
        from cylc.flow.id import Tokens
        from cylc.flow.run_modes import RunMode
        from cylc.flow.cycling.loader import get_point
        self.loader, self.iso = loader, iso
        self.WorkflowConfig, self.GraphNodeParser = WorkflowConfig, GraphNodeParser
        self.listify, self.TaskDef, self.Tokens, self.RunMode = listify, TaskDef, Tokens, RunMode
        self.get_point = get_point
        self._mode = None

    def translate(self):
        """Generated/PrereqTemplates.lean: the pieces of MESSAGE_TEMPLATE, and what the real
        set_conditional_expr writes for one key (probed with sentinel keys), plus two behaviour bits
        obtained by running the real function on fixed probes: is the key written with repr(), and
        are operands matched only between operators (as opposed to \\b...\\b)."""
        from cylc.flow.prerequisite import Prerequisite
        msg = Prerequisite.MESSAGE_TEMPLATE.split('%s')
        if len(msg) != 4:
            raise ValueError('MESSAGE_TEMPLATE does not have three %s')

        def rewrite(keys):
            pre = Prerequisite(1)
            for k in keys:
                pre[k] = False
            pre.set_conditional_expr('|'.join(Prerequisite.MESSAGE_TEMPLATE % k for k in keys))
            return pre.conditional_expression or ''
        text = rewrite([('PPP', 'TTT', 'OOO'), ('QQQ', 'TTT', 'OOO')]).split('|')[0]
        m = re.fullmatch(r'(.*)PPP(.*)TTT(.*)OOO(.*)', text, re.S)
        if not m:
            raise ValueError('cannot find the key in the rewritten text: %r' % text)
        head, sep1, sep2, tail = m.groups()
        quote = head[-1:]
        if quote not in ('"', "'") or not (sep1[:1] == sep1[-1:] == sep2[:1] == sep2[-1:] == tail[:1] == quote):
            raise ValueError('key components are not quoted as expected: %r' % text)
        head, sep1, sep2, tail = head[:-1], sep1[1:-1], sep2[1:-1], tail[1:]
        repr_keys = "'say \"hi\" now'" in rewrite([('1', 'foo', 'say "hi" now'), ('1', 'bar', 'x')])
        anchored = '-bool' not in rewrite([('1', 'foo', 'x'), ('-1', 'foo', 'x')])

        def cl(t):
            return '[' + ', '.join("'" + (c if c not in "'\\" else '\\' + c) + "'" for c in t) + ']'
        names = ['satHead', 'satSep1', 'satSep2', 'satTail', 'msgHead', 'msgSep1', 'msgSep2', 'msgTail']
        body = '\n'.join('def %s : List Char := %s' % (n, cl(t)) for n, t in zip(names, [head, sep1, sep2, tail] + msg))
        body += '\ndef reprKeys : Bool := %s\ndef anchoredRewrite : Bool := %s' % (
            str(repr_keys).lower(), str(anchored).lower())
        return {'PrereqTemplates.lean': (
            '/- GENERATED by harness/props/c13.py translate() from cylc/flow/prerequisite.py -- do not edit. -/\n'
            'namespace CylcModel.Generated.PrereqTemplates\n\n' + body +
            '\n\nend CylcModel.Generated.PrereqTemplates\n')}

    def set_mode(self, mode, tz):
        key = (mode, tz)
        if self._mode == key:
            return
        self._mode = key
        iso, loader = self.iso, self.loader
        self.GraphNodeParser.get_inst().clear()
        if mode == 'int':
            loader.DefaultCycler.TYPE = 'integer'
            return
        loader.DefaultCycler.TYPE = 'iso8601'
        # string-keyed caches of the datetime module depend on the dump format
        for holder in (iso, iso.ISO8601Point, iso.ISO8601Interval):
            for v in vars(holder).values():
                f = getattr(v, '__func__', v)
                if hasattr(f, 'cache_clear'):
                    f.cache_clear()
        iso.init(time_zone=tz)

    def point_text(self, inp, n):
        if inp['mode'] == 'int':
            return str(n)
        for k, t in inp['ptab']:
            if k == n:
                return t
        raise KeyError(n)

    def mk_ptab(self, inp):
        """(generator side) render every point the case can mention with the real point class."""
        if inp['mode'] == 'int':
            return inp
        self.set_mode('dt', inp['tz'])
        ns = {inp['p'], inp['icp'], inp['start']}
        for tr in inp['trigs']:
            ns.add(resolve(tr, inp['p'], inp['icp']))
        for run in inp['runs']:
            for op in run:
                if op[0] == 'sat':
                    ns.update(t[0] for t in op[1])
                elif op[0] == 'unset':
                    ns.add(op[1])
        inp['ptab'] = [[n, str(self.get_point(utc_text(n)).standardise())] for n in sorted(ns)]
        return inp

    def finish(self, c):
        if not c.get('runs'):
            c['runs'] = self.subset_runs(c)
        c.setdefault('variant', 0)
        if c['mode'] == 'dt':
            c.setdefault('tz', 'Z')
            self.mk_ptab(c)
        if c.get('via') == 'graph':
            self.render_graph(c)
        return c

    # -- graph route: the text handed to the real GraphParser ----------------------------------
    def render_graph(self, c):
        """fills c['gline'] (one graph line `EXPR => _right_`) and c['gnodes'] (the node texts in order
        of occurrence: [name, offset text, qualifier text | null, is-alias])"""
        v0 = c.get('variant', 0)
        used = {}
        for tr in c['trigs']:
            used.setdefault(tr['name'], set()).add(tr['out'])
        opposite = {'succeeded': 'failed', 'failed': 'succeeded', 'submitted': 'submit-failed',
                    'submit-failed': 'submitted'}

        def optional(tr, k):
            o = tr['out']
            if tr.get('label') is None and o in ('expired', 'submit-failed'):
                return True
            if tr.get('label') is None and opposite.get(o) in used[tr['name']]:
                return True
            return (v0 + sum(map(ord, tr['name'] + '/' + o))) % 3 == 0
        gnodes = []
        ideal_nodes = []
        occ = [0]
        sp = ' ' if v0 % 2 else ''

        def node(k):
            tr = c['trigs'][k]
            v = v0 + 7 * occ[0] + 3 * k
            occ[0] += 1
            off = self.off_text(c, tr.get('off'), v)
            alias = False
            if tr.get('label') is not None:
                q = tr['label']
            else:
                q = tr['out']
                r = (v // 2) % 3
                if r == 1 and q in ALT:
                    q, alias = ALT[q], True
                elif r == 2 and q == 'succeeded':
                    q = None
            gnodes.append([tr['name'], off, q, alias])
            std = tr['label'] if tr.get('label') is not None else tr['out']
            ideal_nodes.append(tr['name'] + off + ':' + std)
            return tr['name'] + off + ('' if q is None else ':' + q) + ('?' if optional(tr, k) else '')

        def go(items):
            out = []
            for it in items:
                if isinstance(it, list):
                    out.append('(' + sp + go(it) + sp + ')')
                elif isinstance(it, int):
                    out.append(node(it))
                else:
                    out.append(sp + it + sp)
            return ''.join(out)
        c['gline'] = go(c['expr']) + ' => ' + RIGHT
        c['gnodes'] = gnodes
        # what an ideal normalisation makes of the line: standard qualifiers, no blanks, no `?`
        it = iter(ideal_nodes)

        def ideal(items):
            return ''.join('(' + ideal(x) + ')' if isinstance(x, list) else (next(it) if isinstance(x, int) else x)
                           for x in items)
        c['gideal'] = [ideal(c['expr']), ideal_nodes]
        return c

    def subset_runs(self, c, limit=256):
        keys = []
        for tr in c['trigs']:
            k = [resolve(tr, c['p'], c['icp']), tr['name'], tr['out']]
            if k not in keys:
                keys.append(k)
        runs = []
        n = len(keys)
        for mask in range(min(1 << n, limit)):
            runs.append([['sat', [keys[i] for i in range(n) if mask >> i & 1], 0]])
        return runs

    # -- generation -----------------------------------------------------------------------------
    def corpus(self):
        f = self.finish
        T = trig
        out = [
            # GH #3644 / #6588 (pinned by the unit tests)
            f(mk([T('foo', {'abs': 11}), T('foo', {'abs': 1})], [0, '|', 1], p=1, icp=1)),
            f(mk([T('foo', {'abs': 1}), T('foo', {'abs': 11})], [0, '|', 1], p=1, icp=1)),
            f(mk([T('x', {'rel': -2}), T('a')], [0, '|', 1], p=1, icp=1)),
            # basics: precedence, parentheses, pre-initial, start point, duplicates of a key
            f(mk([T('a'), T('b'), T('c')], [0, '|', 1, '&', 2])),
            f(mk([T('a'), T('b'), T('c')], [[0, '|', 1], '&', 2])),
            f(mk([T('a'), T('b'), T('c')], [0, '&', 1, '&', 2])),
            f(mk([T('a', {'rel': -1}), T('b'), T('c', {'icp': 0})], [0, '&', [1, '|', 2]], p=1, icp=1)),
            f(mk([T('a', {'rel': -1}), T('b')], [0, '|', 1], p=5, icp=1, start=5)),
            f(mk([T('a', {'rel': -1}), T('a', {'abs': 2}), T('b')], [0, '&', 1, '|', 2], p=3, icp=1)),
            f(mk([T('foo', None, 'file ready', 'x'), T('foo', None, 'a (b) | c', 'y'), T('bar')], [0, '&', 1, '&', 2])),
            # neg-point-collision, both orders (the second order is fine)
            f(mk([T('foo'), T('foo', {'rel': -2})], [0, '|', 1], p=1, icp=1)),
            f(mk([T('foo', {'rel': -2}), T('foo')], [0, '|', 1], p=1, icp=1)),
            f(mk([T('foo', {'abs': 1}), T('foo', {'abs': -1})], [0, '|', 1], p=1, icp=-5)),
            # message-prefix-collision, both orders
            f(mk([T('foo', None, 'x', 'x'), T('foo', None, 'x-y', 'x-y')], [0, '|', 1])),
            f(mk([T('foo', None, 'x-y', 'x-y'), T('foo', None, 'x', 'x')], [0, '|', 1])),
            f(mk([T('foo', None, 'file ready', 'a'), T('foo', None, 'file ready for b', 'b')], [0, '|', 1])),
            # message-end-nonword, message-quote
            f(mk([T('foo', None, 'data ready.', 'x'), T('bar')], [0, '|', 1])),
            f(mk([T('foo', None, 'x-', 'x-'), T('bar')], [0, '|', 1])),
            f(mk([T('foo', None, 'say "hi" now', 'x'), T('bar')], [0, '|', 1])),
        ]
        # graph route (through the real GraphParser); the last four were mangled by the qualifier
        # normalisation of the graph parser before /repo commit 1f921a7
        out += [
            f(mk([T('a'), T('b'), T('c')], [0, '&', [1, '|', 2]], via='graph', variant=3)),
            f(mk([T('a'), T('b'), T('c')], [0, '&', 1, '&', 2], via='graph', variant=0)),
            f(mk([T('c', {'rel': -1}, 'started'), T('a', {'rel': -1})], [0, '|', 1, '|', 0], p=2, icp=1, via='graph', variant=2)),
            f(mk([T('c', {'rel': -1}, 'started'), T('a', {'rel': -1})], [0, '|', 1, '|', 0], p=2, icp=1, via='graph', variant=4)),
            f(mk([T('model'), T('model-post')], [0, '|', 1], via='graph', variant=4)),
            f(mk([T('c', None, 'submitted'), T('c', None, 'submit-failed')], [0, '|', 1], via='graph', variant=2)),
        ]
        # datetime, time zones
        for tz in ('Z', '+01', '-0330'):
            out.append(f(mk([T('foo', {'rel': -6}), T('foo', {'rel': -48}), T('bar', {'abs': 24}), T('baz', {'icp': 6})],
                            [0, '|', 1, '&', [2, '|', 3]], p=30, icp=0, mode='dt', tz=tz)))
        return out

    NAME_FAMILIES = [
        ['foo', 'fo', 'oo', 'foo1', '1foo', 'foofoo', 'foo_foo', 'foo-foo', 'xfoo', 'Foo'],
        ['a', 'aa', 'a_a', 'a-a', 'a+a', 'a%a', 'a@a', 'b', 'ab', 'ba', 'a1', '1a', '1'],
        ['succeeded', 'succeed', 'failed', 'x', 'bool', 'self', '_satisfied', 'not', 'or', 'and'],
        ['t1', 't11', 't111', '1t', '11t', 't-1', 't+1', 't1-', 't1+', 't%', 't@'],
        ['model', 'model_a', 'model-a', 'post_model', 'post-model', 'model2', 'mod', 'del'],
    ]
    # custom outputs: (label, message); messages end with a word character, no quotes
    CUSTOM_SAFE = [
        ('x', 'x'), ('y', 'y'), ('x1', 'x1'), ('out-1', 'out-1'), ('out_1', 'out_1'), ('x', 'file ready'),
        ('y', 'the file is ready'), ('z', 'data ready for 1/foo'), ('a-b', 'a-b'), ('ab', 'a b'),
        ('w', 'WARNING: low disk'), ('v', 'x=1'), ('u', '50% done'), ('t', 'succeeded1'), ('s', 'x.y'),
        ('r', 'a (b) c'), ('q', 'a | b'), ('p', 'a & b'), ('o', "it's ok"), ('n', '-x'), ('m', '+1 x'),
        ('l', 'started2'), ('k', 'bool'), ('j', 'x, y'),
    ]

    def rand_trigs(self, rng, mode, p, icp, n, graph=False):
        fam = rng.choice(self.NAME_FAMILIES)
        if graph:
            # names the graph parser accepts as nodes, and that are not qualifier words
            fam = [x for x in fam if is_word(x[-1]) and x not in STD and x not in ALT.values()] or ['foo', 'foo-1']
        names = rng.sample(fam, min(len(fam), rng.choice([1, 2, 2, 3])))
        step = 1 if mode == 'int' else rng.choice([6, 24])
        trigs, seen = [], set()
        tries = 0
        while len(trigs) < n and tries < 200:
            tries += 1
            name = rng.choice(names)
            r = rng.random()
            if r < 0.35:
                off = None
            elif r < 0.7:
                off = {'rel': step * rng.choice([-4, -3, -2, -2, -1, -1, -1, 0, 1, 2])}
            elif r < 0.87:
                off = {'abs': rng.choice([icp, icp + step, p, p - step, p + step, icp - step, icp - 2 * step, icp + 10 * step])}
            else:
                off = {'icp': step * rng.choice([0, 0, 1, 2, -1])}
            if rng.random() < 0.7:
                out, label = rng.choice(STD), None
            else:
                label, out = rng.choice(self.CUSTOM_SAFE)
            sig = (name, json.dumps(off, sort_keys=True), out)
            if sig in seen:
                continue
            t = trig(name, off, out, label)
            # one label cannot name two messages of a task; no accidental boundary-prefix pairs
            if any(u['name'] == name and u['label'] == label and label is not None and u['out'] != out for u in trigs):
                continue
            if any(collides(t, u, p, icp) or collides(u, t, p, icp) for u in trigs):
                continue
            seen.add(sig)
            trigs.append(t)
        return trigs

    def rand_expr(self, rng, idx):
        """random and/or tree over all of idx (each at least once), as a nested list"""
        items = list(idx)
        while rng.random() < 0.25 and len(items) < 7:
            items.append(rng.choice(idx))
        rng.shuffle(items)

        def build(its, depth):
            if len(its) == 1:
                return [its[0]]
            out = []
            # split into 2..4 operands at this level, operators mixed freely (precedence matters)
            k = rng.randint(2, min(4, len(its)))
            cuts = sorted(rng.sample(range(1, len(its)), k - 1))
            parts = [its[i:j] for i, j in zip([0] + cuts, cuts + [len(its)])]
            for n, part in enumerate(parts):
                if n:
                    out.append(rng.choice(['&', '|']))
                if len(part) == 1 and rng.random() < 0.85:
                    out.append(part[0])
                else:
                    out.append(build(part, depth + 1))
            return out
        return build(items, 0)

    def rand_runs(self, rng, c, full=True):
        keys = []
        for tr in c['trigs']:
            k = [resolve(tr, c['p'], c['icp']), tr['name'], tr['out']]
            if k not in keys:
                keys.append(k)
        runs = self.subset_runs(c, 64) if full else []
        step = 1 if c['mode'] == 'int' else 6
        for _ in range(3 if full else 2):
            run = []
            for _ in range(rng.randint(2, 6)):
                r = rng.random()
                if r < 0.7:
                    outs = [list(k) for k in keys if rng.random() < 0.4]
                    if rng.random() < 0.3:     # an output that is not in the prerequisite
                        k = list(rng.choice(keys))
                        which = rng.randrange(3)
                        if which == 0:
                            k[0] += step
                        elif which == 1:
                            k[1] += '1'
                        else:
                            k[2] = 'failed' if k[2] != 'failed' else 'started'
                        outs.append(k)
                    rng.shuffle(outs)
                    run.append(['sat', outs, rng.choice([0, 0, 0, 1, 2])])
                elif r < 0.93:
                    k = rng.choice(keys)
                    run.append(['unset', k[0], k[1]])
                else:
                    run.append(['setall'])
            runs.append(run)
        return runs

    def random_case(self, rng, mode=None, via=None):
        mode = mode or ('int' if rng.random() < 0.75 else 'dt')
        step = 1 if mode == 'int' else 6
        icp = rng.choice([1, 1, 1, 0, -3, 5, 10]) if mode == 'int' else rng.choice([0, 0, 24, -24])
        start = icp + step * rng.choice([0, 0, 0, 0, 1, 3])
        p = start + step * rng.choice([0, 0, 1, 1, 2, 3, 10])
        if rng.random() < 0.05:
            p = max(icp, start - step)
        n = rng.choice([1, 2, 2, 3, 3, 3, 4, 4, 5])
        via = via or ('graph' if rng.random() < 0.35 else 'direct')
        trigs = self.rand_trigs(rng, mode, p, icp, n, graph=(via == 'graph'))
        c = mk(trigs, None, p=p, icp=icp, start=start, mode=mode, via=via)
        if mode == 'dt':
            c['tz'] = rng.choice(['Z', 'Z', '+01', '-0330', '+1245'])
        c['expr'] = self.rand_expr(rng, list(range(len(trigs))))
        c['variant'] = rng.randrange(60)
        c['runs'] = self.rand_runs(rng, c)
        return c

    def gen(self, tier, rng):
        n = {'quick': 2500, 'thorough': 60000}.get(tier, 120000)
        # small box: every expression shape over <= 3 confusable atoms, every insertion order, all subsets
        T = trig
        box_atoms = [
            [T('foo'), T('foo', {'rel': -1}), T('foofoo')],
            [T('a', {'abs': 1}), T('a', {'abs': 11}), T('a', {'abs': 111})],
            [T('a-a'), T('a'), T('a', None, 'failed')],
            [T('t1', {'rel': -2}), T('t1', {'rel': -1}), T('t11', {'icp': 0})],
            [T('foo', None, 'out-1', 'out-1'), T('foo', None, 'out_1', 'out_1'), T('foo', None, 'file ready', 'x')],
        ]
        shapes = [
            [0, '|', 1], [0, '&', 1], [0, '|', 1, '|', 2], [0, '&', 1, '|', 2], [0, '|', 1, '&', 2],
            [0, '&', [1, '|', 2]], [[0, '|', 1], '&', 2], [0, '|', [1, '&', 2]], [[0, '&', 1], '|', [2, '&', 0]],
            [[0], '|', [[1, '&', 2]]],
        ]
        ctxs = [(1, 1, 1), (2, 1, 1), (3, 1, 3), (12, 1, 1)] if tier == 'quick' else [(1, 1, 1), (2, 1, 1), (3, 1, 3), (12, 1, 1), (0, -2, -2), (4, 1, 5)]
        v = 0
        for atoms in box_atoms:
            for shape in shapes:
                used = sorted(set(atoms_of(shape)))
                for perm in itertools.permutations(range(len(used))):
                    for p, icp, start in ctxs:
                        v += 1
                        trigs = [atoms[used[i]] for i in perm]
                        remap = {used[i]: n_ for n_, i in enumerate(perm)}
                        c = mk([dict(t) for t in trigs], relabel(shape, remap), p=p, icp=icp, start=start)
                        c['variant'] = v
                        yield self.finish(c)
        for _ in range(n):
            yield self.finish(self.random_case(rng))

    def classify(self, inp, obs):
        if 'build' in obs:
            return 'build-error'
        toks = json.dumps(inp['expr'])
        ops = ('or' if '|' in toks else '') + ('and' if '&' in toks else '') or 'single'
        if '[' in toks[1:]:
            ops += '()'
        if any(r == 'err' for run in obs['runs'] for r in run):
            feat = 'raises'
        elif len(obs['keys']) < len(inp['trigs']):
            feat = 'dupkey'
        elif any(k[0].startswith('-') for k in obs['keys']):
            feat = 'negpt'
        elif any(k[3] for k in obs['keys']):
            feat = 'presat'
        elif any(t.get('label') is not None for t in inp['trigs']):
            feat = 'custom'
        else:
            names = [t['name'] for t in inp['trigs']]
            feat = 'substr' if any(a != b and a in b for a in names for b in names) else 'plain'
        return '/'.join([inp['mode'], inp.get('via', 'direct'), ops, feat])

    def neighbours(self, inp, rng):
        out = []
        n = len(inp['trigs'])
        for perm in itertools.islice(itertools.permutations(range(n)), 24):
            c = json.loads(json.dumps(inp))
            c['trigs'] = [inp['trigs'][i] for i in perm]
            c['expr'] = relabel(inp['expr'], {old: new for new, old in enumerate(perm)})
            c['runs'] = self.subset_runs(c, 64)
            out.append(self.finish(c))
        for dp in (-1, 1, 2):
            c = json.loads(json.dumps(inp))
            c['p'] = max(c['icp'], c['p'] + dp * (1 if c['mode'] == 'int' else 6))
            c['runs'] = []
            out.append(self.finish(c))
        return out

    def impl_batch(self, inputs):
        # switching the cycling mode / time zone re-initialises the datetime parsers: group the cases
        order = sorted(range(len(inputs)), key=lambda i: (inputs[i]['mode'], inputs[i].get('tz') or ''))
        if len(inputs) < 20000:
            res = [self.impl(inputs[i]) for i in order]
        else:
            res = super().impl_batch([inputs[i] for i in order])
        out = [None] * len(inputs)
        for i, r in zip(order, res):
            out[i] = r
        return out

    def equal(self, model_out, obs):
        if obs.get('ideal') is False:
            # graph route, and the real graph parser did not hand generate_triggers the expression the case
            # describes (qualifier normalisation is not modelled): decided by the judge alone
            return True
        if os.environ.get('C13_COMPARE_COND'):
            return model_out == strip(obs)
        return strip(model_out, 'cond') == strip(obs, 'cond')

    # -- text rendering of nodes (what the graph parser hands to generate_triggers) -------------
    def off_text(self, inp, off, v):
        if off is None:
            return ''
        mode = inp['mode']
        if 'abs' in off:
            if mode == 'int':
                return '[%d]' % off['abs']
            tzs = [inp['tz'], 'Z', '+01', '-0330']
            return '[%s]' % utc_text(off['abs'], tzs[v % 4], short=(v // 4) % 2 == 1)
        if 'rel' in off:
            d = off['rel']
            sign = '-' if d < 0 else '+'
            if mode == 'int':
                return '[%sP%d]' % (sign, abs(d))
            return '[%s%s]' % (sign, dur_text(d, v))
        d = off['icp']
        if d == 0 and v % 2 == 0:
            return '[^]'
        sign = '-' if d < 0 else '+'
        if mode == 'int':
            return '[^%sP%d]' % (sign, abs(d))
        return '[^%s%s]' % (sign, dur_text(d, v))

    def node_text(self, inp, k, occ):
        tr = inp['trigs'][k]
        v = inp.get('variant', 0) + 7 * occ + 3 * k
        if tr.get('label') is not None:
            q = tr['label']
        else:
            q = tr['out']
            if (v // 2) % 3 == 1 and q in ALT:
                q = ALT[q]
        return '%s%s:%s' % (tr['name'], self.off_text(inp, tr.get('off'), v), q)

    def lexpr(self, inp):
        """-> (lexpression text, left node texts in order of first appearance)"""
        occ = [0]
        lefts = []
        sp = ' ' if inp.get('variant', 0) % 5 == 1 else ''

        def go(items):
            out = []
            for it in items:
                if isinstance(it, list):
                    out.append('(' + go(it) + ')')
                elif isinstance(it, int):
                    t = self.node_text(inp, it, occ[0])
                    occ[0] += 1
                    if t not in lefts:
                        lefts.append(t)
                    out.append(t)
                else:
                    out.append(sp + it + sp)
            return ''.join(out)
        return go(inp['expr']), lefts

    # -- the real code --------------------------------------------------------------------------
    def build(self, inp):
        """Dependency + TaskDef made by the real generate_triggers (WorkflowConfig stand-in for `self`)."""
        self.set_mode(inp['mode'], inp.get('tz'))
        gp = self.get_point
        icp = gp(self.point_text(inp, inp['icp']))
        start = gp(self.point_text(inp, inp['start']))
        point = gp(self.point_text(inp, inp['p']))
        runtime = {}
        for tr in inp['trigs']:
            outs = runtime.setdefault(tr['name'], {'outputs': {}})['outputs']
            if tr.get('label') is not None:
                outs[tr['label']] = tr['out']
        right = RIGHT
        runtime.setdefault(right, {'outputs': {}})
        taskdefs = {name: self.TaskDef(name, rt, start, icp) for name, rt in runtime.items()}
        stub = SimpleNamespace(
            cfg={'runtime': runtime,
                 'scheduling': {'xtriggers': {}, 'sequential xtriggers': False}},
            taskdefs=taskdefs, initial_point=icp, start_point=start,
            xtrigger_collator=SimpleNamespace(), cycling_type=self.loader.DefaultCycler.TYPE, fdir=None)
        seq = 'seq'
        if inp.get('via') == 'graph':
            ideal_expr, ideal_lefts = inp['gideal']
            gp = self.GraphParser()
            gp.parse_graph(inp['gline'])
            entries = [(expr, list(lefts), suicide) for expr, (lefts, suicide) in gp.triggers.get(right, {}).items()]
            toks = json.dumps(inp['expr'])
            if '|' in toks or '[' in toks[1:]:
                ideal = [e[0] for e in entries] == [ideal_expr]
            else:       # AND of plain nodes: the parser makes one dependency per operand
                ideal = sorted(e[0] for e in entries) == sorted(set(ideal_lefts))
        else:
            lexpression, lefts = self.lexpr(inp)
            entries = [(lexpression, lefts, False)]
            ideal = True
        task_triggers = {}
        for expr, lefts, suicide in entries:
            self.WorkflowConfig.generate_triggers(stub, expr, lefts, right, seq, suicide, task_triggers)
        tdef = taskdefs[right]
        deps = list(tdef.dependencies.get(seq, []))
        # Dependency.task_triggers comes from a set: impose the order of the case
        for dep in deps:
            want = []
            for tr in inp['trigs']:
                cands = [t for t in dep.task_triggers
                         if t.task_name == tr['name'] and t.output == tr['out'] and t not in want
                         and int_point(self, inp, t.get_point(point)) == resolve(tr, inp['p'], inp['icp'])]
                same = [t for t in cands if kind_of(t) == kind_of_off(tr.get('off'))]
                if same or cands:
                    want.append((same or cands)[0])
            want += [t for t in dep.task_triggers if t not in want]   # (only if the real code made other triggers)
            dep.task_triggers = tuple(want)
        return deps, tdef, point, ideal

    def impl(self, inp):
        try:
            deps, tdef, point, ideal = self.build(inp)
            first = [dep.get_prerequisite(point, tdef) for dep in deps]
            if not first:
                raise ValueError('no dependency')
        except Exception as exc:
            return {'build': 'err', 'what': type(exc).__name__}
        Tokens, RunMode = self.Tokens, self.RunMode

        def q(pres):
            try:
                return all([bool(pre.is_satisfied()) for pre in pres])
            except Exception:
                return 'err'
        keys = {}
        for pre in first:
            for k, v in pre.items():
                keys[(k.point, k.task, k.output)] = bool(v)
        out = {
            'keys': sorted([*k, v] for k, v in keys.items()),
            'cond': first[0].conditional_expression if len(first) == 1 else None,
            'ideal': ideal,
            'runs': [],
        }
        for run in inp['runs']:
            pres = [dep.get_prerequisite(point, tdef) for dep in deps]
            res = [q(pres)]
            for op in run:
                for pre in pres:
                    if op[0] == 'sat':
                        toks = [Tokens(cycle=self.point_text(inp, n), task=name, task_sel=o)
                                for n, name, o in op[1]]
                        flag = op[2]
                        pre.satisfy_me(toks, mode=RunMode.SKIP if flag == 1 else RunMode.LIVE, forced=(flag == 2))
                    elif op[0] == 'unset':
                        pre.unset_naturally_satisfied('%s/%s' % (self.point_text(inp, op[1]), op[2]))
                    elif op[0] == 'setall':
                        try:
                            pre.set_satisfied()
                        except Exception:
                            pass
                res.append(q(pres))
            out['runs'].append(res)
        return out


def trig(name, off=None, out='succeeded', label=None):
    return {'name': name, 'off': off, 'out': out, 'label': label}


def mk(trigs, expr, p=1, icp=1, start=None, mode='int', **kw):
    c = {'mode': mode, 'p': p, 'icp': icp, 'start': icp if start is None else start,
         'trigs': trigs, 'expr': expr, 'variant': 0, 'runs': []}
    c.update(kw)
    return c


def relabel(expr, m):
    return [relabel(it, m) if isinstance(it, list) else (m[it] if isinstance(it, int) else it) for it in expr]


def strip(o, *drop):
    return {k: v for k, v in o.items() if k not in drop and k not in ('what', 'ideal')}


def is_word(ch):
    return ch.isalnum() or ch == '_'


def bprefix(a, b):
    """a is a proper prefix of b ending at a word boundary"""
    return len(a) < len(b) and b.startswith(a) and a and is_word(a[-1]) != is_word(b[len(a)])


def collides(t, u, p, icp):
    """message of t can be found inside the message of u"""
    if t['name'] != u['name']:
        return False
    pt, pu = resolve(t, p, icp), resolve(u, p, icp)
    if pt == pu:
        return bprefix(t['out'], u['out'])
    if pt > 0 and pu == -pt:
        return t['out'] == u['out'] or bprefix(t['out'], u['out'])
    return False


def kind_of(t):
    if t.cycle_point_offset is None:
        return 'none'
    if t.offset_is_absolute:
        return 'abs'
    if t.offset_is_from_icp:
        return 'icp'
    return 'rel'


def kind_of_off(off):
    if not off:
        return 'none'
    return next(iter(off))


def int_point(self, inp, pt):
    s = str(pt)
    if inp['mode'] == 'int':
        return int(s)
    for n, t in inp['ptab']:
        if t == s:
            return n
    return None


def _get_prop():
    return PROP


PROP = C13()
