"""C19R  the restart clauses of C19 on runs with `cylc set`, `cylc trigger --flow=N --wait`, several flows and merges:
the same runs, model (Sched3Set), driver, judge and theorems as harness/props/c11r.py (whose judge combines the
retention clause of C11 with the snapshot clause of C19), reported under C19."""
from __future__ import annotations

import sys
from pathlib import Path

sys.path.insert(0, str(Path(__file__).resolve().parent))
from c11r import C11R  # noqa: E402


class C19R(C11R):
    id = 'C19R'
    report_id = 'C19'


PROP = C19R()
