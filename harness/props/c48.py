"""C48  Installed run directories are numbered and runN tracks the latest.

Real code: cylc.flow.install.install_workflow, cylc.flow.scripts.reinstall.reinstall_cli (-> reinstall_workflow),
cylc.flow.clean.init_clean, in a scratch $HOME, over generated histories of install / install --run-name /
install --no-run-name / clean <run> / clean <wf> / clean runN / reinstall, plus two things a user may do to the
runN symlink (remove it, point it at an older run).  After every operation the tree under
~/cylc-run/<workflow> is observed: run directories with the stamp of the source they hold, runN, and
whether the workflow directory itself is a run directory.
"""
from __future__ import annotations

import contextlib
import io
import itertools
import os
import re
import shutil
import sys

from core import Prop

RUN_NAMES = ['a', 'b', 'run', 'run5x', 'runN', 'run5', 'run05', 'log', '_cylc-install']


def _worker(inp):
    return PROP.impl(inp)


class C48(Prop):
    id = 'C48'
    props_modules = ['CylcModel.Props.C48']
    theorems = [
        'CylcModel.C48.no_overwrite',
        'CylcModel.C48.inv_preserved',
        'CylcModel.C48.fresh_number',
        'CylcModel.C48.runN_latest',
        'CylcModel.C48.runN_survives_other_ops',
        'CylcModel.C48.successive_installs',
        'CylcModel.C48.numbers_increase_without_clean',
        'CylcModel.C48.never_reissued_counterexample',
    ]
    technique = 'inductive invariant over all operation histories of an executable port of the run-directory logic + correspondence on the real filesystem'
    statement_note = (
        'proved for ALL histories (any length) of install / install --run-name / install --no-run-name / clean <run> / '
        'clean <workflow> / clean runN / reinstall / "user removes runN" / "user points runN at an existing run": an '
        'install of any kind never changes an existing run directory - it either changes nothing or appends one new '
        'directory whose name was unused (no_overwrite, in every state); while the user does not re-point runN, the '
        'invariant "run directories distinct, runN absent or pointing to the existing highest-numbered run" holds after '
        'every prefix (inv_preserved, runN_latest); clean / reinstall never remove or move a runN link whose target still exists (runN_survives_other_ops, every state); under the invariant a successful numbered install gets max(existing)+1, above '
        'every existing number, and runN then points to it (fresh_number); n successive installs give run1..run n with '
        'runN -> run n (successive_installs); without clean operations issued numbers strictly increase '
        '(numbers_increase_without_clean). partial w.r.t. the strictest reading of "without reusing a number": over a '
        'history with clean operations a number can be issued again (never_reissued_counterexample: install, clean '
        'run1, install -> run1; likewise whenever the latest run is cleaned) - this is how the code is designed '
        '(get_next_rundir_number looks at runN, else at the existing directories) and is not judged a violation; '
        'after cleaning the latest run runN is absent until the next install')
    trusted = [
        'the filesystem and rsync (mkdir, symlink, rmtree, rsync -a copy the source); a run directory is identified by '
        'the stamp file copied from the source, which the harness rewrites before every operation',
        'run names are taken from a fixed pool; which of them validate_workflow_name accepts is tabulated from the '
        'live code into Generated/InstallCfg.lean',
        'one process performs the whole history: the install loggers are reset between operations (the CLI runs one '
        'install per process)',
    ]
    unmodelled = [
        'symlink dirs, remote clean, the workflow database, source-directory checks, max-depth and nested-workflow '
        'checks other than "the workflow directory is itself a run directory"',
        'cylc reinstall ID parsing (the run directory is addressed explicitly)',
    ]
    rule = ('every history up to length 3 over an alphabet of 9 operations (8 in the quick tier), length 4 over 6 of them (thorough): '
            '(numbered / named / no-run-name install, clean run1 / run2 / runN / all, remove runN, re-point runN at '
            'run1), plus random histories (3-9 ops quick, 3-14 thorough) in numbered / named / mixed styles with '
            'reinstalls, reserved and colliding run names, cleans biased to the latest and the oldest run; long '
            'numbered histories (10-12 installs, then the runN link lost by cleaning the latest run / removing it, '
            'older runs cleaned, then more installs) so that run numbers of different digit counts coexist; '
            'class = set of branch tags of the history (install ok/refused, after relink, clean latest/other, '
            'number re-issued after clean, ...)')
    workers = 16

    # ------------------------------------------------------------------
    def setup(self):
        self.root = f'/dev/shm/verif-C48-{os.getpid()}' if os.path.isdir('/dev/shm') else f'/tmp/C48/run-{os.getpid()}'
        shutil.rmtree(self.root, ignore_errors=True)
        home = os.path.join(self.root, 'home')
        os.makedirs(os.path.join(home, 'conf'), exist_ok=True)
        os.environ['HOME'] = home
        os.environ['CYLC_CONF_PATH'] = os.path.join(home, 'conf')       # no global.cylc at all
        os.environ.pop('CYLC_SITE_CONF_PATH', None)
        import logging
        from cylc.flow import LOG
        LOG.setLevel(logging.CRITICAL)
        import cylc.flow.install as I
        from cylc.flow.clean import init_clean
        from cylc.flow.scripts.reinstall import reinstall_cli
        from cylc.flow.workflow_files import is_valid_run_dir, validate_workflow_name
        from cylc.flow.pathutil import get_workflow_run_dir
        self.I, self.init_clean, self.reinstall_cli = I, init_clean, reinstall_cli
        self.is_valid_run_dir, self.validate_name = is_valid_run_dir, validate_workflow_name
        self.get_workflow_run_dir = get_workflow_run_dir
        self.counter = 0
        import atexit
        atexit.register(shutil.rmtree, self.root, True)

    def impl_batch(self, inputs):
        try:
            if self.workers <= 1 or len(inputs) < 32:
                return [self.impl(i) for i in inputs]
            import multiprocessing as mp
            with mp.get_context('fork').Pool(self.workers) as pool:
                return pool.map(_worker, inputs, chunksize=max(1, min(8, len(inputs) // (self.workers * 4))))
        finally:
            shutil.rmtree(os.path.join(self.root, 'home', 'cylc-run'), ignore_errors=True)
            shutil.rmtree(os.path.join(self.root, 'home', 'src'), ignore_errors=True)

    def translate(self):
        ok, bad = [], []
        for n in RUN_NAMES:
            try:
                self.validate_name(os.path.join('wf', n), check_reserved_names=True)
                ok.append(n)
            except Exception:
                bad.append(n)

        def lst(xs):
            return '[' + ', '.join('"' + x + '"' for x in xs) + ']'
        return {'InstallCfg.lean': (
            '/- GENERATED by harness/props/c48.py translate() from the live source. Do not edit. -/\n'
            'namespace CylcModel.Install\n'
            '/-- run names of the harness pool that `validate_workflow_name(<wf>/<name>, check_reserved_names=True)` accepts -/\n'
            f'def okRunNames : List String := {lst(ok)}\n'
            '/-- run names of the harness pool that it rejects -/\n'
            f'def badRunNames : List String := {lst(bad)}\n'
            'end CylcModel.Install\n')}

    # ------------------------------------------------------------------
    def corpus(self):
        I, C, N = {'op': 'install'}, (lambda r: {'op': 'clean', 'run': r}), (lambda n: {'op': 'named', 'name': n})
        mk = lambda *ops: {'ops': list(ops)}  # noqa: E731
        return [
            mk(I, I, I, C('run3'), I, C('run1'), I),                      # latest cleaned: number re-issued; oldest cleaned
            mk(I, I, {'op': 'rmN'}, I, {'op': 'cleanN'}, I),
            mk(I, I, I, {'op': 'relink', 'k': 1}, I, I),                   # runN pointed at run1: run2 exists -> refused
            mk(I, I, C('run1'), {'op': 'relink', 'k': 2}, C('run2'), I),
            mk(N('a'), N('a'), N('b'), I, N('runN'), N('run5'), C('a'), C('b'), I),
            mk({'op': 'flat'}, I, N('a'), {'op': 'flat'}, {'op': 'reinstallFlat'}, {'op': 'cleanAll'}, I),
            mk(I, {'op': 'reinstall', 'run': 'run1'}, I, {'op': 'reinstall', 'run': 'run1'}, {'op': 'reinstall', 'run': 'run7'}),
            mk(I, N('a'), {'op': 'flat'}, {'op': 'cleanAll'}, {'op': 'cleanAll'}, N('a'), I),
            mk(I, I, I, C('run1'), I, C('run2'), {'op': 'reinstall', 'run': 'run3'}, C('run7'), I),   # cleaning older runs keeps runN
            mk(*([I] * 10 + [{'op': 'rmN'}, I, C('run11'), C('run3'), I, I])),      # two-digit numbers without a runN link
        ]

    ALPHABET = [
        {'op': 'install'}, {'op': 'named', 'name': 'a'}, {'op': 'flat'}, {'op': 'clean', 'run': 'run1'},
        {'op': 'clean', 'run': 'run2'}, {'op': 'cleanN'}, {'op': 'rmN'}, {'op': 'relink', 'k': 1}, {'op': 'cleanAll'},
    ]

    def gen(self, tier, rng):
        # quick: the alphabet without --no-run-name (covered by the corpus and the random histories)
        alphabet = [a for a in self.ALPHABET if a['op'] != 'flat'] if tier == 'quick' else self.ALPHABET
        for n in range(1, 4):
            for ops in itertools.product(alphabet, repeat=n):
                # a history that does not start with an install only exercises "nothing there"
                if n > 1 and ops[0]['op'] in ('clean', 'cleanN', 'rmN', 'relink', 'cleanAll'):
                    continue
                yield {'ops': [dict(o) for o in ops]}
        if tier != 'quick':
            small = [self.ALPHABET[k] for k in (0, 1, 3, 4, 5, 7)]
            for ops in itertools.product(small, repeat=4):
                if ops[0]['op'] in ('clean', 'cleanN', 'relink'):
                    continue
                yield {'ops': [dict(o) for o in ops]}
        # long numbered histories: run numbers with different digit counts (>= 10 runs), then the runN link goes
        # missing (latest run cleaned / link removed / clean runN) possibly with older runs cleaned, then more installs
        for _ in range({'quick': 5, 'thorough': 30, 'search': 50}[tier]):
            yield self.long_case(rng)
        n_rand = {'quick': 130, 'thorough': 800, 'search': 2000}[tier]
        for _ in range(n_rand):
            yield self.random_case(rng, long=(tier != 'quick'))

    def long_case(self, rng):
        n = rng.randint(10, 12)
        ops = [{'op': 'install'} for _ in range(n)]
        top = n
        for _ in range(rng.randint(1, 3)):
            r = rng.random()
            if r < 0.4:
                ops.append({'op': 'clean', 'run': f'run{top}'})       # the latest: clean removes runN
                top -= 1
            elif r < 0.55:
                ops.append({'op': 'rmN'})
            elif r < 0.7:
                ops.append({'op': 'cleanN'})
                top -= 1
            else:
                ops.append({'op': 'clean', 'run': f'run{rng.randint(1, top)}'})
        if not any(o['op'] in ('rmN', 'cleanN') or o.get('run') == f'run{n}' for o in ops):
            ops.append({'op': rng.choice(['rmN', 'cleanN'])})
        ops += [{'op': 'install'} for _ in range(rng.randint(2, 3))]
        return {'ops': ops}

    def random_case(self, rng, long=False):
        ops = []
        style = rng.choice(['numbered', 'numbered', 'numbered', 'mixed', 'named'])
        hi = 0
        for _ in range(rng.randint(3, 14 if long else 9)):
            r = rng.random()
            if style == 'numbered':
                w = [('install', 0.42), ('clean', 0.2), ('cleanN', 0.05), ('rmN', 0.07), ('relink', 0.07),
                     ('reinstall', 0.08), ('cleanAll', 0.03), ('named', 0.04), ('flat', 0.04)]
            elif style == 'named':
                w = [('named', 0.5), ('clean', 0.2), ('install', 0.1), ('reinstall', 0.1), ('cleanAll', 0.05), ('flat', 0.05)]
            else:
                w = [('install', 0.25), ('named', 0.2), ('flat', 0.1), ('clean', 0.15), ('cleanAll', 0.1), ('cleanN', 0.05),
                     ('rmN', 0.03), ('relink', 0.04), ('reinstall', 0.04), ('reinstallFlat', 0.04)]
            acc, kind = 0.0, w[-1][0]
            for k, p in w:
                acc += p
                if r < acc:
                    kind = k
                    break
            if kind == 'install':
                hi += 1
                ops.append({'op': 'install'})
            elif kind == 'named':
                ops.append({'op': 'named', 'name': rng.choice(RUN_NAMES[:4] * 3 + RUN_NAMES)})
            elif kind in ('clean', 'reinstall'):
                if style == 'named' or (style == 'mixed' and rng.random() < 0.4):
                    run = rng.choice(RUN_NAMES[:4])
                else:
                    # mostly an existing run, biased to the latest and the oldest
                    top = max(hi, 1)
                    run = 'run%d' % rng.choice([top, top, max(top - 1, 1), 1, rng.randint(1, top + 1)])
                ops.append({'op': kind, 'run': run})
            elif kind == 'relink':
                ops.append({'op': 'relink', 'k': rng.randint(1, max(hi, 1))})
            elif kind == 'flat':
                ops.append({'op': 'flat'})
            else:
                ops.append({'op': kind})
        return {'ops': ops}

    # ------------------------------------------------------------------
    def observe(self, base):
        runs, run_n, flat = [], None, None
        if os.path.isdir(base):
            if os.path.isfile(os.path.join(base, 'flow.cylc')):
                flat = self.stamp(base)
            for e in sorted(os.listdir(base)):
                p = os.path.join(base, e)
                if os.path.islink(p):
                    if e == 'runN':
                        run_n = os.readlink(p)
                    else:
                        runs.append([e + '@', -1])       # an unexpected symlink
                elif os.path.isdir(p) and os.path.isfile(os.path.join(p, 'flow.cylc')):
                    runs.append([e, self.stamp(p)])
        return {'runs': runs, 'runN': run_n, 'flat': flat}

    @staticmethod
    def stamp(d):
        try:
            with open(os.path.join(d, 'stamp')) as fh:
                return int(fh.read())
        except (OSError, ValueError):
            return 0

    def impl(self, inp):
        import asyncio
        import logging
        from pathlib import Path
        from types import SimpleNamespace
        self.counter += 1
        wf = f'w{os.getpid()}x{self.counter}'
        home = os.environ['HOME']
        src = Path(home, 'src', wf)
        src.mkdir(parents=True)
        (src / 'flow.cylc').write_text('[scheduling]\n    [[graph]]\n        R1 = a\n[runtime]\n    [[a]]\n')
        base = self.get_workflow_run_dir(wf)
        out = []
        sink = io.StringIO()
        try:
            for i, op in enumerate(inp['ops']):
                (src / 'stamp').write_text(str(i + 1))
                for n in ('cylc-install', 'cylc-reinstall'):
                    lg = logging.getLogger(n)
                    for h in list(lg.handlers):
                        with contextlib.suppress(Exception):
                            h.close()
                    lg.handlers.clear()
                res, run = 'ok', None
                try:
                    with contextlib.redirect_stdout(sink), contextlib.redirect_stderr(sink):
                        k = op['op']
                        if k in ('install', 'named', 'flat'):
                            r = self.I.install_workflow(src, wf, op.get('name') if k == 'named' else None, k == 'flat')
                            named_run = r[3]
                            run = named_run[len(wf) + 1:] or None
                        elif k in ('clean', 'cleanAll', 'cleanN'):
                            id_ = wf if k == 'cleanAll' else f'{wf}/runN' if k == 'cleanN' else f'{wf}/{op["run"]}'
                            opts = SimpleNamespace(local_only=True, remote_only=False, rm_dirs=None, no_scan=False,
                                                   remote_timeout=None, force=True, skip_interactive=True)
                            asyncio.run(self.init_clean(id_, opts))
                        elif k in ('reinstall', 'reinstallFlat'):
                            id_ = wf if k == 'reinstallFlat' else f'{wf}/{op["run"]}'
                            # `cylc reinstall` only reaches reinstall_cli with the ID of a run directory
                            if not self.is_valid_run_dir(id_):
                                res = 'err'
                            else:
                                opts = SimpleNamespace(skip_interactive=True)
                                asyncio.run(self.reinstall_cli(opts, id_, print_reload_tip=False))
                                run = None if k == 'reinstallFlat' else op['run']
                        elif k == 'rmN':
                            with contextlib.suppress(OSError):
                                os.unlink(os.path.join(base, 'runN'))
                        elif k == 'relink':
                            if os.path.isdir(os.path.join(base, f'run{op["k"]}')):
                                with contextlib.suppress(OSError):
                                    os.unlink(os.path.join(base, 'runN'))
                                os.symlink(f'run{op["k"]}', os.path.join(base, 'runN'))
                        else:
                            raise ValueError(k)
                except Exception as exc:
                    res = 'err' if type(exc).__name__ == 'WorkflowFilesError' else 'err:' + type(exc).__name__
                ob = {'res': res, 'run': run if res == 'ok' else None}
                ob.update(self.observe(base))
                out.append(ob)
        finally:
            shutil.rmtree(base, ignore_errors=True)
            shutil.rmtree(src, ignore_errors=True)
        return out

    # ------------------------------------------------------------------
    def classify(self, inp, obs):
        tags = set()
        issued = []
        relinked = False
        prev_runs = []
        prev_n = None
        for op, o in zip(inp['ops'], obs):
            k = op['op']
            ok = o['res'] == 'ok'
            if k == 'install':
                if ok:
                    n = int(o['run'][3:])
                    if n in issued:
                        tags.add('number-reissued-after-clean')
                    if n >= 10 and prev_n is None:
                        tags.add('two-digit-number-without-runN')
                    issued.append(n)
                    nums = [int(r[0][3:]) for r in prev_runs if re.fullmatch(r'run\d+', r[0])]
                    if nums and n > max(nums) + 0 and len(nums) < max(nums):
                        tags.add('gap')
                    tags.add('install-ok' + ('-after-relink' if relinked else ''))
                else:
                    tags.add('install-refused' + ('-after-relink' if relinked else ''))
            elif k in ('named', 'flat'):
                tags.add(f'{k}-{"ok" if ok else "refused"}')
            elif k == 'clean':
                names = [r[0] for r in prev_runs]
                if op['run'] in names:
                    nums = [int(r[3:]) for r in names if re.fullmatch(r'run\d+', r)]
                    tags.add('clean-latest' if nums and op['run'] == f'run{max(nums)}' else 'clean-other')
            elif k in ('reinstall', 'reinstallFlat'):
                tags.add('reinstall-' + ('ok' if ok else 'refused'))
            elif k == 'relink':
                relinked = True
                tags.add('relink')
            else:
                tags.add(k)
            prev_runs = o['runs']
            prev_n = o['runN']
        return '+'.join(sorted(tags)) or None

    def neighbours(self, inp, rng):
        ops = inp['ops']
        out = []
        for k in range(len(ops)):
            out.append({'ops': ops[:k] + ops[k + 1:]})
            out.append({'ops': ops[:k + 1] + [{'op': 'install'}] + ops[k + 1:]})
        for k in range(1, len(ops) + 1):
            out.append({'ops': ops[:k]})
        return out


PROP = C48()
